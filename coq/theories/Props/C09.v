(* C09 - Each RPC call returns exactly the result addressed to its own request.
   Statements only; proofs in Client/Routing.v (on top of Client/SeqNo.v).  Model: Client/Model.v
   (the code after the repairs "decoder hints are looked up by req_msg_id, also through
   gzip_packed" and "msg_id under the send lock").
   [run init ls = Some s] quantifies over every history: any number of callers (LCall t for any t),
   any interleaving of their steps with the receive loop, any clock, any server frames in any
   order, partitioned into containers and gzip-packed in any way (LSrv f for any f).
   [rets s]: the calls that have returned: (caller t, its k-th call, msg id i, value r).
   [sent_req s i t k h]: a request with msg id i was written by call k of caller t, h = hints declared.
   [EDisp i v] in the log: the receive loop took an rpc_result / rpc_error for req_msg_id = i carrying v. *)
From Coq Require Import ZArith List Bool.
From MTV Require Import Client.Model Client.StepLemmas Client.SeqNo Client.Routing Client.Origin Client.Examples.
From MTV Require Import Client.Live Client.LiveInv Client.Salt Client.Alive Client.LiveOrigin.
Import ListNotations.
Open Scope Z_scope.

Theorem C09_routing : forall ls s, run init ls = Some s ->
  (forall t k i r, In (t, k, i, r) (rets s) ->
     exists h v,
       (* i is the msg id under which this very call was written ... *)
       sent_req s i t k h /\
       (* ... and nobody else's *)
       (forall t' k' h', sent_req s i t' k' h' -> t' = t /\ k' = k /\ h' = h) /\
       (* ... and the only one this call was written under (its own, latest, msg id) *)
       (forall i' h', sent_req s i' t k h' -> i' = i) /\
       (* what it returned is the payload of a result received for req_msg_id = i *)
       In (EDisp i v) (elog s) /\ ret_of v = Some r /\
       (* a Vector<> result is only ever returned, as the typed slice, to a call that declared it *)
       (vec_val v = true -> h = true)) /\
  (* no result is handed out twice, no call returns twice *)
  NoDup (map ret_id (rets s)) /\
  NoDup (map ret_call (rets s)).
Proof. exact routing. Qed.
Print Assumptions C09_routing.

(* ... and a result the receive loop dispatched (EDisp) is the rpc_result / rpc_error body of a
   message the server really sent: a frame g injected by an LSrv label of the history, or a message
   nested in g through msg_container / gzip_packed ([inside]); [result_of] opens gzip_packed. *)
Theorem C09_results_from_server : forall ls s req v, run init ls = Some s -> In (EDisp req v) (elog s) ->
  exists g sid seq b, In (LSrv g) ls /\ inside (sid, seq, b) g /\ result_of b = Some (req, v).
Proof. exact origin. Qed.
Print Assumptions C09_results_from_server.

(* ---- the same over the LIVE model ---------------------------------------------------------------
   [step] of Client/Model.v is the client as the C09/C10 repairs left it: a message the receive loop cannot
   handle (undecodable body, rpc_result for an id that is not in the table - a repeated or late answer, an
   answer for an id never used -, bad_msg_notification) still ends it (RDead: the deliberate panics), so on
   such histories C09_routing holds there with nothing more returned.  The code has since been repaired
   (C11/C16): such a message is reported, acknowledged and skipped.  [step2] / [run2] of Client/Live.v is
   that client (it also has salt rotation, reconnects, the Warnings channel); it is the model the recorded
   traces of ./check C09 are replayed through, and the statement that matters for the code is this one:
   for every configuration and every history - duplicates, late and unsolicited results included -
   the receive loop is never dead, and every call that returned got the payload of a result received for
   the newest msg id its request was written under (FIRST delivery: the table entry is gone afterwards,
   so a second result for the same id reaches nobody: NoDup), typed if it is a vector. *)
Theorem C09_routing_live : forall c ls s, run2 (init2 c) ls = Some s ->
  rx (base s) <> RDead /\
  (forall t k i r, In (t, k, i, r) (rets (base s)) ->
     exists h v,
       sent_req (base s) i t k h /\
       (forall t' k' h', sent_req (base s) i t' k' h' -> t' = t /\ k' = k /\ h' = h) /\
       (forall w, In w (wire (base s)) -> on_call w t k -> w_id w <= i) /\
       In (EDisp i v) (elog (base s)) /\ ret_of v = Some r /\
       (vec_val v = true -> h = true) /\
       ~ rejected (base s) i) /\
  NoDup (map ret_id (rets (base s))) /\
  NoDup (map ret_call (rets (base s))).
Proof.
  intros c ls s H. split; [exact (proj1 (alive c ls s H))|exact (routing2 c ls s H)].
Qed.
Print Assumptions C09_routing_live.

Theorem C09_results_from_server_live : forall c ls s req v, run2 (init2 c) ls = Some s ->
  In (EDisp req v) (elog (base s)) -> v <> VRetry ->
  exists g sid seq b, In (L1 (LSrv g)) ls /\ inside (sid, seq, b) g /\ result_of b = Some (req, v).
Proof.
  intros c ls s req v H. destruct (origin2 c ls s H) as (_ & _ & _ & X). apply X.
Qed.
Print Assumptions C09_results_from_server_live.

(* Non-vacuity of the live statement: the server answers request 40 twice (payloads 8 and 9); the call returns
   the first, the second is counted as failed, ACKNOWLEDGED (server msg ids 1 and 5) and the loop is back at its read *)
Definition ex_duplicate : list label2 := map L1 [
  LCall 0 false; LStep (ACaller 0) 10; LStep (ACaller 0) 0; LStep (ACaller 0) 0;
  LSrv (1, 1, BResult 40 false KObj 8);
  LStep ARx 0; LStep ARx 0; LStep ARx 0; LStep ARx 11; LStep ARx 0; LStep ARx 0; LStep ARx 0;
  LSrv (5, 3, BResult 40 false KObj 9);
  LStep ARx 0; LStep ARx 0; LStep ARx 12; LStep ARx 0; LStep ARx 0; LStep ARx 0].

Example C09_example_duplicate :
  option_map (fun s => (rets (base s), rx (base s), failed s, map w_kind (wire_out (elog (base s)))))
             (run2 (init2 {| cf_warn := WNil; cf_handler := false; cf_keyed := true |}) ex_duplicate)
  = Some ([(0%nat, 1%nat, 40, RetVal KObj 8)], RRead, 1%nat, [WAck 5; WAck 1; WReq 0 1 false]).
Proof. vm_compute. reflexivity. Qed.
Print Assumptions C09_example_duplicate.

(* Non-vacuity: in [ex_completes] both calls return, each its own payload, the vector one typed. *)
Example C09_example : exists s, run init ex_labels = Some s /\
  rets s = [(0%nat, 1%nat, 40, RetVal KObj 8); (1%nat, 1%nat, 44, RetVal KVecBare 7)].
Proof. eexists. split; [vm_compute; reflexivity|reflexivity]. Qed.
Print Assumptions C09_example.

(* ---- the hand-over BEFORE the caller listens ---------------------------------------------------------
   In [step2] the channel send of the receive loop (writeRPCResponse: `v <- data`; the retry marker of
   bad_server_salt) is one step that is enabled when its receiver is blocked in `<-resp`.  The running client
   has no such guard: the loop walks into the send whenever the scheduler lets it - for instance while the caller
   has written its request but not yet returned from sendPacket - and waits there, the channel being unbuffered.
   Client/Rendezvous.v is that finer system ([xstep]: a state of Live.v plus "the loop stands inside its send";
   a commit label; the send completes in the same breath as the step that makes its receiver ready).
   It reaches nothing new: every history of it is, commits erased and completions written out ([canon]), a
   history of step2 with the same final state - so C09_routing_live (and every other invariant of Live.v) holds
   for all interleavings of the finer system too; the completion inside a committed state is never refused; and
   every history of step2 is one of the finer system.  The harness operation `early rx` drives the real client
   through a commit and records the canonical order. *)
From MTV Require Import Client.Rendezvous.

Theorem C09_early_handover_refines : forall ls x x',
  xrun x ls = Some x' -> run2 (cur x) (canon x ls) = Some (cur x').
Proof. exact xrefines. Qed.
Print Assumptions C09_early_handover_refines.

Theorem C09_routing_early : forall c ls x, xrun (plain (init2 c)) ls = Some x ->
  rx (base (cur x)) <> RDead /\
  (forall t k i r, In (t, k, i, r) (rets (base (cur x))) ->
     exists h v,
       sent_req (base (cur x)) i t k h /\
       (forall t' k' h', sent_req (base (cur x)) i t' k' h' -> t' = t /\ k' = k /\ h' = h) /\
       (forall w, In w (wire (base (cur x))) -> on_call w t k -> w_id w <= i) /\
       In (EDisp i v) (elog (base (cur x))) /\ ret_of v = Some r /\
       (vec_val v = true -> h = true) /\
       ~ rejected (base (cur x)) i) /\
  NoDup (map ret_id (rets (base (cur x)))) /\
  NoDup (map ret_call (rets (base (cur x)))).
Proof.
  intros c ls x H. exact (C09_routing_live c (canon (plain (init2 c)) ls) (cur x) (xrefines ls _ _ H)).
Qed.
Print Assumptions C09_routing_early.

Theorem C09_early_completion_never_refused : forall c ls x l s1,
  xrun (plain (init2 c)) ls = Some x -> committed x = true -> is_rx_step l = false ->
  step2 (cur x) l = Some s1 -> exists x', xstep x l = Some x'.
Proof.
  intros c ls x l s1 H. apply xcomplete_never_refused. exact (XInv_run ls _ _ (XInv_plain _) H).
Qed.
Print Assumptions C09_early_completion_never_refused.

(* a commit never deadlocks: in every reachable committed state the channel belongs to a caller that has written
   its request and is on its way out of sendPacket; its next step is enabled, makes it listen, and the send
   completes in the same breath *)
Theorem C09_early_commit_resolves : forall c ls x, xrun (plain (init2 c)) ls = Some x -> committed x = true ->
  exists t x', xstep x (L1 (LStep (ACaller t) 0)) = Some x' /\ committed x' = false.
Proof. exact xcommit_resolves. Qed.
Print Assumptions C09_early_commit_resolves.

Theorem C09_live_histories_are_early_histories : forall ls s s',
  run2 s ls = Some s' -> xrun (plain s) ls = Some (plain s').
Proof. exact run2_is_xrun. Qed.
Print Assumptions C09_live_histories_are_early_histories.

(* Non-vacuity: request 40 is answered while its caller is still inside sendPacket; the loop commits to the
   hand-over (step2 refuses that label), the caller returns from sendPacket and has its answer. *)
Example C09_example_early :
  option_map (fun x => (committed x, rets (base (cur x)))) (xrun (plain (init2 cfg_plain)) ex_early)
    = Some (false, [(0%nat, 1%nat, 40, RetVal KObj 8)]) /\
  option_map (fun x => committed x) (xrun (plain (init2 cfg_plain)) (firstn 7 ex_early)) = Some true /\
  run2 (init2 cfg_plain) (firstn 7 ex_early) = None /\
  canon (plain (init2 cfg_plain)) ex_early =
    firstn 6 ex_early ++ [L1 (LStep (ACaller 0) 0); L1 (LStep ARx 0)].
Proof. exact ex_early_accepted. Qed.
Print Assumptions C09_example_early.

(* ---- the response table and the hint table as data structures -----------------------------------------
   MTProto.responseChannels / expectedTypes (internal/utils/sync_stuff.go: Go maps behind a RWMutex) are an
   association list and a key list in Client/Model.v.  Client/Table.v: after ANY sequence of Add / Delete the
   list answers every Get (Has) like the finite map the same operations build - Add overwrites, Delete removes,
   later operations win -, and Keys lists exactly the keys present.  The executable [tab_run] / [set_run] are
   replayed against the real types on random operation sequences, and the real types are driven from several
   goroutines at once with a per-key linearizability check (harness/root/cmd/c09 table). *)
From MTV Require Import Client.Table.

Theorem C09_table_is_a_map : forall ops j, lookup j (tab_run ops) = fm_run ops j.
Proof. exact tab_ops_refine. Qed.
Print Assumptions C09_table_is_a_map.

Theorem C09_table_keys : forall ops i, In i (map fst (tab_run ops)) <-> fm_run ops i <> None.
Proof. exact tab_keys. Qed.
Print Assumptions C09_table_keys.

Theorem C09_hints_are_a_set : forall ops j, memz j (set_run ops) = fs_run ops j.
Proof. exact set_ops_refine. Qed.
Print Assumptions C09_hints_are_a_set.

Example C09_table_example :
  let ops := [TAdd 40 (0, 1)%nat; TAdd 44 (1, 1)%nat; TAdd 40 (2, 5)%nat; TDel 44; TDel 48] in
  lookup 40 (tab_run ops) = Some (2, 5)%nat /\ lookup 44 (tab_run ops) = None /\ fm_run ops 40 = Some (2, 5)%nat.
Proof. vm_compute. repeat split; reflexivity. Qed.
Print Assumptions C09_table_example.

(* ---- the key under which the receive loop looks up a message's decoder hints (mtproto.go reqMsgIDOf) ----
   model and proofs: TL/ReqId.v.  The hints a caller registered sit under the id of ITS request, so an answer finds
   them exactly when this function returns that id: for a result, plain or packed as a whole, it is the req_msg_id the
   message carries, whatever follows it; everything that is not a result has no hints (0 is no request's id). *)
From Coq Require Import NArith.
From MTV Require Import Base.Bytes TL.Types TL.Typing TL.ReqId.
Open Scope N_scope.

Theorem C09_hint_key_of_result : forall inflate id result, id < two64 ->
  req_msg_id_of inflate (le32 crc_rpc_result ++ le64 id ++ result) = id.
Proof. exact reqid_of_result. Qed.
Print Assumptions C09_hint_key_of_result.

Theorem C09_hint_key_of_packed_result : forall inflate id result payload packed tail, id < two64 ->
  inflate payload = Some (le32 crc_rpc_result ++ le64 id ++ result) -> put_bytes payload = Some packed ->
  req_msg_id_of inflate (le32 crc_gzip ++ packed ++ tail) = id.
Proof. exact reqid_of_packed_result. Qed.
Print Assumptions C09_hint_key_of_packed_result.

Theorem C09_hint_key_of_other : forall inflate c rest, c < two32 -> c <> crc_rpc_result -> c <> crc_gzip ->
  req_msg_id_of inflate (le32 c ++ rest) = 0.
Proof. exact reqid_of_other. Qed.
Print Assumptions C09_hint_key_of_other.

Theorem C09_hint_key_of_packed_other : forall inflate c rest payload packed tail, c < two32 -> c <> crc_rpc_result ->
  inflate payload = Some (le32 c ++ rest) -> put_bytes payload = Some packed ->
  req_msg_id_of inflate (le32 crc_gzip ++ packed ++ tail) = 0.
Proof. exact reqid_of_packed_other. Qed.
Print Assumptions C09_hint_key_of_packed_other.

(* ---- the hint key of the transition system is the hint key of the bytes ---------------------------------
   [hint_key] of Client/Model.v works on abstract bodies, [req_msg_id_of] of TL/ReqId.v on the bytes the code
   sees.  Client/HintKey.v: [wire inflate b bs] - bs is a wire form of the abstract body b (a result carries its
   req_msg_id behind the constructor id, whatever follows; gzip_packed carries a stream that inflates to a wire
   form of what it packs; anything else starts with another constructor id) - and on EVERY wire form the
   byte-level function returns the 64-bit pattern of the id [hint_key] returns, 0 where it returns none. *)
From MTV Require Import Client.HintKey.

Theorem C09_hint_key_of_the_model_is_the_key_of_the_bytes : forall inflate b bs,
  wire inflate b bs -> req_msg_id_of inflate bs = key_pattern b.
Proof. exact hint_key_agrees. Qed.
Print Assumptions C09_hint_key_of_the_model_is_the_key_of_the_bytes.
