(* C01 - TL codec round trip: decoding an encoded value returns the same value.
   Statements only; proofs in TL/RoundTrip.v, TL/Types.v.

   U       the type universe (struct descriptors, enum types, registry), ANY universe
   wt      typing of a value against a field type; includes wf_struct of every struct met
   norm    what the wire can carry of a value: nil slices come back empty, a `true`-typed
           member of a flag group comes back as the group's presence, absent members as zero
   pseudo_ok  the three pseudo objects behind the Bool/Null ids have no fields
   The decoder is run with any sufficient fuel (TL/Total.v shows input-linear fuel suffices). *)
From Coq Require Import NArith List.
From MTV Require Import Base.Bytes Base.Outcome TL.Types TL.Codec TL.Typing TL.RoundTrip.
Import ListNotations.
Open Scope N_scope.

(* byte strings: both header forms, every length below 2^24, 4-byte alignment *)
Theorem C01_bytes_roundtrip : forall m bs rest, put_bytes m = Some bs -> pop_bytes (bs ++ rest) = Some (m, rest).
Proof. exact pop_put. Qed.
Print Assumptions C01_bytes_roundtrip.

(* the general statement: any field type, any value, any trailing bytes, any hints *)
Theorem C01_roundtrip : forall U inflate, pseudo_ok U = true ->
  forall v t bs, wt U t v = true -> enc U v = Ok bs ->
  forall h rest, exists f0, forall f, (f0 <= f)%nat ->
    dec U inflate f (JVal t) (h, bs ++ rest) = DOk ([norm U v], (h, rest)).
Proof. exact roundtrip. Qed.
Print Assumptions C01_roundtrip.

(* entry point 1: naming the expected type (tl.Decode) *)
Theorem C01_roundtrip_named : forall U inflate, pseudo_ok U = true ->
  forall tid fs bs, wt U (TPtr tid) (VObj tid fs) = true -> enc U (VObj tid fs) = Ok bs ->
  exists f0, forall f, (f0 <= f)%nat -> decode_named U inflate f tid bs = DOk (norm U (VObj tid fs)).
Proof. exact roundtrip_named. Qed.
Print Assumptions C01_roundtrip_named.

(* entry point 2: the decoder chooses the type from the constructor id (tl.DecodeUnknownObject) *)
Theorem C01_roundtrip_unknown : forall U inflate, pseudo_ok U = true ->
  forall tid fs bs, wt U (TIface 0) (VObj tid fs) = true -> enc U (VObj tid fs) = Ok bs ->
  exists f0, forall f, (f0 <= f)%nat -> decode_unknown U inflate f [] bs = DOk (norm U (VObj tid fs)).
Proof. exact roundtrip_unknown. Qed.
Print Assumptions C01_roundtrip_unknown.

(* a conditional group counts as present exactly when at least one of its fields is non-zero *)
Theorem C01_group_presence : forall fds vs b, forallb tag_ok fds = true ->
  (N.testbit (flags_of fds vs) b = true <->
   exists j fd v, nth_error fds j = Some fd /\ nth_error vs j = Some v /\
                  tag_bit (f_tag fd) = Some b /\ is_zero v = false).
Proof. exact flags_bit_iff. Qed.
Print Assumptions C01_group_presence.

(* ... and then every field of the group survives the trip, zero-valued ones included *)
Theorem C01_present_member_survives : forall U fl fds vs j fd v b,
  nth_error fds j = Some fd -> nth_error vs j = Some v -> f_tag fd = TagFlag b ->
  N.testbit fl b = true -> nth_error (norm_fields U fl fds vs) j = Some (norm U v).
Proof. exact present_member_survives. Qed.
Print Assumptions C01_present_member_survives.

(* the normal form is a fixed point and has the same encoding: a second trip changes nothing,
   and "equal to the original" means equal up to what the wire cannot express *)
Theorem C01_norm_idempotent : forall U t v, wt U t v = true -> norm U (norm U v) = norm U v.
Proof. exact norm_idem. Qed.
Print Assumptions C01_norm_idempotent.

Theorem C01_norm_same_bytes : forall U t v, wt U t v = true -> enc U (norm U v) = enc U v.
Proof. exact enc_norm. Qed.
Print Assumptions C01_norm_same_bytes.

(* serialising the same value twice gives identical bytes: enc is a function of the value
   and the universe alone (no map order, no addresses); the correspondence marshals twice *)
Theorem C01_deterministic : forall U v b1 b2, enc U v = Ok b1 -> enc U v = Ok b2 -> b1 = b2.
Proof. intros U v b1 b2 H1 H2. rewrite H1 in H2. now apply Ok_inj in H2. Qed.
Print Assumptions C01_deterministic.

(* ---------- the exact form: what the trip returns is the value ITSELF ----------
   [norm] is the identity exactly on the canonical values (TL/Canonical.v): relative to the
   flags word of each struct inside v, an absent conditional field holds the zero value of its
   type, a `flags.N?true` field holds the presence of its group, travelling slices are non-nil.
   Nothing else is ever changed by a round trip. *)
From MTV Require Import TL.Canonical.

Theorem C01_canonical_exact : forall U t v, canonical U t v = true <-> norm U v = v.
Proof. exact canonical_iff. Qed.
Print Assumptions C01_canonical_exact.

Theorem C01_norm_is_canonical : forall U t v, wt U t v = true -> canonical U t (norm U v) = true.
Proof. exact canonical_norm. Qed.
Print Assumptions C01_norm_is_canonical.

Theorem C01_roundtrip_exact : forall U inflate, pseudo_ok U = true ->
  forall v t bs, wt U t v = true -> canonical U t v = true -> enc U v = Ok bs ->
  forall h rest, exists f0, forall f, (f0 <= f)%nat ->
    dec U inflate f (JVal t) (h, bs ++ rest) = DOk ([v], (h, rest)).
Proof. exact roundtrip_exact. Qed.
Print Assumptions C01_roundtrip_exact.

Theorem C01_roundtrip_exact_named : forall U inflate, pseudo_ok U = true ->
  forall tid fs bs, wt U (TPtr tid) (VObj tid fs) = true -> canonical U (TPtr tid) (VObj tid fs) = true ->
  enc U (VObj tid fs) = Ok bs ->
  exists f0, forall f, (f0 <= f)%nat -> decode_named U inflate f tid bs = DOk (VObj tid fs).
Proof. exact roundtrip_named_exact. Qed.
Print Assumptions C01_roundtrip_exact_named.

Theorem C01_roundtrip_exact_unknown : forall U inflate, pseudo_ok U = true ->
  forall tid fs bs, wt U (TIface 0) (VObj tid fs) = true -> canonical U (TIface 0) (VObj tid fs) = true ->
  enc U (VObj tid fs) = Ok bs ->
  exists f0, forall f, (f0 <= f)%nat -> decode_unknown U inflate f [] bs = DOk (VObj tid fs).
Proof. exact roundtrip_unknown_exact. Qed.
Print Assumptions C01_roundtrip_exact_unknown.

(* and the hypothesis cannot be dropped: a `flags.0?true` member set to false next to a present
   sibling of its group has no wire form of its own (one bit per group: TL semantics) *)
Theorem C01_roundtrip_exact_needs_canonical :
  let v := VObj 0 [VInt 7; VBool false] in
  wt grp_U (TPtr 0) v = true /\ canonical grp_U (TPtr 0) v = false /\
  exists bs, enc grp_U v = Ok bs /\ forall f, decode_named grp_U (fun _ => None) f 0 bs <> DOk v.
Proof.
  destruct canonical_needed as (_ & Hwt & _ & Hc & _ & bs & He & Hn & _).
  cbv zeta. split; [exact Hwt|]. split; [exact Hc|]. exists bs. split; [exact He|exact Hn].
Qed.
Print Assumptions C01_roundtrip_exact_needs_canonical.

(* ---------- the two hand-written codecs (objects/types.go): msg_container and gzip_packed ----------
   proofs in TL/ContainerRT.v.  Bodies of container messages are opaque byte strings at this level. *)
From MTV Require Import TL.ContainerRT TL.NPPost.

Theorem C01_container_roundtrip : forall U inflate, lookup_reg U crc_container = Some RContainer ->
  forall items bs, forallb item_ok items = true -> N.of_nat (length items) < two32 / 2 ->
  enc U (VContainer items) = Ok bs ->
  forall h rest, exists f0, forall f, (f0 <= f)%nat ->
    dec U inflate f JReg (h, bs ++ rest) = DOk ([VContainer items], (h, rest)).
Proof. exact container_roundtrip. Qed.
Print Assumptions C01_container_roundtrip.

Theorem C01_container_roundtrip_unknown : forall U inflate, lookup_reg U crc_container = Some RContainer ->
  forall items bs, forallb item_ok items = true -> N.of_nat (length items) < two32 / 2 ->
  enc U (VContainer items) = Ok bs ->
  exists f0, forall f, (f0 <= f)%nat -> decode_unknown U inflate f [] bs = DOk (VContainer items).
Proof. exact container_roundtrip_unknown. Qed.
Print Assumptions C01_container_roundtrip_unknown.

(* the hypotheses are met by a container with an empty body, a 64-bit id with the top bit set and seq_no 2^32-1 *)
Example C01_container_example :
  let items := [(18446744073709551613, 4294967295, []); (4, 1, [1; 2; 3; 4])] in
  forallb item_ok items = true /\ N.of_nat (length items) < two32 / 2 /\
  exists bs, enc NPPost.exU (VContainer items) = Ok bs /\
             decode_unknown NPPost.exU (fun _ => None) 5 [] bs = DOk (VContainer items).
Proof. cbv zeta. split; [reflexivity|]. split; [reflexivity|]. eexists. split; [reflexivity|]. vm_compute. reflexivity. Qed.
Print Assumptions C01_container_example.

(* gzip_packed: decode-only in the library; what it decodes to is the normal form of the packed object *)
Theorem C01_gzip_decodes : forall U inflate, pseudo_ok U = true -> lookup_reg U crc_gzip = Some RGzip ->
  forall v raw payload packed, wt U (TIface 0) v = true -> enc U v = Ok raw ->
  inflate payload = Some raw -> put_bytes payload = Some packed ->
  forall h rest, exists f0, forall f, (f0 <= f)%nat ->
    dec U inflate f JReg (h, le32 crc_gzip ++ packed ++ rest) = DOk ([VGzip (norm U v)], (h, rest)).
Proof. intros U inflate HU Hgz. exact (gzip_decodes U inflate HU Hgz). Qed.
Print Assumptions C01_gzip_decodes.

Theorem C01_gzip_is_decode_only : forall U v, enc U (VGzip v) = Panic.
Proof. exact enc_gzip_panics. Qed.
Print Assumptions C01_gzip_is_decode_only.
