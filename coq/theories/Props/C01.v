(* C01 - TL codec round trip.  Statements only; proofs in TL/*.v.
   (The value-level round-trip theorem is added from TL/RoundTrip.v.) *)
From Coq Require Import NArith List.
From MTV Require Import Base.Bytes Base.Outcome TL.Types TL.Codec TL.Typing.
Import ListNotations.
Open Scope N_scope.

(* byte strings: both header forms, every length below 2^24, 4-byte alignment *)
Theorem C01_bytes_roundtrip : forall m bs rest, put_bytes m = Some bs -> pop_bytes (bs ++ rest) = Some (m, rest).
Proof. exact pop_put. Qed.
Print Assumptions C01_bytes_roundtrip.
