(* C17 - RPC errors reach the caller as structured errors for every error text.
   Statements only; proofs live in Misc/RpcErrorProofs.v.  Model: Misc/RpcError.v, of the
   fixed code (patches/C17).

   [tbl] is specificErrors (rows prefix/suffix/kind, in matching order), [cat] is errorMessages,
   [dcs] is the client's DC table; all three are arbitrary here and instantiated on the tables
   regenerated from the tree in Inst/C17i.v.
   [expand] = TryExpandError, [to_native] = RpcErrorToNative, [handle] = the rpc_error case of
   makeRequest up to the decision of tryToProcessErr.
   [dec n] is the decimal text of n, [atoi] is strconv.Atoi on a 64-bit platform,
   [in_int n] says n fits the Go int.
   [table_ok]: every row has kind int or string, and any two rows have incomparable prefixes
   or incomparable suffixes (so at most one row matches any text and first-match-wins cannot
   hide a row).  [suffixes_clean]: no decimal digit inside a suffix.  [descs_ok]: every row's
   name has a catalogue text with exactly one percent sign, followed by a verb for its kind. *)
From Coq Require Import String.
From Coq Require Import ZArith NArith List.
From MTV Require Import Base.Bytes Base.Outcome Base.Str Misc.RpcError Misc.RpcErrorProofs.
Import ListNotations.
Open Scope N_scope.

(* --- never a panic ------------------------------------------------------------------- *)

(* for every text and every table: the only panic left in TryExpandError is the explicit one
   for a row whose kind is neither int nor string *)
Theorem C17_total : forall tbl s,
  expand tbl s = Panic <-> exists e, choose tbl s = Some e /\ e_kind e = KOther.
Proof. exact expand_panic_iff. Qed.
Print Assumptions C17_total.

Theorem C17_total_ok : forall tbl s, kinds_ok tbl = true -> expand tbl s <> Panic.
Proof. exact expand_total. Qed.
Print Assumptions C17_total_ok.

(* RpcErrorToNative: always a structured error carrying the server's code; then the decision
   of tryToProcessErr: never a panic either (no unchecked type assertion) *)
Theorem C17_structured : forall tbl cat dcs code s, kinds_ok tbl = true ->
  exists e a, handle tbl cat dcs code s = Ok (e, a) /\ to_native tbl cat code s = Ok e /\ n_code e = code.
Proof. exact handle_structured. Qed.
Print Assumptions C17_structured.

(* --- the parameter ------------------------------------------------------------------- *)

(* every row, every value of a Go int: the number becomes the parameter, X takes its place *)
Theorem C17_expand : forall tbl e n,
  table_ok tbl = true -> In e tbl -> e_kind e = KInt -> in_int n = true ->
  expand tbl (e_prefix e ++ dec n ++ e_suffix e) = Ok (e_prefix e ++ [c_X] ++ e_suffix e, AInt n).
Proof. exact expand_int. Qed.
Print Assumptions C17_expand.

Example C17_expand_satisfiable :
  let e := {| e_prefix := lit "INTERDC_"; e_suffix := lit "_CALL_RICH_ERROR"; e_kind := KInt |} in
  let tbl := [{| e_prefix := lit "INTERDC_"; e_suffix := lit "_CALL_ERROR"; e_kind := KInt |}; e] in
  table_ok tbl = true /\ In e tbl /\ in_int (-7) = true /\
  expand tbl (lit "INTERDC_-7_CALL_RICH_ERROR") = Ok (lit "INTERDC_X_CALL_RICH_ERROR", AInt (-7)).
Proof. vm_compute. intuition. Qed.
Print Assumptions C17_expand_satisfiable.

Theorem C17_expand_string : forall tbl e x,
  table_ok tbl = true -> In e tbl -> e_kind e = KString ->
  expand tbl (e_prefix e ++ x ++ e_suffix e) = Ok (e_prefix e ++ [c_X] ++ e_suffix e, AStr x).
Proof. exact expand_string. Qed.
Print Assumptions C17_expand_string.

(* conversely a number is reported only for a text of that shape *)
Theorem C17_expand_only : forall tbl s name n,
  suffixes_clean tbl = true -> expand tbl s = Ok (name, AInt n) ->
  exists e d, In e tbl /\ e_kind e = KInt /\ s = e_prefix e ++ d ++ e_suffix e /\
              atoi d = Some n /\ name = native_name e.
Proof. exact expand_int_inv. Qed.
Print Assumptions C17_expand_only.

(* strconv.Atoi accepts exactly sign? digit+ within the int range, and reads back every int *)
Theorem C17_atoi_dec : forall n, in_int n = true -> atoi (dec n) = Some n.
Proof. exact atoi_dec. Qed.
Print Assumptions C17_atoi_dec.

Theorem C17_atoi_sound : forall s n, atoi s = Some n ->
  in_int n = true /\
  exists sg ds, s = sg ++ ds /\ (sg = [] \/ sg = [c_minus] \/ sg = [c_plus]) /\
                ds <> [] /\ forallb is_digit ds = true.
Proof. exact atoi_sound. Qed.
Print Assumptions C17_atoi_sound.

(* no row matches: the text itself, no parameter *)
Theorem C17_plain : forall tbl s,
  (forall e, In e tbl -> matches e s = false) -> expand tbl s = Ok (s, ANone).
Proof. exact expand_plain. Qed.
Print Assumptions C17_plain.

(* a row matches but the parameter is absent, not a number or out of range: delivered as a
   common error with the server's text, no panic *)
Theorem C17_nonnumeric : forall tbl s e,
  choose tbl s = Some e -> e_kind e = KInt -> atoi (trimmed e s) = None ->
  expand tbl s = Ok (s, ANone).
Proof. exact expand_nonnumeric. Qed.
Print Assumptions C17_nonnumeric.

Theorem C17_bad_parameter : forall tbl e x,
  table_ok tbl = true -> In e tbl -> e_kind e = KInt -> atoi x = None ->
  expand tbl (e_prefix e ++ x ++ e_suffix e) = Ok (e_prefix e ++ x ++ e_suffix e, ANone).
Proof. exact expand_bad_parameter. Qed.
Print Assumptions C17_bad_parameter.

Example C17_nonnumeric_satisfiable :
  let e := {| e_prefix := lit "FLOOD_WAIT_"; e_suffix := []; e_kind := KInt |} in
  atoi (lit "abc") = None /\ atoi [] = None /\ atoi (lit "9223372036854775808") = None /\
  atoi (lit "-9223372036854775808") = Some (-9223372036854775808)%Z /\
  atoi (lit "+5") = Some 5%Z /\ atoi (lit "-0") = Some 0%Z /\ atoi (lit "007") = Some 7%Z /\
  atoi (lit "1_000") = None /\ atoi (lit "5 ") = None /\ atoi (lit "-") = None /\
  expand [e] (lit "FLOOD_WAIT_abc") = Ok (lit "FLOOD_WAIT_abc", ANone) /\
  expand_unfixed [e] (lit "FLOOD_WAIT_abc") = Panic.
Proof. vm_compute. intuition. Qed.
Print Assumptions C17_nonnumeric_satisfiable.

(* the pinned code (before the fix) panicked exactly in that case *)
Theorem C17_refuted_before_fix : forall tbl s e,
  choose tbl s = Some e -> e_kind e = KInt -> atoi (trimmed e s) = None ->
  expand_unfixed tbl s = Panic.
Proof. exact expand_unfixed_panics. Qed.
Print Assumptions C17_refuted_before_fix.

(* --- descriptions -------------------------------------------------------------------- *)

(* a parameterised error: the catalogue text with its single verb replaced by the number *)
Theorem C17_descriptions : forall tbl cat code e n,
  table_ok tbl = true -> descs_ok tbl cat = true -> In e tbl -> e_kind e = KInt -> in_int n = true ->
  exists pre v post,
    cat_lookup (native_name e) cat = Some (pre ++ c_pct :: v :: post) /\
    ~ In c_pct pre /\ ~ In c_pct post /\
    to_native tbl cat code (e_prefix e ++ dec n ++ e_suffix e)
    = Ok {| n_code := code; n_message := native_name e;
            n_description := Some (pre ++ dec n ++ post); n_info := AInt n |}.
Proof. exact to_native_int. Qed.
Print Assumptions C17_descriptions.

(* no row matches: known name -> its catalogue text, unknown -> the text; never formatted *)
Theorem C17_known : forall tbl cat code s,
  (forall e, In e tbl -> matches e s = false) ->
  to_native tbl cat code s
  = Ok {| n_code := code; n_message := s;
          n_description := Some (match cat_lookup s cat with Some d => d | None => s end);
          n_info := ANone |}.
Proof. exact to_native_plain. Qed.
Print Assumptions C17_known.

(* whatever the text (formatting characters included): without a parameter the message is the
   server's text and the description is looked up, not formatted *)
Theorem C17_no_format_without_parameter : forall tbl cat code s e,
  to_native tbl cat code s = Ok e -> n_info e = ANone ->
  n_message e = s /\
  n_description e = Some (match cat_lookup s cat with Some d => d | None => s end).
Proof. exact to_native_no_param. Qed.
Print Assumptions C17_no_format_without_parameter.

(* --- PHONE_MIGRATE_X ----------------------------------------------------------------- *)

(* decision of tryToProcessErr for PHONE_MIGRATE_n: switch to the address configured for DC n
   (after which the client reconnects and makeRequest repeats the request - live part, not in
   this model), or an error when n is not configured *)
Theorem C17_migrate : forall tbl cat dcs code n,
  table_ok tbl = true -> In pm_entry tbl -> in_int n = true ->
  exists e, to_native tbl cat code (s_phone_migrate_ ++ dec n) = Ok e /\
    n_message e = s_phone_migrate_x /\ n_info e = AInt n /\
    handle tbl cat dcs code (s_phone_migrate_ ++ dec n)
    = Ok (e, match dc_lookup n dcs with Some addr => Switch addr | None => NoSuchDC end).
Proof. exact handle_migrate. Qed.
Print Assumptions C17_migrate.

(* it is the one error that is handled: anything not returned as it is carries the message
   PHONE_MIGRATE_X with an int parameter *)
Theorem C17_only_migrate_handled : forall tbl cat dcs code s e a,
  handle tbl cat dcs code s = Ok (e, a) -> a <> Return ->
  n_message e = s_phone_migrate_x /\ exists n, n_info e = AInt n /\
    a = match dc_lookup n dcs with Some addr => Switch addr | None => NoSuchDC end.
Proof. exact handle_not_returned. Qed.
Print Assumptions C17_only_migrate_handled.

Theorem C17_others_returned : forall tbl cat dcs code s e,
  to_native tbl cat code s = Ok e -> n_message e <> s_phone_migrate_x ->
  handle tbl cat dcs code s = Ok (e, Return).
Proof. exact handle_other_returned. Qed.
Print Assumptions C17_others_returned.

(* the pinned tryToProcessErr asserted .(int) unchecked *)
Theorem C17_migrate_refuted_before_fix : forall dcs a,
  (forall n, a <> AInt n) -> process_err_unfixed dcs s_phone_migrate_x a = Panic.
Proof. exact process_err_unfixed_panics. Qed.
Print Assumptions C17_migrate_refuted_before_fix.

(* --- several clients in one process: the DC table is per-client state ------------------ *)

(* [crun d [] h]: the clients after the history h of NewMTProto / SetDCList / tryToProcessErr
   operations (d = defaultDCList()); clients are numbered by creation; [observe w c m i] is
   what tryToProcessErr answers on client c.  Non-interference, by induction over the history:
   the answer on c is unchanged when every SetDCList and tryToProcessErr made on the OTHER
   clients is deleted from the history. *)
Theorem C17_per_client : forall d c h m i,
  observe (crun d [] h) c m i = observe (crun d [] (restrict c h)) c m i.
Proof. exact observe_restrict. Qed.
Print Assumptions C17_per_client.

(* closed form: for the client created after h1, whatever else happens in h1 and h2, the
   answer is computed from the default list and the arguments of its own SetDCList calls *)
Theorem C17_own_table : forall d h1 a0 h2 c m i,
  length (crun d [] h1) = c ->
  observe (crun d [] (h1 ++ NewClient a0 :: h2)) c m i
  = Some (process_err (own_sets c h2 ++ d) m i).
Proof. exact observe_own. Qed.
Print Assumptions C17_own_table.

Theorem C17_migrate_per_client : forall d h1 a0 h2 c x,
  length (crun d [] h1) = c ->
  observe (crun d [] (h1 ++ NewClient a0 :: h2)) c s_phone_migrate_x (AInt x)
  = Some (Ok (match dc_lookup x (own_sets c h2) with
              | Some a => Switch a
              | None => match dc_lookup x d with Some a => Switch a | None => NoSuchDC end
              end)).
Proof. exact observe_migrate. Qed.
Print Assumptions C17_migrate_per_client.

(* client 0 configures DCs 2 and 7; client 1 and the later client 2 are not affected *)
Example C17_per_client_satisfiable :
  let d := [(2%Z, lit "default-2")] in
  let h := [NewClient (lit "a"); NewClient (lit "b");
            SetDC 0 [(2%Z, lit "test-dc2"); (7%Z, lit "test-dc7")]; NewClient (lit "c")] in
  let w := crun d [] h in
  observe w 0 s_phone_migrate_x (AInt 7) = Some (Ok (Switch (lit "test-dc7"))) /\
  observe w 1 s_phone_migrate_x (AInt 2) = Some (Ok (Switch (lit "default-2"))) /\
  observe w 1 s_phone_migrate_x (AInt 7) = Some (Ok NoSuchDC) /\
  observe w 2 s_phone_migrate_x (AInt 7) = Some (Ok NoSuchDC).
Proof. vm_compute. intuition. Qed.
Print Assumptions C17_per_client_satisfiable.

(* --- the request loop of one caller over several data centres -------------------------- *)

(* [make_request fuel .. dc a req []]: makeRequest of one caller; [dc addr req] is the reply of the
   data centre at addr; Reconnect is assumed to succeed.  After PHONE_MIGRATE_n with n configured
   at b: the request has been written once to the old and exactly once to the new address, the
   caller gets the new data centre's answer, and the client stays at b.
   Sequential, one caller: what happens with several callers at once and with the receive loop is
   tied to the code by the live correspondence only (lib/props/c17m.py), not by a theorem. *)
Theorem C17_live_migrate : forall tbl cat dcs dc a b req code n v fuel,
  table_ok tbl = true -> In pm_entry tbl -> in_int n = true ->
  dc_lookup n dcs = Some b ->
  dc a req = RError code (s_phone_migrate_ ++ dec n) ->
  dc b req = RValue v ->
  make_request (S (S fuel)) tbl cat dcs dc a req []
  = {| c_result := CValue v; c_addr := b; c_writes := [(a, req); (b, req)] |}.
Proof. exact make_request_migrate. Qed.
Print Assumptions C17_live_migrate.

(* redirected twice (the data centre the request is repeated at redirects it again): handled again, not returned *)
Theorem C17_live_migrate_twice : forall tbl cat dcs dc a b c req code n code' m v fuel,
  table_ok tbl = true -> In pm_entry tbl -> in_int n = true -> in_int m = true ->
  dc_lookup n dcs = Some b -> dc_lookup m dcs = Some c ->
  dc a req = RError code (s_phone_migrate_ ++ dec n) ->
  dc b req = RError code' (s_phone_migrate_ ++ dec m) ->
  dc c req = RValue v ->
  make_request (S (S (S fuel))) tbl cat dcs dc a req []
  = {| c_result := CValue v; c_addr := c; c_writes := [(a, req); (b, req); (c, req)] |}.
Proof. exact make_request_migrate_twice. Qed.
Print Assumptions C17_live_migrate_twice.

Theorem C17_live_unconfigured : forall tbl cat dcs dc a req code n fuel,
  table_ok tbl = true -> In pm_entry tbl -> in_int n = true ->
  dc_lookup n dcs = None ->
  dc a req = RError code (s_phone_migrate_ ++ dec n) ->
  exists e, n_code e = code /\ n_message e = s_phone_migrate_x /\ n_info e = AInt n /\
    make_request (S fuel) tbl cat dcs dc a req []
    = {| c_result := CFailed e NoSuchDC; c_addr := a; c_writes := [(a, req)] |}.
Proof. exact make_request_unconfigured. Qed.
Print Assumptions C17_live_unconfigured.

Theorem C17_live_other_error : forall tbl cat dcs dc a req code text e fuel,
  dc a req = RError code text ->
  to_native tbl cat code text = Ok e -> n_message e <> s_phone_migrate_x ->
  make_request (S fuel) tbl cat dcs dc a req []
  = {| c_result := CFailed e Return; c_addr := a; c_writes := [(a, req)] |}.
Proof. exact make_request_other. Qed.
Print Assumptions C17_live_other_error.

Example C17_live_satisfiable :
  let tbl := [pm_entry] in
  let dcs := [(2%Z, lit "B")] in
  let dc := fun addr (_ : bytes) =>
    if beq addr (lit "A") then RError 303 (lit "PHONE_MIGRATE_2") else RValue (lit "answer-of-B") in
  make_request 5 tbl [] dcs dc (lit "A") (lit "req") []
  = {| c_result := CValue (lit "answer-of-B"); c_addr := lit "B";
       c_writes := [(lit "A", lit "req"); (lit "B", lit "req")] |}.
Proof. vm_compute. reflexivity. Qed.
Print Assumptions C17_live_satisfiable.

(* --- several callers migrated at once: the protocol of the repaired client, all interleavings --- *)

(* Model: Misc/Migrate.v - K callers (K arbitrary) sharing one client; migrateMutex as reader count and
   writer; per caller a program counter Idle / Repeat / Sending a / Waiting a g / Redirected x a /
   Locked x a / Done a; the data centres' behaviour is [pol a i] (None: the result, Some x:
   PHONE_MIGRATE_x); [reachable pol dcs k a0 s]: s is reached from k idle callers at address a0 by some
   list of labels (any interleaving, any speed of the data centres).
   Ties to the code: the protocol is a hand model of makeRequest / tryToProcessErrOf /
   repeatPendingRequests; the outcomes observed in the live multi-caller scenarios are checked to be
   outcomes this model can reach (lib/props/c17m.py, extracted [step]). *)
From MTV Require Import Misc.Migrate Misc.MigrateProofs.

(* (a) at most one caller is between Lock and Unlock; while it is, nobody is sending, nobody can start
   to send, and nobody else can lock, skip or reconnect *)
Theorem C17_concurrent_migrate_mutex : forall pol dcs k a0 s i ci x a,
  reachable pol dcs k a0 s -> at_ s i ci -> c_pc ci = Locked x a ->
  (forall j cj y b, at_ s j cj -> c_pc cj = Locked y b -> j = i) /\
  (forall j cj b, at_ s j cj -> c_pc cj <> Sending b) /\
  (forall j, step pol dcs s (LSend j) = None) /\
  (forall j, j <> i -> step pol dcs s (LLock j) = None /\ step pol dcs s (LSkip j) = None /\
                       step pol dcs s (LReconnect j) = None).
Proof. exact mutual_exclusion. Qed.
Print Assumptions C17_concurrent_migrate_mutex.

(* (b) equal X (every redirect names the data centre at t, which serves everybody; the client starts
   elsewhere): however many callers are answered PHONE_MIGRATE_X, the client connects to t at most
   once and nowhere else; exactly once as soon as a redirected caller is done *)
Theorem C17_concurrent_migrate_one_connection : forall pol dcs t a0,
  (forall a i x, pol a i = Some x -> dcs x = t) -> (forall i, pol t i = None) -> a0 <> t ->
  forall k s, reachable pol dcs k a0 s ->
  connections t s <= 1 /\ (forall a, a <> t -> connections a s = 0) /\
  (forall j c, at_ s j c -> c_redir c > 0 -> is_done c = true -> connections t s = 1).
Proof. exact one_connection. Qed.
Print Assumptions C17_concurrent_migrate_one_connection.

(* (c) accounting, any X.  Every request a data centre received was written by one of the k callers.
   Caller j has written its request exactly 1 + (redirects it received) + (times it was woken because
   another caller migrated the client while it was waiting) times, minus the one write still due when
   it is Idle / Repeat / Redirected / Locked.  Nobody waits on a closed connection: a waiting caller
   waits at the client's current address on the live connection.  A caller that is done holds the
   result of the data centre that received its LAST write, and that data centre serves it. *)
Theorem C17_concurrent_migrate_accounting : forall pol dcs k a0 s, reachable pol dcs k a0 s ->
  (forall a i, In (a, i) (log s) -> i < k) /\
  (forall j c, at_ s j c ->
     sent j (log s) + owes (c_pc c) = 1 + c_redir c + c_woken c /\
     (forall a g, c_pc c = Waiting a g -> a = addr s /\ g = gen s /\ last_to j (log s) = Some a) /\
     (forall a, c_pc c = Done a -> pol a j = None /\ last_to j (log s) = Some a)).
Proof. exact accounting. Qed.
Print Assumptions C17_concurrent_migrate_accounting.

(* (c) for equal X "exactly once" is literal: the data centre at t never receives a caller's request
   twice, and receives it exactly once if it is the one whose answer the caller holds *)
Theorem C17_concurrent_migrate_received_once : forall pol dcs t a0,
  (forall a i x, pol a i = Some x -> dcs x = t) -> (forall i, pol t i = None) -> a0 <> t ->
  forall k s j c, reachable pol dcs k a0 s -> at_ s j c ->
  received t j (log s) <= 1 /\ (c_pc c = Done t -> received t j (log s) = 1).
Proof. exact received_once. Qed.
Print Assumptions C17_concurrent_migrate_received_once.

(* (d) no caller is stuck: a caller that is not done can take a step itself, or it waits for
   migrateMutex and a holder of the mutex can take a step *)
Theorem C17_concurrent_migrate_no_caller_stuck : forall pol dcs k a0 s i c,
  reachable pol dcs k a0 s -> at_ s i c -> is_done c = false ->
  exists j l s', actor l = j /\ step pol dcs s l = Some s' /\
    (j = i \/ (exists cj, at_ s j cj /\ (holds_write cj = true \/ holds_read cj = true))).
Proof. exact no_caller_stuck. Qed.
Print Assumptions C17_concurrent_migrate_no_caller_stuck.

(* (d) termination, no fairness needed: if every data centre a request is redirected to serves all
   callers, every step (of a caller or of a data centre) decreases [measure]; so every execution has at
   most [measure (init k a0)] steps, it can only stop when everybody is done, and everybody who is done
   has the result for its own request from the data centre that received its last write.
   (Without the hypothesis two data centres can bounce callers for ever: PHONE_MIGRATE_2 from one,
   PHONE_MIGRATE_3 from the other - the Go code then migrates for ever too.) *)
Theorem C17_concurrent_migrate_terminates : forall pol dcs k a0, targets_serve pol dcs k ->
  (forall ls s, run pol dcs (init k a0) ls = Some s -> length ls + measure pol s <= measure pol (init k a0)) /\
  (forall s, reachable pol dcs k a0 s -> (forall l, step pol dcs s l = None) -> all_done s = true) /\
  (forall s j c a, reachable pol dcs k a0 s -> at_ s j c -> c_pc c = Done a ->
     pol a j = None /\ last_to j (log s) = Some a /\ sent j (log s) = 1 + c_redir c + c_woken c).
Proof. exact terminates. Qed.
Print Assumptions C17_concurrent_migrate_terminates.

(* (e) three callers at address 0; the data centre there answers callers 0 and 1 with PHONE_MIGRATE_2
   (at once) and caller 2 with PHONE_MIGRATE_3; dclist: 2 -> address 1, 3 -> address 2, both serve
   everybody.  One interleaving: 0 migrates the client to 1, 1 finds it already moved and just repeats,
   2 migrates the client on to 2 and thereby wakes 1, which repeats once more. *)
Definition ex_pol (a i : nat) : option nat :=
  if Nat.eqb a 0 then Some (if Nat.ltb i 2 then 2 else 3) else None.
Definition ex_dcs (x : nat) : nat := if Nat.eqb x 2 then 1 else 2.
Definition ex_run : list label :=
  [LSend 0; LSend 1; LSend 2; LRUnlock 0; LRUnlock 1; LRUnlock 2;
   LAnswer 0; LAnswer 1; LAnswer 2;
   LLock 0; LReconnect 0; LSend 0; LRUnlock 0;
   LLock 1; LSkip 1; LSend 1; LRUnlock 1;
   LAnswer 0;
   LLock 2; LReconnect 2; LSend 1; LSend 2; LRUnlock 1; LRUnlock 2; LAnswer 1; LAnswer 2].

Example C17_concurrent_migrate_example :
  exists s, run ex_pol ex_dcs (init 3 0) ex_run = Some s /\
    all_done s = true /\
    List.map c_pc (cs s) = [Done 1; Done 2; Done 2] /\
    List.map c_woken (cs s) = [0; 1; 0] /\
    opened s = [1; 2] /\ addr s = 2 /\ writer s = None /\ readers s = 0 /\
    log s = [(0, 0); (0, 1); (0, 2); (1, 0); (1, 1); (2, 1); (2, 2)] /\
    length ex_run = 26 /\ measure ex_pol (init 3 0) = 45 /\ measure ex_pol s = 0.
Proof. eexists. vm_compute. repeat split; reflexivity. Qed.
Print Assumptions C17_concurrent_migrate_example.

Example C17_concurrent_migrate_example_hypothesis : targets_serve ex_pol ex_dcs 3.
Proof.
  intros a i x Hi Hp. unfold ex_pol in Hp. destruct (Nat.eqb a 0); [|discriminate].
  injection Hp as <-. destruct (Nat.ltb i 2); reflexivity.
Qed.
Print Assumptions C17_concurrent_migrate_example_hypothesis.

(* --- which table: the DC list a client builds from help.getConfig (telegram/common.go NewClient) ------------- *)
From MTV Require Import Misc.DcConfig.

(* for every option list and every id: PHONE_MIGRATE_X finds the address of the LAST non-CDN option for X -
   host and port joined as net.JoinHostPort joins them -, and nothing if there is none *)
Theorem C17_config_table : forall opts i,
  dc_lookup i (config_table opts) = option_map addr_of (find (names i) (rev opts)).
Proof. exact config_table_lookup. Qed.
Print Assumptions C17_config_table.

Theorem C17_config_last_option_wins : forall before o after i,
  o_cdn o = false -> o_id o = i -> (forall x, In x after -> names i x = false) ->
  dc_lookup i (config_table (before ++ o :: after)) = Some (addr_of o).
Proof. exact config_last_wins. Qed.
Print Assumptions C17_config_last_option_wins.

Theorem C17_config_cdn_never_a_target : forall opts i,
  (forall o, In o opts -> o_id o = i -> o_cdn o = true) -> dc_lookup i (config_table opts) = None.
Proof. exact config_cdn_only. Qed.
Print Assumptions C17_config_cdn_never_a_target.

Theorem C17_config_migrate : forall opts x,
  process_err (config_table opts) s_phone_migrate_x (AInt x) =
  match find (names x) (rev opts) with
  | Some o => Ok (Switch (addr_of o))
  | None => Ok NoSuchDC
  end.
Proof. exact config_migrate. Qed.
Print Assumptions C17_config_migrate.

(* "host:port", and "[host]:port" for a host with a colon in it (an IPv6 literal) *)
Theorem C17_config_address_shape : forall h p,
  (has_colon h = false -> join_host_port h p = (h ++ [58%N] ++ p)%list) /\
  (has_colon h = true -> join_host_port h p = ([91%N] ++ h ++ [93%N; 58%N] ++ p)%list).
Proof. exact join_host_port_shape. Qed.
Print Assumptions C17_config_address_shape.

Example C17_config_example :
  let v4 := lit "149.154.167.51"%string in let v4b := lit "10.0.0.7"%string in let v6 := lit "2001:db8::e"%string in
  let opts := [ {| o_id := 2; o_cdn := false; o_host := v4; o_port := 443 |};
                {| o_id := 6; o_cdn := true; o_host := v4; o_port := 443 |};
                {| o_id := 2; o_cdn := false; o_host := v4b; o_port := 8443 |};
                {| o_id := 14; o_cdn := false; o_host := v6; o_port := 443 |} ] in
  dc_lookup 2%Z (config_table opts) = Some (lit "10.0.0.7:8443"%string) /\
  dc_lookup 6%Z (config_table opts) = None /\
  dc_lookup 14%Z (config_table opts) = Some (lit "[2001:db8::e]:443"%string) /\
  process_err (config_table opts) s_phone_migrate_x (AInt 14%Z) = Ok (Switch (lit "[2001:db8::e]:443"%string)).
Proof. exact config_example. Qed.
Print Assumptions C17_config_example.
