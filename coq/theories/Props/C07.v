(* C07 - Key exchange aborts on any inconsistent server reply and persists nothing.
   Statements only; proofs live in Handshake/Abort.v and Handshake/NoPanic.v.

   Model: Handshake/Client.v - makeAuthKey as written AFTER the repairs under /verif/patches/C06.  The server is an
   ARBITRARY environment [e : list bytes -> option bytes]: a function from the plain messages the client has sent so far
   to the next reply body (None: no reply arrives).  This covers every script of reply bytes and every adaptive server.
   What arrives: Reply body (any bytes in an unencrypted envelope) | TransportError (the 4-byte error frame, e.g. -404) |
   Closed (the server closes the connection) | nothing at all (None: silent for ever).
   How a run ends: Success key kid salt | Stopped HFailed (makeAuthKey returned an error) | Stopped HPanicked |
   Stopped HStalled (makeAuthKey never returns).  C07_error_unless_silent: the only causes of HStalled are a server that
   stays silent for ever and a factorisation that does not finish; anything that ARRIVES ends the exchange with an error.
   Effects, in order: SendPlain body | Save key kid salt (SaveSession) | SendEncrypted packet (the application's first
   request after CreateConnection, sealed as in C03).
   H E D modexp is_prime split: crypto/sha1, crypto/aes, math/big Exp, ProbablyPrime, math.SplitPQ - universally
   quantified; hypotheses appear where needed. *)
From Coq Require Import String.
From Coq Require Import ZArith NArith List Lia Bool.
From MTV Require Import Base.Bytes Base.Outcome Base.Str Prim.Hex Prim.Xor Prim.Sha1 Prim.Aes256 Prim.Aes256Facts Prim.Aes256Inv
  Crypto.Ige Crypto.IgeMem Crypto.TempKeys Crypto.Envelope TL.Types
  Handshake.Bytes Handshake.Objects Handshake.Client Handshake.Server Handshake.SplitPQ Handshake.Abort
  Handshake.Agreement Handshake.NoPanic Handshake.NoStall Props.C06.
Import ListNotations.
Open Scope N_scope.

(* ---- 1. Success implies that every check held ----
   For an arbitrary server: if makeAuthKey succeeds then exactly three plain messages were sent and answered;
   the three answers were resPQ, server_DH_params_ok and dh_gen_ok (not ..._fail / dh_gen_retry / dh_gen_fail / anything
   else), each echoing the client's nonce and - the last two - the server_nonce of resPQ;
   one of the offered fingerprints is the fingerprint of the configured key;
   the encrypted answer decrypts (temp keys of new_nonce and server_nonce) to SHA1(answer) ++ answer ++ (< 16 bytes);
   answer is a server_DH_inner_data echoing nonce and server_nonce;
   the key is g_a^b mod dh_prime as 256 bytes and new_nonce_hash1 received equals SHA1(new_nonce ++ 1 ++ SHA1(key)[0:8])[4:20]
   computed at fixed widths; the key id saved is SHA1(key)[12:20]. *)
Theorem C07_success_implies_consistent :
  forall (H : bytes -> bytes) (E D : bytes -> bytes -> bytes) (modexp : Z -> Z -> Z -> Z)
         (is_prime : N -> bool) (split : N -> option (N * N))
         (pk : pubkey) (dr : draws) (e : env) eff key hash salt,
  outcome_of (handshake H E D modexp is_prime split pk dr e) = (eff, Success key hash salt) ->
  let nonce := of_be (d_nonce dr) in
  let new_nonce := of_be (d_new_nonce dr) in
  exists f1 f2 f3 r1 r2 r3 srv pqb fps enc_answer h3,
    eff = [SendPlain f1; SendPlain f2; SendPlain f3; Save key hash salt] /\
    e [f1] = Some (Reply r1) /\ e [f1; f2] = Some (Reply r2) /\ e [f1; f2; f3] = Some (Reply r3) /\
    dec_reply r1 = DObj (RResPQ nonce srv pqb fps) /\
    dec_reply r2 = DObj (RDHOk nonce srv enc_answer) /\
    dec_reply r3 = DObj (RGenOk nonce srv h3) /\
    (exists fp, fingerprint64 H pk = Ok fp /\ In fp fps) /\
    (exists k iv dec inp answer pad dhi aux,
       generate_temp_keys H new_nonce srv = Ok (k, iv) /\
       do_decrypt D enc_answer (zbuf (length enc_answer)) k iv = (Done, dec, inp) /\
       dec = H answer ++ answer ++ pad /\ (length pad < 16)%nat /\
       dec_inner answer = Some dhi /\ i_nonce dhi = nonce /\ i_srv dhi = srv /\
       key = fixed_bytes 256 (zexp modexp (of_be (i_ga dhi)) (of_be (d_b dr)) (of_be (i_dh_prime dhi))) /\
       gslice (H key) 0 8 = Ok aux /\
       gslice (H (copy_into (copy_into (copy_into (zbuf 41) 0 (fixed_bytes 32 new_nonce)) 32 [1]) 33 aux)) 4 20
         = Ok (fixed_bytes 16 h3)) /\
    auth_key_hash H key = Ok hash.
Proof. exact success_implies_consistent. Qed.
Print Assumptions C07_success_implies_consistent.

(* ---- 2. An abandoned key exchange leaves nothing behind ----
   Whatever the server does and however the run ends short of Success (error, panic, stall): no session is saved and
   no encrypted request is sent - every effect is a plain message. *)
Theorem C07_abort_is_clean :
  forall (H : bytes -> bytes) (E D : bytes -> bytes -> bytes) (modexp : Z -> Z -> Z -> Z)
         (is_prime : N -> bool) (split : N -> option (N * N))
         (pk : pubkey) (dr : draws) (e : env) sid msgid seq ack body eff fin,
  connect_and_request H E D modexp is_prime split pk dr e sid msgid seq ack body = (eff, fin) ->
  (forall key hash salt, fin <> Success key hash salt) ->
  forall x, In x eff -> exists b, x = SendPlain b.
Proof. exact abort_is_clean. Qed.
Print Assumptions C07_abort_is_clean.

(* ... and nothing is added when the run is CONTINUED: after makeAuthKey returned, the server sends any further
   unencrypted messages [more] on the same connection (new_session_created, bad_server_salt, rpc_result, containers,
   garbage, error codes, a close).  Whatever the ordinary handlers would do with a body ([handlers] is arbitrary - the
   real ones call SaveSession), they are not reached: after an abort the client is still in service mode (the message
   is parked for the next service request), after success an unencrypted message is refused (patch 0007). *)
Theorem C07_abort_stays_clean :
  forall (H : bytes -> bytes) (E D : bytes -> bytes -> bytes) (modexp : Z -> Z -> Z -> Z)
         (is_prime : N -> bool) (split : N -> option (N * N)) (handlers : bytes -> list effect)
         (pk : pubkey) (dr : draws) (e : env) sid msgid seq ack body eff fin (more : list arrival),
  connect_and_request H E D modexp is_prime split pk dr e sid msgid seq ack body = (eff, fin) ->
  (forall key hash salt, fin <> Success key hash salt) ->
  forall x, In x (eff ++ after_exchange handlers fin more) -> exists b, x = SendPlain b.
Proof. exact abort_stays_clean. Qed.
Print Assumptions C07_abort_stays_clean.

(* and on Success: plain messages, then exactly one Save of the returned secrets, then at most the encrypted request *)
Theorem C07_success_effects :
  forall (H : bytes -> bytes) (E D : bytes -> bytes -> bytes) (modexp : Z -> Z -> Z -> Z)
         (is_prime : N -> bool) (split : N -> option (N * N))
         (pk : pubkey) (dr : draws) (e : env) sid msgid seq ack body eff key hash salt,
  connect_and_request H E D modexp is_prime split pk dr e sid msgid seq ack body = (eff, Success key hash salt) ->
  exists plains tail, plain_only plains /\ eff = plains ++ [Save key hash salt] ++ tail /\
    (tail = [] \/ exists pkt, tail = [SendEncrypted pkt] /\
                              seal_client H (ige_encrypt E) key salt sid msgid seq ack body = Ok pkt).
Proof. exact success_effects. Qed.
Print Assumptions C07_success_effects.

(* ---- 3. makeAuthKey never panics ----
   For every server and every well-formed draw, given: SHA-1 returns 20 bytes, AES blocks are 16 bytes of bytes,
   Exp reduces modulo m, what SplitPQ returns is a factorisation (C06_splitpq_partial), replies are byte strings. *)
Theorem C07_no_panic :
  forall (H : bytes -> bytes) (E D : bytes -> bytes -> bytes) (modexp : Z -> Z -> Z -> Z)
         (is_prime : N -> bool) (split : N -> option (N * N)),
  (forall m, length (H m) = 20%nat) -> (forall m, okb (H m)) ->
  (forall k b, length (E k b) = 16%nat) -> (forall k b, length (D k b) = 16%nat) ->
  (forall k b, okb k -> okb b -> okb (D k b)) ->
  (forall b e m, (0 <= e)%Z -> (0 < m)%Z -> modexp b e m = ((b ^ e) mod m)%Z) ->
  (forall n a b, split n = Some (a, b) -> a * b = n /\ 1 < a /\ a <= b) ->
  forall pk dr (e : env), draws_ok dr -> (forall h r, e h = Some (Reply r) -> okb r) ->
  forall sid msgid seq ack body eff fin,
    connect_and_request H E D modexp is_prime split pk dr e sid msgid seq ack body = (eff, fin) ->
    fin <> Stopped HPanicked.
Proof. exact no_panic. Qed.
Print Assumptions C07_no_panic.

(* ---- 4. ... and it is abandoned WITH AN ERROR: it does not wait for ever on anything that arrives ----
   If the server answers every request with something - a reply of any bytes (undecodable, unregistered constructor,
   truncated, wrong kind), a transport error code, closing the connection - and SplitPQ returns (it is only called on a
   number that passed the not-prime test; termination itself is not proved), the run ends Success or Stopped HFailed. *)
Theorem C07_error_unless_silent :
  forall (H : bytes -> bytes) (E D : bytes -> bytes -> bytes) (modexp : Z -> Z -> Z -> Z)
         (is_prime : N -> bool) (split : N -> option (N * N)),
  (forall m, length (H m) = 20%nat) -> (forall m, okb (H m)) ->
  (forall k b, length (E k b) = 16%nat) -> (forall k b, length (D k b) = 16%nat) ->
  (forall k b, okb k -> okb b -> okb (D k b)) ->
  (forall b e m, (0 <= e)%Z -> (0 < m)%Z -> modexp b e m = ((b ^ e) mod m)%Z) ->
  (forall n a b, split n = Some (a, b) -> a * b = n /\ 1 < a /\ a <= b) ->
  (forall n, split n <> None) ->
  forall pk dr (e : env), draws_ok dr -> (forall h r, e h = Some (Reply r) -> okb r) ->
  (forall hist, e hist <> None) ->
  forall sid msgid seq ack body eff fin,
    connect_and_request H E D modexp is_prime split pk dr e sid msgid seq ack body = (eff, fin) ->
    (exists key kid salt, fin = Success key kid salt) \/ fin = Stopped HFailed.
Proof. exact error_unless_silent. Qed.
Print Assumptions C07_error_unless_silent.

(* with the Gallina SHA-1 / AES-256 / modpow and the factorisation loop model nothing is assumed but the shape of the inputs *)
Theorem C07_no_panic_inst :
  forall (is_prime : N -> bool) fuel fuel_inner (rnd : nat -> N)
         pk dr (e : env), draws_ok dr -> (forall h r, e h = Some (Reply r) -> okb r) ->
  forall sid msgid seq ack body eff fin,
    connect_and_request sha1 aes_enc aes_dec modpow is_prime (split_model fuel fuel_inner rnd) pk dr e
      sid msgid seq ack body = (eff, fin) ->
    fin <> Stopped HPanicked.
Proof.
  intros is_prime fuel fi rnd.
  apply (no_panic sha1 aes_enc aes_dec modpow is_prime (split_model fuel fi rnd)
           sha1_length sha1_bytes_ok aes_enc_length aes_dec_length aes_dec_bytes_ok modpow_spec (split_model_sound fuel fi rnd)).
Qed.
Print Assumptions C07_no_panic_inst.

(* ---------------------------------------------------------------------------------------------- *)
(* non-vacuity: Success does occur (the run of Props/C06.v), and single faults injected into that very exchange make
   the run stop with an error, with plain messages only.  All computed inside Coq. *)
Definition ex_env : env := srv_env sha1 aes_enc aes_dec modpow ex_sp.
Definition ex_client (e : env) :=
  connect_and_request sha1 aes_enc aes_dec modpow (fun _ => false) ex_split
    (mkpub ex_rsa_n 1) ex_dr e 77 6000000000000000004 0 true (lit "ping").

Definition flip_last (l : bytes) : bytes :=
  match rev l with [] => [] | x :: r => rev (N.lxor x 1 :: r) end.
(* the server's k-th reply (1-based) altered by f *)
Definition tamper (k : nat) (f : bytes -> bytes) : env :=
  fun hist => match ex_env hist with
              | Some (Reply r) => if Nat.eqb (length hist) k then Some (Reply (f r)) else Some (Reply r)
              | other => other
              end.
(* the k-th thing that arrives is a instead *)
Definition instead (k : nat) (a : arrival) : env :=
  fun hist => if Nat.eqb (length hist) k then Some a else ex_env hist.
Definition set_crc (c : N) (l : bytes) : bytes := le32 c ++ skipn 4 l.
Definition aborted_cleanly (r : list effect * final) : bool :=
  match r with
  | (eff, Stopped HFailed) => forallb (fun x => match x with SendPlain _ => true | _ => false end) eff
  | _ => false
  end.

Example C07_success_occurs :
  match ex_client ex_env with (_, Success _ _ _) => true | _ => false end = true.
Proof. vm_compute. reflexivity. Qed.
Print Assumptions C07_success_occurs.

Example C07_wrong_new_nonce_hash1_aborts : aborted_cleanly (ex_client (tamper 3 flip_last)) = true.
Proof. vm_compute. reflexivity. Qed.
Print Assumptions C07_wrong_new_nonce_hash1_aborts.

Example C07_dh_gen_retry_aborts : aborted_cleanly (ex_client (tamper 3 (set_crc crc_gen_retry))) = true.
Proof. vm_compute. reflexivity. Qed.
Print Assumptions C07_dh_gen_retry_aborts.

Example C07_server_dh_params_fail_aborts : aborted_cleanly (ex_client (tamper 2 (set_crc crc_dh_fail))) = true.
Proof. vm_compute. reflexivity. Qed.
Print Assumptions C07_server_dh_params_fail_aborts.

(* one bit of the encrypted answer flipped: the SHA-1 prefix no longer matches *)
Example C07_wrong_sha1_prefix_aborts : aborted_cleanly (ex_client (tamper 2 flip_last)) = true.
Proof. vm_compute. reflexivity. Qed.
Print Assumptions C07_wrong_sha1_prefix_aborts.

(* the nonce echoed by resPQ altered (byte 4 of the body is the first byte of nonce) *)
Example C07_wrong_nonce_aborts :
  aborted_cleanly (ex_client (tamper 1 (fun l => firstn 4 l ++ [N.lxor (nth 4 l 0) 128] ++ skipn 5 l))) = true.
Proof. vm_compute. reflexivity. Qed.
Print Assumptions C07_wrong_nonce_aborts.

(* no offered fingerprint matches: the last fingerprint is the only real one in a list of one *)
Example C07_wrong_fingerprint_aborts :
  aborted_cleanly (connect_and_request sha1 aes_enc aes_dec modpow (fun _ => false) ex_split
                     (mkpub (ex_rsa_n + 2) 1) ex_dr ex_env 77 6000000000000000004 0 true (lit "ping")) = true.
Proof. vm_compute. reflexivity. Qed.
Print Assumptions C07_wrong_fingerprint_aborts.

(* what cannot be read at all, at each step: the transport error frame, a closed connection, a body with an
   unregistered constructor id, a truncated body, an empty body - an error every time, never a stall *)
Example C07_unreadable_replies_abort :
  forallb (fun e => aborted_cleanly (ex_client e))
    [instead 1 TransportError; instead 3 TransportError; instead 1 Closed; instead 2 Closed;
     instead 1 (Reply []); tamper 2 (set_crc 3735928559); tamper 2 (fun l => firstn (length l - 8) l)] = true.
Proof. vm_compute. reflexivity. Qed.
Print Assumptions C07_unreadable_replies_abort.
