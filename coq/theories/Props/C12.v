(* C12 - Stored sessions are read back intact and let a restarted client resume.
   Statements only; proofs are in Misc/SessionProofs.v, the model in Misc/Session.v.

   [b64enc]/[b64dec] stand for base64.StdEncoding, [marshal]/[unmarshal] for encoding/json on
   the four-string tokenStorageFormat.  What is assumed about them:
     base64_ok : decode (encode b) = b for byte strings, and encodings are valid UTF-8;
     json_ok   : unmarshal (marshal t) = t for records of valid UTF-8 strings, and no strict
                 prefix of a marshalled record unmarshals.
   Nothing else is assumed.  Modification times are arguments of the operations (chosen by the
   environment): the theorems hold for EVERY assignment, in particular for non-decreasing ones
   with equal ticks (C12_last_store_wins_coarse_clock spells that case out).
   A crash while the file is written (OCrash k) leaves the first k bytes of the file and ends the
   process: the next operation runs on a new loader.  OTear k / OForeign s are changes of the file
   by ANOTHER writer (cut to k bytes / complete store of s) while this loader lives on with its cache.
   OScribble: the caller overwrites every session value it passed to Store or got from Load (the code
   shares no memory with its caller, so this changes nothing; Store / Load / Fresh / Scribble are the
   operations of C12_last_store_wins).
   A history is a list of operations on one path; [run] executes it on the model of the code
   (file system + loader with its mtime-keyed cache), [last_store_run] is the three-line
   reference: Store -> ok and remember, Load -> the remembered session or not-found. *)
From Coq Require Import ZArith NArith List Lia Bool.
From MTV Require Import Base.Bytes Base.Outcome Misc.Session Misc.SessionBase64 Misc.SessionProofs.
Import ListNotations.
Open Scope N_scope.

(* Every history of Store / Load / Fresh on a path whose directory exists: every Store succeeds,
   every Load returns the session of the last Store (not-found before the first one). *)
Theorem C12_last_store_wins :
  forall b64enc b64dec marshal unmarshal, base64_ok b64enc b64dec -> json_ok marshal unmarshal ->
  forall (p : bytes) (fs : fsys) (ops : list op),
    p <> [] -> dirs fs (go_dir p) = DDir -> files fs p = None ->
    forallb simple_op ops = true ->
    run b64enc b64dec marshal unmarshal fs (fresh p) ops = last_store_run None ops.
Proof. intros ? ? ? ? [? ?] [? ?]. now apply last_store_wins. Qed.
Print Assumptions C12_last_store_wins.

(* the same, read for a coarse clock: times never go back, equal ticks allowed *)
Theorem C12_last_store_wins_coarse_clock :
  forall b64enc b64dec marshal unmarshal, base64_ok b64enc b64dec -> json_ok marshal unmarshal ->
  forall (p : bytes) (fs : fsys) (ops : list op),
    p <> [] -> dirs fs (go_dir p) = DDir -> files fs p = None ->
    forallb simple_op ops = true -> times_nondecreasing 0 ops = true ->
    run b64enc b64dec marshal unmarshal fs (fresh p) ops = last_store_run None ops.
Proof. intros ? ? ? ? [? ?] [? ?] ? ? ? ? ? ? ? _. now apply last_store_wins. Qed.
Print Assumptions C12_last_store_wins_coarse_clock.

(* From ANY file-system state and ANY loader state (whatever it has cached): once a session is
   stored, the rest of the history sees the last store. *)
Theorem C12_last_store_wins_any_start :
  forall b64enc b64dec marshal unmarshal, base64_ok b64enc b64dec -> json_ok marshal unmarshal ->
  forall (fs : fsys) (l : loader) (s : session) (t : N) (ops : list op),
    l_path l <> [] -> dirs fs (go_dir (l_path l)) = DDir -> session_ok s = true ->
    forallb simple_op ops = true ->
    run b64enc b64dec marshal unmarshal fs l (OStore s t :: ops) = last_store_run None (OStore s t :: ops).
Proof. intros ? ? ? ? [? ?] [? ?]. now apply last_store_wins_any_start. Qed.
Print Assumptions C12_last_store_wins_any_start.

(* Path shapes: the directory the code tests is filepath.Dir(path); for a bare file name it is "."
   (for every name without a slash), so a bare name works whenever the current directory exists. *)
Theorem C12_bare_filename_dir : forall p, ~ In slash p -> go_dir p = s_dot.
Proof. exact go_dir_bare. Qed.
Print Assumptions C12_bare_filename_dir.

Theorem C12_last_store_wins_bare_filename :
  forall b64enc b64dec marshal unmarshal, base64_ok b64enc b64dec -> json_ok marshal unmarshal ->
  forall (p : bytes) (fs : fsys) (ops : list op),
    p <> [] -> ~ In slash p -> dirs fs s_dot = DDir -> files fs p = None ->
    forallb simple_op ops = true ->
    run b64enc b64dec marshal unmarshal fs (fresh p) ops = last_store_run None ops.
Proof.
  intros ? ? ? ? [? ?] [? ?] p fs ops Hne Hb Hd Hf Hs.
  apply last_store_wins; auto. now rewrite go_dir_bare.
Qed.
Print Assumptions C12_last_store_wins_bare_filename.

Example C12_dir_shapes :
  go_dir [115;46;106;115;111;110] = [46]                                     (* "s.json" -> "." *)
  /\ go_dir [46;47;115] = [46]                                               (* "./s" -> "." *)
  /\ go_dir [114;101;108;47;115] = [114;101;108]                             (* "rel/s" -> "rel" *)
  /\ go_dir [47;116;109;112;47;120;47;115] = [47;116;109;112;47;120]         (* "/tmp/x/s" -> "/tmp/x" *)
  /\ go_dir [47;115] = [47]                                                  (* "/s" -> "/" *)
  /\ go_dir [97;47;47;98;47;46;46;47;115] = [97]                             (* "a//b/../s" -> "a" *)
  /\ go_dir [46;46;47;120;47;115] = [46;46;47;120].                          (* "../x/s" -> "../x" *)
Proof. vm_compute. repeat split. Qed.
Print Assumptions C12_dir_shapes.

(* Histories with crashes, restarts, client starts, the caller scribbling over its own copies
   (OScribble) AND changes made by another writer while the loader lives on (OTear: the file is left
   cut short; OForeign: another loader stores a complete session): the code behaves exactly like the
   reference store whose state is "last stored session + how many bytes of its file survive".
   The loader's cache is keyed on the modification time alone and the code's test is EQUALITY
   (Load: info.ModTime().Equal(l.lastEdited)), so what the code guarantees for a change by ANOTHER
   writer is: it is seen iff it carries a time DIFFERENT - later or earlier - from the one the living
   loader cached at.  [foreign_visible ts0 ops] says exactly that along the history ([tstep] tracks the
   time the file carries and the time the loader cached at: a successful Load caches at the file's
   time; the loader's own Store, a restart, a crash drop the cache).  The loader's own stores, crashes
   and restarts may share ticks freely (histories without another writer need no condition:
   C12_last_store_wins above).  C12_foreign_equal_tick_unseen states what happens on the cached time. *)
Theorem C12_history_refines_exact :
  forall b64enc b64dec marshal unmarshal, base64_ok b64enc b64dec -> json_ok marshal unmarshal ->
  forall (p : bytes) (fs : fsys) (ops : list op),
    p <> [] -> dirs fs (go_dir p) = DDir -> files fs p = None ->
    forallb proper ops = true -> foreign_visible b64enc marshal (mkT IAbsent 0 None) ops = true ->
    run b64enc b64dec marshal unmarshal fs (fresh p) ops = ideal_run b64enc marshal IAbsent ops.
Proof. intros ? ? ? ? [? ?] [? ?]. intros. now apply history_refines_exact. Qed.
Print Assumptions C12_history_refines_exact.

(* the same under a condition that needs no bookkeeping: every change by another writer is strictly
   later than every time handed out before it in the history *)
Theorem C12_history_refines :
  forall b64enc b64dec marshal unmarshal, base64_ok b64enc b64dec -> json_ok marshal unmarshal ->
  forall (p : bytes) (fs : fsys) (ops : list op),
    p <> [] -> dirs fs (go_dir p) = DDir -> files fs p = None ->
    forallb proper ops = true -> foreign_newer 0 ops = true ->
    run b64enc b64dec marshal unmarshal fs (fresh p) ops = ideal_run b64enc marshal IAbsent ops.
Proof. intros ? ? ? ? [? ?] [? ?]. now apply history_refines. Qed.
Print Assumptions C12_history_refines.

(* A missing file is reported as not-found, whatever the loader has cached. *)
Theorem C12_missing_is_notfound :
  forall b64dec unmarshal (fs : fsys) (l : loader),
    files fs (l_path l) = None -> dirs fs (go_dir (l_path l)) <> DFile ->
    load b64dec unmarshal fs l = (LNotFound, l).
Proof. exact missing_is_notfound. Qed.
Print Assumptions C12_missing_is_notfound.

(* A file cut short at any byte k < n is an error - never a session - for a new loader and for the
   loader that wrote it ... *)
Theorem C12_torn_is_error :
  forall b64enc b64dec marshal unmarshal, base64_ok b64enc b64dec -> json_ok marshal unmarshal ->
  forall (fs : fsys) (l : loader) (s : session) (k : nat) (t : N),
    session_ok s = true -> (k < length (render b64enc marshal s))%nat ->
    files fs (l_path l) = Some (firstn k (render b64enc marshal s), t) -> l_cached l = None ->
    load b64dec unmarshal fs l = (LErr, l).
Proof. intros ? ? ? ? [? ?] [? ?]. now apply torn_is_error. Qed.
Print Assumptions C12_torn_is_error.

(* ... for ANY loader that can see the cut - nothing cached, or cached at another modification time
   (a long-lived loader after another writer tore the file on a later tick) - and however often it
   asks: every Load is an error, the loader's state does not move. *)
Theorem C12_torn_every_load_is_error :
  forall b64enc b64dec marshal unmarshal, base64_ok b64enc b64dec -> json_ok marshal unmarshal ->
  forall (fs : fsys) (l : loader) (s : session) (k : nat) (t : N) (n : nat),
    session_ok s = true -> (k < length (render b64enc marshal s))%nat ->
    files fs (l_path l) = Some (firstn k (render b64enc marshal s), t) ->
    l_cached l = None \/ t <> l_last l ->
    load b64dec unmarshal fs l = (LErr, l)
    /\ run b64enc b64dec marshal unmarshal fs l (repeat OLoad n) = repeat (ObsLoad LErr) n.
Proof.
  intros ? ? ? ? [? ?] [? ?]. intros. split.
  - now apply (tear_load_error b64enc b64dec marshal unmarshal) with (s := s) (k := k) (t := t).
  - now apply (tear_every_load_error b64enc b64dec marshal unmarshal) with (s := s) (k := k) (t := t).
Qed.
Print Assumptions C12_torn_every_load_is_error.

(* The long-lived loader, end to end from any state: it stores s and reads it back (cached); ANOTHER
   writer leaves the file cut to k < n bytes carrying a DIFFERENT time (later, or earlier: mtimes that
   go back); every one of the n Loads of the surviving loader is an error, and after a restart every
   one of the m Loads of a new loader too. *)
Theorem C12_foreign_tear_history :
  forall b64enc b64dec marshal unmarshal, base64_ok b64enc b64dec -> json_ok marshal unmarshal ->
  forall (fs : fsys) (l : loader) (s : session) (t : N) (k : nat) (t' : N) (n m : nat),
    l_path l <> [] -> dirs fs (go_dir (l_path l)) = DDir -> session_ok s = true ->
    (k < length (render b64enc marshal s))%nat -> t' <> t ->
    run b64enc b64dec marshal unmarshal fs l
      ([OStore s t; OLoad; OTear k t'] ++ repeat OLoad n ++ OFresh :: repeat OLoad m)
    = [ObsStore (Ok tt); ObsLoad (LOk s); ObsNone] ++ repeat (ObsLoad LErr) n
      ++ ObsNone :: repeat (ObsLoad LErr) m.
Proof. intros ? ? ? ? [? ?] [? ?]. intros. now apply tear_history. Qed.
Print Assumptions C12_foreign_tear_history.

(* Another loader stores a complete session carrying a DIFFERENT time - later, or earlier (a file
   restored from a backup, cp -p, os.Chtimes): the surviving loader returns it. *)
Theorem C12_foreign_store_other_time_wins :
  forall b64enc b64dec marshal unmarshal, base64_ok b64enc b64dec -> json_ok marshal unmarshal ->
  forall (fs : fsys) (l : loader) (a b : session) (t t' : N) (n : nat),
    l_path l <> [] -> dirs fs (go_dir (l_path l)) = DDir ->
    session_ok a = true -> session_ok b = true -> t' <> t ->
    run b64enc b64dec marshal unmarshal fs l ([OStore a t; OLoad; OForeign b t'] ++ repeat OLoad n)
    = [ObsStore (Ok tt); ObsLoad (LOk a); ObsNone] ++ repeat (ObsLoad (LOk b)) n.
Proof. intros ? ? ? ? [? ?] [? ?]. intros. now apply foreign_differs_wins. Qed.
Print Assumptions C12_foreign_store_other_time_wins.

(* EXACTLY what the code does when another writer's change carries the very time the surviving
   loader cached at (same tick, or a time set back to it with os.Chtimes): the change is invisible to that loader - it keeps returning the session it
   stored and read back itself (never anything else, never a panic) - while a new loader sees the
   file as it is (the foreign session, resp. an error for the cut file).  This is the limit of a
   cache keyed on the modification time; the clause "a cut file is an error" holds for a
   surviving loader only when the cut carries another time (C12_torn_every_load_is_error). *)
Theorem C12_foreign_equal_tick_unseen :
  forall b64enc b64dec marshal unmarshal, base64_ok b64enc b64dec -> json_ok marshal unmarshal ->
  forall (fs : fsys) (l : loader) (a b : session) (t : N) (k : nat),
    l_path l <> [] -> dirs fs (go_dir (l_path l)) = DDir ->
    session_ok a = true -> session_ok b = true -> (k < length (render b64enc marshal a))%nat ->
    run b64enc b64dec marshal unmarshal fs l [OStore a t; OLoad; OForeign b t; OLoad; OFresh; OLoad]
    = [ObsStore (Ok tt); ObsLoad (LOk a); ObsNone; ObsLoad (LOk a); ObsNone; ObsLoad (LOk b)]
    /\ run b64enc b64dec marshal unmarshal fs l [OStore a t; OLoad; OTear k t; OLoad; OFresh; OLoad]
    = [ObsStore (Ok tt); ObsLoad (LOk a); ObsNone; ObsLoad (LOk a); ObsNone; ObsLoad LErr].
Proof. intros ? ? ? ? [? ?] [? ?]. intros. now apply foreign_equal_tick_unseen. Qed.
Print Assumptions C12_foreign_equal_tick_unseen.

(* ... and end to end from any state: store, crash at byte k, restart, load. *)
Theorem C12_store_crash_load :
  forall b64enc b64dec marshal unmarshal, base64_ok b64enc b64dec -> json_ok marshal unmarshal ->
  forall (fs : fsys) (l : loader) (s : session) (t t' : N) (k : nat),
    l_path l <> [] -> dirs fs (go_dir (l_path l)) = DDir -> session_ok s = true ->
    (k < length (render b64enc marshal s))%nat ->
    run b64enc b64dec marshal unmarshal fs l [OStore s t; OCrash k t'; OLoad]
    = [ObsStore (Ok tt); ObsNone; ObsLoad LErr].
Proof. intros ? ? ? ? [? ?] [? ?]. intros. now apply store_crash_load. Qed.
Print Assumptions C12_store_crash_load.

(* Salt: all 2^64 values.  int64 -> uint64 -> 8 little-endian bytes -> back. *)
Theorem C12_salt_codec :
  (forall z, int64_ok z = true ->
     length (salt_enc z) = 8%nat /\ bytes_ok (salt_enc z) = true /\ salt_dec (salt_enc z) = Ok z)
  /\ (forall n, n < 18446744073709551616 -> exists z, int64_ok z = true /\ salt_enc z = le64 n).
Proof.
  split; [intros z H; auto using salt_enc_length, salt_enc_bytes_ok, salt_roundtrip|exact salt_enc_surjective].
Qed.
Print Assumptions C12_salt_codec.

Example C12_salt_examples :
  salt_enc 0 = [0;0;0;0;0;0;0;0] /\ salt_enc 1 = [1;0;0;0;0;0;0;0]
  /\ salt_enc (-1) = [255;255;255;255;255;255;255;255]
  /\ salt_enc (-9223372036854775808) = [0;0;0;0;0;0;0;128]
  /\ salt_enc 9223372036854775807 = [255;255;255;255;255;255;255;127]
  /\ salt_dec [0;0;0;0;0;0;0;128] = Ok (-9223372036854775808)%Z
  /\ salt_dec [1;2;3] = Panic.
Proof. vm_compute. repeat split. Qed.
Print Assumptions C12_salt_examples.

(* The session codec on its own: what Store writes, Load parses back - any key and hash bytes,
   any int64 salt, any valid UTF-8 host name. *)
Theorem C12_codec_roundtrip :
  forall b64enc b64dec marshal unmarshal, base64_ok b64enc b64dec -> json_ok marshal unmarshal ->
  forall s, session_ok s = true -> parse b64dec unmarshal (render b64enc marshal s) = Ok s.
Proof. intros ? ? ? ? [? ?] [? ?]. now apply parse_render. Qed.
Print Assumptions C12_codec_roundtrip.

(* FULL STATEMENT of the property text ("server address - any byte values ... read back identically"):
     forall s, session_bytes_ok s = true -> parse (render s) = Ok s          (no condition on s_host)
   It does NOT hold for the code: encoding/json coerces a string to valid UTF-8 when it marshals it
   (every byte at which no valid sequence starts becomes U+FFFD; [coerce_utf8], compared with the real
   encoder on every host name of every run).  With encoding/json taken as it is ([json_go_ok]:
   unmarshal (marshal t) = coerce_tsf t) what comes back is the session with the host name coerced,
   silently - C12_codec_any_host - and C12_hostname_not_utf8_refuted exhibits a session
   ("t\xffme:443") that a store followed by a load of the same loader turns into a different one.
   [session_ok] (host name valid UTF-8) is the exact guard under which the round trip IS proved
   (C12_codec_roundtrip, C12_last_store_wins, ...): for such hosts coerce_utf8 is the identity
   (coerce_valid_id), and json_ok is json_go_ok restricted to them (json_go_ok_json_ok).
   Known finding key=store-load:hostname-invalid-utf8 (KNOWN_FINDINGS.txt), not repaired. *)
Theorem C12_codec_any_host :
  forall b64enc b64dec marshal unmarshal, base64_ok b64enc b64dec -> json_go_ok marshal unmarshal ->
  forall s, session_bytes_ok s = true ->
    parse b64dec unmarshal (render b64enc marshal s) = Ok (coerce_session s).
Proof. intros ? ? ? ? [? ?] [? ?]. intros. now apply parse_render_any_host. Qed.
Print Assumptions C12_codec_any_host.

Theorem C12_hostname_not_utf8_refuted :
  forall b64enc b64dec marshal unmarshal, base64_ok b64enc b64dec -> json_go_ok marshal unmarshal ->
  forall (fs : fsys) (l : loader) (t : N), dirs fs (go_dir (l_path l)) = DDir ->
  exists s s', session_bytes_ok s = true /\
    run b64enc b64dec marshal unmarshal fs l [OStore s t; OLoad] = [ObsStore (Ok tt); ObsLoad (LOk s')] /\
    s' <> s.
Proof. exact hostname_not_utf8_refuted. Qed.
Print Assumptions C12_hostname_not_utf8_refuted.

Example C12_coerce_examples :
  coerce_utf8 [116; 255; 109; 101] = [116; 239; 191; 189; 109; 101]                  (* "t\xffme" *)
  /\ coerce_utf8 [226; 130] = [239; 191; 189; 239; 191; 189]                          (* truncated sequence: one per byte *)
  /\ coerce_utf8 [237; 160; 128] = [239; 191; 189; 239; 191; 189; 239; 191; 189]      (* surrogate *)
  /\ coerce_utf8 [208; 191; 240; 159; 166; 138] = [208; 191; 240; 159; 166; 138]      (* valid: unchanged *)
  /\ json_go_ok toy_go_marshal toy_unmarshal.                                         (* json_go_ok is satisfiable *)
Proof. repeat split; try (vm_compute; reflexivity); apply toy_go_json_ok. Qed.
Print Assumptions C12_coerce_examples.

(* The executable base64 used in the model runs satisfies what is assumed of base64. *)
Theorem C12_base64_model : base64_ok b64_encode b64_decode.
Proof. exact base64_model_ok. Qed.
Print Assumptions C12_base64_model.

(* The hypotheses are satisfiable (toy JSON: four lengths then the four strings). *)
Example C12_hypotheses_satisfiable :
  base64_ok b64_encode b64_decode /\ json_ok toy_marshal toy_unmarshal.
Proof. split; [exact base64_model_ok|exact toy_json_ok]. Qed.
Print Assumptions C12_hypotheses_satisfiable.

(* Restart: FULL statement of the property - "a client started on a store that holds a session
   resumes with that key, salt and address without a new key exchange" - needs the client
   transition system and a server (C16 work package).  Proved here, hence _partial: the decision
   NewMTProto takes.  After any Store the next NewMTProto is encrypted (CreateConnection runs
   makeAuthKey only when not encrypted) and carries exactly the stored key, hash, salt and
   address; on an absent file it is unencrypted with the configured address; on a torn file it
   fails. *)
Theorem C12_resume_partial :
  forall b64enc b64dec marshal unmarshal, base64_ok b64enc b64dec -> json_ok marshal unmarshal ->
  (forall (fs : fsys) (l : loader) (s : session) (t : N) (host : bytes),
     l_path l <> [] -> dirs fs (go_dir (l_path l)) = DDir -> session_ok s = true ->
     run b64enc b64dec marshal unmarshal fs l [OStore s t; OClient host]
     = [ObsStore (Ok tt); ObsClient (Ok (mkClient true (s_key s) (s_hash s) (s_salt s) (s_host s)))])
  /\ (forall (p host : bytes) (fs : fsys) (st : istate),
     p <> [] -> dirs fs (go_dir p) = DDir -> file_is b64enc marshal fs p st ->
     fst (new_mtproto b64dec unmarshal fs p host) = client_decide host (ideal_load b64enc marshal st)).
Proof.
  intros ? ? ? ? [? ?] [? ?]. split.
  - intros. now apply resume_after_store.
  - intros. now apply resume_decision.
Qed.
Print Assumptions C12_resume_partial.

(* Why Store has to drop the cache (the defect of the pinned tree): with the cache kept,
   store A, load, store B on the same modification-time tick, load returns A. *)
Example C12_cache_needs_invalidation :
  let sA := mkSession [1] [2] 3 [104] in
  let sB := mkSession [9] [8] 7 [104] in
  let fs0 := mkFs (fun _ => None) (fun _ => DDir) in
  let st := store_keep_cache b64_encode toy_marshal in
  let ld := load b64_decode toy_unmarshal in
  let '(_, fs1, l1) := st fs0 (fresh [120]) sA 5 in
  let '(_, l2) := ld fs1 l1 in
  let '(_, fs3, l3) := st fs1 l2 sB 5 in
  fst (ld fs3 l3) = LOk sA
  /\ run b64_encode b64_decode toy_marshal toy_unmarshal fs0 (fresh [120])
       [OStore sA 5; OLoad; OStore sB 5; OLoad]
     = [ObsStore (Ok tt); ObsLoad (LOk sA); ObsStore (Ok tt); ObsLoad (LOk sB)].
Proof. vm_compute. split; reflexivity. Qed.
Print Assumptions C12_cache_needs_invalidation.

(* ---- restart, through the client's transition system -----------------------------------------------
   The full statement of the property's last clause, composed from the decision above and the client of
   Client/Live.v (C16_key_exchange_once): store a session; start a client on that store; then in EVERY
   history of that client - any calls, any server traffic, any number of closed connections and
   reconnects - no key exchange runs and no unencrypted frame is written, and the client is keyed
   throughout.  On a store that holds nothing the first thing that can happen is the key exchange.
   [live_config cl]: the configuration the transition system starts in for the MTProto value [cl]
   NewMTProto built (m.encrypted decides whether CreateConnection runs makeAuthKey).
   The salt VALUE is relative in Client/Live.v (it starts the history as 0 and is followed from there), so
   that the restored salt is the one on the wire is stated by C12_resume_partial / Props/C12m.v and
   observed live (harness e2e resume), not here. *)
From MTV Require Import Client.Model Client.Live Client.LiveInv Client.Alive.

Definition live_config (cl : client) : config :=
  {| cf_warn := WNil; cf_handler := false; cf_keyed := c_encrypted cl |}.

Theorem C12_resume_in_every_history :
  forall b64enc b64dec marshal unmarshal, base64_ok b64enc b64dec -> json_ok marshal unmarshal ->
  forall (fs : fsys) (l : loader) (s : session) (t : N) (host : bytes),
    l_path l <> [] -> dirs fs (go_dir (l_path l)) = DDir -> session_ok s = true ->
    exists cl,
      Session.run b64enc b64dec marshal unmarshal fs l [OStore s t; OClient host] = [ObsStore (Ok tt); ObsClient (Ok cl)] /\
      cl = mkClient true (s_key s) (s_hash s) (s_salt s) (s_host s) /\
      forall ls st, run2 (init2 (live_config cl)) ls = Some st ->
        keyed st = true /\ keyex st = O /\ plain_out st = O.
Proof.
  intros b64enc b64dec marshal unmarshal HB HJ fs l s t host HP HD HS.
  destruct (C12_resume_partial b64enc b64dec marshal unmarshal HB HJ) as [R _].
  exists (mkClient true (s_key s) (s_hash s) (s_salt s) (s_host s)).
  split; [exact (R fs l s t host HP HD HS)|]. split; [reflexivity|].
  intros ls st H. destruct (keyex_once _ ls st H) as (P & _ & K & _).
  destruct (K eq_refl) as [K0 K1]. split; [exact K1|]. split; [exact K0|].
  rewrite P, K0. reflexivity.
Qed.
Print Assumptions C12_resume_in_every_history.

(* ... and the client started on an empty store is not keyed: nothing but the key exchange is enabled *)
Theorem C12_fresh_client_exchanges_keys_first : forall host l st,
  step2 (init2 (live_config (mkClient false [] [] 0%Z host))) l = Some st ->
  exists x, l = LKeyEx x /\ keyed st = true /\ keyex st = 1%nat.
Proof.
  intros host l st H. unfold step2, step2i in H. cbn [keyed init2 live_config cf_keyed c_encrypted] in H.
  destruct l as [l1| |x]; cbn in H; try discriminate.
  exists x. injection H as <-. split; [reflexivity|]. split; reflexivity.
Qed.
Print Assumptions C12_fresh_client_exchanges_keys_first.
