(* Composition across properties: what the separate theorems give together for one request.
   A request value of a schema-defined type, marshalled by the client (C01/C02 model), sealed in the
   MTProto 1.0 envelope (C03 model), is opened by a conformant server to exactly the marshalled
   bytes; those bytes are the serialisation the schema defines for the value, and a TL decoder of
   the same schema reads the value back.  Statements only. *)
From Coq Require Import ZArith NArith List.
From Coq Require Import Lia.
From MTV Require Import Base.Bytes Base.Outcome TL.Types TL.Codec TL.Typing TL.TLText TL.Match TL.Spec
  TL.RoundTrip TL.SpecProofs TL.NPPost Crypto.Envelope Crypto.EnvelopeProofs Props.C03
  Transport.Framing Transport.FramingProofs Transport.TrDelivery Props.C08.
Import ListNotations.
Open Scope N_scope.

Theorem request_reaches_a_conformant_server :
  forall (U : universe) (S : list comb) tbl inflate sha1 ige_e ige_d,
  pseudo_ok U = true ->
  sha1_20 sha1 -> ige_keeps_length ige_e -> ige_inverts ige_e ige_d ->
  forall tid fs body key salt sid msgid seq ack,
  all_in_schema U S tbl (VObj tid fs) = true ->
  wt U (TIface 0) (VObj tid fs) = true ->
  enc U (VObj tid fs) = Ok body ->
  (128 <= length key)%nat -> salt < 2 ^ 64 -> sid < 2 ^ 64 -> msgid < 2 ^ 64 -> seq < 2 ^ 32 ->
  N.of_nat (length body) < 2 ^ 31 ->
  exists pkt,
    (* the client's packet ... *)
    seal_client sha1 ige_e key salt sid msgid seq ack body = Ok pkt /\
    (* ... is opened by the server to the fields and the body that went in, *)
    open_server sha1 ige_d key pkt = Some (salt, sid, msgid, seq_ack seq ack, body) /\
    (* the body is the TL serialisation the schema line defines for the value, *)
    spec S (abs U (VObj tid fs)) = Some body /\
    (* and decoding it by constructor id gives the value back *)
    exists f0, forall f, (f0 <= f)%nat -> decode_unknown U inflate f [] body = DOk (norm U (VObj tid fs)).
Proof.
  intros U S tbl inflate sha1 ige_e ige_d Hp H1 H2 H3 tid fs body key salt sid msgid seq ack Hs Hw He Hk Hsalt Hsid Hmid Hseq Hb.
  destruct (C03_server_opens_client sha1 ige_e ige_d H1 H2 H3 key salt sid msgid seq ack body Hk Hsalt Hsid Hmid Hseq Hb)
    as [pkt [Hseal [Hopen _]]].
  exists pkt. split; [exact Hseal|]. split; [exact Hopen|].
  split; [exact (encode_is_spec U S tbl (VObj tid fs) body Hs He)|].
  exact (roundtrip_unknown U inflate Hp tid fs body Hw He).
Qed.
Print Assumptions request_reaches_a_conformant_server.

(* ---------------------------------------------------------------------------------------------
   The other direction: what a conformant server sends reaches the client's decoder.
   A server built from the same schema marshals the values v_1..v_n, seals each for the client
   (any salt / session / msg_id of server parity / seq_no, any admissible padding), frames the
   packets in the connection's transport mode and writes them; TCP hands the bytes to the client in
   ANY segmentation.  Then transport.ReadMsg returns exactly the n packets (none is taken for an
   error code) and then end-of-stream (C08 model); each packet is opened to the fields and the body
   that went in (C03/C04 model); each body decodes to the value the server marshalled (C01 model). *)
Record response := {
  r_salt : N; r_sid : N; r_msgid : N; r_seq : N; r_pad : bytes;
  r_tid : N; r_fs : list gval; r_body : bytes }.

Definition response_ok (U : universe) (r : response) : Prop :=
  r_salt r < 2 ^ 64 /\ r_sid r < 2 ^ 64 /\ r_msgid r < 2 ^ 64 /\ r_seq r < 2 ^ 32 /\
  server_parity (r_msgid r) = true /\ pad_ok (r_body r) (r_pad r) = true /\
  N.of_nat (length (r_body r)) < 2 ^ 25 /\
  wt U (TIface 0) (VObj (r_tid r) (r_fs r)) = true /\ enc U (VObj (r_tid r) (r_fs r)) = Ok (r_body r).

Definition sealed sha1 ige_e key (r : response) : bytes :=
  seal_server sha1 ige_e key (r_salt r) (r_sid r) (r_msgid r) (r_seq r) (r_body r) (r_pad r).

Lemma sealed_length sha1 ige_e key r :
  sha1_20 sha1 -> ige_keeps_length ige_e -> pad_ok (r_body r) (r_pad r) = true ->
  length (sealed sha1 ige_e key r) = (56 + length (r_body r) + length (r_pad r))%nat.
Proof.
  intros H1 H2 Hpad. unfold sealed, seal_server, spec_seal.
  set (plain := le64 (r_salt r) ++ le64 (r_sid r) ++ le64 (r_msgid r) ++ le32 (r_seq r)
                ++ le32 (N.of_nat (length (r_body r))) ++ r_body r).
  pose proof (kiv_spec_lengths sha1 H1 (dir_x false) key (spec_msg_key sha1 plain)) as [_ Hiv].
  destruct (kiv_spec sha1 (dir_x false) key (spec_msg_key sha1 plain)) as [k iv]. cbn [snd] in Hiv.
  assert (Hpl : length plain = (32 + length (r_body r))%nat).
  { unfold plain. rewrite !app_length, !le64_length, !le32_length. lia. }
  unfold pad_ok in Hpad. apply andb_prop in Hpad as [_ Hal]. apply PeanoNat.Nat.eqb_eq in Hal.
  rewrite !app_length, (spec_key_id_is sha1 H1), (auth_key_id_length sha1 H1),
    (spec_msg_key_is sha1 H1), (msg_key_length sha1 H1).
  rewrite H2; [rewrite app_length, Hpl; lia|exact Hiv|rewrite app_length, Hpl; exact Hal].
Qed.
Print Assumptions sealed_length.

Theorem response_reaches_the_client :
  forall (U : universe) inflate sha1 ige_e ige_d v key (rs : list response) chunks,
  pseudo_ok U = true ->
  sha1_20 sha1 -> ige_keeps_length ige_e -> ige_inverts ige_e ige_d ->
  (136 <= length key)%nat ->
  Forall (response_ok U) rs ->
  concat chunks = concat (map (frame v) (map (sealed sha1 ige_e key) rs)) ->
  (* the transport hands over exactly the sealed packets, in order, then end of stream *)
  tr_stream v chunks = Some (map TData (map (sealed sha1 ige_e key) rs), EEof) /\
  (* and each of them is opened and decoded to what the server put in *)
  Forall (fun r =>
    exists m, open_client sha1 ige_d key (sealed sha1 ige_e key r) = Ok m /\
      fields_of m = (r_salt r, r_sid r, r_msgid r, r_seq r, r_body r) /\
      exists f0, forall f, (f0 <= f)%nat ->
        decode_unknown U inflate f [] (e_body m) = DOk (norm U (VObj (r_tid r) (r_fs r)))) rs.
Proof.
  intros U inflate sha1 ige_e ige_d v key rs chunks Hp H1 H2 H3 Hk Hrs Hc. split.
  - apply tr_delivery; [| |exact Hc].
    + apply Forall_forall. intros pkt Hin. apply in_map_iff in Hin as [r [<- Hr]].
      rewrite Forall_forall in Hrs. destruct (Hrs r Hr) as (_ & _ & _ & _ & _ & Hpad & Hb & _).
      pose proof (sealed_length sha1 ige_e key r H1 H2 Hpad) as HL.
      unfold pad_ok in Hpad. apply andb_prop in Hpad as [Hlt Hal].
      apply PeanoNat.Nat.ltb_lt in Hlt. apply PeanoNat.Nat.eqb_eq in Hal.
      assert (H16 : exists q, (32 + length (r_body r) + length (r_pad r) = 16 * q)%nat).
      { exists ((32 + length (r_body r) + length (r_pad r)) / 16)%nat.
        pose proof (PeanoNat.Nat.div_mod (32 + length (r_body r) + length (r_pad r)) 16 ltac:(lia)). lia. }
      destruct H16 as [q Hq].
      change (2 ^ 25) with 33554432 in Hb.
      destruct v; cbn [carriable]; unfold blen; rewrite HL.
      * replace (56 + length (r_body r) + length (r_pad r))%nat with (4 * (4 * q + 6))%nat by lia.
        rewrite Nat2N.inj_mul. change (N.of_nat 4) with 4.
        rewrite N.mul_comm, N.mod_mul by lia. rewrite N.div_mul by lia. split; [reflexivity|lia].
      * lia.
    + apply Forall_forall. intros pkt Hin. apply in_map_iff in Hin as [r [<- Hr]].
      rewrite Forall_forall in Hrs. destruct (Hrs r Hr) as (_ & _ & _ & _ & _ & Hpad & _).
      unfold blen. rewrite (sealed_length sha1 ige_e key r H1 H2 Hpad). lia.
  - apply Forall_forall. intros r Hr. rewrite Forall_forall in Hrs.
    destruct (Hrs r Hr) as (Hsalt & Hsid & Hmid & Hseq & Hpar & Hpad & Hb & Hw & He).
    assert (Hb31 : N.of_nat (length (r_body r)) < 2 ^ 31).
    { eapply N.lt_trans; [exact Hb|reflexivity]. }
    destruct (C03_client_opens_server sha1 ige_e ige_d H1 H2 H3 key (r_salt r) (r_sid r) (r_msgid r) (r_seq r)
                (r_body r) (r_pad r) Hk Hsalt Hsid Hmid Hseq Hb31 Hpar Hpad) as [m [Hopen [Hf _]]].
    exists m. split; [exact Hopen|]. split; [exact Hf|].
    assert (Hbody : e_body m = r_body r). { unfold fields_of in Hf. congruence. }
    rewrite Hbody. exact (roundtrip_unknown U inflate Hp (r_tid r) (r_fs r) (r_body r) Hw He).
Qed.
Print Assumptions response_reaches_the_client.

(* the premises are satisfiable: a one-constructor universe  c#64 a:int s:string v:Vector<long> = T *)
Definition cxU : universe := {|
  u_structs := [ {| s_crc := Some 100; s_flagidx := None;
                    s_fields := [ {| f_ty := TI32; f_tag := TagNone |}; {| f_ty := TStr; f_tag := TagNone |};
                                  {| f_ty := TVec TI64; f_tag := TagNone |} ];
                    s_impls := [0%N] |} ];
  u_enum_impls := [];
  u_reg := [(100%N, RStruct 0)];
  u_true := 7; u_false := 8; u_null := 9 |}.
Definition cx_body : bytes :=
  [100; 0; 0; 0;  7; 0; 0; 0;  3; 97; 98; 99;  21; 196; 181; 28;  1; 0; 0; 0;  5; 0; 0; 0; 0; 0; 0; 0].
Definition cx_resp : response :=
  {| r_salt := 5; r_sid := 6; r_msgid := 4294967297; r_seq := 3; r_pad := [1; 2; 3; 4];
     r_tid := 0; r_fs := [VInt 7; VStr [97; 98; 99]; VVec false [VLong 5]]; r_body := cx_body |}.
Example response_ok_instance : pseudo_ok cxU = true /\ response_ok cxU cx_resp.
Proof. split; [vm_compute; reflexivity|]. unfold response_ok, cx_resp. cbn [r_salt r_sid r_msgid r_seq r_pad r_tid r_fs r_body].
  repeat split; vm_compute; reflexivity. Qed.
Print Assumptions response_ok_instance.

(* ---------------------------------------------------------------------------------------------
   The request of the first theorem, now ON THE WIRE: the client's transport frames the sealed packet in
   the connection's mode behind whatever it has framed before ([pre]: the three plain messages of the
   key exchange, earlier requests, acknowledgements) and TCP delivers the byte stream to the server in ANY
   segmentation.  Then the server's reader recognises the mode and returns exactly those frames, the last
   of which is the packet (C08 model); it opens to the fields and the body that went in (C03 model); the
   body is the schema's serialisation of the value and decodes to it (C02 / C01 model).
   Bodies below 2^25 bytes (what the abridged length field can carry once sealed). *)
Lemma sealed_request_carriable v (pkt body : bytes) :
  length pkt = (24 + 32 + length body + pad_amount (32 + length body))%nat ->
  N.of_nat (length body) < 2 ^ 25 -> carriable v pkt.
Proof.
  intros HL Hb. change (2 ^ 25) with 33554432 in Hb.
  pose proof (pad_amount_lt (32 + length body)) as Hp.
  pose proof (pad_amount_aligned (32 + length body)) as Ha.
  assert (H16 : exists q, (32 + length body + pad_amount (32 + length body) = 16 * q)%nat).
  { exists ((32 + length body + pad_amount (32 + length body)) / 16)%nat.
    pose proof (PeanoNat.Nat.div_mod (32 + length body + pad_amount (32 + length body)) 16 ltac:(lia)). lia. }
  destruct H16 as [q Hq].
  destruct v; cbn [carriable]; unfold blen; rewrite HL.
  - replace (24 + 32 + length body + pad_amount (32 + length body))%nat with (4 * (4 * q + 6))%nat by lia.
    rewrite Nat2N.inj_mul. change (N.of_nat 4) with 4.
    rewrite N.mul_comm, N.mod_mul by lia. rewrite N.div_mul by lia. split; [reflexivity|lia].
  - lia.
Qed.
Print Assumptions sealed_request_carriable.

Theorem request_crosses_the_wire :
  forall (U : universe) (S : list comb) tbl inflate sha1 ige_e ige_d,
  pseudo_ok U = true ->
  sha1_20 sha1 -> ige_keeps_length ige_e -> ige_inverts ige_e ige_d ->
  forall tid fs body key salt sid msgid seq ack,
  all_in_schema U S tbl (VObj tid fs) = true ->
  wt U (TIface 0) (VObj tid fs) = true ->
  enc U (VObj tid fs) = Ok body ->
  (128 <= length key)%nat -> salt < 2 ^ 64 -> sid < 2 ^ 64 -> msgid < 2 ^ 64 -> seq < 2 ^ 32 ->
  N.of_nat (length body) < 2 ^ 25 ->
  exists pkt,
    seal_client sha1 ige_e key salt sid msgid seq ack body = Ok pkt /\
    (* whatever was framed before it, however TCP cuts the stream: the server's reader returns the frames, *)
    (forall v pre chunks, Forall (carriable v) pre -> concat chunks = wire v (pre ++ [pkt]) ->
       read_stream chunks = Some {| d_mode := Some v; d_msgs := pre ++ [pkt]; d_end := EEof |}) /\
    (* the last one opens to what went in, *)
    open_server sha1 ige_d key pkt = Some (salt, sid, msgid, seq_ack seq ack, body) /\
    (* which is the schema's serialisation of the value and decodes to it *)
    spec S (abs U (VObj tid fs)) = Some body /\
    exists f0, forall f, (f0 <= f)%nat -> decode_unknown U inflate f [] body = DOk (norm U (VObj tid fs)).
Proof.
  intros U S tbl inflate sha1 ige_e ige_d Hp H1 H2 H3 tid fs body key salt sid msgid seq ack Hs Hw He Hk Hsalt Hsid Hmid Hseq Hb.
  assert (Hb31 : N.of_nat (length body) < 2 ^ 31) by (eapply N.lt_trans; [exact Hb|reflexivity]).
  destruct (C03_server_opens_client sha1 ige_e ige_d H1 H2 H3 key salt sid msgid seq ack body Hk Hsalt Hsid Hmid Hseq Hb31)
    as [pkt [Hseal [Hopen [HL _]]]].
  exists pkt. split; [exact Hseal|]. split.
  - intros v pre chunks Hpre Hc. apply C08_delivery; [|exact Hc].
    apply Forall_app. split; [exact Hpre|]. constructor; [|constructor].
    exact (sealed_request_carriable v pkt body HL Hb).
  - split; [exact Hopen|]. split; [exact (encode_is_spec U S tbl (VObj tid fs) body Hs He)|].
    exact (roundtrip_unknown U inflate Hp tid fs body Hw He).
Qed.
Print Assumptions request_crosses_the_wire.
