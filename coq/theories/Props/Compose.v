(* Composition across properties: what the separate theorems give together for one request.
   A request value of a schema-defined type, marshalled by the client (C01/C02 model), sealed in the
   MTProto 1.0 envelope (C03 model), is opened by a conformant server to exactly the marshalled
   bytes; those bytes are the serialisation the schema defines for the value, and a TL decoder of
   the same schema reads the value back.  Statements only. *)
From Coq Require Import ZArith NArith List.
From MTV Require Import Base.Bytes Base.Outcome TL.Types TL.Codec TL.Typing TL.TLText TL.Match TL.Spec
  TL.RoundTrip TL.SpecProofs Crypto.Envelope Crypto.EnvelopeProofs Props.C03.
Import ListNotations.
Open Scope N_scope.

Theorem request_reaches_a_conformant_server :
  forall (U : universe) (S : list comb) tbl inflate sha1 ige_e ige_d,
  pseudo_ok U = true ->
  sha1_20 sha1 -> ige_keeps_length ige_e -> ige_inverts ige_e ige_d ->
  forall tid fs body key salt sid msgid seq ack,
  all_in_schema U S tbl (VObj tid fs) = true ->
  wt U (TIface 0) (VObj tid fs) = true ->
  enc U (VObj tid fs) = Ok body ->
  (128 <= length key)%nat -> salt < 2 ^ 64 -> sid < 2 ^ 64 -> msgid < 2 ^ 64 -> seq < 2 ^ 32 ->
  N.of_nat (length body) < 2 ^ 31 ->
  exists pkt,
    (* the client's packet ... *)
    seal_client sha1 ige_e key salt sid msgid seq ack body = Ok pkt /\
    (* ... is opened by the server to the fields and the body that went in, *)
    open_server sha1 ige_d key pkt = Some (salt, sid, msgid, seq_ack seq ack, body) /\
    (* the body is the TL serialisation the schema line defines for the value, *)
    spec S (abs U (VObj tid fs)) = Some body /\
    (* and decoding it by constructor id gives the value back *)
    exists f0, forall f, (f0 <= f)%nat -> decode_unknown U inflate f [] body = DOk (norm U (VObj tid fs)).
Proof.
  intros U S tbl inflate sha1 ige_e ige_d Hp H1 H2 H3 tid fs body key salt sid msgid seq ack Hs Hw He Hk Hsalt Hsid Hmid Hseq Hb.
  destruct (C03_server_opens_client sha1 ige_e ige_d H1 H2 H3 key salt sid msgid seq ack body Hk Hsalt Hsid Hmid Hseq Hb)
    as [pkt [Hseal [Hopen _]]].
  exists pkt. split; [exact Hseal|]. split; [exact Hopen|].
  split; [exact (encode_is_spec U S tbl (VObj tid fs) body Hs He)|].
  exact (roundtrip_unknown U inflate Hp tid fs body Hw He).
Qed.
Print Assumptions request_reaches_a_conformant_server.
