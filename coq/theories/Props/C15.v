(* C15 - decoding arbitrary bytes is total.  Statements only; proofs in TL/NoPanic.v, TL/Total.v
   (added when those files land). *)
From Coq Require Import NArith List.
From MTV Require Import Base.Bytes Base.Outcome TL.Types TL.Codec TL.Typing.
Import ListNotations.
Open Scope N_scope.

(* reading a byte string never reads past the input and never returns more than it holds *)
Theorem C15_take_bounded : forall n l a r, take n l = Some (a, r) -> n <= blen l /\ l = a ++ r.
Proof.
  intros n l a r. unfold take. destruct l as [|x l']; [discriminate|].
  destruct (N.ltb_spec (blen (x :: l')) n); [discriminate|]. intros [= <- <-].
  split; [assumption|]. symmetry. apply firstn_skipn.
Qed.
Print Assumptions C15_take_bounded.
