(* C15 - Decoding arbitrary bytes always ends in a value or an error, never a panic.
   Statements only; proofs in TL/NoPanic.v, TL/Total.v (helper TL/NPPost.v).

   dec/decode_unknown/decode_named: the decoder model of TL/Codec.v, every Go panic site an
   explicit DPanic, recursion on fuel with DFuel when it runs out.
   np_universe: decidable condition on the type descriptors (a type with conditional fields has a
   flags index within its fields; pointer fields point to types with an id); re-proved on the
   registry regenerated from the tree in Inst/C15i.v.   hints_ok: vector hints are slice types.
   inflate: compress/gzip as an arbitrary oracle. *)
From Coq Require Import NArith List.
From MTV Require Import Base.Bytes Base.Outcome TL.Types TL.Codec TL.Typing TL.NPPost TL.NoPanic TL.Total.
Import ListNotations.
Open Scope N_scope.

(* never panics: for all bytes, hints, universes meeting np_universe, gzip oracles and fuel *)
Theorem C15_no_panic_unknown : forall U inflate, np_universe U = true ->
  forall h, hints_ok U h = true -> forall fuel bs, decode_unknown U inflate fuel h bs <> DPanic.
Proof. exact decode_unknown_no_panic. Qed.
Print Assumptions C15_no_panic_unknown.

Theorem C15_no_panic_named : forall U inflate, np_universe U = true -> forall fuel tid bs,
  (match get_struct U tid with Some sd => s_crc sd <> None | None => True end) ->
  decode_named U inflate fuel tid bs <> DPanic.
Proof. exact decode_named_no_panic. Qed.
Print Assumptions C15_no_panic_named.

(* never loops: fuel linear in the input length always suffices (gzip apart) *)
Theorem C15_terminates : forall U inflate, (forall p, inflate p = None) -> forall h bs,
  decode_unknown U inflate (fuel_for U bs) h bs <> DFuel /\
  forall tid, decode_named U inflate (fuel_for U bs) tid bs <> DFuel.
Proof. exact dec_terminates_nogzip. Qed.
Print Assumptions C15_terminates.

(* with gzip: relative to the size B of what the oracle inflates and the nesting depth d of
   gzip_packed objects in the input; no bound in the outer input alone can exist (next theorem) *)
Theorem C15_terminates_gzip_relative : forall U inflate B d h bs,
  gz_depth_le inflate B d bs ->
  let fuel := ((d + 1) * fuel_len U (Nat.max B (length bs)))%nat in
  decode_unknown U inflate fuel h bs <> DFuel /\
  forall tid, decode_named U inflate fuel tid bs <> DFuel.
Proof. exact dec_terminates_gzip_relative. Qed.
Print Assumptions C15_terminates_gzip_relative.

Theorem C15_gzip_quine_is_out_of_reach : forall fuel, decode_unknown exU inflate_quine fuel [] quine = DFuel.
Proof. exact gzip_quine_defeats_any_fuel. Qed.
Print Assumptions C15_gzip_quine_is_out_of_reach.

(* never allocates out of proportion: a slice is sized from a wire count only after the count
   was compared with the unread bytes (4 per vector element, 16 per container message):
   the decoder instrumented with a trap on any larger request IS the decoder *)
Theorem C15_alloc_bounded : forall U inflate x fuel j s,
  dec_trap U inflate x fuel j s = dec U inflate fuel j s.
Proof. exact alloc_bounded_run. Qed.
Print Assumptions C15_alloc_bounded.

(* byte strings and raw reads never exceed what is left *)
Theorem C15_take_bounded : forall n bs a r, take n bs = Some (a, r) -> n <= blen bs /\ blen a = n /\ bs = a ++ r.
Proof. exact take_bounded. Qed.
Print Assumptions C15_take_bounded.

Theorem C15_pop_bytes_bounded : forall l m r, pop_bytes l = Some (m, r) -> (length m + length r <= length l)%nat.
Proof. exact pop_bytes_bounded. Qed.
Print Assumptions C15_pop_bytes_bounded.
