(* C12, resume - "a client started on a store that holds a session resumes with that key, salt and
   address without a new key exchange": the wire-level reading of the decision NewMTProto takes.
   Statements only; model Misc/SessionResume.v (first frame / dialled address / key exchange as
   functions of the MTProto value), proofs Misc/SessionResumeProofs.v and Misc/SessionProofs.v.
   Codec hypotheses [base64_ok], [json_ok] as in Props/C12.v.

   These are theorems about the pure decisions only (which envelope kind, which key id, salt and
   address).  That the real client behaves like [first_frame]/[dial_addr] on a live connection -
   and keeps doing so after the server closes the connection - is the correspondence checked by
   lib/props/c12m.py against the in-process reference server; the full transition-system
   statement (any interleaving of requests, closes and salt changes) belongs to C16. *)
From Coq Require Import ZArith NArith List Lia Bool.
From MTV Require Import Base.Bytes Base.Outcome Misc.Session Misc.SessionBase64 Misc.SessionProofs
  Misc.SessionResume Misc.SessionResumeProofs.
Import ListNotations.
Open Scope N_scope.

(* After any Store the next client needs no key exchange, its first frame is an encrypted envelope
   under the stored key id with the stored salt, it dials the stored address (not the configured
   one), holds the stored key, and a reconnect changes none of this. *)
Theorem C12_resume_wire :
  forall b64enc b64dec marshal unmarshal, base64_ok b64enc b64dec -> json_ok marshal unmarshal ->
  forall (fs : fsys) (l : loader) (s : session) (t : N) (host : bytes),
    l_path l <> [] -> dirs fs (go_dir (l_path l)) = DDir -> session_ok s = true ->
    exists c,
      run b64enc b64dec marshal unmarshal fs l [OStore s t; OClient host]
        = [ObsStore (Ok tt); ObsClient (Ok c)] /\
      key_exchange c = false /\
      first_frame c = WEncrypted (s_hash s) (s_salt s) /\
      dial_addr c = s_host s /\ c_key c = s_key s /\
      first_frame (reconnect c) = first_frame c /\ dial_addr (reconnect c) = dial_addr c /\
      forall k n f, In f (request_frames c k n) -> f = WEncrypted (s_hash s) (s_salt s).
Proof.
  intros ? ? ? ? [? ?] [? ?] fs l s t host Hne Hd Hs.
  exists (client_of s). split; [now apply resume_after_store|].
  destruct (loaded_wire s) as (A & B & C0 & D). repeat split; auto.
  intros k n f Hf. rewrite (request_frames_all _ _ _ _ Hf). exact B.
Qed.
Print Assumptions C12_resume_wire.

(* Whatever history produced the file (reference state [st]: absent, or the first n bytes of a
   stored session): complete file -> resume as above; absent -> the first frame is a plain req_pq
   to the configured address; cut short -> NewMTProto fails, no client exists, nothing is sent. *)
Theorem C12_restart_wire :
  forall b64enc b64dec marshal unmarshal, base64_ok b64enc b64dec -> json_ok marshal unmarshal ->
  forall (p host : bytes) (fs : fsys) (st : istate),
    p <> [] -> dirs fs (go_dir p) = DDir -> file_is b64enc marshal fs p st ->
    match ideal_load b64enc marshal st with
    | LOk s => exists c, fst (new_mtproto b64dec unmarshal fs p host) = Ok c /\
                 first_frame c = WEncrypted (s_hash s) (s_salt s) /\ dial_addr c = s_host s /\
                 key_exchange c = false /\ c_key c = s_key s
    | LNotFound => exists c, fst (new_mtproto b64dec unmarshal fs p host) = Ok c /\
                 first_frame c = WPlainReqPQ /\ dial_addr c = host /\ key_exchange c = true
    | LErr => fst (new_mtproto b64dec unmarshal fs p host) = Err
    | LPanic => fst (new_mtproto b64dec unmarshal fs p host) = Panic
    end.
Proof.
  intros ? ? ? ? [? ?] [? ?] p host fs st Hne Hd Hf.
  rewrite (resume_decision b64enc b64dec marshal unmarshal) with (st := st) by auto.
  exact (decide_cases host (ideal_load b64enc marshal st)).
Qed.
Print Assumptions C12_restart_wire.

(* A key exchange starts exactly when no session was loaded; and a key exchange is exactly a plain
   req_pq as first frame. *)
Theorem C12_key_exchange_iff_not_loaded : forall host r c,
  client_decide host r = Ok c ->
  (key_exchange c = false <-> exists s, r = LOk s) /\
  (key_exchange c = true <-> first_frame c = WPlainReqPQ).
Proof. intros host r c H. split; [now apply (decide_loaded_iff host)|apply key_exchange_iff_plain]. Qed.
Print Assumptions C12_key_exchange_iff_not_loaded.

(* the hypotheses are satisfiable: executable base64 + toy JSON; a concrete resume *)
Example C12_resume_wire_satisfiable :
  let s := mkSession [1; 2; 3] [9; 8] (-5)%Z [104; 58; 52] in
  let fs0 := mkFs (fun _ => None) (fun _ => DDir) in
  base64_ok b64_encode b64_decode /\ json_ok toy_marshal toy_unmarshal /\ session_ok s = true /\
  run b64_encode b64_decode toy_marshal toy_unmarshal fs0 (fresh [120]) [OStore s 5; OClient [111]]
    = [ObsStore (Ok tt); ObsClient (Ok (mkClient true [1; 2; 3] [9; 8] (-5)%Z [104; 58; 52]))] /\
  first_frame (mkClient true [1; 2; 3] [9; 8] (-5)%Z [104; 58; 52]) = WEncrypted [9; 8] (-5)%Z /\
  fst (new_mtproto b64_decode toy_unmarshal fs0 [120] [111]) = Ok (mkClient false [] [] 0%Z [111]) /\
  first_frame (mkClient false [] [] 0%Z [111]) = WPlainReqPQ.
Proof.
  cbv zeta. split; [exact base64_model_ok|]. split; [exact toy_json_ok|]. vm_compute. intuition.
Qed.
Print Assumptions C12_resume_wire_satisfiable.
