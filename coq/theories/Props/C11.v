(* C11 - Salt rotation: pending requests are retried, nothing stalls, salt is saved.
   Statements only; proofs in Client/Salt.v (rotation, routing), Client/Alive.v (no stall),
   Client/LiveOrigin.v (what was acted on was sent by the server).
   Model: Client/Live.v = Client/Model.v extended with the transitions of bad_server_salt,
   new_session_created, key exchange, connection close / reconnect; it describes mtproto.go / network.go
   AFTER the repairs of this work package (retry marker only to the waiter registered under bad_msg_id,
   whose table entry is removed with it; key-exchange requests are not put into the response table; a message
   that cannot be handled is acknowledged all the same and does not cut off the rest of its container).

   [run2 (init2 c) ls = Some s] quantifies over every history: any configuration c (resumed or freshly
   keyed session, any Warnings channel, handler or none), any number of callers, any interleaving of their
   steps with the receive loop, any clock, any server frames - hence any number k >= 0 of bad_server_salt
   messages at any moment, naming pending, answered or unknown ids, any number of times each.
   [wire (base s)]: all frames written so far, NEWEST FIRST; in [wire = post ++ w :: pre], [pre] are the
   frames written BEFORE w.  [adopt s]: the salt adoptions so far, newest first, each (salt, number of
   frames written before it, cause).  [rejected b i]: the receive loop ordered the waiter registered
   under msg id i to retry.  [on_call w t k]: frame w is a request of the k-th call of caller t. *)
From Coq Require Import ZArith List Bool.
From MTV Require Import Client.Model Client.StepLemmas Client.SeqNo Client.Routing Client.Origin
  Client.Live Client.LiveInv Client.Salt Client.Alive Client.LiveOrigin Client.LiveExamples.
Import ListNotations.
Open Scope Z_scope.

Theorem C11_rotation : forall c ls s, run2 (init2 c) ls = Some s ->
  (* the salt in force is the newest one adopted; every adoption (bad_server_salt, new_session_created,
     key exchange) was written to the session store, in order *)
  (salt (base s) = salt_at (length (wire (base s))) (adopt s) /\
   store (base s) = map entry_salt (adopt s)) /\
  (* every frame carries the salt of the newest adoption made before it was written *)
  (forall post w pre, wire (base s) = post ++ w :: pre -> w_salt w = salt_at (length pre) (adopt s)) /\
  (* a request is on the wire a second time (w2 after w1, same call) ONLY IF the earlier frame was rejected
     by a bad_server_salt naming exactly its msg id while its waiter was registered - so a request the
     server accepted is never written twice - and then the later frame was written after that adoption
     and carries its salt or the salt of a still newer adoption *)
  (forall w1 w2 post pre t k, wire (base s) = post ++ w2 :: pre -> In w1 (wire (base s)) ->
     on_call w1 t k -> on_call w2 t k -> w_id w1 < w_id w2 ->
     rejected (base s) (w_id w1) /\
     exists x m newer older, adopt s = newer ++ (x, m, CBadSalt (w_id w1) true) :: older /\
       (m <= length pre)%nat /\
       (w_salt w2 = x \/ exists e, In e newer /\ w_salt w2 = entry_salt e)) /\
  (* no waiter is told to retry twice for the same msg id (hence: re-sent once per rejection), and only
     ids that were really sent are rejected *)
  (NoDup (retries (elog (base s))) /\ forall i, rejected (base s) i -> sent_id (base s) i).
Proof. exact rotation. Qed.
Print Assumptions C11_rotation.

(* one step of the receive loop on bad_server_salt(i, x), wherever it arrives (top level, in a container,
   gzip-packed): salt = x, x written to the session store, and the loop goes on to notify the waiter
   registered under i - if there is one - and nobody else; the table is untouched until the hand-over *)
Theorem C11_adopts_and_saves : forall s clk sid seq b ks i x, keyed s = true ->
  rx (base s) = RDispatch (sid, seq, b) ks -> strip b = BBadSalt i x ->
  exists s', step2 s (L1 (LStep ARx clk)) = Some s' /\
    salt (base s') = x /\ store (base s') = x :: store (base s) /\
    rx (base s') = match lookup i (table (base s)) with
                   | Some _ => RNotify [i] (KTail sid seq :: ks)
                   | None => settle (KTail sid seq :: ks) end /\
    table (base s') = table (base s).
Proof. exact bad_salt_step. Qed.
Print Assumptions C11_adopts_and_saves.

Theorem C11_new_session : forall s clk sid seq b ks x, keyed s = true ->
  rx (base s) = RDispatch (sid, seq, b) ks -> strip b = BNewSession x ->
  exists s', step2 s (L1 (LStep ARx clk)) = Some s' /\
    salt (base s') = x /\ store (base s') = x :: store (base s) /\
    rx (base s') = settle (KTail sid seq :: ks).
Proof. exact new_session_step. Qed.
Print Assumptions C11_new_session.

(* every caller still receives its own answer: a completed call returned the payload of a result received
   for the NEWEST msg id under which its request was written, an id that was not rejected; nothing is
   handed out twice, no call returns twice *)
Theorem C11_own_answer : forall c ls s, run2 (init2 c) ls = Some s ->
  (forall t k i r, In (t, k, i, r) (rets (base s)) ->
     exists h v,
       sent_req (base s) i t k h /\
       (forall t' k' h', sent_req (base s) i t' k' h' -> t' = t /\ k' = k /\ h' = h) /\
       (forall w, In w (wire (base s)) -> on_call w t k -> w_id w <= i) /\
       In (EDisp i v) (elog (base s)) /\ ret_of v = Some r /\
       (vec_val v = true -> h = true) /\
       ~ rejected (base s) i) /\
  NoDup (map ret_id (rets (base s))) /\
  NoDup (map ret_call (rets (base s))).
Proof. exact routing2. Qed.
Print Assumptions C11_own_answer.

(* the receive loop never stalls on a channel: every table entry has a live owner, and whenever the loop
   stands before a send (delivery of a result, or of the retry marker) the channel's owner is blocked in
   its receive - the send is enabled - or is one step of its own (always enabled: it only releases the
   send lock) away from it.  [at_send b i t k]: the loop is about to send on the channel of call k of
   caller t, registered under msg id i. *)
Theorem C11_no_stall : forall c ls s, run2 (init2 c) ls = Some s -> keyed s = true ->
  (forall i t k, In (i, (t, k)) (table (base s)) ->
     c_k (getc t (base s)) = k /\
     (c_pc (getc t (base s)) = CWritten i \/ c_pc (getc t (base s)) = CRecv i)) /\
  (forall i t k clk, at_send (base s) i t k ->
     c_k (getc t (base s)) = k /\
     ((c_pc (getc t (base s)) = CRecv i /\ exists s', step2 s (L1 (LStep ARx clk)) = Some s') \/
      (c_pc (getc t (base s)) = CWritten i /\
       exists s1, step2 s (L1 (LStep (ACaller t) clk)) = Some s1 /\
                  c_pc (getc t (base s1)) = CRecv i /\ at_send (base s1) i t k /\
                  exists s', step2 s1 (L1 (LStep ARx clk)) = Some s'))).
Proof. exact no_stall. Qed.
Print Assumptions C11_no_stall.

(* the rejections, adoptions and results the client acted on are contents of messages the server sent:
   an LSrv label of the history, or a message nested in one through msg_container / gzip_packed *)
Theorem C11_from_server : forall c ls s, run2 (init2 c) ls = Some s ->
  (forall i, rejected (base s) i ->
     exists g sid seq b x, In (L1 (LSrv g)) ls /\ inside (sid, seq, b) g /\ strip b = BBadSalt i x) /\
  (forall x m i h, In (x, m, CBadSalt i h) (adopt s) ->
     exists g sid seq b, In (L1 (LSrv g)) ls /\ inside (sid, seq, b) g /\ strip b = BBadSalt i x) /\
  (forall x m, In (x, m, CNewSession) (adopt s) ->
     exists g sid seq b, In (L1 (LSrv g)) ls /\ inside (sid, seq, b) g /\ strip b = BNewSession x) /\
  (forall req v, In (EDisp req v) (elog (base s)) -> v <> VRetry ->
     exists g sid seq b, In (L1 (LSrv g)) ls /\ inside (sid, seq, b) g /\ result_of b = Some (req, v)).
Proof. exact origin2. Qed.
Print Assumptions C11_from_server.

(* Non-vacuity (Client/LiveExamples.v): [ex_rotation] - two requests in flight, the server rejects one
   (40, re-sent once as 48 under the new salt 777) and accepts the other (44, on the wire once, answered
   after the rotation); both callers get their own answers; 777 is stored.  [ex_fresh] - the first
   rotation after a key exchange in the same process.  [ex_wait_blocked] - the retry-marker send is
   refused while the waiter is still before its receive and enabled after the waiter's own step. *)
Example C11_example : exists s, run2 (init2 cfg_resumed) ex_rotation = Some s /\
  rets (base s) = [(0%nat, 1%nat, 48, RetVal KObj 7); (1%nat, 1%nat, 44, RetVal KObj 8)] /\
  map (fun w => (w_id w, w_salt w)) (wire (base s)) = [(56, 777); (52, 777); (48, 777); (44, 0); (40, 0)] /\
  store (base s) = [777] /\ retries (elog (base s)) = [40].
Proof. eexists. split; [vm_compute; reflexivity|repeat split; reflexivity]. Qed.
Print Assumptions C11_example.

Example C11_example_fresh : exists s, run2 (init2 cfg_fresh) ex_fresh = Some s /\
  rets (base s) = [(0%nat, 1%nat, 48, RetVal KBool 1)] /\ store (base s) = [66; 55] /\ gen s = 2%nat.
Proof. eexists. split; [vm_compute; reflexivity|repeat split; reflexivity]. Qed.
Print Assumptions C11_example_fresh.

(* nothing above depends on the salt VALUES being distinct: [ex_same_salt] - two requests rejected by two
   bad_server_salt messages naming the same salt (the second one arrives when that salt is already in force),
   then a rotation to another salt and back to the first: every rejection is honoured, 4 retries, 4 store writes *)
Example C11_example_same_salt : exists s, run2 (init2 cfg_resumed) ex_same_salt = Some s /\
  rets (base s) = [(1%nat, 1%nat, 52, RetVal KObj 8); (0%nat, 1%nat, 60, RetVal KObj 7)] /\
  store (base s) = [777; 778; 777; 777] /\ retries (elog (base s)) = [56; 48; 44; 40].
Proof. eexists. split; [vm_compute; reflexivity|repeat split; reflexivity]. Qed.
Print Assumptions C11_example_same_salt.

(* ---- a session storage that can fail ---------------------------------------------------------------------
   [store] is the sequence of SaveSession calls; SaveSession's error is only reported, and the storage holds what
   the last SUCCESSFUL call wrote ([file_of oks st f0], Client/StoreFaults.v).  In every history, whatever calls
   failed before: if the newest call succeeded the storage holds the salt the client uses; with a storage that
   always fails nothing is written.  The harness runs such storages (configurations store=fail1 / store=failall)
   and counts every SaveSession call in the projection. *)
From MTV Require Import Client.StoreFaults.

Theorem C11_storage_holds_the_salt_if_the_last_store_succeeded : forall c ls s, run2 (init2 c) ls = Some s ->
  forall oks f0, store (base s) <> [] -> hd false oks = true ->
  file_of oks (store (base s)) f0 = salt (base s).
Proof. exact file_holds_salt_if_last_store_succeeded. Qed.
Print Assumptions C11_storage_holds_the_salt_if_the_last_store_succeeded.

Theorem C11_failing_storage_is_never_written : forall st oks f0, Forall (fun b => b = false) oks ->
  file_of oks st f0 = f0.
Proof. exact file_unchanged_if_all_fail. Qed.
Print Assumptions C11_failing_storage_is_never_written.

Example C11_store_fails_once_then_the_salt_is_announced_again :
  let ls := [L1 (LCall 0 false); L1 (LStep (ACaller 0) 10); L1 (LStep (ACaller 0) 0); L1 (LStep (ACaller 0) 0);
             L1 (LSrv (3, 0, BBadSalt 40 777)); L1 (LStep ARx 0); L1 (LStep ARx 0); L1 (LStep ARx 0);
             L1 (LSrv (7, 1, BNewSession 777)); L1 (LStep ARx 0); L1 (LStep ARx 0)] in
  option_map (fun s => (store (base s), salt (base s), file_of [true; false] (store (base s)) 5))
             (run2 (init2 {| cf_warn := WNil; cf_handler := false; cf_keyed := true |}) ls)
  = Some ([777; 777], 777, 777).
Proof. exact fail_once_then_announced_again. Qed.
Print Assumptions C11_store_fails_once_then_the_salt_is_announced_again.
