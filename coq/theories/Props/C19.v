(* C19 - Secrets used for key agreement come from the OS cryptographic random source.
   Statements only; proofs live in Misc/TaintProofs.v.
   [g] is a dependency graph: (node, (kind, nodes it depends on)); [path g s n] = s transitively
   depends on n; [flows g n s] = n flows into s (the same relation read backwards).
   The graph of the shipped code is regenerated from the SSA form of the working tree on every run
   (harness/flowgraph -> gen/FlowGraph.v) and Inst/C19i.v re-checks [secrets_ok] on it.
   Full statement (property text): every secret the client generates for key agreement - nonce,
   new_nonce, the DH exponent b, the SRP ephemeral a - is drawn from the OS cryptographic source on
   every code path, never from a time-seeded or reproducible generator, and creating a client does
   not reseed a generator they depend on.  What is proved: for EVERY graph, the executable check
   [secrets_ok] holds exactly when, for each secret node, no node of kind math/rand, time or Seed
   call site flows into it, at least one crypto/rand node does, and no listed Seed site does.
   "All paths" is the transitive closure over the whole graph, not the paths a run takes.
   The construction of the graph from Go source (the translator's edge rules) is trusted. *)
From Coq Require Import NArith List.
From MTV Require Import Misc.Taint Misc.TaintProofs Misc.Fresh Misc.FreshProofs.
Import ListNotations.
Open Scope N_scope.

(* the executable reachability is sound ... *)
Theorem C19_reach_sound : forall g s n, In n (reach g s) -> path g s n.
Proof. exact reach_sound. Qed.
Print Assumptions C19_reach_sound.

(* ... and complete, with fuel = number of nodes, on every well-formed graph *)
Theorem C19_reach_complete : forall g s n, wf g -> In s (map fst g) -> path g s n -> In n (reach g s).
Proof. exact reach_complete. Qed.
Print Assumptions C19_reach_complete.

Theorem C19_wf_decided : forall g, wfb g = true <-> wf g.
Proof. exact wfb_wf. Qed.
Print Assumptions C19_wf_decided.

(* the property: what a successful check guarantees, for every graph and every secret *)
Theorem C19_sound : forall g secrets seeds, secrets_ok g secrets seeds = true ->
  forall s, In s secrets ->
    (forall n k, flows g n s -> kind_at g n k -> k <> KPrng /\ k <> KTime /\ k <> KSeed) /\
    (exists n, flows g n s /\ kind_at g n KOS) /\
    (forall sd, In sd seeds -> ~ flows g sd s).
Proof.
  intros g secrets seeds H s Hs. apply secrets_ok_spec in H. destruct H as [_ H].
  destruct (H s Hs) as (_ & A & B & C). auto.
Qed.
Print Assumptions C19_sound.

(* and the check is exact: it fails only if the property fails on the graph (no false alarm of the checker) *)
Theorem C19_exact : forall g secrets seeds,
  secrets_ok g secrets seeds = true <-> wf g /\ forall s, In s secrets -> secret_spec g seeds s.
Proof. exact secrets_ok_spec. Qed.
Print Assumptions C19_exact.

(* "on every path": the sink of a secret is a union, so one random origin would hide a constant, cached
   or caller-supplied one.  The translator therefore lists every alternative origin of the value that
   reaches a secret (definition site, harness/flowgraph/sites.go) and each site is held to the standard
   of the secret itself: an OS source flows into it, no math/rand / clock / Seed node does.  A site
   whose origins are neutral only fails. *)
Theorem C19_every_site_os_fed : forall g secrets seeds sites,
  secrets_ok g secrets seeds = true -> sites_ok g seeds sites = true ->
  forall secret l, In (secret, l) sites ->
    l <> [] /\
    forall site, In site l ->
      flows g site secret /\
      (forall n k, flows g n site -> kind_at g n k -> k <> KPrng /\ k <> KTime /\ k <> KSeed) /\
      (exists n, flows g n site /\ kind_at g n KOS) /\
      (forall sd, In sd seeds -> ~ flows g sd site).
Proof.
  intros g secrets seeds sites H1 H2 secret l Hin. apply secrets_ok_spec in H1. destruct H1 as [Hwf _].
  destruct (proj1 (sites_ok_spec g seeds sites Hwf) H2 secret l Hin) as [Hne Hl]. split; [assumption|].
  intros site Hs. destruct (Hl site Hs) as [Hf (_ & A & B & C)]. auto.
Qed.
Print Assumptions C19_every_site_os_fed.

Theorem C19_sites_exact : forall g seeds sites, wf g ->
  (sites_ok g seeds sites = true <->
   forall secret l, In (secret, l) sites ->
     l <> [] /\ forall site, In site l -> flows g site secret /\ secret_spec g seeds site).
Proof. exact sites_ok_spec. Qed.
Print Assumptions C19_sites_exact.

(* secret 0 is fed by two alternatives 1 (OS) and 6 (a constant): the union passes, the per-site check does not *)
Example C19_example_union_hides_constant :
  let g := [(0, (KNeutral, [1; 6])); (1, (KNeutral, [2])); (2, (KOS, [])); (6, (KNeutral, [7])); (7, (KNeutral, []))] in
  secrets_ok g [0] [] = true /\ sites_ok g [] [(0, [1; 6])] = false /\ sites_ok g [] [(0, [1])] = true.
Proof. vm_compute. repeat split; reflexivity. Qed.
Print Assumptions C19_example_union_hides_constant.

(* the hypotheses are satisfiable: secret 0 <- buffer 1 <- crypto/rand.Read 2, with an unrelated Seed site 3 *)
Example C19_example_ok :
  secrets_ok [(0, (KNeutral, [1])); (1, (KNeutral, [2])); (2, (KOS, [])); (3, (KSeed, [4])); (4, (KTime, []))] [0] [3] = true.
Proof. vm_compute. reflexivity. Qed.
Print Assumptions C19_example_ok.

(* ... and refuted as soon as the buffer is also filled from math/rand (5), or from nothing at all *)
Example C19_example_prng :
  secrets_ok [(0, (KNeutral, [1])); (1, (KNeutral, [2; 5])); (2, (KOS, [])); (5, (KPrng, []))] [0] [] = false.
Proof. vm_compute. reflexivity. Qed.
Print Assumptions C19_example_prng.

Example C19_example_no_source :
  secrets_ok [(0, (KNeutral, [1])); (1, (KNeutral, []))] [0] [] = false.
Proof. vm_compute. reflexivity. Qed.
Print Assumptions C19_example_no_source.

(* ---- freshness: "drawn from the OS source" also means every draw is a NEW part of its output ----
   The source is a stream with a position (Misc/Fresh.v): a draw of n bytes is the range (pos, n) and
   advances pos.  For EVERY sequence of draw sizes the ranges are ordered and pairwise disjoint, and a
   consumer that hands out bytes from inside its own draws never hands out a byte twice.  The ranges
   the real code hands out are recorded against a recording crypto/rand.Reader on every run and
   checked with [fresh_ok] (exact, below) in Inst/C19f.v. *)
Theorem C19_draws_disjoint : forall pos sizes, ForallOrdPairs disjoint (draws pos sizes).
Proof. exact draws_disjoint. Qed.
Print Assumptions C19_draws_disjoint.

Theorem C19_draws_within : forall pos sizes,
  Forall (fun r => pos <= fst r /\ r_end r <= pos + total sizes) (draws pos sizes).
Proof. exact draws_within. Qed.
Print Assumptions C19_draws_within.

Theorem C19_handed_inside_draws_disjoint : forall pos sizes handed,
  Forall2 inside handed (draws pos sizes) -> ForallOrdPairs disjoint handed.
Proof. exact handed_inside_draws_disjoint. Qed.
Print Assumptions C19_handed_inside_draws_disjoint.

Theorem C19_fresh_ok_exact : forall served handed,
  fresh_ok served handed = true <->
  Forall (fun r => r_end r <= served) handed /\ ForallOrdPairs disjoint handed.
Proof. exact fresh_ok_spec. Qed.
Print Assumptions C19_fresh_ok_exact.

(* three draws 16, 32, 16 are fresh; a 32-byte value that wraps into bytes 0..16 of an earlier draw is not *)
Example C19_example_fresh : fresh_ok 64 (draws 0 [16; 32; 16]) = true.
Proof. vm_compute. reflexivity. Qed.
Print Assumptions C19_example_fresh.

Example C19_example_replayed : fresh_ok 256 [(0, 16); (16, 32); (240, 16); (0, 32)] = false.
Proof. vm_compute. reflexivity. Qed.
Print Assumptions C19_example_replayed.
