(* C18 - The 2FA SRP answer verifies for the right password and only for it.
   Statements only; proofs live in Crypto/SrpProofs.v, the model in Crypto/Srp.v.

   H = crypto/sha256, pbkdf2 = PBKDF2-HMAC-SHA512 (100000 iterations, 64 bytes), mexp = big.Int.Exp:
   standard-library code, universally quantified.  What is assumed of them is written in each
   statement: [forall m, length (H m) = 32] (only so that dry.BytesXor cannot run out of range) and
   [mexp_spec mexp] (mexp b e m = b^e mod m for 0 <= e, 0 < m).  Nothing is assumed of pbkdf2.

   The client is [get_input_check_password] (2fa.go, the ephemeral secret [random] an argument) and
   [tg_get_input_check_password] (telegram/srp.go).  The server [sv : server] holds the salts, g, p,
   the verifier v and its secret b - never the password - and follows Telegram's definition
   (sv_B, sv_S, sv_M1, sv_check); it sends p as 256 bytes ([sv_params]).

   Hypotheses on the group are minimal: 1 < p < 2^2048 (p is NOT required to be prime, g is ANY
   integer).  The upper bound is needed because 2fa.go validates neither p nor g (the check is a
   TODO in the source): for p >= 2^2048 pad256 keeps only the low 2048 bits of g^a mod p. *)
From Coq Require Import String.
From Coq Require Import ZArith NArith List Lia Bool Znumtheory.
From MTV Require Import Base.Bytes Base.Outcome Base.Str Prim.Sha256 Crypto.Srp Crypto.SrpProofs.
Import ListNotations.
Open Scope Z_scope.

(* ---- the algebra: both sides compute the same secret, for every p > 0 and every integer g ---- *)
Theorem C18_shared_secret : forall g p k x a b u,
  0 < p -> 0 <= x -> 0 <= a -> 0 <= b -> 0 <= u ->
  let v := g ^ x mod p in
  let B := (k * v + g ^ b mod p) mod p in
  let t := (B - (k * v) mod p) mod p in
  t ^ (u * x + a) mod p = ((g ^ a mod p) * (v ^ u mod p)) ^ b mod p.
Proof. exact srp_agree. Qed.
Print Assumptions C18_shared_secret.

(* ---- right password: accepted ----
   For every password (non-empty byte string), salts, random bytes of any length, server secret
   b >= 0, and every byte string srpB of 248..256 bytes that denotes the server's B > 0:
   the client answers (A, M1); A is the 256-byte encoding of g^a mod p; the client's S is the
   server's S; M1 is the value the server computes; the server accepts.
   The server need only hold a v with v = g^x mod p for the x of THIS password. *)
Theorem C18_accepts : forall H pbkdf2 mexp,
  (forall m, length (H m) = 32%nat) -> mexp_spec mexp ->
  forall (password random srpB : bytes) (sv : server),
  password <> [] ->
  1 < sv_p sv < 2 ^ 2048 -> 0 <= sv_b sv ->
  sv_v sv = sv_g sv ^ big_of_bytes (password_hash2 H pbkdf2 password (sv_salt1 sv) (sv_salt2 sv)) mod sv_p sv ->
  bytes_ok srpB = true -> (248 <= length srpB <= 256)%nat ->
  big_of_bytes srpB = sv_B H mexp sv -> 0 < sv_B H mexp sv ->
  exists ans, get_input_check_password H pbkdf2 mexp password srpB (Some (sv_params sv)) random = Ok (Some ans) /\
    length (GA ans) = 256%nat /\
    big_of_bytes (GA ans) = sv_g sv ^ big_of_bytes random mod sv_p sv /\
    client_S H pbkdf2 mexp password srpB (sv_params sv) random = sv_S H mexp sv (GA ans) /\
    sv_M1 H mexp sv (GA ans) = Ok (M1 ans) /\
    sv_check H mexp sv (GA ans) (M1 ans) = true.
Proof. exact srp_accepts. Qed.
Print Assumptions C18_accepts.

(* the same through telegram.GetInputCheckPassword: an InputCheckPasswordSRPObj carrying the
   server's srp_id and an accepted (A, M1) *)
Theorem C18_accepts_exported : forall H pbkdf2 mexp,
  (forall m, length (H m) = 32%nat) -> mexp_spec mexp ->
  forall (password random srpB : bytes) (sv : server) (id : Z),
  password <> [] ->
  1 < sv_p sv < 2 ^ 2048 -> 0 <= sv_b sv ->
  sv_v sv = sv_g sv ^ big_of_bytes (password_hash2 H pbkdf2 password (sv_salt1 sv) (sv_salt2 sv)) mod sv_p sv ->
  bytes_ok srpB = true -> (248 <= length srpB <= 256)%nat ->
  big_of_bytes srpB = sv_B H mexp sv -> 0 < sv_B H mexp sv ->
  exists A m1,
    tg_get_input_check_password H pbkdf2 mexp password
      (Some {| ap_algo := AlgoModPow (Some (sv_params sv)); ap_srpB := srpB; ap_srpid := id |}) random
    = Ok (CheckSRP id A m1) /\ sv_check H mexp sv A m1 = true.
Proof. exact tg_accepts. Qed.
Print Assumptions C18_accepts_exported.

(* closed instance: the executable SHA-256 and square-and-multiply meet the two hypotheses *)
Theorem C18_accepts_executable : forall pbkdf2 (password random srpB : bytes) (sv : server),
  password <> [] ->
  1 < sv_p sv < 2 ^ 2048 -> 0 <= sv_b sv ->
  sv_v sv = sv_g sv ^ big_of_bytes (password_hash2 sha256 pbkdf2 password (sv_salt1 sv) (sv_salt2 sv)) mod sv_p sv ->
  bytes_ok srpB = true -> (248 <= length srpB <= 256)%nat ->
  big_of_bytes srpB = sv_B sha256 modexp sv -> 0 < sv_B sha256 modexp sv ->
  exists ans, get_input_check_password sha256 pbkdf2 modexp password srpB (Some (sv_params sv)) random = Ok (Some ans) /\
    sv_check sha256 modexp sv (GA ans) (M1 ans) = true.
Proof.
  intros pbkdf2 password random srpB sv Hpw Hp Hb Hv Hok Hl HB HB0.
  destruct (srp_accepts sha256 pbkdf2 modexp sha256_length modexp_spec password random srpB sv Hpw Hp Hb Hv Hok Hl HB HB0)
    as [ans [Hr [_ [_ [_ [_ Hc]]]]]].
  exists ans. split; assumption.
Qed.
Print Assumptions C18_accepts_executable.

(* A is in the range a server insists on when g is a unit modulo p (true for Telegram's groups) *)
Theorem C18_A_nonzero : forall g a p, 1 < p -> 0 <= a -> rel_prime g p -> 0 < g ^ a mod p.
Proof. exact pow_mod_nonzero. Qed.
Print Assumptions C18_A_nonzero.

(* ---- empty password: the "no password" answer, whatever B and the parameters are ---- *)
Theorem C18_empty : forall H pbkdf2 mexp srpB (mp : option modpow) (mp' : modpow) id random,
  get_input_check_password H pbkdf2 mexp [] srpB mp random = Ok None /\
  tg_get_input_check_password H pbkdf2 mexp []
    (Some {| ap_algo := AlgoModPow (Some mp'); ap_srpB := srpB; ap_srpid := id |}) random = Ok CheckEmpty.
Proof. intros. split; reflexivity. Qed.
Print Assumptions C18_empty.

(* ---- the password is used verbatim ----
   Both entry points use the password's exact byte string and nothing else of it: for a non-empty
   password the result is [srp_answer_x x ...] with x = PH2(password, salt1, salt2) - no trimming, case
   folding or normalisation in between (the reference server holds the verifier of the exact string, so
   any such step would reject a right password and accept a wrong one).  Two passwords with the same PH2
   get the same answer, and ONLY the empty byte string takes the "no password" branch: a password made of
   white space is a password. *)
Theorem C18_password_verbatim : forall H pbkdf2 mexp password srpB id mp random,
  password <> [] ->
  let x := big_of_bytes (password_hash2 H pbkdf2 password (mp_salt1 mp) (mp_salt2 mp)) in
  get_input_check_password H pbkdf2 mexp password srpB (Some mp) random = srp_answer_x H mexp x srpB mp random /\
  tg_get_input_check_password H pbkdf2 mexp password
    (Some {| ap_algo := AlgoModPow (Some mp); ap_srpB := srpB; ap_srpid := id |}) random =
  match srp_answer_x H mexp x srpB mp random with
  | Ok None => Ok CheckEmpty
  | Ok (Some r) => Ok (CheckSRP id (GA r) (M1 r))
  | Err => Err
  | Panic => Panic
  end.
Proof.
  intros H pbkdf2 mexp password srpB id mp random Hpw x. split.
  - exact (gicp_via_ph2 H pbkdf2 mexp password srpB mp random Hpw).
  - rewrite tg_via_ph2. destruct password; [congruence|reflexivity].
Qed.
Print Assumptions C18_password_verbatim.

Theorem C18_only_empty_is_no_password : forall H pbkdf2 mexp password srpB id mp random,
  (get_input_check_password H pbkdf2 mexp password srpB (Some mp) random = Ok None <-> password = []) /\
  (tg_get_input_check_password H pbkdf2 mexp password
     (Some {| ap_algo := AlgoModPow (Some mp); ap_srpB := srpB; ap_srpid := id |}) random = Ok CheckEmpty
   <-> password = []).
Proof.
  intros. split; [apply gicp_none_iff|apply tg_empty_iff].
Qed.
Print Assumptions C18_only_empty_is_no_password.

(* ---- B: answered iff 0 < B < p and 248 <= len(srp_B) <= 256, refused (error) otherwise ---- *)
Theorem C18_B_range : forall H pbkdf2 mexp, (forall m, length (H m) = 32%nat) ->
  forall password srpB mp random, password <> [] ->
  ((exists ans, get_input_check_password H pbkdf2 mexp password srpB (Some mp) random = Ok (Some ans))
     <-> (0 < big_of_bytes srpB < big_of_bytes (mp_p mp) /\ (248 <= length srpB <= 256)%nat)) /\
  (get_input_check_password H pbkdf2 mexp password srpB (Some mp) random = Err
     <-> ~ (0 < big_of_bytes srpB < big_of_bytes (mp_p mp) /\ (248 <= length srpB <= 256)%nat)).
Proof.
  intros H pbkdf2 mexp HL password srpB mp random Hpw. split.
  - exact (gicp_B_range H pbkdf2 mexp HL password srpB mp random Hpw).
  - exact (gicp_refuses H pbkdf2 mexp HL password srpB mp random Hpw).
Qed.
Print Assumptions C18_B_range.

(* ---- no panic: 2fa.go never panics on a non-nil *ModPow; the exported function panics exactly
        on a nil *AccountPassword and on a typed-nil algorithm pointer ---- *)
Theorem C18_no_panic : forall H pbkdf2 mexp, (forall m, length (H m) = 32%nat) ->
  forall password srpB mp random,
  get_input_check_password H pbkdf2 mexp password srpB (Some mp) random <> Panic.
Proof. exact gicp_no_panic. Qed.
Print Assumptions C18_no_panic.

Theorem C18_exported_panic_iff : forall H pbkdf2 mexp, (forall m, length (H m) = 32%nat) ->
  forall password ap random,
  tg_get_input_check_password H pbkdf2 mexp password ap random = Panic
  <-> ap = None \/ exists a, ap = Some a /\ ap_algo a = AlgoModPow None.
Proof. exact tg_panic_iff. Qed.
Print Assumptions C18_exported_panic_iff.

(* ---- wrong password ----
   Full statement of the property:
     forall password' <> password, the server that holds the verifier of [password] rejects the
     answer computed from [password'].
   No theorem can state this unconditionally: it is a cryptographic claim.  It fails outright when
   the two passwords have the same verifier (C18_accepts only needs v = g^x' mod p), when the
   secrets coincide although the verifiers differ (C18_different_verifier_not_enough: a concrete
   instance in a 3-bit group with the real SHA-256), and it would fail on a SHA-256 collision.
   Proved part: the server accepts IFF the client's S equals its own S, given that SHA-256 is
   injective on exactly the two M1 preimages and on the two encodings of S; hence a client whose
   S differs is rejected.  (S_client <> S_server implies g^x' <> v mod p, by C18_accepts; the
   converse is the discrete-log-flavoured part that is not a theorem.)
   The correspondence check samples wrong passwords on the real group. *)
Theorem C18_wrong_password_partial : forall H pbkdf2 mexp,
  (forall m, length (H m) = 32%nat) -> mexp_spec mexp ->
  forall (password' random srpB : bytes) (sv : server) ans hx,
  1 < sv_p sv < 2 ^ 2048 -> 0 <= sv_b sv ->
  bytes_ok srpB = true -> (length srpB <= 256)%nat -> big_of_bytes srpB = sv_B H mexp sv ->
  get_input_check_password H pbkdf2 mexp password' srpB (Some (sv_params sv)) random = Ok (Some ans) ->
  bytes_xor (H (enc256 (sv_p sv))) (H (enc256 (sv_g sv))) = Ok hx ->
  let Sc := client_S H pbkdf2 mexp password' srpB (sv_params sv) random in
  let Ss := sv_S H mexp sv (GA ans) in
  let m := m1_string H hx (sv_salt1 sv) (sv_salt2 sv) (GA ans) (enc256 (sv_B H mexp sv)) in
  Sc <> Ss ->
  (H (m Sc) = H (m Ss) -> m Sc = m Ss) ->
  (H (enc256 Sc) = H (enc256 Ss) -> enc256 Sc = enc256 Ss) ->
  sv_check H mexp sv (GA ans) (M1 ans) = false.
Proof. exact srp_wrong_password. Qed.
Print Assumptions C18_wrong_password_partial.

(* ------------------------------------------------------------------------------------------ *)
(* Non-vacuity: concrete exchanges, evaluated with the executable SHA-256 and modexp.
   pbkdf2 is replaced by a stand-in (the theorems hold for every function in that place). *)

Definition ex_pbkdf2 (h s : bytes) : bytes := sha256 (s ++ h) ++ sha256 (h ++ s).
Definition ex_s1 : bytes := [1; 2; 3; 4; 5]%N.
Definition ex_s2 : bytes := [9; 8; 7]%N.
Definition ex_pw : bytes := Eval vm_compute in lit "correct horse".
Definition ex_server (p g b : Z) (pw : bytes) : server :=
  {| sv_salt1 := ex_s1; sv_salt2 := ex_s2; sv_g := g; sv_p := p;
     sv_v := sv_register sha256 ex_pbkdf2 modexp pw ex_s1 ex_s2 g p; sv_b := b |}.
Definition ex_run (sv : server) (pw random : bytes) : bool :=
  match get_input_check_password sha256 ex_pbkdf2 modexp pw (sv_srpB sha256 modexp sv) (Some (sv_params sv)) random with
  | Ok (Some ans) => sv_check sha256 modexp sv (GA ans) (M1 ans)
  | _ => false
  end.

(* 61-bit group 2^61 - 1, g = 3 *)
Definition ex_sv61 := ex_server 2305843009213693951 3 987654321987 ex_pw.

(* the hypotheses of C18_accepts hold for this instance (so the theorem applies, not vacuously) *)
Example C18_accepts_hypotheses_satisfiable :
  ex_pw <> [] /\ 1 < sv_p ex_sv61 < 2 ^ 2048 /\ 0 <= sv_b ex_sv61 /\
  bytes_ok (sv_srpB sha256 modexp ex_sv61) = true /\
  length (sv_srpB sha256 modexp ex_sv61) = 256%nat /\
  big_of_bytes (sv_srpB sha256 modexp ex_sv61) = sv_B sha256 modexp ex_sv61 /\
  sv_B sha256 modexp ex_sv61 = 623747955665026772.
Proof.
  split; [discriminate|]. split; [split; [reflexivity|vm_compute; reflexivity] |].
  split; [discriminate|]. split; [apply enc256_ok|]. split; [apply enc256_length|].
  assert (E : sv_B sha256 modexp ex_sv61 = 623747955665026772) by (vm_compute; reflexivity).
  split; [|exact E]. unfold sv_srpB. rewrite E. vm_compute. reflexivity.
Qed.
Print Assumptions C18_accepts_hypotheses_satisfiable.

Example C18_ex_right_password_accepted : ex_run ex_sv61 ex_pw [1; 2; 3; 4; 5; 6; 7; 8; 9]%N = true.
Proof. vm_compute. reflexivity. Qed.
Print Assumptions C18_ex_right_password_accepted.

Example C18_ex_wrong_password_rejected :
  ex_run ex_sv61 (lit "correct horsf") [1; 2; 3; 4; 5; 6; 7; 8; 9]%N = false.
Proof. vm_compute. reflexivity. Qed.
Print Assumptions C18_ex_wrong_password_rejected.

Example C18_ex_B_zero_refused :
  get_input_check_password sha256 ex_pbkdf2 modexp ex_pw (enc256 0) (Some (sv_params ex_sv61)) [1]%N = Err /\
  get_input_check_password sha256 ex_pbkdf2 modexp ex_pw (enc256 (sv_p ex_sv61)) (Some (sv_params ex_sv61)) [1]%N = Err /\
  get_input_check_password sha256 ex_pbkdf2 modexp ex_pw (repeat 1%N 247) (Some (sv_params ex_sv61)) [1]%N = Err.
Proof. split; [|split]; vm_compute; reflexivity. Qed.
Print Assumptions C18_ex_B_zero_refused.

(* white space belongs to the password: the account's password is " hunter2 " (with the blanks);
   typing exactly that is accepted, typing the trimmed "hunter2" is rejected, and a password that is a
   single blank gets an SRP answer, not the "no password" one *)
Definition ex_sv61ws := ex_server 2305843009213693951 3 987654321987 (lit " hunter2 ").
Example C18_ex_white_space_counts :
  ex_run ex_sv61ws (lit " hunter2 ") [7; 7; 7]%N = true /\
  ex_run ex_sv61ws (lit "hunter2") [7; 7; 7]%N = false /\
  ex_run (ex_server 2305843009213693951 3 5 [32]%N) [32]%N [7; 7; 7]%N = true.
Proof. split; [|split]; vm_compute; reflexivity. Qed.
Print Assumptions C18_ex_white_space_counts.

(* different verifier is NOT enough for rejection: p = 7, g = 3, b = 5; the server holds the
   verifier of "a" (v = 1); the client types "b" (verifier 2) and is accepted, because
   (B - k*2)^(a + u*x') = (g^a * 1^u)^b mod 7 happens to hold.  With 2048-bit groups this event has
   negligible probability, which is a statement about probabilities, not a theorem. *)
Definition ex_sv7 := ex_server 7 3 5 [97]%N.
Example C18_different_verifier_not_enough :
  sv_v ex_sv7 = 1 /\ sv_register sha256 ex_pbkdf2 modexp [98]%N ex_s1 ex_s2 3 7 = 2 /\
  ex_run ex_sv7 [98]%N [42]%N = true.
Proof. split; [|split]; vm_compute; reflexivity. Qed.
Print Assumptions C18_different_verifier_not_enough.

(* without the 2048-bit bound on p the low 2048 bits are what the code sends: A is no longer an
   encoding of g^a mod p (the model reproduces the code here; the server would not agree) *)
Example C18_ex_oversized_p_truncates :
  enc256 (2 ^ 2048 + 5) = enc256 5.
Proof. vm_compute. reflexivity. Qed.
Print Assumptions C18_ex_oversized_p_truncates.
