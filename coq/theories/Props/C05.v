(* C05 - AES-256-IGE and its padding wrappers are correct for every key, IV and length.
   Statements only; proofs live in Crypto/IgeProofs.v and Crypto/TempKeysProofs.v.

   Models (of internal/aes_ige after the two repairs under /verif/patches/C05):
     do_encrypt / do_decrypt       Crypto/IgeMem.v    doAES256IGEencrypt / doAES256IGEdecrypt as written,
                                                       registers c.t c.x c.y hold references (aliasing)
     ige_encrypt / ige_decrypt     Crypto/Ige.v       the textbook definition c_i = E(p_i xor c_{i-1}) xor p_{i-1}
     generate_temp_keys, encrypt_temp, decrypt_temp, encrypt_msg, decrypt_msg     Crypto/TempKeys.v
   A run of the loops returns (status, output buffer after, input buffer after), status = Done (nil) |
   Failed (error) | Panicked.

   Standard-library functions are quantified, with exactly the hypotheses each theorem needs:
     E D : key -> block -> block   crypto/aes         length (E k b) = 16, length (D k b) = 16,
                                                       D k (E k b) = b on 16-byte blocks   [assumption: AES is a permutation]
     H   : bytes -> bytes           crypto/sha1        length (H m) = 20;  no-collision only where stated
   All of these except the no-collision hypothesis are PROVED for the Gallina instances: aes_enc_length,
   aes_dec_length, aes_enc_bytes_ok, sha1_length, sha1_bytes_ok and - in Prim/Aes256Inv.v -
   aes_dec k (aes_enc k b) = b for keys and blocks of bytes; see the ..._aes / ..._sha1 / ..._inst corollaries,
   which carry no hypothesis about the block cipher.  That the Gallina functions ARE crypto/aes and
   crypto/sha1 is validated by the FIPS known answers (Prim/) and by every correspondence run.
   [bytes_ok l = true] says that every element of l is below 256 (l is a string of bytes). *)
From Coq Require Import String.
From Coq Require Import ZArith NArith List Lia Bool.
From MTV Require Import Base.Bytes Base.Outcome Prim.Hex Prim.Xor Prim.Sha1 Prim.Aes256 Prim.Aes256Facts Prim.Aes256Inv.
From MTV Require Import Crypto.Ige Crypto.IgeMem Crypto.IgeProofs Crypto.TempKeys Crypto.TempKeysProofs.
Import ListNotations.
Open Scope nat_scope.

(* PRECONDITION of every statement about do_encrypt / do_decrypt: the input and the output buffer do not
   overlap.  In the model they are two separate lists; in the code the chaining register aliases in[i:i+16]
   (c.y resp. c.x), so with out == in (or overlapping windows) copy(out[i:], c.t) overwrites the previous
   plaintext/ciphertext block before it is used and the result is NOT the IGE definition from block 1 on.
   doAES256IGEencrypt/decrypt and the Cipher methods are unexported; every call site in the repository passes a
   fresh make([]byte, len) as out.  That is re-established on every run by a static scan of the call sites
   (harness/root/cmd/c05 scan: each call's out argument must be a local defined by make([]byte, ...) in the same
   function and different from the in argument; a new call site that does not fit is reported). ---- *)

(* ---- 1. the alias-level loops compute the IGE definition, for any number n >= 1 of blocks ---- *)
Theorem C05_enc_is_ige : forall (E : bytes -> bytes -> bytes),
  (forall k b, length (E k b) = 16) ->
  forall key iv data out n,
  key_len_ok key = true -> length iv = 32 -> length data = 16 * n -> 1 <= n -> length data <= length out ->
  do_encrypt E data out key iv = (Done, ige_encrypt E key iv data ++ skipn (length data) out, data).
Proof. exact do_encrypt_is_ige. Qed.
Print Assumptions C05_enc_is_ige.

Theorem C05_dec_is_ige : forall (D : bytes -> bytes -> bytes),
  (forall k b, length (D k b) = 16) ->
  forall key iv data out n,
  key_len_ok key = true -> length iv = 32 -> length data = 16 * n -> 1 <= n -> length data <= length out ->
  do_decrypt D data out key iv = (Done, ige_decrypt D key iv data ++ skipn (length data) out, data).
Proof. exact do_decrypt_is_ige. Qed.
Print Assumptions C05_dec_is_ige.

(* with the Gallina AES as the block cipher no hypothesis is left; 32-byte keys are AES-256 *)
Theorem C05_enc_is_ige_aes : forall key iv data out n,
  length key = 32 -> length iv = 32 -> length data = 16 * n -> 1 <= n -> length data <= length out ->
  do_encrypt aes_enc data out key iv = (Done, ige_encrypt aes_enc key iv data ++ skipn (length data) out, data) /\
  do_decrypt aes_dec data out key iv = (Done, ige_decrypt aes_dec key iv data ++ skipn (length data) out, data).
Proof.
  intros key iv data out n Hk Hiv Hd Hn Ho. split.
  - apply (do_encrypt_is_ige aes_enc aes_enc_length key iv data out n); auto using key_len_ok_32.
  - apply (do_decrypt_is_ige aes_dec aes_dec_length key iv data out n); auto using key_len_ok_32.
Qed.
Print Assumptions C05_enc_is_ige_aes.

(* ---- 1b. histories: for every list of calls made one after the other in a process, the result of a call
        is the IGE definition on the values passed to THAT call, whatever the earlier (and later) calls were -
        other keys, the same key buffer overwritten in place, refused calls, ...
        For the Gallina model this is immediate (run_history maps one pure function over the calls: the model
        of the package has no state between calls); it is stated because it is exactly the claim that the
        correspondence over call SEQUENCES ties to the code: there the harness reuses and overwrites the same
        key / iv / input / output buffers between calls and compares every step with this model evaluated on
        the values at call time.  A key-schedule cache that keeps the caller's key slice breaks that tie. ---- *)
Theorem C05_history_independent : forall (E D : bytes -> bytes -> bytes),
  (forall k b, length (E k b) = 16) -> (forall k b, length (D k b) = 16) ->
  forall (pre post : list call) key iv data out n,
  key_len_ok key = true -> length iv = 32 -> length data = 16 * n -> 1 <= n -> length data <= length out ->
  nth_error (run_history E D (pre ++ CEnc data out key iv :: post)) (length pre)
    = Some (Done, ige_encrypt E key iv data ++ skipn (length data) out, data) /\
  nth_error (run_history E D (pre ++ CDec data out key iv :: post)) (length pre)
    = Some (Done, ige_decrypt D key iv data ++ skipn (length data) out, data).
Proof. exact history_independent. Qed.
Print Assumptions C05_history_independent.

(* and in general, valid or not: call number |pre| is answered by run_call of its own arguments *)
Theorem C05_history_pure : forall (E D : bytes -> bytes -> bytes) pre c post,
  nth_error (run_history E D (pre ++ c :: post)) (length pre) = Some (run_call E D c).
Proof. exact run_history_nth. Qed.
Print Assumptions C05_history_pure.

(* ---- 2. decryption inverts encryption (code level, through both loops) ---- *)
Theorem C05_dec_enc : forall (E D : bytes -> bytes -> bytes),
  (forall k b, length (E k b) = 16) -> (forall k b, length (D k b) = 16) ->
  forall key iv data out1 out2 n,
  (forall b, bytes_ok b = true -> bytes_ok (E key b) = true) ->
  (forall b, length b = 16 -> bytes_ok b = true -> D key (E key b) = b) ->
  key_len_ok key = true -> length iv = 32 -> length data = 16 * n -> 1 <= n ->
  bytes_ok iv = true -> bytes_ok data = true ->
  length data <= length out1 -> length data <= length out2 ->
  exists c, do_encrypt E data out1 key iv = (Done, c ++ skipn (length data) out1, data) /\
            length c = length data /\
            do_decrypt D c out2 key iv = (Done, data ++ skipn (length data) out2, c).
Proof. exact do_decrypt_encrypt_ok. Qed.
Print Assumptions C05_dec_enc.

(* for the Gallina AES nothing is assumed: every 16/24/32-byte key, every IV, every number of blocks *)
Theorem C05_dec_enc_aes : forall key iv data out1 out2 n,
  key_len_ok key = true -> bytes_ok key = true -> length iv = 32 -> bytes_ok iv = true ->
  length data = 16 * n -> 1 <= n -> bytes_ok data = true ->
  length data <= length out1 -> length data <= length out2 ->
  exists c, do_encrypt aes_enc data out1 key iv = (Done, c ++ skipn (length data) out1, data) /\
            length c = length data /\
            do_decrypt aes_dec c out2 key iv = (Done, data ++ skipn (length data) out2, c).
Proof.
  intros key iv data out1 out2 n Hk Ok Hiv Oiv Hd Hn Od Ho1 Ho2.
  apply (do_decrypt_encrypt_ok aes_enc aes_dec aes_enc_length aes_dec_length key iv data out1 out2 n); try assumption.
  - intros b Ob. apply aes_enc_bytes_ok; assumption.
  - intros b Hb Ob. apply aes_dec_enc; assumption.
Qed.
Print Assumptions C05_dec_enc_aes.

(* the hypotheses of C05_dec_enc are satisfiable (a toy permutation), and a real instance by computation:
   the repository's / OpenSSL's IGE vector, AES-128 key, two blocks *)
Definition fit16 (b : bytes) : bytes := firstn 16 (b ++ zero_block).
Example C05_dec_enc_hyps_sat :
  (forall (k b : bytes), length (fit16 b) = 16) /\ (forall (k b : bytes), length b = 16 -> fit16 (fit16 b) = b) /\
  (forall (k b : bytes), bytes_ok b = true -> bytes_ok (fit16 b) = true).
Proof.
  assert (L : forall b, length (fit16 b) = 16).
  { intros b. unfold fit16. rewrite firstn_length, app_length. cbn [zero_block repeat length]. lia. }
  assert (I : forall b, length b = 16 -> fit16 b = b).
  { intros b Hb. unfold fit16. rewrite firstn_app, firstn_all2 by lia. rewrite Hb. cbn [Nat.sub firstn]. apply app_nil_r. }
  split; [intros _ b; apply L|]. split; [intros _ b Hb; now rewrite !I|].
  intros _ b Hb. unfold fit16. apply ok_firstn. apply ok_app. split; [exact Hb|reflexivity].
Qed.
Print Assumptions C05_dec_enc_hyps_sat.

Example C05_openssl_vector :
  let key := hex "000102030405060708090a0b0c0d0e0f" in
  let iv := hex "000102030405060708090a0b0c0d0e0f101112131415161718191a1b1c1d1e1f" in
  let ct := hex "1a8519a6557be652e9da8e43da4ef4453cf456b4ca488aa383c79c98b34797cb" in
  do_encrypt aes_enc (repeat 0%N 32) (repeat 0%N 32) key iv = (Done, ct, repeat 0%N 32) /\
  do_decrypt aes_dec ct (repeat 0%N 32) key iv = (Done, repeat 0%N 32, ct).
Proof. vm_compute. split; reflexivity. Qed.
Print Assumptions C05_openssl_vector.

(* ---- 3. the caller's input buffer is never modified: every key, iv, input, output buffer, and every
        status (also when the call returns an error or panics) ---- *)
Theorem C05_input_untouched : forall (E D : bytes -> bytes -> bytes) key iv data out,
  snd (do_encrypt E data out key iv) = data /\ snd (do_decrypt D data out key iv) = data.
Proof. intros. split; [apply do_encrypt_input_untouched|apply do_decrypt_input_untouched]. Qed.
Print Assumptions C05_input_untouched.

(* Scope of "the caller's buffers": in the model a buffer IS the slice passed (its len bytes); the theorem above
   and the (status, out, in) results say that nothing but the output slice changes.  Memory of the caller that
   lies around a slice (the rest of a larger array of which the argument is a window, reachable through spare
   capacity, e.g. by append) is not represented in Gallina; for it the check relies on the correspondence runs
   with windowed arguments: every argument handed over as frame[off:off+n] of a larger live array with non-zero
   guard bytes and spare capacity, the whole arrays compared after each call (harness/root/cmd/c05, tag w). *)

(* ---- 4. length 0 or not a multiple of 16: refused, nothing written ---- *)
Theorem C05_rejects : forall (E D : bytes -> bytes -> bytes) key iv data out,
  length data = 0 \/ Nat.modulo (length data) 16 <> 0 ->
  (exists r, r <> Done /\ do_encrypt E data out key iv = (r, out, data)) /\
  (exists r, r <> Done /\ do_decrypt D data out key iv = (r, out, data)) /\
  (key_len_ok key = true -> 16 <= length iv ->
     do_encrypt E data out key iv = (Failed, out, data) /\ do_decrypt D data out key iv = (Failed, out, data)).
Proof.
  intros E D key iv data out H. split; [apply do_encrypt_rejects, H|]. split; [apply do_decrypt_rejects, H|].
  intros Hk Hiv. apply do_encrypt_rejects_err; assumption.
Qed.
Print Assumptions C05_rejects.

(* and exactly those lengths are refused by isCorrectData *)
Theorem C05_guard_iff : forall data,
  is_correct_data data = true <-> exists n, 1 <= n /\ length data = 16 * n.
Proof. exact is_correct_data_iff. Qed.
Print Assumptions C05_guard_iff.

(* ---- 5. Encrypt pads with zeros to the next multiple of 16 ---- *)
Theorem C05_encrypt_pads : forall (H : bytes -> bytes) (E : bytes -> bytes -> bytes),
  (forall m, length (H m) = 20) -> (forall k b, length (E k b) = 16) ->
  forall msg auth_key, 128 <= length auth_key ->
  exists k iv, generate_aes_ige H (firstn 16 (skipn 4 (H msg))) auth_key false = Ok (k, iv) /\
    length k = 32 /\ length iv = 32 /\
    (msg <> [] ->
       encrypt_msg H E msg auth_key = Ok (ige_encrypt E k iv (msg ++ zbuf (pad_need (length msg)))) /\
       length (ige_encrypt E k iv (msg ++ zbuf (pad_need (length msg)))) = length msg + pad_need (length msg)) /\
    (msg = [] -> encrypt_msg H E msg auth_key = Err).
Proof. exact encrypt_msg_pads. Qed.
Print Assumptions C05_encrypt_pads.

(* pad_need n is the unique p in 0..15 with n + p = 0 mod 16; in particular 0 when already aligned *)
Theorem C05_pad_need_spec : forall n,
  pad_need n < 16 /\ Nat.modulo (n + pad_need n) 16 = 0 /\
  (forall p, p < 16 -> Nat.modulo (n + p) 16 = 0 -> p = pad_need n) /\
  (Nat.modulo n 16 = 0 -> pad_need n = 0).
Proof.
  intros n. split; [apply pad_need_lt|]. split; [apply pad_need_aligned|].
  split; [apply pad_need_unique|apply pad_need_zero].
Qed.
Print Assumptions C05_pad_need_spec.

Theorem C05_decrypt_msg : forall (H : bytes -> bytes) (D : bytes -> bytes -> bytes),
  (forall m, length (H m) = 20) -> (forall k b, length (D k b) = 16) ->
  forall msg auth_key check_data, 136 <= length auth_key ->
  (forall n, length msg = 16 * n -> 1 <= n ->
     exists k iv, generate_aes_ige H check_data auth_key true = Ok (k, iv) /\
                  decrypt_msg H D msg auth_key check_data = Ok (ige_decrypt D k iv msg)) /\
  (length msg = 0 \/ Nat.modulo (length msg) 16 <> 0 -> decrypt_msg H D msg auth_key check_data = Err).
Proof.
  intros H D HL DL msg ak cd Hl. split.
  - intros n Hn Hn1. apply (decrypt_msg_spec H D HL DL msg ak cd n); assumption.
  - apply decrypt_msg_rejects; assumption.
Qed.
Print Assumptions C05_decrypt_msg.

(* ---- 6. temp keys = MTProto formula on the raw 32/16-byte nonces (leading zero bytes included) ---- *)
Theorem C05_tempkeys_spec : forall (H : bytes -> bytes), (forall m, length (H m) = 20) ->
  forall new_nonce server_nonce,
  length new_nonce = 32 -> bytes_ok new_nonce = true ->
  length server_nonce = 16 -> bytes_ok server_nonce = true ->
  generate_temp_keys H (of_be new_nonce) (of_be server_nonce)
  = Ok (H (new_nonce ++ server_nonce) ++ firstn 12 (H (server_nonce ++ new_nonce)),
        skipn 12 (H (server_nonce ++ new_nonce)) ++ H (new_nonce ++ new_nonce) ++ firstn 4 new_nonce).
Proof. exact generate_temp_keys_spec. Qed.
Print Assumptions C05_tempkeys_spec.

Theorem C05_tempkeys_spec_sha1 : forall new_nonce server_nonce,
  length new_nonce = 32 -> bytes_ok new_nonce = true ->
  length server_nonce = 16 -> bytes_ok server_nonce = true ->
  generate_temp_keys sha1 (of_be new_nonce) (of_be server_nonce)
  = Ok (tmp_aes_key sha1 new_nonce server_nonce, tmp_aes_iv sha1 new_nonce server_nonce).
Proof. exact (generate_temp_keys_spec sha1 sha1_length). Qed.
Print Assumptions C05_tempkeys_spec_sha1.

(* never a panic, for any big.Int values (zero, below 2^24, oversize) *)
Theorem C05_tempkeys_total : forall (H : bytes -> bytes), (forall m, length (H m) = 20) ->
  forall n1 n2, exists k iv, generate_temp_keys H n1 n2 = Ok (k, iv).
Proof. exact generate_temp_keys_total. Qed.
Print Assumptions C05_tempkeys_total.

(* the repository's fixture (TestGenerateTempKeys), by computation *)
Example C05_tempkeys_fixture :
  generate_temp_keys sha1 (of_be (hex "311c85db234aa2640afc4a76a735cf5b1f0fd68bd17fa181e1229ad867cc024d"))
                          (of_be (hex "a5cf4d33f4a11ea877ba4aa573907330"))
  = Ok (hex "f011280887c7bb01df0fc4e17830e0b91fbb8be4b2267cb985ae25f33b527253",
        hex "3212d579ee35452ed23e0d0c92841aa7d31b2e9bdef2151e80d15860311c85db").
Proof. vm_compute. reflexivity. Qed.
Print Assumptions C05_tempkeys_fixture.

(* ---- 7. the key-exchange wrapper recovers payloads of every length ---- *)
(* (a) from a conformant peer: textbook IGE under the MTProto temp keys of SHA1(payload) ++ payload ++ pad,
       any padding of 0..15 bytes that aligns the total; every payload length, hence every residue of
       (20 + len) mod 16 including 0 (no padding).
   (b) from the client itself: EncryptMessageWithTempKeys succeeds for every payload, appends
       pad_need (20+len) in 0..15 random bytes, and DecryptMessageWithTempKeys returns the payload.
   Explicit hypothesis about SHA-1: it does not collide between the payload and the payload extended by a
   non-empty prefix of the (at most 15) padding bytes - the strings the trim loop tries first. *)
Theorem C05_temp_roundtrip : forall (H : bytes -> bytes) (E D : bytes -> bytes -> bytes),
  (forall m, length (H m) = 20) -> (forall m, bytes_ok (H m) = true) ->
  (forall k b, length (E k b) = 16) -> (forall k b, length (D k b) = 16) ->
  (forall k b, bytes_ok k = true -> bytes_ok b = true -> bytes_ok (E k b) = true) ->
  (forall k b, length k = 32 -> bytes_ok k = true -> length b = 16 -> bytes_ok b = true -> D k (E k b) = b) ->
  forall new_nonce server_nonce payload,
  length new_nonce = 32 -> bytes_ok new_nonce = true ->
  length server_nonce = 16 -> bytes_ok server_nonce = true ->
  bytes_ok payload = true ->
  (forall pad,
     bytes_ok pad = true ->
     length pad <= 15 -> Nat.modulo (20 + length payload + length pad) 16 = 0 ->
     (forall i, 0 < i <= length pad -> H (payload ++ firstn i pad) <> H payload) ->
     decrypt_temp H D
       (ige_encrypt E (tmp_aes_key H new_nonce server_nonce) (tmp_aes_iv H new_nonce server_nonce)
                    (H payload ++ payload ++ pad))
       (of_be new_nonce) (of_be server_nonce) = Ok payload)
  /\
  (forall rnd : nat -> bytes, (forall n, length (rnd n) = n) -> (forall n, bytes_ok (rnd n) = true) ->
     (forall i, 0 < i <= pad_need (20 + length payload) ->
        H (payload ++ firstn i (rnd (pad_need (20 + length payload)))) <> H payload) ->
     exists ct, encrypt_temp H E rnd payload (of_be new_nonce) (of_be server_nonce) = Ok ct /\
                length ct = 20 + length payload + pad_need (20 + length payload) /\
                decrypt_temp H D ct (of_be new_nonce) (of_be server_nonce) = Ok payload).
Proof.
  intros H E D HL HO EL DL EO DE nn sn payload L1 O1 L2 O2 Opl. split.
  - intros pad Opad Lp Hal NC. apply (decrypt_temp_peer H E D HL HO EL DL EO DE); assumption.
  - intros rnd Hr Or NC. apply (temp_roundtrip_own H E D HL HO EL DL EO DE); assumption.
Qed.
Print Assumptions C05_temp_roundtrip.

(* ---- 7b. TryDecryptMessageWithTempKeys - the entry the handshake uses on data from the NETWORK - for EVERY
        ciphertext and every pair of nonces (no premise at all on the input):
        it never panics; it returns m exactly when the length is a positive multiple of 16 and at least 20 and m is
        the decrypted body with the fewest trailing bytes i in 0..15 removed such that SHA1(m) equals the first 20
        decrypted bytes; otherwise it returns an error.  [trydec_temp] is Crypto/TempKeys.v's model of it (error
        returns are Err, the two slice expressions keep their bounds tests, so "never Panic" is not by construction);
        DecryptMessageWithTempKeys is check(err) around it (C05_decrypt_is_checked_try). ---- *)
Theorem C05_try_decrypt_spec : forall (H : bytes -> bytes) (D : bytes -> bytes -> bytes),
  (forall m, length (H m) = 20) -> (forall k b, length (D k b) = 16) ->
  forall msg n1 n2,
  exists key iv, generate_temp_keys H n1 n2 = Ok (key, iv) /\
  let dec := ige_decrypt D key iv msg in
  let body := skipn 20 dec in
  match trydec_temp H D msg n1 n2 with
  | Panic => False
  | Ok m => is_correct_data msg = true /\ 20 <= length msg /\
            exists i, i <= 15 /\ i <= length msg - 20 /\ m = firstn (length msg - 20 - i) body /\
                      H m = firstn 20 dec /\
                      (forall i', i' < i -> H (firstn (length msg - 20 - i') body) <> firstn 20 dec)
  | Err => is_correct_data msg = false \/ length msg < 20 \/
           (forall i, i <= 15 -> i <= length msg - 20 -> H (firstn (length msg - 20 - i) body) <> firstn 20 dec)
  end.
Proof. exact trydec_temp_spec. Qed.
Print Assumptions C05_try_decrypt_spec.

Theorem C05_try_decrypt_never_panics : forall (H : bytes -> bytes) (D : bytes -> bytes -> bytes),
  (forall m, length (H m) = 20) -> (forall k b, length (D k b) = 16) ->
  forall msg n1 n2, trydec_temp H D msg n1 n2 <> Panic.
Proof. exact trydec_temp_no_panic. Qed.
Print Assumptions C05_try_decrypt_never_panics.

Theorem C05_try_decrypt_never_panics_inst : forall msg n1 n2, trydec_temp sha1 aes_dec msg n1 n2 <> Panic.
Proof. exact (trydec_temp_no_panic sha1 aes_dec sha1_length aes_dec_length). Qed.
Print Assumptions C05_try_decrypt_never_panics_inst.

Theorem C05_decrypt_is_checked_try : forall (H : bytes -> bytes) (D : bytes -> bytes -> bytes) msg n1 n2,
  (forall m, length (H m) = 20) ->
  decrypt_temp H D msg n1 n2 = match trydec_temp H D msg n1 n2 with Ok m => Ok m | _ => Panic end.
Proof. exact decrypt_temp_is_checked_try. Qed.
Print Assumptions C05_decrypt_is_checked_try.

(* both outcomes of the match occur: a 16-byte ciphertext (no room for the hash) and an empty one are errors *)
Example C05_try_decrypt_short :
  trydec_temp sha1 aes_dec (repeat 0%N 16) 5%N 7%N = Err /\ trydec_temp sha1 aes_dec [] 5%N 7%N = Err /\
  trydec_temp sha1 aes_dec (repeat 0%N 48) 5%N 7%N = Err.
Proof. vm_compute. repeat split; reflexivity. Qed.
Print Assumptions C05_try_decrypt_short.

(* with the Gallina SHA-1 and AES the ONLY hypothesis left is the explicit SHA-1 no-collision one *)
Theorem C05_temp_roundtrip_inst :
  forall new_nonce server_nonce payload,
  length new_nonce = 32 -> bytes_ok new_nonce = true ->
  length server_nonce = 16 -> bytes_ok server_nonce = true ->
  bytes_ok payload = true ->
  (forall pad,
     bytes_ok pad = true ->
     length pad <= 15 -> Nat.modulo (20 + length payload + length pad) 16 = 0 ->
     (forall i, 0 < i <= length pad -> sha1 (payload ++ firstn i pad) <> sha1 payload) ->
     decrypt_temp sha1 aes_dec
       (ige_encrypt aes_enc (tmp_aes_key sha1 new_nonce server_nonce) (tmp_aes_iv sha1 new_nonce server_nonce)
                    (sha1 payload ++ payload ++ pad))
       (of_be new_nonce) (of_be server_nonce) = Ok payload)
  /\
  (forall rnd : nat -> bytes, (forall n, length (rnd n) = n) -> (forall n, bytes_ok (rnd n) = true) ->
     (forall i, 0 < i <= pad_need (20 + length payload) ->
        sha1 (payload ++ firstn i (rnd (pad_need (20 + length payload)))) <> sha1 payload) ->
     exists ct, encrypt_temp sha1 aes_enc rnd payload (of_be new_nonce) (of_be server_nonce) = Ok ct /\
                length ct = 20 + length payload + pad_need (20 + length payload) /\
                decrypt_temp sha1 aes_dec ct (of_be new_nonce) (of_be server_nonce) = Ok payload).
Proof.
  apply (C05_temp_roundtrip sha1 aes_enc aes_dec sha1_length sha1_bytes_ok aes_enc_length aes_dec_length aes_enc_bytes_ok).
  intros k b Lk Ok Lb Ob. apply aes256_dec_enc; assumption.
Qed.
Print Assumptions C05_temp_roundtrip_inst.

(* the hypotheses are met by concrete data: the 12-byte payload ((20+12) mod 16 = 0, no padding) that the
   pinned tree lost, a new_nonce with a leading zero byte, everything computed with the Gallina SHA-1/AES *)
Example C05_roundtrip_len12 :
  let nn := 0%N :: hex "1c85db234aa2640afc4a76a735cf5b1f0fd68bd17fa181e1229ad867cc024d" in
  let sn := hex "a5cf4d33f4a11ea877ba4aa573907330" in
  let payload := hex "000102030405060708090a0b" in
  match encrypt_temp sha1 aes_enc (fun n => repeat 7%N n) payload (of_be nn) (of_be sn) with
  | Ok ct => Nat.eqb (length ct) 32 &&
             match decrypt_temp sha1 aes_dec ct (of_be nn) (of_be sn) with Ok p => beq p payload | _ => false end
  | _ => false
  end = true.
Proof. vm_compute. reflexivity. Qed.
Print Assumptions C05_roundtrip_len12.

Example C05_roundtrip_pad15 :
  let nn := hex "311c85db234aa2640afc4a76a735cf5b1f0fd68bd17fa181e1229ad867cc024d" in
  let sn := 0%N :: 0%N :: hex "4d33f4a11ea877ba4aa573907330" in
  let payload := hex "00010203040506070809101112" in
  let pad := hex "0102030405060708090a0b0c0d0e0f" in
  (forall i, 0 < i <= length pad -> sha1 (payload ++ firstn i pad) <> sha1 payload) /\
  decrypt_temp sha1 aes_dec
    (ige_encrypt aes_enc (tmp_aes_key sha1 nn sn) (tmp_aes_iv sha1 nn sn) (sha1 payload ++ payload ++ pad))
    (of_be nn) (of_be sn) = Ok payload.
Proof.
  cbv zeta. split.
  - intros i Hi. cbn [length hex] in Hi.
    assert (Hc : forallb (fun i => negb (beq (sha1 (hex "00010203040506070809101112" ++ firstn i (hex "0102030405060708090a0b0c0d0e0f")))
                                             (sha1 (hex "00010203040506070809101112")))) (seq 1 15) = true)
      by (vm_compute; reflexivity).
    rewrite forallb_forall in Hc. specialize (Hc i). rewrite in_seq in Hc.
    assert (Hl : length (hex "0102030405060708090a0b0c0d0e0f") = 15) by reflexivity. rewrite Hl in Hi.
    specialize (Hc ltac:(lia)). apply Bool.negb_true_iff in Hc. now apply beq_neq.
  - vm_compute. reflexivity.
Qed.
Print Assumptions C05_roundtrip_pad15.
