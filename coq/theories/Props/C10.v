(* C10 - The client's outgoing stream obeys msg_id, seq_no and acknowledgement rules.
   Statements only; proofs in Client/SeqNo.v.  Model: Client/Model.v (the code after the repair
   "msg_id is taken under the send lock and bumped if the clock did not advance").
   [run init ls = Some s]: the label list ls (any number of callers, any interleaving of their
   steps with the receive loop, any clock readings, any server frames) is a history of the client.
   [wire_out (elog s)] is the stream of messages written so far, NEWEST FIRST (head = last
   message written), so "StronglySorted R" reads: every message is R-related to all OLDER ones. *)
From Coq Require Import ZArith List Bool Sorted Lia.
From MTV Require Import Client.Model Client.StepLemmas Client.SeqNo Client.Examples.
Import ListNotations.
Open Scope Z_scope.

(* msg_ids are multiples of 4 and strictly increase in the order the messages are written;
   content-related messages (requests) carry odd seq_no, msgs_ack even; seq_no (Go int32) never
   decreases as long as fewer than 2^30 messages were written in the session. *)
Theorem C10_wire_order : forall ls s, run init ls = Some s ->
  let w := wire_out (elog s) in
  (forall x, In x w -> w_id x mod 4 = 0) /\
  StronglySorted (fun newer older => w_id newer > w_id older) w /\
  (forall x, In x w -> Z.odd (w_seq x) = is_content x) /\
  (Z.of_nat (length w) < 1073741824 ->
   StronglySorted (fun newer older => w_seq newer >= w_seq older) w).
Proof.
  intros ls s H. destruct (Inv10_run _ _ H) as [A [B1 B2] _]. cbv zeta.
  split; [exact (a_mod_w _ A)|]. split; [exact (a_sorted _ A)|].
  split; [exact (wseq_parity _ B2)|exact (wseq_monotone _ B2)].
Qed.
Print Assumptions C10_wire_order.

(* Whenever the receive loop is back at its read (between two frames), every message it has
   received with an odd seq_no - top level or container item: ERecv is logged for both - is
   followed in the event log by a msgs_ack that names its msg_id.
   elog is newest first: [post] are the events AFTER the reception. *)
Theorem C10_acks : forall ls s, run init ls = Some s -> rx s = RRead ->
  forall post pre sid seq, elog s = post ++ ERecv sid seq :: pre -> Z.odd seq = true ->
  exists w, In (ESent w) post /\ w_kind w = WAck sid.
Proof.
  intros ls s H R post pre sid seq E O. destruct (Inv10_run _ _ H) as [_ _ D].
  unfold InvD in D. rewrite R in D. simpl in D.
  assert (U : unacked (elog s) = []) by (destruct (unacked (elog s)) as [|x l]; [auto|destruct (D x); left; auto]).
  destruct (unacked_sound _ _ U _ _ _ _ E O) as [[]|X]. exact X.
Qed.
Print Assumptions C10_acks.

(* In between, the acknowledgements still missing are exactly the ones the loop has on its
   stack (the tail of processResponse for the frame and for the enclosing containers). *)
Theorem C10_acks_pending : forall ls s o, run init ls = Some s -> owed (rx s) = Some o ->
  incl (unacked (elog s)) o.
Proof.
  intros ls s o H E. destruct (Inv10_run _ _ H) as [_ _ D]. unfold InvD in D. rewrite E in D. exact D.
Qed.
Print Assumptions C10_acks_pending.

(* The send lock is a mutual exclusion: whoever has taken a msg_id and not yet returned from
   sendPacket holds it, so id generation + write + seq_no update are atomic w.r.t. other senders. *)
Theorem C10_lock_discipline : forall ls s, run init ls = Some s ->
  (forall t i, c_pc (getc t s) = CReg i \/ c_pc (getc t s) = CWritten i -> lock s = Some (ACaller t)) /\
  (forall sid i ks, rx s = RAckReg sid i ks \/ rx s = RAckWritten sid i ks -> lock s = Some ARx).
Proof.
  intros ls s H. destruct (Inv10_run _ _ H) as [A _ _]. split; [exact (a_lock_c _ A)|exact (a_lock_r _ A)].
Qed.
Print Assumptions C10_lock_discipline.

(* The clock is an input of every step that takes an id ([LStep a clk]: GenerateMessageId() read 4*clk), and
   C10_wire_order quantifies over all label lists, hence over EVERY sequence of clock readings: advancing,
   constant (two sends in one tick), decreasing (NTP step, VM resume).  What newMsgID makes of a reading: *)
Theorem C10_id_generator : forall last clk,
  last < fresh_id last clk /\
  (last < 4 * clk -> fresh_id last clk = 4 * clk) /\
  (4 * clk <= last -> fresh_id last clk = last + 4).
Proof.
  intros last clk. unfold fresh_id. cbv zeta. destruct (Z.leb_spec (4 * clk) last); repeat split; intros; lia.
Qed.
Print Assumptions C10_id_generator.

(* a history in which the clock stands still and then goes back (readings 10 10 3 0): ids 40 44 48 52 *)
Example C10_example_clock_behind :
  option_map (fun s => map w_id (wire_out (elog s))) (run init ex_clock_behind) = Some [52; 48; 44; 40].
Proof. vm_compute. reflexivity. Qed.
Print Assumptions C10_example_clock_behind.

(* "content-related" is the LOW BIT of the seq_no's 32-bit pattern: the model tests [Z.odd seq] ([settle], [unacked_aux])
   and it does not matter whether a seq_no with the top bit set (0x80000001, 0xffffffff) is read as the signed Go
   int32 / int or as the unsigned word: the parity is the same - unlike Go's seq % 2 == 1, false for negative odd values *)
Theorem C10_parity_is_low_bit_of_the_pattern : forall z,
  Z.odd z = Z.odd (z mod 4294967296) /\ Z.odd z = Z.odd (wrap32 z) /\ Z.odd z = Z.testbit z 0.
Proof.
  assert (P : forall a b, a - b = 4294967296 * ((a - b) / 4294967296) -> Z.odd a = Z.odd b).
  { intros a b H. replace a with (b + 2 * (2147483648 * ((a - b) / 4294967296))) by lia.
    rewrite Z.odd_add_mul_2. reflexivity. }
  intros z. split; [|split].
  - apply P. pose proof (Z.div_mod z 4294967296 ltac:(lia)).
    replace (z - z mod 4294967296) with (4294967296 * (z / 4294967296)) by lia.
    rewrite Z.mul_comm, Z.div_mul by lia. lia.
  - unfold wrap32. apply P.
    pose proof (Z.div_mod (z + 2147483648) 4294967296 ltac:(lia)).
    replace (z - ((z + 2147483648) mod 4294967296 - 2147483648)) with (4294967296 * ((z + 2147483648) / 4294967296)) by lia.
    rewrite Z.mul_comm, Z.div_mul by lia. lia.
  - symmetry. apply Z.bit0_odd.
Qed.
Print Assumptions C10_parity_is_low_bit_of_the_pattern.

(* Non-vacuity: Client/Examples.v [ex_completes] is a history with two callers, two requests and
   two acknowledgements on the wire (ids 40 44 48 80, seq_nos 1 3 4 6) ending at RRead. *)
Example C10_example : exists s, run init ex_labels = Some s /\ rx s = RRead /\ length (wire_out (elog s)) = 4%nat.
Proof. eexists. split; [vm_compute; reflexivity|split; reflexivity]. Qed.
Print Assumptions C10_example.

(* ---- the same rules over the extended system of Client/Live.v --------------------------------------
   [run2 (init2 c) ls = Some s]: histories that also contain salt rotation (bad_server_salt, retries),
   every message the receive loop survives since the C16 repairs, the server closing the connection
   (LClose) and the client reconnecting, a key exchange.  [wire_out (elog (base s))] is ONE stream over
   all connections of the session: Reconnect keeps session id and key, so the server sees the
   continuation of the same numbering - msg_id must keep increasing and seq_no must not fall back
   across a reconnect. *)
From MTV Require Import Client.Live Client.LiveInv Client.LiveSeq Client.LiveExamples.

Theorem C10_wire_order_live : forall c ls s, run2 (init2 c) ls = Some s ->
  let w := wire_out (elog (base s)) in
  (forall x, In x w -> w_id x mod 4 = 0) /\
  StronglySorted (fun newer older => w_id newer > w_id older) w /\
  (forall x, In x w -> Z.odd (w_seq x) = is_content x) /\
  (Z.of_nat (length w) < 1073741824 ->
   StronglySorted (fun newer older => w_seq newer >= w_seq older) w).
Proof.
  intros c ls s H. destruct (InvAB_run2 _ _ _ H) as [A [B1 B2]]. cbv zeta.
  split; [exact (a_mod_w _ A)|]. split; [exact (a_sorted _ A)|].
  split; [exact (wseq_parity _ B2)|exact (wseq_monotone _ B2)].
Qed.
Print Assumptions C10_wire_order_live.

(* the reconnect transition: a new connection generation; seqNo, lastMsgID and the stream written so far
   are untouched, no key exchange, no plain frame *)
Theorem C10_reconnect_keeps_numbering : forall s clk s', keyed s = true -> rx (base s) = RReconnect ->
  step2 s (L1 (LStep ARx clk)) = Some s' ->
  gen s' = S (gen s) /\ seqno (base s') = seqno (base s) /\ last_id (base s') = last_id (base s) /\
  wire (base s') = wire (base s) /\ keyex s' = keyex s /\ plain_out s' = plain_out s.
Proof. exact reconnect_keeps_numbering. Qed.
Print Assumptions C10_reconnect_keeps_numbering.

(* acknowledgements: ERecv is logged once per DELIVERY (a message the server repeats, or sends with a
   lower msg_id than an earlier one, is a new delivery), for every message processResponse is entered for -
   also one whose body cannot be decoded or handled (unregistered constructor, rpc_result nobody waits for,
   bad_msg_notification): msg_id and seq_no come from the envelope.  Each delivery with an odd seq_no is
   followed by its own msgs_ack; no side condition: a failing message no longer suppresses its own
   acknowledgement, nor the ones of the messages around it.  (What the transport itself refuses - undecryptable
   packet, 4-byte error code - has no msg_id the client could acknowledge and is not an ERecv.) *)
Theorem C10_acks_live : forall c ls s, run2 (init2 c) ls = Some s -> rx (base s) = RRead ->
  forall post pre sid seq, elog (base s) = post ++ ERecv sid seq :: pre -> Z.odd seq = true ->
  exists w, In (ESent w) post /\ w_kind w = WAck sid.
Proof.
  intros c ls s H R post pre sid seq E O. pose proof (InvD2_run _ _ _ H) as D.
  unfold InvD2b in D. rewrite R in D. simpl in D.
  assert (U : unacked (elog (base s)) = []) by (destruct (unacked (elog (base s))) as [|x l]; [auto|destruct (D x); left; auto]).
  destruct (unacked_sound _ _ U _ _ _ _ E O) as [[]|X]. exact X.
Qed.
Print Assumptions C10_acks_live.

Theorem C10_acks_pending_live : forall c ls s o, run2 (init2 c) ls = Some s ->
  owed2 (rx (base s)) = Some o -> incl (unacked (elog (base s))) o.
Proof.
  intros c ls s o H E. pose proof (InvD2_run _ _ _ H) as D. unfold InvD2b in D. rewrite E in D. exact D.
Qed.
Print Assumptions C10_acks_pending_live.

(* "odd seq_no" is the low bit of the 32-bit field, also for seq_nos at and above 2^31 (negative as Go int32):
   [ERecv sid seq] carries the field as the server wrote it and the model tests Z.odd - the low bit of the pattern
   whether it is read signed or unsigned, never a signed remainder.  Non-vacuity: [ex_wide_seq] - 0x80000001,
   0xffffffff, 0x7fffffff are acknowledged, 0x80000000 and 0xfffffffe are not, plain and as container items. *)
Example C10_seq_parity_is_the_low_bit :
  map Z.odd [-2147483647; -1; 2147483647; -2147483648; -2; 2147483649; 4294967295; 2147483648; 4294967294]
  = [true; true; true; false; false; true; true; false; false].
Proof. exact LiveExamples.seq_parity_is_the_low_bit. Qed.
Print Assumptions C10_seq_parity_is_the_low_bit.

Example C10_example_wide_seq : exists s, run2 (init2 LiveExamples.cfg_handler) LiveExamples.ex_wide_seq = Some s /\
  rx (base s) = RRead /\ unacked (elog (base s)) = [] /\
  map (fun w => w_kind w) (wire_out (elog (base s))) = [WAck 51; WAck 47; WAck 43; WAck 11; WAck 7; WAck 3].
Proof. eexists. split; [vm_compute; reflexivity|repeat split; reflexivity]. Qed.
Print Assumptions C10_example_wide_seq.
