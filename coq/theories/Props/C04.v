(* C04 - Forged or altered packets are refused, never accepted and never crash the client.
   Statements only; proofs in Crypto/EnvelopeProofs.v, model in Crypto/Envelope.v.
   [open_client] = messages.DeserializeEncrypted as it is at HEAD, i.e. after the repairs of the
   defects this property found in the pinned tree 0b0db56:
     - no minimum packet length => negative make / slice panics           (fix ea060c6)
     - declared-length test in the wrong direction => slice-bounds panics  (fix ea060c6)
     - absent / short auth key (key exchange still running, or a short key from a session file)
       and a packet carrying that key's id => panic in generateAESIGE       (fix f55fe7c)
   with an explicit [Panic] at every place where the Go code can still panic: decrypted[0:32+len]
   and generateAESIGE on a key shorter than 136 bytes (both now unreachable - that is the theorem).
   PopRawBytes no longer panics on a negative size (internal/encoding/tl/cursor_r.go sets the
   decoder error instead); the model's [pop_raw] follows HEAD.
   [open_client_pinned] = the function as it was in the pinned tree (with the PopRawBytes of that
   tree); it is a historical record, tied to no code any more: Example C04_pinned_code_panics.

   SHA-1 and AES-IGE are arbitrary functions here: C04_accept_implies_checks and C04_no_panic need
   NO hypothesis about them, and no hypothesis about the key. *)
From Coq Require Import String ZArith NArith List Bool.
From MTV Require Import Base.Bytes Base.Outcome Base.Str Prim.Hex Prim.Sha1
  Crypto.Envelope Crypto.EnvelopeProofs Crypto.EnvelopeIge Props.C03.
Import ListNotations.
Open Scope N_scope.

(* A packet yields a message ONLY IF
     - it has the 24-byte header and at least one cipher block, its ciphertext is a positive
       multiple of 16 bytes,
     - the session has an auth key of at least 136 bytes (a client without a key accepts nothing),
     - its key id (bytes 0..8) is that of the session's auth key,
     - the declared body length lies inside the decrypted data: 0 <= len <= |dec| - 32,
     - its msg_key (bytes 8..24) equals SHA1(dec[0 .. 32+len])[4..20],
     - its msg_id has server parity (1 or 3 mod 4),
   and then the message consists of exactly the fields of the decrypted data [dec], where
   dec = IGE-decrypt of bytes 24.. under the key/IV of the x = 8 schedule for that msg_key. *)
Theorem C04_accept_implies_checks : forall sha1 ige_d key pkt m,
  open_client sha1 ige_d key pkt = Ok m ->
  (40 <= length pkt)%nat /\ (136 <= length key)%nat /\
  slice pkt 0 8 = auth_key_id sha1 key /\
  exists k iv dec,
    kiv sha1 8 key (slice pkt 8 24) = Ok (k, iv) /\
    (16 <= length (skipn 24 pkt))%nat /\ (length (skipn 24 pkt) mod 16 = 0)%nat /\
    dec = ige_d k iv (skipn 24 pkt) /\
    let len := to_i32 (of_le (slice dec 28 32)) in
    (0 <= len <= Z.of_nat (length dec) - 32)%Z /\
    slice pkt 8 24 = msg_key sha1 (firstn (Z.to_nat (32 + len)) dec) /\
    server_parity (of_le (slice dec 16 24)) = true /\
    m = mkemsg (of_le (slice dec 0 8)) (of_le (slice dec 8 16)) (of_le (slice dec 16 24))
               (of_le (slice dec 24 28)) (slice pkt 8 24) (firstn (Z.to_nat len) (skipn 32 dec)).
Proof.
  intros sha1 ige_d key pkt m H.
  destruct (accept_inv sha1 ige_d key pkt m H) as (H40 & H136 & Hid & dec & Ed & Hrest).
  destruct (decrypt_ok_inv sha1 ige_d _ _ _ _ Ed) as (k & iv & Hk & Hdec & Hl & Hm).
  split; [exact H40|]. split; [exact H136|]. split; [exact Hid|]. exists k, iv, dec. repeat split; try assumption; apply Hrest.
Qed.
Print Assumptions C04_accept_implies_checks.

(* msg_ids are 64-bit patterns in the model ([of_le] of 8 bytes, < 2^64).  The parity the theorems
   speak of - [server_parity], n mod 4 in {1, 3} on the UNSIGNED pattern - is exactly what Go's
   "id & 3" computes on the SIGNED int64, also for negative ids (bit 63 set, i.e. unixtime >= 2^31):
   two's complement keeps the low bits.  So C04_accept_implies_checks and C03_client_opens_server
   cover negative msg_ids explicitly.  (Go's signed remainder "id % 4" would differ: see the
   Examples C04_negative_ids below.) *)
Theorem C04_parity_is_low_bits_of_signed_id : forall n, n < 2 ^ 64 ->
  server_parity n = go_parity n /\ Z.land (to_i64 n) 3 = Z.of_N (n mod 4).
Proof. intros n H. split; [apply server_parity_signed|apply land3_signed]; exact H. Qed.
Print Assumptions C04_parity_is_low_bits_of_signed_id.

(* every accepted message has server parity - stated on the message itself, and for Go's signed
   view of the id too.  Premise: the msg_id field of THIS message is a 64-bit pattern; it is one
   whenever the decrypted data are bytes (lemma [of_le_slice8_lt]; Go: []byte), and it is
   discharged with the real primitives in Example C04_negative_ids_have_go_parity below.
   (That the Gallina AES returns byte values for every input is not proved in Prim; SHA-1 and IGE
   are arbitrary functions here, so the premise cannot be dropped.) *)
Theorem C04_accepted_has_server_parity : forall sha1 ige_d key pkt m,
  open_client sha1 ige_d key pkt = Ok m ->
  e_msgid m < 2 ^ 64 ->
  server_parity (e_msgid m) = true /\ go_parity (e_msgid m) = true.
Proof.
  intros sha1 ige_d key pkt m H Hlt.
  destruct (accept_inv sha1 ige_d key pkt m H) as (_ & _ & _ & dec & _ & Hrest). cbv zeta in Hrest.
  destruct Hrest as (_ & _ & Hp & ->). cbn [e_msgid] in *.
  split; [exact Hp|]. rewrite <- server_parity_signed by exact Hlt. exact Hp.
Qed.
Print Assumptions C04_accepted_has_server_parity.

(* For ALL packets (any length, any content) and for EVERY auth key - absent (nil), short, 256
   bytes, longer - the receive path never panics: it returns a message or an error.  (With a key
   shorter than 136 bytes, which the key schedule could not use, it returns an error at once.) *)
Theorem C04_no_panic : forall sha1 ige_d key pkt, open_client sha1 ige_d key pkt <> Panic.
Proof. exact open_client_no_panic. Qed.
Print Assumptions C04_no_panic.

(* the same for the other receive entry points: DeserializeUnencrypted (any data) and the
   dispatch + parity check of transport.ReadMsg *)
Theorem C04_no_panic_unencrypted : forall data, deserialize_unencrypted data <> Panic.
Proof. exact deserialize_unencrypted_no_panic. Qed.
Print Assumptions C04_no_panic_unencrypted.

Theorem C04_no_panic_dispatch : forall sha1 ige_d key data,
  read_dispatch sha1 ige_d key data <> Panic.
Proof. exact read_dispatch_no_panic. Qed.
Print Assumptions C04_no_panic_dispatch.

(* History independence: whatever was received before and whatever is received afterwards
   (honest packets, forged ones, other auth keys), the message produced for a packet is the one
   [open_client] gives for that packet alone - so everything proved above about single packets
   holds for every packet of every history, and an accepted message stays what it was.  That the
   Go code has no state or aliasing that would make it deviate is what the sequence correspondence
   checks (see the comment at [receive_history] in Crypto/Envelope.v). *)
Theorem C04_history_independent : forall sha1 ige_d before call after,
  nth_error (receive_history sha1 ige_d (before ++ call :: after)) (length before)
  = Some (open_client sha1 ige_d (fst call) (snd call)).
Proof.
  intros. unfold receive_history. rewrite map_app, nth_error_app2 by (rewrite map_length; auto).
  rewrite map_length, Nat.sub_diag. reflexivity.
Qed.
Print Assumptions C04_history_independent.

(* "It never produces a message different from the one the key holder sealed."
   FULL STATEMENT (not provable without idealising the hash): for every packet pkt' obtained from
   a sealed packet by flipping bits / truncating / re-keying, open_client key pkt' = Err.
   A bit flip turns the decrypted data into some other string; that its SHA-1 does not happen to
   match the msg_key carried by the packet is a property of SHA-1 (second-preimage resistance
   over an attacker-influenced family of strings), not of this code.  Moreover MTProto 1.0 does
   not authenticate the padding: a flip that only garbles padding bytes of the plaintext (e.g. in a
   last cipher block holding one body byte and 15 padding bytes: probability 1/256 per flip, seen
   by the thorough enumeration) leaves msg_key's input intact and IS accepted - with exactly the
   sealed message.  So the literal "every altered bit is refused" is false for this protocol
   version whatever the code does; "never a different message" is what can hold.
   PROVED CORE: an accepted packet that carries the msg_key of a sealed message yields exactly
   that message, under the explicit hypothesis that msg_key (= SHA-1 bits 32..159) does not
   collide on the two specific strings involved - T, the decrypted prefix the client hashed for
   this packet ([client_plain], determined by key and pkt), and P, the sealed plaintext.
   Together with C04_accept_implies_checks this is the exact acceptance condition; the fault
   enumeration of the check (every bit flip, truncation, length, ...) covers the rest empirically. *)
Theorem C04_same_message_partial : forall sha1 ige_d key pkt m salt sid msgid seq body,
  open_client sha1 ige_d key pkt = Ok m ->
  salt < 2 ^ 64 -> sid < 2 ^ 64 -> msgid < 2 ^ 64 -> seq < 2 ^ 32 -> N.of_nat (length body) < 2 ^ 31 ->
  let P := le64 salt ++ le64 sid ++ le64 msgid ++ le32 seq ++ le32 (N.of_nat (length body)) ++ body in
  slice pkt 8 24 = msg_key sha1 P ->
  (forall T, client_plain sha1 ige_d key pkt = Some T -> msg_key sha1 T = msg_key sha1 P -> T = P) ->
  fields_of m = (salt, sid, msgid, seq, body).
Proof. exact same_message_core. Qed.
Print Assumptions C04_same_message_partial.

(* ---------------------------------------------------------------------------------------- *)
(* non-vacuity, with the real primitives (Gallina SHA-1 / AES-256) *)

Definition srv_packet : bytes :=
  seal_server sha1 x_ige_e test_key 7 9 125 3 test_body (hex "a1b2c3d4e5f60718aa").

(* the hypotheses of C04_accept_implies_checks / C04_same_message_partial are met by a real packet *)
Example C04_accepts_valid :
  omap fields_of (open_client sha1 x_ige_d test_key srv_packet) = Ok (7, 9, 125, 3, test_body).
Proof. vm_compute. reflexivity. Qed.
Print Assumptions C04_accepts_valid.

(* negative msg_ids (bit 63 set) x the four low-bit patterns: a conformant server's packet is
   accepted iff the low bits are 01 or 11; Go's signed remainder is not the parity *)
Definition srv_packet_id (msgid : N) : bytes :=
  seal_server sha1 x_ige_e test_key 7 9 msgid 3 test_body (hex "a1b2c3d4e5f60718aa").

Example C04_negative_ids :
  map (fun low => is_ok (open_client sha1 x_ige_d test_key (srv_packet_id (2 ^ 63 + 4 * 1234567 + low)))) [0; 1; 2; 3]
    = [false; true; false; true] /\
  map (fun low => is_ok (open_client sha1 x_ige_d test_key (srv_packet_id (2 ^ 64 - 4 + low)))) [0; 1; 2; 3]
    = [false; true; false; true] /\
  map (fun low => is_ok (deserialize_unencrypted (serialize_unencrypted (2 ^ 63 + 8 + low) test_body))) [0; 1; 2; 3]
    = [false; true; false; true] /\
  to_i64 (2 ^ 64 - 2) = (-2)%Z /\ Z.rem (to_i64 (2 ^ 64 - 2)) 4 = (-2)%Z /\ Z.land (to_i64 (2 ^ 64 - 2)) 3 = 2%Z /\
  to_i64 (2 ^ 64 - 1) = (-1)%Z /\ Z.rem (to_i64 (2 ^ 64 - 1)) 4 = (-1)%Z /\ Z.land (to_i64 (2 ^ 64 - 1)) 3 = 3%Z.
Proof. vm_compute. repeat split; reflexivity. Qed.
Print Assumptions C04_negative_ids.

(* the premise of C04_accepted_has_server_parity holds, and its conclusion is checked, for real
   packets with negative ids under the real primitives *)
Example C04_negative_ids_have_go_parity :
  map (fun low => match open_client sha1 x_ige_d test_key (srv_packet_id (2 ^ 63 + 4 * 1234567 + low)) with
                  | Ok m => (e_msgid m <? 2 ^ 64) && server_parity (e_msgid m) && go_parity (e_msgid m)
                            && (e_msgid m =? 2 ^ 63 + 4 * 1234567 + low)
                  | _ => false
                  end) [1; 3] = [true; true].
Proof. vm_compute. reflexivity. Qed.
Print Assumptions C04_negative_ids_have_go_parity.

(* a client without an auth key (key exchange still running) or with a short one: a packet that
   carries exactly that key's id - SHA1("")[12..20] is public - is refused with an error; the
   pinned code panicked in the key schedule *)
Definition short_key_packet (key : bytes) : bytes :=
  auth_key_id sha1 key ++ hex "000102030405060708090a0b0c0d0e0f" ++ hex "101112131415161718191a1b1c1d1e1f".

Example C04_short_keys_refused :
  map (fun key => open_client sha1 x_ige_d key (short_key_packet key))
      [[]; [7]; firstn 127 test_key; firstn 128 test_key; firstn 135 test_key] = [Err; Err; Err; Err; Err] /\
  is_panic (open_client sha1 x_ige_d (firstn 136 test_key) (short_key_packet (firstn 136 test_key))) = false /\
  map (fun key => open_client_pinned sha1 x_ige_d key (short_key_packet key))
      [[]; firstn 135 test_key] = [Panic; Panic].
Proof. vm_compute. repeat split; reflexivity. Qed.
Print Assumptions C04_short_keys_refused.

Definition flip_bit0 (i : nat) (l : bytes) : bytes :=
  firstn i l ++ match skipn i l with [] => [] | b :: r => N.lxor b 1 :: r end.

(* one flipped bit in the ciphertext, in msg_key, in the key id; a truncation; the bare key id;
   key id + 3 bytes (the probe that crashed the pinned code): all refused by the repaired code *)
Example C04_refuses_damaged :
  map (fun p => is_ok (open_client sha1 x_ige_d test_key p))
      [flip_bit0 40 srv_packet; flip_bit0 10 srv_packet; flip_bit0 0 srv_packet;
       firstn 72 srv_packet; firstn 8 srv_packet; firstn 8 srv_packet ++ [1; 2; 3]]
  = [false; false; false; false; false; false]
  /\ map (fun p => is_panic (open_client sha1 x_ige_d test_key p))
      [flip_bit0 40 srv_packet; flip_bit0 10 srv_packet; flip_bit0 0 srv_packet;
       firstn 72 srv_packet; firstn 8 srv_packet; firstn 8 srv_packet ++ [1; 2; 3]]
  = [false; false; false; false; false; false].
Proof. vm_compute. split; reflexivity. Qed.
Print Assumptions C04_refuses_damaged.

(* HISTORICAL RECORD (tied to no code now): the code of the pinned tree 0b0db56 panics: key id + 3 bytes (negative make), and a key holder's packet
   declaring length -1 (msg_key taken over the 31 bytes the client will hash: negative make) or
   real length + 17 (slice bounds); the repaired code returns errors *)
Definition holder_packet (declared : N) (hashed : nat) : bytes :=
  let plain := le64 7 ++ le64 9 ++ le64 125 ++ le32 3 ++ le32 declared ++ test_body ++ hex "a1b2c3d4e5f60718aa" in
  let mk := msg_key sha1 (firstn hashed plain) in
  match kiv sha1 8 test_key mk with
  | Ok (k, iv) => auth_key_id sha1 test_key ++ mk ++ x_ige_e k iv plain
  | _ => []
  end.

Example C04_pinned_code_panics :
  open_client_pinned sha1 x_ige_d test_key (firstn 8 srv_packet ++ [1; 2; 3]) = Panic /\
  open_client_pinned sha1 x_ige_d test_key (holder_packet 4294967295 31) = Panic /\
  open_client_pinned sha1 x_ige_d test_key (holder_packet 40 64) = Panic /\
  open_client sha1 x_ige_d test_key (holder_packet 4294967295 31) = Err /\
  open_client sha1 x_ige_d test_key (holder_packet 40 64) = Err.
Proof. vm_compute. repeat split; reflexivity. Qed.
Print Assumptions C04_pinned_code_panics.
