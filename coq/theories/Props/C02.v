(* C02 - TL wire format equals the schema-defined serialisation.
   (The equivalence theorem enc = spec is added from TL/SpecProofs.v when it lands.) *)
From Coq Require Import NArith List.
From MTV Require Import Base.Bytes Base.Outcome TL.Types TL.Codec TL.Typing TL.TLText TL.Spec.
Import ListNotations.
Open Scope N_scope.

(* a byte string of 2^24 bytes or more is refused rather than mis-encoded *)
Theorem C02_too_large_refused : forall m, two24 <= blen m -> put_bytes m = None.
Proof. exact put_bytes_too_large. Qed.
Print Assumptions C02_too_large_refused.

(* length-prefixed, 4-byte aligned strings with 1- or 4-byte headers read back *)
Theorem C02_bytes_layout : forall m bs rest, put_bytes m = Some bs -> pop_bytes (bs ++ rest) = Some (m, rest).
Proof. exact pop_put. Qed.
Print Assumptions C02_bytes_layout.
