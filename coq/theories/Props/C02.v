(* C02 - TL wire format equals the schema-defined serialisation for every constructor.
   Statements only; proofs in TL/SpecProofs.v (+ MatchProofs.v, RoundTrip.v), TL/Types.v.

   spec S      the serialiser written from the TL definition alone, driven by the parsed schema S
   abs U v     the schema-level reading of a codec value (constructor id, present/absent arguments)
   all_in_schema U S tbl v   every object inside v belongs to a type whose descriptor matches its
               schema line (struct_matches: parameters vs fields, position of `#`) and is well-formed
   enc U / decode_unknown U   the encoder / decoder models tied to the Go code by the correspondence *)
From Coq Require Import NArith List.
From MTV Require Import Base.Bytes Base.Outcome TL.Types TL.Codec TL.Typing TL.TLText TL.Match TL.Spec
  TL.RoundTrip TL.SpecProofs TL.Conform TL.ConformProofs.
Import ListNotations.
Open Scope N_scope.

(* the bytes produced for a value are exactly the TL serialisation the schema line defines *)
Theorem C02_encode_is_spec : forall U S tbl v bs,
  all_in_schema U S tbl v = true -> enc U v = Ok bs -> spec S (abs U v) = Some bs.
Proof. exact encode_is_spec. Qed.
Print Assumptions C02_encode_is_spec.

(* ... and conversely whatever the schema serialisation is, the encoder produces it *)
Theorem C02_spec_is_encode : forall U S tbl t v bs,
  all_in_schema U S tbl v = true -> wt U t v = true -> spec S (abs U v) = Some bs -> enc U v = Ok bs.
Proof. exact spec_is_encode. Qed.
Print Assumptions C02_spec_is_encode.

(* bytes built that way from the schema decode to the corresponding value *)
Theorem C02_spec_decodes : forall U S tbl inflate, pseudo_ok U = true -> forall tid fs bs,
  all_in_schema U S tbl (VObj tid fs) = true -> wt U (TIface 0) (VObj tid fs) = true ->
  spec S (abs U (VObj tid fs)) = Some bs ->
  exists f0, forall f, (f0 <= f)%nat -> decode_unknown U inflate f [] bs = DOk (norm U (VObj tid fs)).
Proof. exact spec_decodes. Qed.
Print Assumptions C02_spec_decodes.

(* a byte string of 2^24 bytes or more is refused rather than mis-encoded, by both sides *)
Theorem C02_too_large_refused : forall U s, two24 <= blen s ->
  enc U (VStr s) = Err /\ enc U (VBytes false s) = Err /\ forall S, spec S (SStr s) = None.
Proof. exact too_large_refused. Qed.
Print Assumptions C02_too_large_refused.

(* length-prefixed, 4-byte aligned strings with 1- or 4-byte headers read back *)
Theorem C02_bytes_layout : forall m bs rest, put_bytes m = Some bs -> pop_bytes (bs ++ rest) = Some (m, rest).
Proof. exact pop_put. Qed.
Print Assumptions C02_bytes_layout.

(* ... and that value is one the schema admits: the schema-level reading of a well-typed codec value
   conforms to the TL type its Go type stands for (constructors of the right result type, arguments
   conforming to the parameters, conditional arguments present or absent, enum members).
   Side conditions (decidable, evaluated on the shipped registry and schema in Inst/C02x.v):
   ids_distinct S, reg_consistent U, fields_exact U S; ty_exact for the pair of types at hand;
   enums_members: enum fields hold members (the codec accepts any 32-bit value there). *)
Theorem C02_value_conforms_to_schema : forall U S,
  ids_distinct S = true -> reg_consistent U = true -> fields_exact U S = true ->
  forall v t tt bs, let tbl := kind_table U S in
  all_in_schema U S tbl v = true -> wt U t v = true -> ty_agrees U tbl tt t = true ->
  ty_exact U S tt t = true -> enums_members U t v = true -> enc U v = Ok bs ->
  conforms S (sdepth (abs U v)) tt (abs U v) = true.
Proof. exact abs_conforms. Qed.
Print Assumptions C02_value_conforms_to_schema.

(* for a request: the function applied to conforming arguments *)
Theorem C02_call_conforms_to_schema : forall U S,
  ids_distinct S = true -> reg_consistent U = true -> fields_exact U S = true ->
  forall tid fs bs, let tbl := kind_table U S in
  all_in_schema U S tbl (VObj tid fs) = true -> wt U (TPtr tid) (VObj tid fs) = true ->
  enums_members U (TPtr tid) (VObj tid fs) = true -> enc U (VObj tid fs) = Ok bs ->
  conforms_call S (sdepth (abs U (VObj tid fs))) (abs U (VObj tid fs)) = true.
Proof. exact abs_conforms_call. Qed.
Print Assumptions C02_call_conforms_to_schema.
