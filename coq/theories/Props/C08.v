(* C08 - Transport framing delivers the same messages however TCP splits the stream.
   Statements only; proofs live in Transport/FramingProofs.v, the model in Transport/Framing.v.

   [chunks : list bytes]   the segments in which the connection hands the byte stream to the reader
                           (ANY list: empty chunks, one byte each, everything coalesced, ...);
   [conn_read n]           tcpConn.Read with a buffer of n bytes = io.ReadFull on the socket;
   [wire v msgs]           = announce v ++ concat (map (frame v) msgs): what mode.New + WriteMsg* write;
   [read_stream chunks]    a peer that runs mode.Detect and then ReadMsg until the first error
                           (None = out of fuel, excluded by C08_total);
   [carriable v m]         abridged: 4 | len m and len m / 4 < 2^24 (3-byte word count);
                           intermediate: len m < 2^32 (no alignment requirement in the code). *)
From Coq Require Import ZArith NArith List.
From MTV Require Import Base.Bytes Base.Outcome Transport.Framing Transport.FramingProofs Transport.TrDelivery.
Import ListNotations.
Open Scope N_scope.

(* Full statement: for every mode, every message list the format can carry and EVERY segmentation of
   the byte stream the writer produced, the reader recognises the mode, returns exactly the messages,
   in order, and then end-of-stream. *)
Theorem C08_delivery : forall v msgs chunks,
  Forall (carriable v) msgs ->
  concat chunks = announce v ++ concat (map (frame v) msgs) ->
  read_stream chunks = Some {| d_mode := Some v; d_msgs := msgs; d_end := EEof |}.
Proof. exact delivery. Qed.
Print Assumptions C08_delivery.

(* the hypotheses are satisfiable: 126- and 127-word messages, an empty one, cut at odd places *)
Example C08_delivery_instance :
  let msgs := [zeros 504; []; zeros 508; [1; 2; 3; 4]] in
  let s := wire Abridged msgs in
  Forall (carriable Abridged) msgs /\
  concat (cut [1; 1; 300; 0; 205; 2; 3] s) = announce Abridged ++ concat (map (frame Abridged) msgs) /\
  read_stream (cut [1; 1; 300; 0; 205; 2; 3] s) =
    Some {| d_mode := Some Abridged; d_msgs := msgs; d_end := EEof |}.
Proof.
  cbv zeta. split; [|split].
  - repeat constructor.
  - vm_compute. reflexivity.
  - vm_compute. reflexivity.
Qed.
Print Assumptions C08_delivery_instance.

Example C08_delivery_instance_intermediate :
  read_stream [[238; 238]; [238]; [238; 4; 0]; [0; 0; 9; 8; 7]; []; [6; 0; 0; 0]; [0]] =
    Some {| d_mode := Some Intermediate; d_msgs := [[9; 8; 7; 6]; []]; d_end := EEof |}.
Proof. vm_compute. reflexivity. Qed.
Print Assumptions C08_delivery_instance_intermediate.

(* Writer and reader together: what mode.New + WriteMsg* put on the wire comes out of Detect + ReadMsg*
   on the other side unchanged, under every segmentation. *)
Theorem C08_end_to_end : forall v msgs, Forall (carriable v) msgs ->
  exists s, write_stream v msgs = Ok s /\
    forall chunks, concat chunks = s ->
      read_stream chunks = Some {| d_mode := Some v; d_msgs := msgs; d_end := EEof |}.
Proof. exact end_to_end. Qed.
Print Assumptions C08_end_to_end.

(* The reader is a function of the concatenation only - for ANY byte stream, well-formed or not
   (truncated frames, garbage, wrong announcement): two segmentations of the same bytes give the
   same detected mode, the same messages and the same final error kind. *)
Theorem C08_segmentation_independent : forall c1 c2,
  concat c1 = concat c2 -> read_stream c1 = read_stream c2.
Proof. exact segmentation_independent. Qed.
Print Assumptions C08_segmentation_independent.

Theorem C08_transport_segmentation_independent : forall v c1 c2,
  concat c1 = concat c2 -> tr_stream v c1 = tr_stream v c2.
Proof. exact tr_segmentation_independent. Qed.
Print Assumptions C08_transport_segmentation_independent.

(* the read loop always terminates within the fuel the model gives it *)
Theorem C08_total : forall chunks v, read_stream chunks <> None /\ tr_stream v chunks <> None.
Proof. intros chunks v. split; [apply read_stream_total|apply tr_stream_total]. Qed.
Print Assumptions C08_total.

(* Byte-exact header layout.  Abridged: one byte = word count below 127 words, 0x7f + 3 bytes
   little-endian word count from 127 words on; Intermediate: 4 bytes little-endian byte count.
   WriteMsg writes exactly header ++ message; New writes the announcement. *)
Theorem C08_format :
  announce Abridged = [239] /\ announce Intermediate = [238; 238; 238; 238] /\
  (forall v m, frame v m = header v (blen m) ++ m) /\
  (forall v m, carriable v m -> write_msg v m = Ok (frame v m)) /\
  (forall n, n mod 4 = 0 -> n / 4 < 127 -> header Abridged n = [n / 4]) /\
  (forall n, 127 <= n / 4 -> n / 4 < 16777216 ->
     exists x y z, header Abridged n = [127; x; y; z] /\ x < 256 /\ y < 256 /\ z < 256 /\
                   x + 256 * y + 65536 * z = n / 4) /\
  (forall n, n < 4294967296 ->
     exists a b c d, header Intermediate n = [a; b; c; d] /\ a < 256 /\ b < 256 /\ c < 256 /\ d < 256 /\
                     a + 256 * b + 65536 * c + 16777216 * d = n) /\
  (forall m, blen m mod 4 <> 0 -> write_msg Abridged m = Err) /\
  (* a message the format cannot carry (abridged: unaligned or >= 2^24 words; intermediate: >= 2^32 bytes)
     is refused by WriteMsg, never written with a header that announces another length *)
  (forall v m, ~ carriable v m -> write_msg v m = Err).
Proof.
  repeat split.
  - exact write_msg_ok.
  - exact abridged_header_small.
  - exact abridged_header_big_value.
  - exact intermediate_header_value.
  - exact write_msg_abridged_unaligned.
  - exact write_msg_refuses.
Qed.
Print Assumptions C08_format.

(* the 126/127-word boundary, 2^24-1 words, and an intermediate length, concretely *)
Example C08_format_boundary :
  header Abridged 504 = [126] /\ header Abridged 508 = [127; 127; 0; 0] /\
  header Abridged 512 = [127; 128; 0; 0] /\ header Abridged 0 = [0] /\
  header Abridged 1048576 = [127; 0; 0; 4] /\ header Abridged 67108860 = [127; 255; 255; 255] /\
  header Intermediate 508 = [252; 1; 0; 0] /\ header Intermediate 4294967295 = [255; 255; 255; 255] /\
  frame Abridged [1; 2; 3; 4] = [1; 1; 2; 3; 4] /\ frame Intermediate [1; 2; 3; 4] = [4; 0; 0; 0; 1; 2; 3; 4] /\
  (* the largest lengths the formats carry, and the first ones they do not *)
  write_header Abridged 67108860 = Ok [127; 255; 255; 255] /\ write_header Abridged 67108864 = Err /\
  write_header Intermediate 4294967295 = Ok [255; 255; 255; 255] /\ write_header Intermediate 4294967296 = Err /\
  write_header Abridged 16777216 = Ok [127; 0; 0; 64] /\ write_header Intermediate 16777219 = Ok [3; 0; 0; 1].
Proof. vm_compute. repeat split; reflexivity. Qed.
Print Assumptions C08_format_boundary.

(* A four-byte frame is surfaced as the signed 32-bit little-endian code it carries, whatever the
   segmentation and whatever follows it; the connection stays positioned behind the frame. *)
Theorem C08_errcode : forall v z chunks rest,
  (-2147483648 <= z < 2147483648)%Z ->
  concat chunks = frame v (le32 (Z.to_N (z mod 4294967296))) ++ rest ->
  exists chunks', tr_read conn_read v chunks = Got (TCode z, chunks') /\ concat chunks' = rest.
Proof. exact errcode. Qed.
Print Assumptions C08_errcode.

(* ... and a frame of any other length is never reported as a code *)
Theorem C08_not_errcode : forall v m chunks rest,
  carriable v m -> blen m <> 4 ->
  concat chunks = frame v m ++ rest ->
  exists chunks', tr_read conn_read v chunks = Got (TData m, chunks') /\ concat chunks' = rest.
Proof. exact data_not_code. Qed.
Print Assumptions C08_not_errcode.

Example C08_errcode_404 :
  le32 (Z.to_N ((-404) mod 4294967296)) = [108; 254; 255; 255] /\
  tr_stream Abridged [[1; 108]; [254; 255]; [255]] = Some ([TCode (-404)%Z], EEof) /\
  tr_stream Intermediate [[4; 0; 0]; [0; 108; 254; 255; 255; 4; 0; 0; 0; 83]; [254; 255; 255]] =
    Some ([TCode (-404)%Z; TCode (-429)%Z], EEof).
Proof. vm_compute. repeat split; reflexivity. Qed.
Print Assumptions C08_errcode_404.

(* End of the stream between frames is reported as EOF by Detect, by ReadMsg of either mode and by
   transport.ReadMsg - never as a message (the result is [Fail EEof], not [Got _]). *)
Theorem C08_eof : forall chunks, concat chunks = [] ->
  detect conn_read chunks = Fail EEof /\
  (forall v, read_msg conn_read v chunks = Fail EEof) /\
  (forall v, tr_read conn_read v chunks = Fail EEof) /\
  read_stream chunks = Some {| d_mode := None; d_msgs := []; d_end := EEof |} /\
  (forall v, tr_stream v chunks = Some ([], EEof)).
Proof. exact eof_all. Qed.
Print Assumptions C08_eof.

Example C08_eof_instance :
  concat [[]; []] = ([] : bytes) /\ read_msg conn_read Abridged [[]; []] = Fail EEof /\
  (* a zero-length message is a message, the end of the stream behind it is EOF *)
  read_stream [[239; 0]] = Some {| d_mode := Some Abridged; d_msgs := [[]]; d_end := EEof |} /\
  (* a stream that ends inside a frame is an error of the other kind, not EOF, not a message *)
  read_stream [[239; 2; 1; 2]; [3]] = Some {| d_mode := Some Abridged; d_msgs := []; d_end := EOther |}.
Proof. vm_compute. repeat split; reflexivity. Qed.
Print Assumptions C08_eof_instance.

(* The client's reader over a whole connection: the frames a peer wrote in the connection's mode come
   out of transport.ReadMsg as exactly those payloads, in order, followed by end-of-stream, under every
   segmentation - provided none of them is four bytes long (those are error codes, C08_errcode). *)
Theorem C08_client_delivery : forall v msgs chunks,
  Forall (carriable v) msgs -> Forall (fun m => blen m <> 4) msgs ->
  concat chunks = concat (map (frame v) msgs) ->
  tr_stream v chunks = Some (map TData msgs, EEof).
Proof. exact tr_delivery. Qed.
Print Assumptions C08_client_delivery.

(* ---- a stream that ends INSIDE a frame -----------------------------------------------------------------
   The connection is closed (or the writer gives up) after a proper prefix [p] of the frame of a message [m]
   ([frame v m = p ++ q], [q] not empty; [p] may be empty, a part of the length header, the header, or the header
   and a part of the body).  Under EVERY segmentation of what did arrive the reader delivers exactly the complete
   messages before it and then fails: the incomplete frame is never handed out as a message.  Proofs:
   Transport/Truncated.v ([read_msg_extend]: ReadMsg depends only on the bytes it consumes). *)
From MTV Require Import Transport.Truncated.

Theorem C08_truncated_frame_is_not_a_message : forall v msgs m p q chunks,
  Forall (carriable v) msgs -> carriable v m -> frame v m = p ++ q -> q <> [] ->
  concat chunks = wire v msgs ++ p ->
  exists e, read_stream chunks = Some {| d_mode := Some v; d_msgs := msgs; d_end := e |}.
Proof. exact truncated. Qed.
Print Assumptions C08_truncated_frame_is_not_a_message.

(* the same for the client's reader, transport.ReadMsg over the connection's mode *)
Theorem C08_client_truncated_frame : forall v msgs m p q chunks,
  Forall (carriable v) msgs -> Forall (fun x => blen x <> 4) msgs ->
  carriable v m -> frame v m = p ++ q -> q <> [] -> concat chunks = concat (map (frame v) msgs) ++ p ->
  exists e, tr_stream v chunks = Some (map TData msgs, e).
Proof. exact tr_truncated. Qed.
Print Assumptions C08_client_truncated_frame.

(* ... and the failure is "unexpected end" (kind other), not io.EOF, whenever at least one byte of the body
   has arrived.  (Cut exactly behind a length header the first read of the body gets io.EOF and the code
   passes it on unwrapped: end-of-stream, still not a message.) *)
Theorem C08_truncated_in_body : forall v m b1 b2, carriable v m -> m = b1 ++ b2 -> b1 <> [] -> b2 <> [] ->
  read_msg flat_read v (header v (blen m) ++ b1) = Fail EOther.
Proof. exact truncated_in_body. Qed.
Print Assumptions C08_truncated_in_body.

Example C08_truncated_instance :
  let msgs := [[1; 2; 3; 4]; []] in
  let m := zeros 508 in
  (* cut inside the 4-byte header of a 127-word message, after the header, and inside the body *)
  read_stream (cut [3; 2] (wire Abridged msgs ++ firstn 2 (frame Abridged m)))
    = Some {| d_mode := Some Abridged; d_msgs := msgs; d_end := EOther |} /\
  read_stream (cut [1; 7] (wire Abridged msgs ++ firstn 4 (frame Abridged m)))
    = Some {| d_mode := Some Abridged; d_msgs := msgs; d_end := EEof |} /\
  read_stream (cut [5; 200] (wire Intermediate msgs ++ firstn 300 (frame Intermediate m)))
    = Some {| d_mode := Some Intermediate; d_msgs := msgs; d_end := EOther |}.
Proof. vm_compute. repeat split; reflexivity. Qed.
Print Assumptions C08_truncated_instance.
