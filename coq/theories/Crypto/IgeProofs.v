(* Proofs about Crypto/Ige.v and Crypto/IgeMem.v:
   - the alias-level loops compute the textbook IGE recurrences for any number of blocks,
   - the caller's input buffer is never written,
   - decryption inverts encryption when D inverts E on blocks,
   - the length guard. *)
From Coq Require Import ZArith NArith List Lia Bool.
From MTV Require Import Base.Bytes Base.Outcome Prim.Xor Prim.Aes256 Prim.Aes256Facts Crypto.Ige Crypto.IgeMem.
Import ListNotations.
Open Scope nat_scope.

Definition len16 (b : bytes) : Prop := length b = 16.

(* ------------------------------------------------------------------------------------------ *)
(* list plumbing *)

Lemma skipn_app_exact {A} (a b : list A) n : length a = n -> skipn n (a ++ b) = b.
Proof. intros <-. rewrite skipn_app, skipn_all, Nat.sub_diag. reflexivity. Qed.

Lemma firstn_app_exact {A} (a b : list A) n : length a = n -> firstn n (a ++ b) = a.
Proof. intros <-. rewrite firstn_app, firstn_all, Nat.sub_diag, firstn_O, app_nil_r. reflexivity. Qed.

Lemma skipn_skipn' {A} (a b : nat) (l : list A) : skipn a (skipn b l) = skipn (b + a) l.
Proof.
  revert l; induction b as [|b IH]; intros l; [reflexivity|].
  destruct l as [|x l]; [now rewrite !skipn_nil|]. cbn [skipn plus]. apply IH.
Qed.

Lemma window_at (pre p rest : bytes) i :
  length pre = i -> len16 p -> firstn 16 (skipn i (pre ++ p ++ rest)) = p.
Proof. intros Hi Hp. rewrite (skipn_app_exact _ _ _ Hi). apply firstn_app_exact, Hp. Qed.

Lemma splice_at (acc b out0 : bytes) i :
  length acc = i -> i + length b <= length out0 ->
  splice (acc ++ skipn i out0) i b = (acc ++ b) ++ skipn (i + length b) out0.
Proof.
  intros <- Hl. unfold splice.
  rewrite (firstn_app_exact _ _ _ eq_refl).
  rewrite skipn_app, (skipn_all2 acc) by lia.
  replace (length acc + length b - length acc) with (length b) by lia.
  rewrite skipn_skipn', <- app_assoc. reflexivity.
Qed.

Lemma chunks16_cons (p r : bytes) : len16 p -> chunks16 (p ++ r) = p :: chunks16 r.
Proof.
  unfold len16. intros H.
  do 16 (destruct p as [|? p]; [discriminate H|]). destruct p; [|discriminate H]. reflexivity.
Qed.

Lemma chunks16_concat (bl : list bytes) : Forall len16 bl -> chunks16 (concat bl) = bl.
Proof.
  induction 1 as [|p r Hp _ IH]; [reflexivity|]. cbn [concat]. rewrite chunks16_cons, IH by assumption. reflexivity.
Qed.

Lemma concat_len16 (bl : list bytes) : Forall len16 bl -> length (concat bl) = 16 * length bl.
Proof.
  induction 1 as [|p r Hp _ IH]; [reflexivity|]. cbn [concat length]. rewrite app_length, IH, Hp. lia.
Qed.

(* a byte string whose length is a multiple of 16 is the concatenation of its 16-byte blocks *)
Lemma blocks_of (n : nat) : forall l : bytes, length l = 16 * n ->
  Forall len16 (chunks16 l) /\ concat (chunks16 l) = l /\ length (chunks16 l) = n.
Proof.
  induction n as [|n IH]; intros l Hl.
  - destruct l; [cbn; auto|cbn [length] in Hl; lia].
  - rewrite <- (firstn_skipn 16 l).
    assert (H16 : len16 (firstn 16 l)) by (unfold len16; rewrite firstn_length; lia).
    destruct (IH (skipn 16 l)) as (F & C & L); [rewrite skipn_length; lia|].
    rewrite chunks16_cons by exact H16. cbn [concat length]. rewrite C, L. auto.
Qed.

Lemma chunks16_all (l : bytes) : Forall len16 (chunks16 l).
Proof.
  assert (H : forall n (l : bytes), length l <= n -> Forall len16 (chunks16 l)).
  { induction n as [|n IH]; intros l0 Hl.
    - destruct l0; [constructor|cbn [length] in Hl; lia].
    - do 16 (destruct l0 as [|? l0]; [constructor|]).
      cbn [chunks16]. constructor; [reflexivity|]. apply IH. cbn [length] in Hl. lia. }
  apply (H (length l)). lia.
Qed.

(* ------------------------------------------------------------------------------------------ *)
(* the textbook recurrences *)
Section Spec.
Variables E D : bytes -> bytes.
Hypothesis E_len : forall b, length (E b) = 16.
Hypothesis D_len : forall b, length (D b) = 16.

Lemma ige_enc_length c0 p0 ps : length (ige_enc E c0 p0 ps) = length ps.
Proof. revert c0 p0; induction ps as [|p r IH]; intros; cbn [ige_enc length]; auto. Qed.

Lemma ige_dec_length c0 p0 cs : length (ige_dec D c0 p0 cs) = length cs.
Proof. revert c0 p0; induction cs as [|p r IH]; intros; cbn [ige_dec length]; auto. Qed.

Lemma ige_enc_len16 ps : forall c0 p0, len16 c0 -> len16 p0 -> Forall len16 ps ->
  Forall len16 (ige_enc E c0 p0 ps).
Proof.
  induction ps as [|p r IH]; intros c0 p0 Hc Hp Hps; cbn [ige_enc]; [constructor|].
  inversion Hps as [|? ? Hp1 Hr]; subst.
  assert (Hc' : len16 (xorb (E (xorb p c0)) p0)) by (apply xorb_length_eq; [apply E_len|exact Hp]).
  constructor; [exact Hc'|]. apply IH; assumption.
Qed.

Lemma ige_dec_len16 cs : forall c0 p0, len16 c0 -> len16 p0 -> Forall len16 cs ->
  Forall len16 (ige_dec D c0 p0 cs).
Proof.
  induction cs as [|c r IH]; intros c0 p0 Hc Hp Hcs; cbn [ige_dec]; [constructor|].
  inversion Hcs as [|? ? Hc1 Hr]; subst.
  assert (Hp' : len16 (xorb (D (xorb c p0)) c0)) by (apply xorb_length_eq; [apply D_len|exact Hc]).
  constructor; [exact Hp'|]. apply IH; assumption.
Qed.

(* IGE decryption is IGE encryption with D and the two IV halves exchanged *)
Lemma ige_dec_as_enc cs : forall c0 p0, ige_dec D c0 p0 cs = ige_enc D p0 c0 cs.
Proof. induction cs as [|c r IH]; intros; cbn [ige_dec ige_enc]; [reflexivity|]. now rewrite IH. Qed.

Hypothesis DE : forall b, len16 b -> D (E b) = b.

Theorem ige_dec_enc ps : forall c0 p0, len16 c0 -> len16 p0 -> Forall len16 ps ->
  ige_dec D c0 p0 (ige_enc E c0 p0 ps) = ps.
Proof.
  induction ps as [|p r IH]; intros c0 p0 Hc Hp Hps; cbn [ige_enc ige_dec]; [reflexivity|].
  inversion Hps as [|? ? Hp1 Hr]; subst.
  assert (Hx : len16 (xorb p c0)) by (apply xorb_length_eq; assumption).
  assert (He : len16 (E (xorb p c0))) by apply E_len.
  rewrite xorb_cancel_r by (rewrite He, Hp; reflexivity).
  rewrite DE by exact Hx.
  rewrite xorb_cancel_r by (rewrite Hp1, Hc; reflexivity).
  f_equal. apply IH; try assumption. apply xorb_length_eq; assumption.
Qed.
End Spec.

(* the same for a block cipher that is only known to invert on blocks of bytes (values below 256),
   which is what is proved for the Gallina AES in Prim/Aes256Inv.v *)
Lemma ok_firstn n (l : bytes) : ok l -> ok (firstn n l).
Proof. intros H. rewrite <- (firstn_skipn n l) in H. apply ok_app in H. tauto. Qed.
Lemma ok_skipn n (l : bytes) : ok l -> ok (skipn n l).
Proof. intros H. rewrite <- (firstn_skipn n l) in H. apply ok_app in H. tauto. Qed.

Lemma chunks16_ok (l : bytes) : ok l -> Forall (fun b => ok b) (chunks16 l).
Proof.
  assert (H : forall n (l : bytes), length l <= n -> ok l -> Forall (fun b => ok b) (chunks16 l)).
  { induction n as [|n IH]; intros l0 Hl Hok.
    - destruct l0; [constructor|cbn [length] in Hl; lia].
    - do 16 (destruct l0 as [|? l0]; [constructor|]).
      cbn [chunks16]. rewrite !ok_cons in Hok. constructor.
      + rewrite !ok_cons. tauto.
      + apply IH; [cbn [length] in Hl; lia|tauto]. }
  apply (H (length l)). lia.
Qed.

Section SpecOk.
Variables E D : bytes -> bytes.
Hypothesis E_len : forall b, length (E b) = 16.
Hypothesis E_ok : forall b, ok b -> ok (E b).
Hypothesis DE : forall b, len16 b -> ok b -> D (E b) = b.

Theorem ige_dec_enc_ok ps : forall c0 p0, len16 c0 -> len16 p0 -> ok c0 -> ok p0 ->
  Forall len16 ps -> Forall (fun p => ok p) ps ->
  ige_dec D c0 p0 (ige_enc E c0 p0 ps) = ps.
Proof.
  induction ps as [|p r IH]; intros c0 p0 Hc Hp Oc Op Hps Ops; cbn [ige_enc ige_dec]; [reflexivity|].
  apply Forall_cons_iff in Hps as [Hp1 Hr]. apply Forall_cons_iff in Ops as [Op1 Or].
  assert (Hx : len16 (xorb p c0)) by (apply xorb_length_eq; assumption).
  assert (Ox : ok (xorb p c0)) by (apply xorb_bytes_ok; assumption).
  assert (He : len16 (E (xorb p c0))) by apply E_len.
  rewrite xorb_cancel_r by (rewrite He, Hp; reflexivity).
  rewrite DE by assumption.
  rewrite xorb_cancel_r by (rewrite Hp1, Hc; reflexivity).
  f_equal. apply IH; try assumption.
  - apply xorb_length_eq; assumption.
  - apply xorb_bytes_ok; [apply E_ok, Ox|exact Op].
Qed.
End SpecOk.

(* ------------------------------------------------------------------------------------------ *)
(* the loops as written *)

Definition good (s : st) : Prop :=
  rt s = RV0 /\ (rx s = RV0 \/ rx s = RV1) /\
  (ry s = RV2 \/ exists j, ry s = RIn j /\ j + 16 <= length (inp s)) /\
  len16 (v0 s) /\ len16 (v1 s) /\ len16 (v2 s).

(* the same with the roles of x and y exchanged (decryption) *)
Definition good' (s : st) : Prop :=
  rt s = RV0 /\ (ry s = RV0 \/ ry s = RV2) /\
  (rx s = RV1 \/ exists j, rx s = RIn j /\ j + 16 <= length (inp s)) /\
  len16 (v0 s) /\ len16 (v1 s) /\ len16 (v2 s).

Lemma rd_in_len s j : j + 16 <= length (inp s) -> len16 (rd s (RIn j)).
Proof. intros H. unfold len16. cbn [rd]. rewrite firstn_length, skipn_length. lia. Qed.

Lemma go_xor_done s dst src : len16 (rd s src) -> len16 (rd s dst) ->
  go_xor s dst src = (Done, wr s dst (xorb (rd s dst) (rd s src))).
Proof. unfold go_xor, len16. intros -> ->. reflexivity. Qed.

Lemma blk_op_done F s dst src : len16 (rd s src) -> len16 (rd s dst) ->
  blk_op F s dst src = (Done, wr s dst (F (rd s src))).
Proof. unfold blk_op, len16. intros -> ->. reflexivity. Qed.

Lemma copy_out_done s i b : len16 b -> i + 16 <= length (outp s) ->
  copy_out s i b = (Done, set_out s (splice (outp s) i b)).
Proof.
  unfold copy_out, len16. intros Hb Hl.
  destruct (Nat.ltb_spec (length (outp s)) i); [lia|].
  rewrite firstn_all2 by lia. reflexivity.
Qed.

Lemma slice_in_done s i : i + 16 <= length (inp s) -> slice_in s i = (Done, s, RIn i).
Proof. unfold slice_in. intros H. destruct (Nat.leb_spec (i + 16) (length (inp s))); [reflexivity|lia]. Qed.

Section Loops.
Variable F : bytes -> bytes.
Hypothesis F_len : forall b, length (F b) = 16.

Ltac norm := cbn [sbind wr rt rx ry v0 v1 v2 inp outp rd set_xy set_out].
Ltac len := unfold len16 in *; cbn [rd v0 v1 v2 inp outp wr];
  first [ assumption | apply F_len | (apply xorb_length_eq; len) | (rewrite firstn_length, skipn_length; lia) ].

Lemma enc_iter_spec s i : good s -> i + 16 <= length (inp s) -> i + 16 <= length (outp s) ->
  let c := xorb (F (xorb (rd s (rx s)) (rd s (RIn i)))) (rd s (ry s)) in
  exists s', enc_iter F s i = (Done, s') /\ good s' /\ inp s' = inp s /\
             rx s' = RV0 /\ ry s' = RIn i /\ v0 s' = c /\ len16 c /\
             outp s' = splice (outp s) i c.
Proof.
  intros (Ht & Hx & Hy & H0 & H1 & H2) Hi Ho c.
  unfold enc_iter. rewrite (slice_in_done s i Hi).
  destruct s as [a0 a1 a2 I O t x y]. cbn [rt rx ry v0 v1 v2 inp outp] in *. subst t.
  destruct Hx as [-> | ->]; destruct Hy as [-> | (j & -> & Hj)]; subst c; norm;
    (rewrite go_xor_done by len); norm; (rewrite blk_op_done by len); norm;
    (rewrite go_xor_done by len); norm; (rewrite copy_out_done by len);
    (eexists; split; [reflexivity|]); norm; unfold good; norm;
    (repeat split; try len; auto; right; exists i; auto).
Qed.

Lemma dec_iter_spec s i : good' s -> i + 16 <= length (inp s) -> i + 16 <= length (outp s) ->
  let c := xorb (F (xorb (rd s (ry s)) (rd s (RIn i)))) (rd s (rx s)) in
  exists s', dec_iter F s i = (Done, s') /\ good' s' /\ inp s' = inp s /\
             ry s' = RV0 /\ rx s' = RIn i /\ v0 s' = c /\ len16 c /\
             outp s' = splice (outp s) i c.
Proof.
  intros (Ht & Hy & Hx & H0 & H1 & H2) Hi Ho c.
  unfold dec_iter. rewrite (slice_in_done s i Hi).
  destruct s as [a0 a1 a2 I O t x y]. cbn [rt rx ry v0 v1 v2 inp outp] in *. subst t.
  destruct Hy as [-> | ->]; destruct Hx as [-> | (j & -> & Hj)]; subst c; norm;
    (rewrite go_xor_done by len); norm; (rewrite blk_op_done by len); norm;
    (rewrite go_xor_done by len); norm; (rewrite copy_out_done by len);
    (eexists; split; [reflexivity|]); norm; unfold good'; norm;
    (repeat split; try len; auto; right; exists i; auto).
Qed.

Lemma loop_enc_spec : forall rem pre acc out0 s i,
  Forall len16 rem -> good s -> inp s = pre ++ concat rem -> length pre = i ->
  outp s = acc ++ skipn i out0 -> length acc = i -> i + 16 * length rem <= length out0 ->
  exists s', loop (enc_iter F) (length rem) i s = (Done, s') /\ inp s' = inp s /\
    outp s' = (acc ++ concat (ige_enc F (rd s (rx s)) (rd s (ry s)) rem)) ++ skipn (i + 16 * length rem) out0.
Proof.
  induction rem as [|p r IH]; intros pre acc out0 s i Hrem Hg Hin Hpre Hout Hacc Hlen.
  - exists s. cbn [loop length concat ige_enc]. rewrite app_nil_r, Nat.mul_0_r, Nat.add_0_r. auto.
  - apply Forall_cons_iff in Hrem as [Hp Hr]. cbn [concat length] in *.
    assert (Hi : i + 16 <= length (inp s)) by (rewrite Hin, !app_length, Hp; lia).
    assert (Ho : i + 16 <= length (outp s)) by (rewrite Hout, app_length, skipn_length; lia).
    destruct (enc_iter_spec s i Hg Hi Ho) as (s1 & Hrun & Hg1 & Hin1 & Hx1 & Hy1 & Hv1 & Hc & Ho1).
    assert (Hw : rd s (RIn i) = p) by (cbn [rd]; rewrite Hin; apply window_at; assumption).
    rewrite Hw in *.
    set (c := xorb (F (xorb (rd s (rx s)) p)) (rd s (ry s))) in *.
    destruct (IH (pre ++ p) (acc ++ c) out0 s1 (i + 16)) as (s' & Hl & Hin' & Hout'); try assumption.
    + rewrite Hin1, Hin, app_assoc. reflexivity.
    + rewrite app_length, Hp. lia.
    + unfold len16 in Hc. rewrite Ho1, Hout, splice_at by (rewrite ?Hc; first [assumption|lia]). rewrite Hc. reflexivity.
    + rewrite app_length, Hc. lia.
    + lia.
    + exists s'. cbn [loop sbind]. rewrite Hrun. cbn [sbind]. split; [exact Hl|]. split; [congruence|].
      rewrite Hout'. rewrite Hx1, Hy1. cbn [rd]. rewrite Hv1, Hin1, Hin, window_at by assumption.
      cbn [ige_enc concat]. rewrite (xorb_comm p). fold c. rewrite <- !app_assoc.
      replace (i + 16 * S (length r)) with (i + 16 + 16 * length r) by lia. reflexivity.
Qed.

Lemma loop_dec_spec : forall rem pre acc out0 s i,
  Forall len16 rem -> good' s -> inp s = pre ++ concat rem -> length pre = i ->
  outp s = acc ++ skipn i out0 -> length acc = i -> i + 16 * length rem <= length out0 ->
  exists s', loop (dec_iter F) (length rem) i s = (Done, s') /\ inp s' = inp s /\
    outp s' = (acc ++ concat (ige_dec F (rd s (rx s)) (rd s (ry s)) rem)) ++ skipn (i + 16 * length rem) out0.
Proof.
  induction rem as [|p r IH]; intros pre acc out0 s i Hrem Hg Hin Hpre Hout Hacc Hlen.
  - exists s. cbn [loop length concat ige_dec]. rewrite app_nil_r, Nat.mul_0_r, Nat.add_0_r. auto.
  - apply Forall_cons_iff in Hrem as [Hp Hr]. cbn [concat length] in *.
    assert (Hi : i + 16 <= length (inp s)) by (rewrite Hin, !app_length, Hp; lia).
    assert (Ho : i + 16 <= length (outp s)) by (rewrite Hout, app_length, skipn_length; lia).
    destruct (dec_iter_spec s i Hg Hi Ho) as (s1 & Hrun & Hg1 & Hin1 & Hy1 & Hx1 & Hv1 & Hc & Ho1).
    assert (Hw : rd s (RIn i) = p) by (cbn [rd]; rewrite Hin; apply window_at; assumption).
    rewrite Hw in *.
    set (c := xorb (F (xorb (rd s (ry s)) p)) (rd s (rx s))) in *.
    destruct (IH (pre ++ p) (acc ++ c) out0 s1 (i + 16)) as (s' & Hl & Hin' & Hout'); try assumption.
    + rewrite Hin1, Hin, app_assoc. reflexivity.
    + rewrite app_length, Hp. lia.
    + unfold len16 in Hc. rewrite Ho1, Hout, splice_at by (rewrite ?Hc; first [assumption|lia]). rewrite Hc. reflexivity.
    + rewrite app_length, Hc. lia.
    + lia.
    + exists s'. cbn [loop sbind]. rewrite Hrun. cbn [sbind]. split; [exact Hl|]. split; [congruence|].
      rewrite Hout'. rewrite Hx1, Hy1. cbn [rd]. rewrite Hv1, Hin1, Hin, window_at by assumption.
      cbn [ige_dec concat]. rewrite (xorb_comm p). fold c. rewrite <- !app_assoc.
      replace (i + 16 * S (length r)) with (i + 16 + 16 * length r) by lia. reflexivity.
Qed.

(* whatever happens (including panics), an iteration writes only through c.t / c.x (resp. c.y),
   which stay inside the cipher's own scratch blocks *)
Definition wk (s : st) : Prop := rt s = RV0 /\ (rx s = RV0 \/ rx s = RV1).
Definition wk' (s : st) : Prop := rt s = RV0 /\ (ry s = RV0 \/ ry s = RV2).

Lemma enc_iter_inp s i : wk s -> wk (snd (enc_iter F s i)) /\ inp (snd (enc_iter F s i)) = inp s.
Proof.
  intros (Ht & Hx). destruct s as [a0 a1 a2 I O t x y]. cbn [rt rx] in *. subst t.
  unfold enc_iter, slice_in, go_xor, blk_op, copy_out, wk. norm.
  destruct Hx as [-> | ->]; norm;
  repeat match goal with
         | |- context [if ?c then _ else _] => destruct c; norm
         end; cbn [fst snd]; norm; auto.
Qed.

Lemma dec_iter_inp s i : wk' s -> wk' (snd (dec_iter F s i)) /\ inp (snd (dec_iter F s i)) = inp s.
Proof.
  intros (Ht & Hy). destruct s as [a0 a1 a2 I O t x y]. cbn [rt ry] in *. subst t.
  unfold dec_iter, slice_in, go_xor, blk_op, copy_out, wk'. norm.
  destruct Hy as [-> | ->]; norm;
  repeat match goal with
         | |- context [if ?c then _ else _] => destruct c; norm
         end; cbn [fst snd]; norm; auto.
Qed.
End Loops.

Lemma loop_enc_inp F : forall n i s, wk s -> inp (snd (loop (enc_iter F) n i s)) = inp s.
Proof.
  induction n as [|n IH]; intros i s Hw; [reflexivity|]. cbn [loop].
  destruct (enc_iter_inp F s i Hw) as [Hw1 Hi1].
  destruct (enc_iter F s i) as [r s1]. cbn [snd sbind] in *.
  destruct r; cbn [snd]; try assumption. rewrite IH by assumption. assumption.
Qed.

Lemma loop_dec_inp F : forall n i s, wk' s -> inp (snd (loop (dec_iter F) n i s)) = inp s.
Proof.
  induction n as [|n IH]; intros i s Hw; [reflexivity|]. cbn [loop].
  destruct (dec_iter_inp F s i Hw) as [Hw1 Hi1].
  destruct (dec_iter F s i) as [r s1]. cbn [snd sbind] in *.
  destruct r; cbn [snd]; try assumption. rewrite IH by assumption. assumption.
Qed.

(* ------------------------------------------------------------------------------------------ *)
(* package-level functions *)

Lemma copy16_id b : len16 b -> copy16 b = b.
Proof.
  unfold copy16, len16. intros H. rewrite firstn_all2 by lia. rewrite H. cbn [Nat.sub repeat]. apply app_nil_r.
Qed.

Lemma iterations_mul n : iterations (16 * n) = n.
Proof. unfold iterations. symmetry. apply (Nat.div_unique (16 * n + 15) 16 n 15); lia. Qed.

Lemma is_correct_data_true (data : bytes) n : length data = 16 * n -> 1 <= n -> is_correct_data data = true.
Proof.
  intros H Hn. unfold is_correct_data. rewrite H. apply andb_true_iff. split.
  - apply Nat.leb_le. lia.
  - apply Nat.eqb_eq. rewrite Nat.mul_comm. apply Nat.mod_mul. lia.
Qed.

Lemma is_correct_data_false (data : bytes) :
  length data = 0 \/ Nat.modulo (length data) 16 <> 0 -> is_correct_data data = false.
Proof.
  intros [H|H]; unfold is_correct_data.
  - rewrite H. reflexivity.
  - apply andb_false_iff. right. now apply Nat.eqb_neq.
Qed.

(* conversely: exactly the positive multiples of 16 pass *)
Lemma is_correct_data_iff (data : bytes) :
  is_correct_data data = true <-> exists n, 1 <= n /\ length data = 16 * n.
Proof.
  split.
  - unfold is_correct_data. intros H. apply andb_true_iff in H as [H1 H2].
    apply Nat.leb_le in H1. apply Nat.eqb_eq in H2.
    exists (Nat.div (length data) 16).
    pose proof (Nat.div_mod (length data) 16 ltac:(lia)) as Hd. rewrite H2 in Hd. lia.
  - intros (n & Hn & H). eapply is_correct_data_true; eauto.
Qed.

Lemma new_cipher_ok key iv data out : key_len_ok key = true -> length iv = 32 ->
  new_cipher key iv data out = (Done, mk zero_block (firstn 16 iv) (skipn 16 iv) data out RV0 RV1 RV2).
Proof.
  intros Hk Hiv. unfold new_cipher. rewrite Hk, Hiv. cbn [negb Nat.ltb Nat.leb].
  rewrite !copy16_id; [reflexivity| |]; unfold len16.
  - rewrite skipn_length. lia.
  - rewrite firstn_length. lia.
Qed.

(* ---- encryption side: only the block function E and its output length ---- *)
Section TopE.
Variable E : bytes -> bytes -> bytes.
Hypothesis E_len : forall k b, length (E k b) = 16.

Theorem do_encrypt_is_ige key iv data out n :
  key_len_ok key = true -> length iv = 32 -> length data = 16 * n -> 1 <= n -> length data <= length out ->
  do_encrypt E data out key iv = (Done, ige_encrypt E key iv data ++ skipn (length data) out, data).
Proof.
  intros Hk Hiv Hd Hn Ho. unfold do_encrypt.
  rewrite (new_cipher_ok key iv data out Hk Hiv). cbn [sbind].
  rewrite (is_correct_data_true data n Hd Hn), Hd, iterations_mul.
  destruct (blocks_of n data Hd) as (Hall & Hcat & Hlen).
  set (s0 := mk zero_block (firstn 16 iv) (skipn 16 iv) data out RV0 RV1 RV2).
  destruct (loop_enc_spec (E key) (E_len key) (chunks16 data) [] [] out s0 0) as (s' & Hl & Hin & Hout);
    try assumption; try reflexivity.
  - unfold good, s0, len16. cbn [rt rx ry v0 v1 v2 inp]. repeat split; auto.
    + rewrite firstn_length. lia.
    + rewrite skipn_length. lia.
  - cbn [app inp s0]. symmetry. exact Hcat.
  - rewrite Hlen. lia.
  - rewrite Hlen in Hl. rewrite Hl. unfold observe. cbn [fst snd]. rewrite Hout, Hin, Hlen.
    cbn [app s0 rd rx ry v1 v2 inp]. unfold ige_encrypt. rewrite <- Hd. reflexivity.
Qed.

Lemma ige_encrypt_length key iv data n : length iv = 32 -> length data = 16 * n ->
  length (ige_encrypt E key iv data) = length data.
Proof.
  intros Hiv Hd. unfold ige_encrypt. destruct (blocks_of n data Hd) as (Hall & Hcat & Hlen).
  rewrite concat_len16.
  - rewrite ige_enc_length, Hlen. lia.
  - apply ige_enc_len16; try assumption; [apply E_len| |]; unfold len16.
    + rewrite firstn_length. lia.
    + rewrite skipn_length. lia.
Qed.

(* the guard: refused, and nothing at all is written *)
Theorem do_encrypt_rejects key iv data out :
  length data = 0 \/ Nat.modulo (length data) 16 <> 0 ->
  exists r, r <> Done /\ do_encrypt E data out key iv = (r, out, data).
Proof.
  intros H. unfold do_encrypt, new_cipher, observe.
  destruct (key_len_ok key); cbn [negb sbind fst snd outp inp]; [|exists Failed; split; [discriminate|reflexivity]].
  destruct (length iv <? 16); cbn [sbind fst snd outp inp]; [exists Panicked; split; [discriminate|reflexivity]|].
  rewrite (is_correct_data_false data H). exists Failed. split; [discriminate|reflexivity].
Qed.

(* the caller's input buffer is never modified: for every key, iv, input and output buffer,
   whatever the status (also when the run ends in an error or a panic) *)
Theorem do_encrypt_input_untouched key iv data out : snd (do_encrypt E data out key iv) = data.
Proof.
  unfold do_encrypt, new_cipher, observe. cbn [snd].
  destruct (key_len_ok key); cbn [negb sbind snd inp]; [|reflexivity].
  destruct (length iv <? 16); cbn [sbind snd inp]; [reflexivity|].
  destruct (is_correct_data data); cbn [snd inp]; [|reflexivity].
  rewrite loop_enc_inp; [reflexivity|]. unfold wk. cbn [rt rx]. auto.
Qed.
End TopE.

(* ---- decryption side ---- *)
Section TopD.
Variable D : bytes -> bytes -> bytes.
Hypothesis D_len : forall k b, length (D k b) = 16.

Theorem do_decrypt_is_ige key iv data out n :
  key_len_ok key = true -> length iv = 32 -> length data = 16 * n -> 1 <= n -> length data <= length out ->
  do_decrypt D data out key iv = (Done, ige_decrypt D key iv data ++ skipn (length data) out, data).
Proof.
  intros Hk Hiv Hd Hn Ho. unfold do_decrypt.
  rewrite (new_cipher_ok key iv data out Hk Hiv). cbn [sbind].
  rewrite (is_correct_data_true data n Hd Hn), Hd, iterations_mul.
  destruct (blocks_of n data Hd) as (Hall & Hcat & Hlen).
  set (s0 := mk zero_block (firstn 16 iv) (skipn 16 iv) data out RV0 RV1 RV2).
  destruct (loop_dec_spec (D key) (D_len key) (chunks16 data) [] [] out s0 0) as (s' & Hl & Hin & Hout);
    try assumption; try reflexivity.
  - unfold good', s0, len16. cbn [rt rx ry v0 v1 v2 inp]. repeat split; auto.
    + rewrite firstn_length. lia.
    + rewrite skipn_length. lia.
  - cbn [app inp s0]. symmetry. exact Hcat.
  - rewrite Hlen. lia.
  - rewrite Hlen in Hl. rewrite Hl. unfold observe. cbn [fst snd]. rewrite Hout, Hin, Hlen.
    cbn [app s0 rd rx ry v1 v2 inp]. unfold ige_decrypt. rewrite <- Hd. reflexivity.
Qed.

Lemma ige_decrypt_length key iv data n : length iv = 32 -> length data = 16 * n ->
  length (ige_decrypt D key iv data) = length data.
Proof.
  intros Hiv Hd. unfold ige_decrypt. destruct (blocks_of n data Hd) as (Hall & Hcat & Hlen).
  rewrite concat_len16.
  - rewrite ige_dec_length, Hlen. lia.
  - apply ige_dec_len16; try assumption; [apply D_len| |]; unfold len16.
    + rewrite firstn_length. lia.
    + rewrite skipn_length. lia.
Qed.

Theorem do_decrypt_rejects key iv data out :
  length data = 0 \/ Nat.modulo (length data) 16 <> 0 ->
  exists r, r <> Done /\ do_decrypt D data out key iv = (r, out, data).
Proof.
  intros H. unfold do_decrypt, new_cipher, observe.
  destruct (key_len_ok key); cbn [negb sbind fst snd outp inp]; [|exists Failed; split; [discriminate|reflexivity]].
  destruct (length iv <? 16); cbn [sbind fst snd outp inp]; [exists Panicked; split; [discriminate|reflexivity]|].
  rewrite (is_correct_data_false data H). exists Failed. split; [discriminate|reflexivity].
Qed.

Theorem do_decrypt_input_untouched key iv data out : snd (do_decrypt D data out key iv) = data.
Proof.
  unfold do_decrypt, new_cipher, observe. cbn [snd].
  destruct (key_len_ok key); cbn [negb sbind snd inp]; [|reflexivity].
  destruct (length iv <? 16); cbn [sbind snd inp]; [reflexivity|].
  destruct (is_correct_data data); cbn [snd inp]; [|reflexivity].
  rewrite loop_dec_inp; [reflexivity|]. unfold wk'. cbn [rt ry]. auto.
Qed.
End TopD.

(* ---- both ---- *)
Section TopED.
Variables E D : bytes -> bytes -> bytes.

Theorem do_encrypt_rejects_err key iv data out :
  key_len_ok key = true -> 16 <= length iv ->
  length data = 0 \/ Nat.modulo (length data) 16 <> 0 ->
  do_encrypt E data out key iv = (Failed, out, data) /\ do_decrypt D data out key iv = (Failed, out, data).
Proof.
  intros Hk Hiv H. unfold do_encrypt, do_decrypt, new_cipher, observe. rewrite Hk. cbn [negb].
  destruct (Nat.ltb_spec (length iv) 16); [lia|]. cbn [sbind].
  rewrite (is_correct_data_false data H). split; reflexivity.
Qed.

Hypothesis E_len : forall k b, length (E k b) = 16.
Hypothesis D_len : forall k b, length (D k b) = 16.

(* spec level: decryption inverts encryption when D inverts E on blocks *)
Theorem ige_decrypt_encrypt key iv data n :
  (forall b, len16 b -> D key (E key b) = b) ->
  length iv = 32 -> length data = 16 * n ->
  ige_decrypt D key iv (ige_encrypt E key iv data) = data.
Proof.
  intros DE Hiv Hd. destruct (blocks_of n data Hd) as (Hall & Hcat & Hlen).
  assert (Hc : len16 (firstn 16 iv)) by (unfold len16; rewrite firstn_length; lia).
  assert (Hp : len16 (skipn 16 iv)) by (unfold len16; rewrite skipn_length; lia).
  unfold ige_decrypt, ige_encrypt.
  rewrite chunks16_concat by (apply ige_enc_len16; try assumption; apply E_len).
  rewrite (ige_dec_enc (E key) (D key) (E_len key) DE) by assumption. exact Hcat.
Qed.

(* code level: doAES256IGEdecrypt applied to what doAES256IGEencrypt produced gives the data back *)
Theorem do_decrypt_encrypt key iv data out1 out2 n :
  (forall b, len16 b -> D key (E key b) = b) ->
  key_len_ok key = true -> length iv = 32 -> length data = 16 * n -> 1 <= n ->
  length data <= length out1 -> length data <= length out2 ->
  exists c, do_encrypt E data out1 key iv = (Done, c ++ skipn (length data) out1, data) /\
            length c = length data /\
            do_decrypt D c out2 key iv = (Done, data ++ skipn (length data) out2, c).
Proof.
  intros DE Hk Hiv Hd Hn Ho1 Ho2. exists (ige_encrypt E key iv data).
  pose proof (ige_encrypt_length E E_len key iv data n Hiv Hd) as Hcl.
  split; [eapply (do_encrypt_is_ige E E_len); eassumption|]. split; [exact Hcl|].
  rewrite (do_decrypt_is_ige D D_len key iv _ out2 n); try assumption; try lia.
  rewrite (ige_decrypt_encrypt key iv data n DE Hiv Hd), Hcl. reflexivity.
Qed.
End TopED.

(* ---- both, for a cipher known to invert on blocks of bytes under keys of bytes ---- *)
Section TopEDok.
Variables E D : bytes -> bytes -> bytes.
Hypothesis E_len : forall k b, length (E k b) = 16.

Theorem ige_decrypt_encrypt_ok key iv data n :
  (forall b, ok b -> ok (E key b)) ->
  (forall b, len16 b -> ok b -> D key (E key b) = b) ->
  length iv = 32 -> length data = 16 * n -> ok iv -> ok data ->
  ige_decrypt D key iv (ige_encrypt E key iv data) = data.
Proof.
  intros EO DE Hiv Hd Oiv Od. destruct (blocks_of n data Hd) as (Hall & Hcat & Hlen).
  assert (Hc : len16 (firstn 16 iv)) by (unfold len16; rewrite firstn_length; lia).
  assert (Hp : len16 (skipn 16 iv)) by (unfold len16; rewrite skipn_length; lia).
  unfold ige_decrypt, ige_encrypt.
  rewrite chunks16_concat by (apply ige_enc_len16; try assumption; apply E_len).
  rewrite (ige_dec_enc_ok (E key) (D key) (E_len key) EO DE); try assumption.
  - apply ok_firstn, Oiv.
  - apply ok_skipn, Oiv.
  - apply chunks16_ok, Od.
Qed.

Hypothesis D_len : forall k b, length (D k b) = 16.

Theorem do_decrypt_encrypt_ok key iv data out1 out2 n :
  (forall b, ok b -> ok (E key b)) ->
  (forall b, len16 b -> ok b -> D key (E key b) = b) ->
  key_len_ok key = true -> length iv = 32 -> length data = 16 * n -> 1 <= n ->
  ok iv -> ok data ->
  length data <= length out1 -> length data <= length out2 ->
  exists c, do_encrypt E data out1 key iv = (Done, c ++ skipn (length data) out1, data) /\
            length c = length data /\
            do_decrypt D c out2 key iv = (Done, data ++ skipn (length data) out2, c).
Proof.
  intros EO DE Hk Hiv Hd Hn Oiv Od Ho1 Ho2. exists (ige_encrypt E key iv data).
  pose proof (ige_encrypt_length E E_len key iv data n Hiv Hd) as Hcl.
  split; [eapply (do_encrypt_is_ige E E_len); eassumption|]. split; [exact Hcl|].
  rewrite (do_decrypt_is_ige D D_len key iv _ out2 n); try assumption; try lia.
  rewrite (ige_decrypt_encrypt_ok key iv data n EO DE Hiv Hd Oiv Od), Hcl. reflexivity.
Qed.
End TopEDok.

(* ---- histories: the answer to a call does not depend on the calls made before (or after) it ---- *)
Lemma run_history_nth E D pre c post :
  nth_error (run_history E D (pre ++ c :: post)) (length pre) = Some (run_call E D c).
Proof.
  unfold run_history. rewrite map_app. cbn [map].
  rewrite nth_error_app2 by (rewrite map_length; lia).
  rewrite map_length, Nat.sub_diag. reflexivity.
Qed.

Theorem history_independent (E D : bytes -> bytes -> bytes) :
  (forall k b, length (E k b) = 16) -> (forall k b, length (D k b) = 16) ->
  forall pre post key iv data out n,
  key_len_ok key = true -> length iv = 32 -> length data = 16 * n -> 1 <= n -> length data <= length out ->
  nth_error (run_history E D (pre ++ CEnc data out key iv :: post)) (length pre)
    = Some (Done, ige_encrypt E key iv data ++ skipn (length data) out, data) /\
  nth_error (run_history E D (pre ++ CDec data out key iv :: post)) (length pre)
    = Some (Done, ige_decrypt D key iv data ++ skipn (length data) out, data).
Proof.
  intros EL DL pre post key iv data out n Hk Hiv Hd Hn Ho. rewrite !run_history_nth. cbn [run_call].
  rewrite (do_encrypt_is_ige E EL key iv data out n), (do_decrypt_is_ige D DL key iv data out n) by assumption.
  split; reflexivity.
Qed.
