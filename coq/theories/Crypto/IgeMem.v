(* The loops of internal/aes_ige/ige_cipher.go AS WRITTEN, at the level of the Cipher struct:

     type Cipher struct { block cipher.Block; v [3]AesBlock; t, x, y []byte }

   [t], [x], [y] are slice headers, i.e. *references*: after NewCipher they point at v[0], v[1],
   v[2]; inside the loops  c.x, c.y = c.t, in[i:i+16]  makes them alias each other and the
   caller's input buffer.  The model keeps a store (three scratch blocks, the caller's input buffer,
   the caller's output buffer) and registers holding references into it, so that a write through
   an aliased register *would* modify the caller's input - that it never happens is a theorem
   (C05_input_untouched), not an assumption.

   Outcome of a run: a status (returned nil / returned an error / panicked) together with the
   final contents of both caller buffers (after a panic: the contents at the moment of the panic).
   Every Go run-time check on the path is explicit: in[i:i+16], out[i:], the index src[i] in
   xor, the full-block tests of cipher.Block.Encrypt/Decrypt, iv[:16] / iv[16:] in NewCipher.

   Not modelled: [in] and [out] overlapping (all callers in the repository pass a fresh [out]);
   slices whose capacity exceeds their length (iv[:16] looks at the capacity).

   [E], [D] : key -> block -> block stand for crypto/aes; the execution instance is
   Prim.Aes256.aes_enc / aes_dec.  [key_len_ok] is aes.NewCipher's key-size test. *)
From Coq Require Import ZArith NArith List Lia Bool.
From MTV Require Import Base.Bytes Base.Outcome Prim.Xor Prim.Aes256.
Import ListNotations.
Open Scope nat_scope.

Inductive status := Done | Failed | Panicked.

(* a 16-byte window of memory: one of c.v[0..2], or in[off:off+16] *)
Inductive ref := RV0 | RV1 | RV2 | RIn (off : nat).

Record st := mk {
  v0 : bytes; v1 : bytes; v2 : bytes;     (* c.v *)
  inp : bytes;                            (* caller's input buffer *)
  outp : bytes;                           (* caller's output buffer *)
  rt : ref; rx : ref; ry : ref            (* c.t, c.x, c.y *)
}.

(* replace length-b bytes of l at offset off *)
Definition splice (l : bytes) (off : nat) (b : bytes) : bytes :=
  firstn off l ++ b ++ skipn (off + length b) l.

Definition rd (s : st) (r : ref) : bytes :=
  match r with
  | RV0 => v0 s | RV1 => v1 s | RV2 => v2 s
  | RIn off => firstn 16 (skipn off (inp s))
  end.

Definition wr (s : st) (r : ref) (b : bytes) : st :=
  match r with
  | RV0 => mk b (v1 s) (v2 s) (inp s) (outp s) (rt s) (rx s) (ry s)
  | RV1 => mk (v0 s) b (v2 s) (inp s) (outp s) (rt s) (rx s) (ry s)
  | RV2 => mk (v0 s) (v1 s) b (inp s) (outp s) (rt s) (rx s) (ry s)
  | RIn off => mk (v0 s) (v1 s) (v2 s) (splice (inp s) off b) (outp s) (rt s) (rx s) (ry s)
  end.

Definition set_xy (s : st) (x y : ref) : st :=
  mk (v0 s) (v1 s) (v2 s) (inp s) (outp s) (rt s) x y.
Definition set_out (s : st) (o : bytes) : st :=
  mk (v0 s) (v1 s) (v2 s) (inp s) o (rt s) (rx s) (ry s).

Definition step := (status * st)%type.
Definition sbind (m : step) (f : st -> step) : step :=
  match m with (Done, s) => f s | other => other end.
Notation "'run' s <- a ; b" := (sbind a (fun s => b))
  (at level 200, s name, a at level 100, b at level 200, right associativity).

(* utils.go  xor(dst, src):  for i := range dst { dst[i] ^= src[i] }
   - index panic at i = len(src) if src is shorter, after the first len(src) bytes were written *)
Definition go_xor (s : st) (dst src : ref) : step :=
  let d := rd s dst in
  let b := rd s src in
  if length b <? length d
  then (Panicked, wr s dst (xorb d b ++ skipn (length b) d))
  else (Done, wr s dst (xorb d b)).

(* c.block.Encrypt(dst, src) / Decrypt: crypto/aes panics unless both are full blocks *)
Definition blk_op (F : bytes -> bytes) (s : st) (dst src : ref) : step :=
  if Nat.eqb (length (rd s src)) 16 && Nat.eqb (length (rd s dst)) 16
  then (Done, wr s dst (F (rd s src)))
  else (Panicked, s).

(* in[i:i+16] *)
Definition slice_in (s : st) (i : nat) : status * st * ref :=
  if i + 16 <=? length (inp s) then (Done, s, RIn i) else (Panicked, s, RIn i).

(* copy(out[i:], b): out[i:] panics if i > len(out); copy moves min(len) bytes *)
Definition copy_out (s : st) (i : nat) (b : bytes) : step :=
  if length (outp s) <? i then (Panicked, s)
  else let b' := firstn (length (outp s) - i) b in (Done, set_out s (splice (outp s) i b')).

(* one iteration of doAES256IGEencrypt *)
Definition enc_iter (F : bytes -> bytes) (s : st) (i : nat) : step :=
  let '(r, s, w) := slice_in s i in
  match r with
  | Done =>
      run s <- go_xor s (rx s) w;                      (* xor(c.x, in[i:i+16])              *)
      run s <- blk_op F s (rt s) (rx s);               (* c.block.Encrypt(c.t, c.x)         *)
      run s <- go_xor s (rt s) (ry s);                 (* xor(c.t, c.y)                     *)
      let s := set_xy s (rt s) w in                    (* c.x, c.y = c.t, in[i:i+16]        *)
      copy_out s i (rd s (rt s))                       (* copy(out[i:], c.t)                *)
  | _ => (r, s)
  end.

(* one iteration of doAES256IGEdecrypt *)
Definition dec_iter (F : bytes -> bytes) (s : st) (i : nat) : step :=
  let '(r, s, w) := slice_in s i in
  match r with
  | Done =>
      run s <- go_xor s (ry s) w;                      (* xor(c.y, in[i:i+16])              *)
      run s <- blk_op F s (rt s) (ry s);               (* c.block.Decrypt(c.t, c.y)         *)
      run s <- go_xor s (rt s) (rx s);                 (* xor(c.t, c.x)                     *)
      let s := set_xy s w (rt s) in                    (* c.y, c.x = c.t, in[i:i+16]        *)
      copy_out s i (rd s (rt s))                       (* copy(out[i:], c.t)                *)
  | _ => (r, s)
  end.

(* for i := 0; i < len(in); i += 16 { ... } : [n] iterations starting at offset [i] *)
Fixpoint loop (iter : st -> nat -> step) (n i : nat) (s : st) : step :=
  match n with
  | O => (Done, s)
  | S n' => run s <- iter s i; loop iter n' (i + 16) s
  end.

(* isCorrectData: nil iff len >= 16 and len % 16 == 0 *)
Definition is_correct_data (data : bytes) : bool :=
  (16 <=? length data) && Nat.eqb (Nat.modulo (length data) 16) 0.

(* copy(dst16, src) into a zeroed 16-byte array *)
Definition copy16 (src : bytes) : bytes :=
  firstn 16 src ++ repeat 0%N (16 - length (firstn 16 src)).

Section Run.
Variables E D : bytes -> bytes -> bytes.

(* NewCipher(key, iv): error for a bad key size; iv[:16] and iv[16:] panic for a short iv *)
Definition new_cipher (key iv data out : bytes) : step :=
  let s0 := mk zero_block zero_block zero_block data out RV0 RV1 RV2 in
  if negb (key_len_ok key) then (Failed, s0)
  else if length iv <? 16 then (Panicked, s0)
  else (Done, mk zero_block (copy16 (firstn 16 iv)) (copy16 (skipn 16 iv)) data out RV0 RV1 RV2).

(* number of loop iterations for  i := 0; i < n; i += 16 *)
Definition iterations (n : nat) : nat := Nat.div (n + 15) 16.

Definition result : Type := (status * bytes * bytes)%type.   (* status, out after, in after *)
Definition observe (m : step) : result := (fst m, outp (snd m), inp (snd m)).

(* package-level doAES256IGEencrypt(data, out, key, iv) = NewCipher + method *)
Definition do_encrypt (data out key iv : bytes) : result :=
  observe (
    run s <- new_cipher key iv data out;
    if is_correct_data data
    then loop (enc_iter (E key)) (iterations (length data)) 0 s
    else (Failed, s)).

Definition do_decrypt (data out key iv : bytes) : result :=
  observe (
    run s <- new_cipher key iv data out;
    if is_correct_data data
    then loop (dec_iter (D key)) (iterations (length data)) 0 s
    else (Failed, s)).
End Run.

(* ---- histories of calls ----
   internal/aes_ige has no package-level variables and a Cipher is created per call, so nothing is
   carried from one call to the next.  A process that makes the calls [cs] one after the other -
   whatever buffers the caller reuses or overwrites in between: each call is described by the VALUES
   its arguments hold at the moment it is made - therefore produces [run_history cs]: every call is
   answered by the same pure function of its own arguments.  (A cache of key schedules keyed by the
   caller's key slice, say, would need a state threaded through this definition.)  That the code
   really behaves like this is what the correspondence over call sequences with shared, overwritten
   buffers checks (harness/root/cmd/c05, lines tagged s<k>.<i>). *)
Inductive call :=
| CEnc (data out key iv : bytes)      (* doAES256IGEencrypt(data, out, key, iv) *)
| CDec (data out key iv : bytes).     (* doAES256IGEdecrypt(data, out, key, iv) *)

Section History.
Variables E D : bytes -> bytes -> bytes.
Definition run_call (c : call) : result :=
  match c with
  | CEnc data out key iv => do_encrypt E data out key iv
  | CDec data out key iv => do_decrypt D data out key iv
  end.
Definition run_history (cs : list call) : list result := map run_call cs.
End History.
