(* MTProto 1.0 message envelope (properties C03, C04) - executable model, no proofs.

   CLIENT side = the Go code as written (after the C04 repair), with an explicit [Panic] at
   every place where Go could panic:
     internal/mtproto/messages/messages.go   serializePacket, Encrypted.Serialize,
                                             DeserializeEncrypted, Unencrypted.Serialize,
                                             DeserializeUnencrypted
     internal/aes_ige/aes.go                 MessageKey, Encrypt, Decrypt
     internal/aes_ige/ige_cipher.go          generateAESIGE (x = 0 send / 8 receive), isCorrectData
     internal/utils/utils.go                 AuthKeyHash
     internal/encoding/tl/cursor_r.go        Decoder.read / PopRawBytes / PopLong / PopInt / PopUint
     internal/transport/transport.go         isPacketEncrypted, the dispatch + parity check of ReadMsg
   SPEC side = a conformant server, written from the MTProto 1.0 description
   (core.telegram.org/mtproto/description_v1): [kiv_spec], [open_server], [seal_server].
   The two sides share only SHA-1, IGE and the little-endian helpers.

   SHA-1 and AES-256-IGE are Section variables (crypto/sha1, crypto/aes + the IGE loop which is
   property C05's subject); Crypto/EnvelopeIge.v instantiates them with Prim.Sha1 / Prim.Aes256 /
   Crypto.Ige for execution.

   Numbers: int64 / int32 fields are carried as their unsigned bit patterns in N (salt, session id,
   msg_id < 2^64, seq_no < 2^32); the declared body length is converted to a signed Z where Go
   uses it as a signed int32. *)
From Coq Require Import ZArith NArith List Lia ZifyN ZifyNat ZifyBool Bool.
From MTV Require Import Base.Bytes Base.Outcome.
Import ListNotations.
Open Scope N_scope.

(* Go slice expression s[a:b], totalised.  Every use below is either on a SHA-1 output (20 bytes,
   constant in-range indices), on the auth key after the explicit length test of generateAESIGE,
   or preceded by an explicit bounds test that yields [Panic]. *)
Definition slice (s : bytes) (a b : nat) : bytes := firstn (b - a) (skipn a s).

(* int32(uint32 bit pattern) *)
Definition to_i32 (n : N) : Z :=
  if n <? 2147483648 then Z.of_N n else (Z.of_N n - 4294967296)%Z.

(* int64(uint64 bit pattern): the value Go computes with when a msg_id has bit 63 set
   (unixtime >= 2^31 in the upper half) *)
Definition to_i64 (n : N) : Z :=
  if n <? 9223372036854775808 then Z.of_N n else (Z.of_N n - 18446744073709551616)%Z.

(* ---------------------------------------------------------------------------------------- *)
(* tl.Decoder over a bytes.Reader: a sticky error flag; a failed read restores the position
   (unread) and every later Pop returns the zero value.  bytes.Reader.Read at the end of the data
   returns io.EOF even for a zero-length destination. *)
Record decoder := mkdec { d_rest : bytes; d_err : bool }.
Definition new_decoder (b : bytes) : decoder := mkdec b false.

(* PopRawBytes(size).
   HEAD (pinned = false): "if d.err != nil return nil; if size < 0 || size > d.buf.Len() { d.err = ...;
   return nil }; make; read" - a negative or oversized size is an ERROR of the decoder, never a
   panic; a zero-size read at the very end of the data still hits io.EOF in read.
   PINNED tree 0b0db56 (pinned = true): make([]byte, size) came first and panicked for size < 0.
   The pinned variant is kept only as a record of the defects that were repaired
   ([open_client_pinned], Example C04_pinned_code_panics); no check ties it to any code now. *)
Definition pop_raw_gen (pinned : bool) (n : Z) (d : decoder) : outcome (bytes * decoder) :=
  if pinned then
    if (n <? 0)%Z then Panic
    else if d_err d then Ok ([], d)
    else match d_rest d with
         | [] => Ok ([], mkdec [] true)
         | _ :: _ =>
             if (Z.of_nat (length (d_rest d)) <? n)%Z then Ok ([], mkdec (d_rest d) true)
             else Ok (firstn (Z.to_nat n) (d_rest d), mkdec (skipn (Z.to_nat n) (d_rest d)) false)
         end
  else
    if d_err d then Ok ([], d)
    else if (n <? 0)%Z || (Z.of_nat (length (d_rest d)) <? n)%Z then Ok ([], mkdec (d_rest d) true)
    else match d_rest d with
         | [] => Ok ([], mkdec [] true)
         | _ :: _ => Ok (firstn (Z.to_nat n) (d_rest d), mkdec (skipn (Z.to_nat n) (d_rest d)) false)
         end.
Notation pop_raw := (pop_raw_gen false).

(* PopLong / PopInt / PopUint: fixed positive size, never panic, 0 on error *)
Definition pop_fixed (k : nat) (d : decoder) : bytes * decoder :=
  if d_err d then ([], d)
  else if (length (d_rest d) <? k)%nat then ([], mkdec (d_rest d) true)
  else (firstn k (d_rest d), mkdec (skipn k (d_rest d)) false).

Definition pop_word (k : nat) (d : decoder) : N * decoder :=
  let (b, d') := pop_fixed k d in (of_le b, d').

(* the five Pop calls on the decrypted data: salt, session id, msg_id (PopLong), seq_no, length (PopInt) *)
Definition pop_header (d : decoder) : (N * N * N * N * N) * decoder :=
  let (salt, d) := pop_word 8 d in
  let (sid, d) := pop_word 8 d in
  let (msgid, d) := pop_word 8 d in
  let (seq, d) := pop_word 4 d in
  let (lenw, d) := pop_word 4 d in
  ((salt, sid, msgid, seq, lenw), d).

(* ---------------------------------------------------------------------------------------- *)
(* messages: what DeserializeEncrypted / DeserializeUnencrypted fill in *)
Record emsg := mkemsg {
  e_salt : N; e_sid : N; e_msgid : N; e_seq : N; e_msgkey : bytes; e_body : bytes }.
Record umsg := mkumsg { u_msgid : N; u_body : bytes }.

(* the fields a conformant peer recovers: salt, session id, msg_id, seq_no, body *)
Definition fields : Type := (N * N * N * N * bytes)%type.
Definition fields_of (m : emsg) : fields := (e_salt m, e_sid m, e_msgid m, e_seq m, e_body m).

(* msg_id parity test used by all three Go sites: mod := id & 3; mod != 1 && mod != 3.
   msg_ids are 64-bit PATTERNS here; Go's & on the signed int64 is two's complement, so it reads
   the two low bits of the pattern whatever the sign: [server_parity] on the unsigned value equals
   [go_parity] on the signed one (EnvelopeProofs.server_parity_signed).  Go's signed remainder
   id % 4 would NOT (it is -2 for ...10 with bit 63 set). *)
Definition server_parity (msgid : N) : bool := (msgid mod 4 =? 1) || (msgid mod 4 =? 3).
Definition go_parity (msgid : N) : bool :=
  let m := Z.land (to_i64 msgid) 3 in (m =? 1)%Z || (m =? 3)%Z.

(* serializePacket: salt, session id, msg_id, seq_no (|1 when an ack is required), int32(len), body *)
Definition serialize_packet (salt sid msgid seq : N) (ack : bool) (body : bytes) : bytes :=
  le64 salt ++ le64 sid ++ le64 msgid
  ++ le32 (if ack then N.lor seq 1 else seq)
  ++ le32 (N.of_nat (length body) mod 4294967296)
  ++ body.

(* aes.go Encrypt: data := make([]byte, len+((16-(len%16))&15)); copy(data, msg)  - zero padding *)
Definition pad_amount (len : nat) : nat := N.to_nat (N.land (16 - (N.of_nat len mod 16)) 15).
Definition pad16 (msg : bytes) : bytes := msg ++ repeat 0 (pad_amount (length msg)).

(* isCorrectData *)
Definition correct_data (data : bytes) : bool :=
  negb (length data <? 16)%nat && (length data mod 16 =? 0)%nat.

(* aes.NewCipher accepts 16/24/32-byte keys *)
Definition aes_key_len_ok (k : bytes) : bool :=
  (length k =? 16)%nat || (length k =? 24)%nat || (length k =? 32)%nat.

(* transport.go isPacketEncrypted *)
Definition is_packet_encrypted (data : bytes) : bool :=
  if (length data <? 8)%nat then false else negb (of_le (firstn 8 data) =? 0).

(* Unencrypted.Serialize *)
Definition serialize_unencrypted (msgid : N) (body : bytes) : bytes :=
  le64 0 ++ le64 msgid ++ le32 (N.of_nat (length body) mod 4294967296) ++ body.

(* DeserializeUnencrypted *)
Definition deserialize_unencrypted (data : bytes) : outcome umsg :=
  let d := new_decoder data in
  do r0 <- pop_raw 8 d;
  let (msgid, d) := pop_word 8 (snd r0) in
  if negb (server_parity msgid) then Err else
  let (mlen, d) := pop_word 4 d in
  if negb (Z.of_nat (length data) - 20 =? Z.of_N mlen)%Z then Err else
  Ok (mkumsg msgid (d_rest d)).                     (* GetRestOfMessage = ReadAll of the reader *)

Section Envelope.
Variable sha1 : bytes -> bytes.                         (* crypto/sha1 *)
Variables ige_e ige_d : bytes -> bytes -> bytes -> bytes.  (* AES-256-IGE: key, 32-byte iv, data *)

(* aes.go MessageKey, utils.go AuthKeyHash *)
Definition msg_key (plain : bytes) : bytes := slice (sha1 plain) 4 20.
Definition auth_key_id (key : bytes) : bytes := slice (sha1 key) 12 20.

(* generateAESIGE(msg_key, auth_key, decode): x = 0 / 8; explicit panic on a short key *)
Definition kiv (x : nat) (key mk : bytes) : outcome (bytes * bytes) :=
  if (length key <? 96 + x + 32)%nat then Panic else
  let t_a := mk ++ slice key x (x + 32) in
  let t_b := slice key (32 + x) (32 + x + 16) ++ mk ++ slice key (48 + x) (48 + x + 16) in
  let t_c := slice key (64 + x) (64 + x + 32) ++ mk in
  let t_d := mk ++ slice key (96 + x) (96 + x + 32) in
  let a := sha1 t_a in let b := sha1 t_b in let c := sha1 t_c in let d := sha1 t_d in
  Ok (slice a 0 8 ++ slice b 8 20 ++ slice c 4 16,
      slice a 8 20 ++ slice b 0 8 ++ slice c 16 20 ++ slice d 0 8).

(* aes.go Encrypt(msg, key) *)
Definition encrypt (msg key : bytes) : outcome bytes :=
  do ki <- kiv 0 key (msg_key msg);
  let data := pad16 msg in
  if negb (aes_key_len_ok (fst ki)) then Err else
  if negb (correct_data data) then Err else
  Ok (ige_e (fst ki) (snd ki) data).

(* aes.go Decrypt(msg, key, msg_key) *)
Definition decrypt (enc key mk : bytes) : outcome bytes :=
  do ki <- kiv 8 key mk;
  if negb (aes_key_len_ok (fst ki)) then Err else
  if negb (correct_data enc) then Err else
  Ok (ige_d (fst ki) (snd ki) enc).

(* Encrypted.Serialize *)
Definition seal_client (key : bytes) (salt sid msgid seq : N) (ack : bool) (body : bytes) : outcome bytes :=
  let obj := serialize_packet salt sid msgid seq ack body in
  do enc <- encrypt obj key;
  Ok (auth_key_id key ++ msg_key obj ++ enc).

(* DeserializeEncrypted.  [guards = true] is HEAD: the code after the C04 repairs (minimum packet
   length 40; auth key of at least minAuthKeyLen = 136 bytes, else an error - before the key id is
   even looked at, so a short or absent key can never reach the panicking key schedule; declared
   length within 0..len(decrypted)-32; offset arithmetic in int) - this is what is modelled, proved
   and compared with the code.
   [guards = false] is the PINNED tree 0b0db56, kept as a record only: no minimum packet length, no
   key-length test, the declared-length test "len(decrypted) < int(messageLen) - 32" which lets
   negative and oversized lengths through to decrypted[0 : 32+messageLen] (int32 arithmetic,
   wraps), and the PopRawBytes that panicked on a negative size. *)
Definition open_client_gen (guards : bool) (key data : bytes) : outcome emsg :=
  if guards && (length data <? 40)%nat then Err else
  if guards && (length key <? 136)%nat then Err else
  let d := new_decoder data in
  do r1 <- pop_raw_gen (negb guards) 8 d;
  if negb (beq (fst r1) (auth_key_id key)) then Err else
  do r2 <- pop_raw_gen (negb guards) 16 (snd r1);
  let mk := fst r2 in
  do r3 <- pop_raw_gen (negb guards) (Z.of_nat (length data) - 24) (snd r2);
  do dec <- decrypt (fst r3) key mk;
  let '(salt, sid, msgid, seq, lenw, d) := pop_header (new_decoder dec) in
  let mlen := to_i32 lenw in
  let dlen := Z.of_nat (length dec) in
  if (if guards then (mlen <? 0)%Z || (dlen - 32 <? mlen)%Z else (dlen <? mlen - 32)%Z) then Err else
  if negb (server_parity msgid) then Err else
  (* trimed := decrypted[0 : 32+messageLen] *)
  let hi := if guards then (32 + mlen)%Z else to_i32 (Z.to_N ((32 + mlen) mod 4294967296)) in
  if (hi <? 0)%Z || (dlen <? hi)%Z then Panic else
  let trimmed := firstn (Z.to_nat hi) dec in
  if negb (beq (slice (sha1 trimmed) 4 20) mk) then Err else
  do r4 <- pop_raw_gen (negb guards) mlen d;
  Ok (mkemsg salt sid msgid seq mk (fst r4)).

Definition open_client := open_client_gen true.
Definition open_client_pinned := open_client_gen false.

(* A receive HISTORY: the calls (auth key, packet) made to DeserializeEncrypted by one process,
   in order, and what each returned.  In the model the result of call n is a function of call n's
   arguments alone and a returned message is a value - there is no package-level state and no
   aliasing.  Go code can break both without changing any single-call result: a shared output
   buffer reused across calls together with a body returned as a sub-slice of it lets a LATER
   packet (honest or forged) overwrite an EARLIER accepted message; a deserialiser could also
   write into its input.  So "the implementation follows this definition" is tied to the code by
   the SEQUENCE correspondence of the checks (harness/root/cmd/c03 seqCases: every returned message
   object and every input buffer is kept and re-read after each later call, directly and through
   transport.ReadMsg), not by single calls. *)
Definition receive_history (calls : list (bytes * bytes)) : list (outcome emsg) :=
  map (fun c => open_client (fst c) (snd c)) calls.

(* transport.ReadMsg after the frame has been read (the 4-byte error-code case is C08's) *)
Inductive anymsg := AEnc (m : emsg) | AUn (m : umsg).
Definition any_msgid (m : anymsg) : N := match m with AEnc m => e_msgid m | AUn m => u_msgid m end.
Definition read_dispatch (key data : bytes) : outcome anymsg :=
  do m <- (if is_packet_encrypted data then omap AEnc (open_client key data)
           else omap AUn (deserialize_unencrypted data));
  if negb (server_parity (any_msgid m)) then Err else Ok m.

(* ---------------------------------------------------------------------------------------- *)
(* SPEC side: MTProto 1.0 as described.
     auth_key_id = 64 lower-order bits of SHA1(auth_key)
     msg_key     = 128 lower-order bits of SHA1(salt..message_data)  (padding excluded)
     sha1_a = SHA1(msg_key + substr(auth_key, x, 32))
     sha1_b = SHA1(substr(auth_key, 32+x, 16) + msg_key + substr(auth_key, 48+x, 16))
     sha1_c = SHA1(substr(auth_key, 64+x, 32) + msg_key)
     sha1_d = SHA1(msg_key + substr(auth_key, 96+x, 32))
     aes_key = substr(sha1_a,0,8) + substr(sha1_b,8,12) + substr(sha1_c,4,12)
     aes_iv  = substr(sha1_a,8,12) + substr(sha1_b,0,8) + substr(sha1_c,16,4) + substr(sha1_d,0,8)
     x = 0 client->server, x = 8 server->client
     encrypted_data = salt(8) session_id(8) message_id(8) seq_no(4) message_data_length(4)
                      message_data padding(0..15) *)
Definition substr (s : bytes) (off len : nat) : bytes := firstn len (skipn off s).
Definition low_bits (nbytes : nat) (h : bytes) : bytes := skipn (length h - nbytes) h.

Definition spec_key_id (key : bytes) : bytes := low_bits 8 (sha1 key).
Definition spec_msg_key (plain : bytes) : bytes := low_bits 16 (sha1 plain).

Definition kiv_spec (x : nat) (key mk : bytes) : bytes * bytes :=
  let sa := sha1 (mk ++ substr key x 32) in
  let sb := sha1 (substr key (32 + x) 16 ++ mk ++ substr key (48 + x) 16) in
  let sc := sha1 (substr key (64 + x) 32 ++ mk) in
  let sd := sha1 (mk ++ substr key (96 + x) 32) in
  (substr sa 0 8 ++ substr sb 8 12 ++ substr sc 4 12,
   substr sa 8 12 ++ substr sb 0 8 ++ substr sc 16 4 ++ substr sd 0 8).

Definition dir_x (to_server : bool) : nat := if to_server then 0%nat else 8%nat.

(* what a conformant receiver in direction [to_server] does with a packet; no msg_id parity
   rule here (that is the sequencing property), no salt / session validation (session layer) *)
Definition spec_open (to_server : bool) (key pkt : bytes) : option fields :=
  let kid := substr pkt 0 8 in
  let mk := substr pkt 8 16 in
  let ct := skipn 24 pkt in
  if negb (beq kid (spec_key_id key)) then None else
  if (length ct =? 0)%nat || negb (length ct mod 16 =? 0)%nat then None else
  let (k, iv) := kiv_spec (dir_x to_server) key mk in
  let pt := ige_d k iv ct in
  let salt := of_le (substr pt 0 8) in
  let sid := of_le (substr pt 8 8) in
  let msgid := of_le (substr pt 16 8) in
  let seq := of_le (substr pt 24 4) in
  let len := of_le (substr pt 28 4) in
  if (length pt <? 32)%nat then None else
  if N.of_nat (length pt) - 32 <? len then None else            (* body must lie inside *)
  if 15 <? N.of_nat (length pt) - 32 - len then None else       (* padding 0..15 *)
  if negb (beq (spec_msg_key (firstn (32 + N.to_nat len) pt)) mk) then None else
  Some (salt, sid, msgid, seq, substr pt 32 (N.to_nat len)).

Definition open_server := spec_open true.

(* a conformant sender: any padding bytes that bring the plaintext to a multiple of 16 *)
Definition spec_seal (to_server : bool) (key : bytes) (salt sid msgid seq : N) (body pad : bytes) : bytes :=
  let plain := le64 salt ++ le64 sid ++ le64 msgid ++ le32 seq ++ le32 (N.of_nat (length body)) ++ body in
  let mk := spec_msg_key plain in
  let (k, iv) := kiv_spec (dir_x to_server) key mk in
  spec_key_id key ++ mk ++ ige_e k iv (plain ++ pad).

Definition seal_server := spec_seal false.
Definition pad_ok (body pad : bytes) : bool :=
  (length pad <? 16)%nat && ((32 + length body + length pad) mod 16 =? 0)%nat.

(* the decrypted, trimmed string whose SHA-1 the client compares with msg_key (for C04) *)
Definition client_plain (key pkt : bytes) : option bytes :=
  match decrypt (skipn 24 pkt) key (slice pkt 8 24) with
  | Ok dec =>
      let mlen := to_i32 (of_le (slice dec 28 32)) in
      Some (firstn (Z.to_nat (32 + mlen)) dec)
  | _ => None
  end.

End Envelope.
