(* Instantiation of the envelope model's Section variables:
     sha1          := Prim.Sha1.sha1                   (Gallina SHA-1, FIPS-180 KATs in Prim/Sha1.v)
     ige_e / ige_d := Crypto.Ige.ige_encrypt / ige_decrypt over a block cipher
   (1) for any block cipher E, D with 16-byte outputs and D k (E k b) = b on 16-byte blocks under
       32-byte keys, the byte-level IGE meets exactly the two hypotheses the C03 theorems ask of
       [ige_e]/[ige_d] (Section IgeFacts; that AES is a permutation stays a Section hypothesis -
       an assumption about crypto/aes, see DESIGN 3.4);
   (2) the executable instance with Prim.Aes256 (round keys computed once per message), used by
       the extracted model and by the non-vacuity Examples. *)
From Coq Require Import ZArith NArith List Lia Bool.
From MTV Require Import Base.Bytes Base.Outcome Prim.Sha1 Prim.Aes256 Crypto.Ige Crypto.IgeProofs Crypto.Envelope.
Import ListNotations.
Open Scope nat_scope.

Section IgeFacts.
Variables E D : bytes -> bytes -> bytes.
Hypothesis E_len : forall k b, length (E k b) = 16.
Hypothesis D_len : forall k b, length (D k b) = 16.

Lemma mod16_blocks (d : bytes) : length d mod 16 = 0 -> length d = 16 * (length d / 16).
Proof. intros H. pose proof (Nat.div_mod (length d) 16). lia. Qed.

Lemma iv_halves (iv : bytes) : length iv = 32 -> len16 (firstn 16 iv) /\ len16 (skipn 16 iv).
Proof. intros H. unfold len16. rewrite firstn_length, skipn_length. lia. Qed.

Lemma ige_encrypt_length k iv d :
  length iv = 32 -> length d mod 16 = 0 -> length (ige_encrypt E k iv d) = length d.
Proof.
  intros Hiv Hd. apply mod16_blocks in Hd. destruct (blocks_of _ _ Hd) as (F & _ & L).
  destruct (iv_halves _ Hiv) as [H1 H2]. unfold ige_encrypt.
  rewrite (concat_len16 _ (ige_enc_len16 (E k) (E_len k) _ _ _ H1 H2 F)).
  rewrite ige_enc_length, L. lia.
Qed.

Hypothesis DE : forall k b, length k = 32 -> length b = 16 -> D k (E k b) = b.

Lemma ige_decrypt_encrypt k iv d :
  length k = 32 -> length iv = 32 -> length d mod 16 = 0 ->
  ige_decrypt D k iv (ige_encrypt E k iv d) = d.
Proof.
  intros Hk Hiv Hd. apply mod16_blocks in Hd. destruct (blocks_of _ _ Hd) as (F & C & _).
  destruct (iv_halves _ Hiv) as [H1 H2]. unfold ige_decrypt, ige_encrypt.
  rewrite (chunks16_concat _ (ige_enc_len16 (E k) (E_len k) _ _ _ H1 H2 F)).
  rewrite (ige_dec_enc (E k) (D k) (E_len k) (fun b Hb => DE k b Hk Hb) _ _ _ H1 H2 F).
  exact C.
Qed.
End IgeFacts.

(* ---------------------------------------------------------------------------------------- *)
(* executable instance *)
Definition aes_e (key : bytes) : bytes -> bytes :=
  let rk := round_keys key in
  let ok := key_len_ok key in
  fun blk => if Nat.eqb (length blk) 16 && ok then cipher_enc rk blk else zero_block.
Definition aes_d (key : bytes) : bytes -> bytes :=
  let rk := round_keys key in
  let ok := key_len_ok key in
  fun blk => if Nat.eqb (length blk) 16 && ok then cipher_dec rk blk else zero_block.

Lemma aes_e_is key blk : aes_e key blk = aes_enc key blk.
Proof. reflexivity. Qed.
Lemma aes_d_is key blk : aes_d key blk = aes_dec key blk.
Proof. reflexivity. Qed.

Definition x_ige_e := ige_encrypt aes_e.
Definition x_ige_d := ige_decrypt aes_d.

(* little-endian byte strings in, byte strings out: the interface of the extracted driver *)
Definition show_fields (f : fields) : list bytes :=
  let '(salt, sid, msgid, seq, body) := f in [le64 salt; le64 sid; le64 msgid; le32 seq; body].

Definition x_seal_client (key salt sid msgid seq : bytes) (ack : bool) (body : bytes) : outcome bytes :=
  seal_client sha1 x_ige_e key (of_le salt) (of_le sid) (of_le msgid) (of_le seq) ack body.
Definition x_open_client (fixed : bool) (key pkt : bytes) : outcome (list bytes) :=
  omap (fun m => show_fields (fields_of m) ++ [e_msgkey m]) (open_client_gen sha1 x_ige_d fixed key pkt).
Definition x_spec_seal (to_server : bool) (key salt sid msgid seq body pad : bytes) : bytes :=
  spec_seal sha1 x_ige_e to_server key (of_le salt) (of_le sid) (of_le msgid) (of_le seq) body pad.
Definition x_spec_open (to_server : bool) (key pkt : bytes) : option (list bytes) :=
  option_map show_fields (spec_open sha1 x_ige_d to_server key pkt).
Definition x_serialize_packet (salt sid msgid seq : bytes) (ack : bool) (body : bytes) : bytes :=
  serialize_packet (of_le salt) (of_le sid) (of_le msgid) (of_le seq) ack body.
Definition x_serialize_unencrypted (msgid body : bytes) : bytes :=
  serialize_unencrypted (of_le msgid) body.
Definition x_deserialize_unencrypted (data : bytes) : outcome (list bytes) :=
  omap (fun m => [le64 (u_msgid m); u_body m]) (deserialize_unencrypted data).
Definition x_read_dispatch (key data : bytes) : outcome (list bytes) :=
  omap (fun m => match m with
                 | AEnc m => [[1%N]; le64 (e_msgid m); e_body m]
                 | AUn m => [[0%N]; le64 (u_msgid m); u_body m]
                 end) (read_dispatch sha1 x_ige_d key data).
Definition x_kiv (x : bool) (key mk : bytes) : outcome (list bytes) :=
  omap (fun ki => [fst ki; snd ki]) (kiv sha1 (if x then 8 else 0) key mk).
