(* Proofs about Crypto/Srp.v: byte-level facts (big.Int.Bytes / SetBytes / pad256), the
   square-and-multiply exponentiation, the SRP algebra over Z, and the theorems C18 states. *)
From Coq Require Import ZArith NArith List Lia ZifyN ZifyNat ZifyBool Bool Znumtheory Zpow_facts.
From MTV Require Import Base.Bytes Base.Outcome Crypto.Srp.
Import ListNotations.
Open Scope Z_scope.
Ltac Zify.zify_post_hook ::= Z.div_mod_to_equations.

(* ------------------------------------------------------------------------------------ *)
(* big-endian values *)

Lemma of_be_acc_app a l1 l2 : of_be_acc a (l1 ++ l2) = of_be_acc (of_be_acc a l1) l2.
Proof. revert a; induction l1 as [|b l1 IH]; intros a; cbn [app of_be_acc]; auto. Qed.

Lemma pow256_succ (n : nat) : (256 ^ N.of_nat (S n) = 256 * 256 ^ N.of_nat n)%N.
Proof. rewrite Nat2N.inj_succ, N.pow_succ_r'. reflexivity. Qed.

Lemma of_be_acc_val a l : (of_be_acc a l = a * 256 ^ N.of_nat (length l) + of_be l)%N.
Proof.
  revert a; induction l as [|b l IH]; intros a.
  - cbn. lia.
  - unfold of_be. cbn [of_be_acc length]. rewrite (IH (256 * a + b)%N), (IH (256 * 0 + b)%N), pow256_succ.
    lia.
Qed.

Lemma of_be_cons b l : (of_be (b :: l) = b * 256 ^ N.of_nat (length l) + of_be l)%N.
Proof. unfold of_be at 1. cbn [of_be_acc]. rewrite of_be_acc_val. lia. Qed.

Lemma of_be_nil : of_be [] = 0%N.
Proof. reflexivity. Qed.

Lemma of_be_app l1 l2 : (of_be (l1 ++ l2) = of_be l1 * 256 ^ N.of_nat (length l2) + of_be l2)%N.
Proof. unfold of_be at 1 2. rewrite of_be_acc_app, of_be_acc_val. reflexivity. Qed.

Lemma of_be_snoc l b : (of_be (l ++ [b]) = 256 * of_be l + b)%N.
Proof. rewrite of_be_app. cbn [length]. unfold of_be at 2. cbn [of_be_acc]. change (256 ^ N.of_nat 1)%N with 256%N. lia. Qed.

Lemma of_be_zeros n : of_be (repeat 0%N n) = 0%N.
Proof.
  induction n as [|n IH]; [reflexivity|]. cbn [repeat]. rewrite of_be_cons, IH. lia.
Qed.

Lemma of_be_zeros_app n l : of_be (repeat 0%N n ++ l) = of_be l.
Proof. rewrite of_be_app, of_be_zeros. lia. Qed.

Lemma bytes_ok_app a b : bytes_ok (a ++ b) = bytes_ok a && bytes_ok b.
Proof. unfold bytes_ok. apply forallb_app. Qed.

Lemma bytes_ok_zeros n : bytes_ok (repeat 0%N n) = true.
Proof. induction n; cbn; auto. Qed.

Lemma bytes_ok_skipn n l : bytes_ok l = true -> bytes_ok (skipn n l) = true.
Proof.
  revert l; induction n as [|n IH]; intros l Hl; [exact Hl|].
  destruct l as [|x l]; [reflexivity|]. cbn [skipn]. apply IH.
  unfold bytes_ok in *. cbn [forallb] in Hl. apply andb_true_iff in Hl. tauto.
Qed.

Lemma of_be_lt l : bytes_ok l = true -> (of_be l < 256 ^ N.of_nat (length l))%N.
Proof.
  induction l as [|b l IH] using rev_ind; intros Hl.
  - cbn. lia.
  - rewrite bytes_ok_app in Hl. apply andb_true_iff in Hl. destruct Hl as [Hl Hb].
    unfold bytes_ok in Hb. cbn [forallb] in Hb. rewrite andb_true_r in Hb. unfold byte_ok in Hb.
    apply N.ltb_lt in Hb. specialize (IH Hl).
    rewrite of_be_snoc, app_length. cbn [length]. rewrite Nat.add_1_r, pow256_succ. lia.
Qed.

(* fixed-width big-endian is injective *)
Lemma of_be_inj a : forall b, bytes_ok a = true -> bytes_ok b = true -> length a = length b ->
  of_be a = of_be b -> a = b.
Proof.
  induction a as [|x a IH] using rev_ind; intros b Ha Hb Hlen Hv.
  - destruct b; [reflexivity|discriminate].
  - destruct b as [|y b _] using rev_ind.
    + rewrite app_length in Hlen. cbn in Hlen. lia.
    + rewrite !bytes_ok_app in Ha, Hb. apply andb_true_iff in Ha, Hb.
      destruct Ha as [Ha Hx], Hb as [Hb Hy].
      unfold bytes_ok in Hx, Hy. cbn [forallb] in Hx, Hy. rewrite andb_true_r in Hx, Hy.
      unfold byte_ok in Hx, Hy. apply N.ltb_lt in Hx, Hy.
      rewrite !of_be_snoc in Hv. rewrite !app_length in Hlen. cbn [length] in Hlen.
      assert (x = y) by lia. assert (of_be a = of_be b) by lia.
      subst y. f_equal. apply IH; auto. lia.
Qed.

(* ------------------------------------------------------------------------------------ *)
(* big.Int.Bytes *)

Lemma be_acc_value f : forall n acc, (n < 256 ^ N.of_nat f)%N ->
  (of_be (be_acc f n acc) = n * 256 ^ N.of_nat (length acc) + of_be acc)%N.
Proof.
  induction f as [|f IH]; intros n acc Hn.
  - cbn [be_acc]. change (256 ^ N.of_nat 0)%N with 1%N in Hn. assert (n = 0%N) by lia. subst. lia.
  - cbn [be_acc]. destruct (N.eqb_spec n 0) as [->|Hnz]; [lia|].
    rewrite pow256_succ in Hn. rewrite IH by (apply N.div_lt_upper_bound; lia).
    rewrite of_be_cons. cbn [length]. rewrite pow256_succ.
    pose proof (N.div_mod n 256 ltac:(lia)) as Hdm.
    set (q := (n / 256)%N) in *. set (r := (n mod 256)%N) in *. set (P := (256 ^ N.of_nat (length acc))%N).
    rewrite Hdm. lia.
Qed.

Lemma size_bound n : (n < 256 ^ N.of_nat (N.to_nat (N.size n)))%N.
Proof.
  rewrite N2Nat.id. eapply N.lt_le_trans; [apply N.size_gt|].
  apply N.pow_le_mono_l. lia.
Qed.

Lemma be_min_value n : of_be (be_min n) = n.
Proof. unfold be_min. rewrite be_acc_value by apply size_bound. cbn [length of_be of_be_acc]. unfold of_be. cbn. lia. Qed.

Lemma be_acc_length f : forall n k acc, (n < 256 ^ N.of_nat k)%N ->
  (length (be_acc f n acc) <= k + length acc)%nat.
Proof.
  induction f as [|f IH]; intros n k acc Hn; cbn [be_acc]; [lia|].
  destruct (N.eqb_spec n 0) as [->|Hnz]; [lia|].
  destruct k as [|k]; [change (256 ^ N.of_nat 0)%N with 1%N in Hn; lia|].
  rewrite pow256_succ in Hn.
  specialize (IH (n / 256)%N k ((n mod 256)%N :: acc)). cbn [length] in IH.
  assert (n / 256 < 256 ^ N.of_nat k)%N by (apply N.div_lt_upper_bound; lia). lia.
Qed.

Lemma be_min_length n k : (n < 256 ^ N.of_nat k)%N -> (length (be_min n) <= k)%nat.
Proof. intros Hn. unfold be_min. pose proof (be_acc_length (N.to_nat (N.size n)) n k [] Hn). cbn [length] in *. lia. Qed.

Lemma be_acc_ok f : forall n acc, bytes_ok acc = true -> bytes_ok (be_acc f n acc) = true.
Proof.
  induction f as [|f IH]; intros n acc Ha; cbn [be_acc]; [exact Ha|].
  destruct (n =? 0)%N; [exact Ha|]. apply IH. unfold bytes_ok in *. cbn [forallb]. rewrite Ha, andb_true_r.
  unfold byte_ok. apply N.ltb_lt. apply N.mod_lt. lia.
Qed.

Lemma be_min_ok n : bytes_ok (be_min n) = true.
Proof. apply be_acc_ok. reflexivity. Qed.

(* ------------------------------------------------------------------------------------ *)
(* pad256 *)

Lemma pad256_length b : length (pad256 b) = 256%nat.
Proof.
  unfold pad256. destruct (Nat.leb_spec 256 (length b)).
  - rewrite skipn_length. lia.
  - rewrite app_length, repeat_length. lia.
Qed.

Lemma pad256_value b : (length b <= 256)%nat -> of_be (pad256 b) = of_be b.
Proof.
  intros Hl. unfold pad256. destruct (Nat.leb_spec 256 (length b)).
  - replace (length b - 256)%nat with 0%nat by lia. reflexivity.
  - apply of_be_zeros_app.
Qed.

Lemma pad256_ok b : bytes_ok b = true -> bytes_ok (pad256 b) = true.
Proof.
  intros Hb. unfold pad256. destruct (256 <=? length b)%nat.
  - now apply bytes_ok_skipn.
  - rewrite bytes_ok_app, bytes_ok_zeros, Hb. reflexivity.
Qed.

Lemma pow256_256 : (256 ^ N.of_nat 256)%N = Z.to_N (2 ^ 2048).
Proof. vm_compute. reflexivity. Qed.

Lemma enc256_length z : length (enc256 z) = 256%nat.
Proof. apply pad256_length. Qed.

Lemma enc256_ok z : bytes_ok (enc256 z) = true.
Proof. apply pad256_ok, be_min_ok. Qed.

Lemma big_bytes_short z : 0 <= z < 2 ^ 2048 -> (length (big_bytes z) <= 256)%nat.
Proof.
  intros Hz. apply be_min_length. rewrite pow256_256.
  assert (0 < 2 ^ 2048) by (apply Z.pow_pos_nonneg; lia). lia.
Qed.

Lemma enc256_value z : 0 <= z < 2 ^ 2048 -> big_of_bytes (enc256 z) = z.
Proof.
  intros Hz. unfold big_of_bytes, enc256. rewrite pad256_value by now apply big_bytes_short.
  unfold big_bytes. rewrite be_min_value. lia.
Qed.

Lemma big_of_bytes_nonneg b : 0 <= big_of_bytes b.
Proof. unfold big_of_bytes. lia. Qed.

Lemma big_of_bytes_lt b : bytes_ok b = true -> (length b <= 256)%nat -> big_of_bytes b < 2 ^ 2048.
Proof.
  intros Hb Hl. unfold big_of_bytes. pose proof (of_be_lt b Hb) as Hlt.
  assert (256 ^ N.of_nat (length b) <= 256 ^ N.of_nat 256)%N by (apply N.pow_le_mono_r; lia).
  rewrite pow256_256 in *. assert (0 < 2 ^ 2048) by (apply Z.pow_pos_nonneg; lia). lia.
Qed.

(* any encoding of at most 256 bytes is padded to THE 256-byte encoding of its value *)
Lemma pad256_canon b : bytes_ok b = true -> (length b <= 256)%nat ->
  pad256 b = enc256 (big_of_bytes b).
Proof.
  intros Hb Hl. apply of_be_inj.
  - now apply pad256_ok.
  - apply enc256_ok.
  - now rewrite pad256_length, enc256_length.
  - apply N2Z.inj. change (Z.of_N (of_be (enc256 (big_of_bytes b)))) with (big_of_bytes (enc256 (big_of_bytes b))).
    rewrite enc256_value by (split; [apply big_of_bytes_nonneg|now apply big_of_bytes_lt]).
    unfold big_of_bytes. now rewrite pad256_value.
Qed.

(* without the 2048-bit bound the low 2048 bits are kept - the code does not examine p *)
Lemma enc256_big_bytes_long z : (256 < length (big_bytes z))%nat ->
  enc256 z = skipn (length (big_bytes z) - 256) (big_bytes z).
Proof. intros Hl. unfold enc256, pad256. destruct (Nat.leb_spec 256 (length (big_bytes z))); [reflexivity|lia]. Qed.

(* ------------------------------------------------------------------------------------ *)
(* square and multiply = Z.pow mod *)

Lemma pow_mod_pos_spec b e m : 0 < m -> pow_mod_pos b e m = b ^ Zpos e mod m.
Proof.
  intros Hm. induction e as [e IH|e IH|]; cbn [pow_mod_pos].
  - rewrite IH. rewrite Pos2Z.inj_xI.
    replace (2 * Z.pos e + 1) with (Z.pos e + Z.pos e + 1) by lia.
    rewrite !Z.pow_add_r, Z.pow_1_r by lia.
    rewrite <- Zmult_mod, Zmult_mod_idemp_l. reflexivity.
  - rewrite IH. rewrite Pos2Z.inj_xO.
    replace (2 * Z.pos e) with (Z.pos e + Z.pos e) by lia.
    rewrite Z.pow_add_r by lia. rewrite <- Zmult_mod. reflexivity.
  - now rewrite Z.pow_1_r.
Qed.

Definition mexp_spec (mexp : Z -> Z -> Z -> Z) : Prop :=
  forall b e m, 0 <= e -> 0 < m -> mexp b e m = b ^ e mod m.

Lemma modexp_spec : mexp_spec modexp.
Proof.
  intros b e m He Hm. destruct e as [|e|e]; cbn [modexp].
  - now rewrite Z.pow_0_r.
  - rewrite pow_mod_pos_spec by assumption. symmetry. apply Zpower_mod. assumption.
  - lia.
Qed.

(* ------------------------------------------------------------------------------------ *)
(* SRP algebra over Z: the two sides compute the same secret.  Needs only 0 < p. *)

Lemma srp_t_mod B kv p : 0 < p -> 0 <= B < p -> 0 <= kv < p ->
  (if B - kv <? 0 then B - kv + p else B - kv) = (B - kv) mod p.
Proof.
  intros Hp HB Hk. destruct (Z.ltb_spec (B - kv) 0).
  - symmetry. rewrite <- (Z_mod_plus_full (B - kv) 1 p). rewrite Z.mod_small; lia.
  - symmetry. apply Z.mod_small. lia.
Qed.

Lemma srp_agree g p k x a b u : 0 < p -> 0 <= x -> 0 <= a -> 0 <= b -> 0 <= u ->
  let v := g ^ x mod p in
  let B := (k * v + g ^ b mod p) mod p in
  let t := (B - (k * v) mod p) mod p in
  t ^ (u * x + a) mod p = ((g ^ a mod p) * (v ^ u mod p)) ^ b mod p.
Proof.
  intros Hp Hx Ha Hb Hu v B t.
  assert (Ht : t = g ^ b mod p).
  { unfold t, B. rewrite Zminus_mod_idemp_r, Zminus_mod_idemp_l.
    replace (k * v + g ^ b mod p - k * v) with (g ^ b mod p) by ring. apply Z.mod_mod. lia. }
  rewrite Ht. rewrite <- Zpower_mod by assumption.
  assert (Hv : v ^ u mod p = (g ^ x) ^ u mod p) by (unfold v; symmetry; apply Zpower_mod; assumption).
  rewrite Hv.
  rewrite (Zpower_mod (g ^ a mod p * ((g ^ x) ^ u mod p))) by assumption.
  rewrite <- Zmult_mod. rewrite <- Zpower_mod by assumption.
  f_equal.
  rewrite <- (Z.pow_mul_r g x u) by lia.
  rewrite <- Z.pow_add_r by nia.
  rewrite <- !Z.pow_mul_r by nia.
  f_equal. ring.
Qed.

(* ------------------------------------------------------------------------------------ *)
(* the model *)

Lemma bytes_xor_total a : forall b, (length a <= length b)%nat -> exists r, bytes_xor a b = Ok r.
Proof.
  induction a as [|x a IH]; intros b Hl; cbn [bytes_xor]; [eauto|].
  destruct b as [|y b]; [cbn in Hl; lia|]. cbn [length] in Hl.
  destruct (IH b ltac:(lia)) as [r ->]. cbn [omap]. eauto.
Qed.

Section Main.
  Variable H : bytes -> bytes.
  Variable pbkdf2 : bytes -> bytes -> bytes.
  Variable mexp : Z -> Z -> Z -> Z.
  Hypothesis H_len : forall m, length (H m) = 32%nat.

  Notation gicp := (get_input_check_password H pbkdf2 mexp).
  Notation PH2 := (password_hash2 H pbkdf2).

  Definition B_in_range (srpB : bytes) (mp : modpow) : Prop :=
    0 < big_of_bytes srpB < big_of_bytes (mp_p mp) /\ (248 <= length srpB <= 256)%nat.

  Lemma validate_iff srpB mp : validate_current_algo srpB mp = true <-> B_in_range srpB mp.
  Proof.
    unfold validate_current_algo, B_in_range. rewrite negb_true_iff, !orb_false_iff.
    rewrite !Z.leb_gt, !Nat.ltb_ge. lia.
  Qed.

  (* the client's secret S as the code computes it (same chain of assignments) *)
  Definition client_S (password srpB : bytes) (mp : modpow) (random : bytes) : Z :=
    let p := big_of_bytes (mp_p mp) in
    let g := mp_g mp in
    let gBytes := pad256 (big_bytes g) in
    let a := big_of_bytes random in
    let ga := pad256 (big_bytes (mexp g a p)) in
    let gb := pad256 srpB in
    let u := big_of_bytes (H (ga ++ gb)) in
    let x := big_of_bytes (PH2 password (mp_salt1 mp) (mp_salt2 mp)) in
    let v := mexp g x p in
    let k := big_of_bytes (H (mp_p mp ++ gBytes)) in
    let kv := (k * v) mod p in
    let t0 := big_of_bytes srpB - kv in
    let t := if t0 <? 0 then t0 + p else t0 in
    mexp t (u * x + a) p.

  Definition client_GA (mp : modpow) (random : bytes) : bytes :=
    enc256 (mexp (mp_g mp) (big_of_bytes random) (big_of_bytes (mp_p mp))).

  (* closed form of the result once validation has passed *)
  Lemma gicp_form password srpB mp random :
    password <> [] -> validate_current_algo srpB mp = true ->
    exists hx, bytes_xor (H (mp_p mp)) (H (enc256 (mp_g mp))) = Ok hx /\
      gicp password srpB (Some mp) random =
      Ok (Some {| GA := client_GA mp random;
                  M1 := H (hx ++ H (mp_salt1 mp) ++ H (mp_salt2 mp) ++ client_GA mp random ++ pad256 srpB
                           ++ H (enc256 (client_S password srpB mp random))) |}).
  Proof.
    intros Hpw Hval.
    destruct (bytes_xor_total (H (mp_p mp)) (H (enc256 (mp_g mp)))) as [hx Hx]; [rewrite !H_len; lia|].
    exists hx. split; [exact Hx|].
    destruct password as [|c pw]; [congruence|].
    unfold get_input_check_password. rewrite Hval. cbn [negb].
    apply validate_iff in Hval. destruct Hval as [[HB0 HBp] _].
    destruct (Z.eqb_spec (big_of_bytes (mp_p mp)) 0) as [E|_]; [lia|].
    cbv zeta. fold (enc256 (mp_g mp)). rewrite Hx. cbn [obind]. reflexivity.
  Qed.

  (* ---- result class: decided by the range test on B alone ---- *)
  Lemma gicp_class password srpB mp random : password <> [] ->
    (B_in_range srpB mp -> exists ans, gicp password srpB (Some mp) random = Ok (Some ans)) /\
    (~ B_in_range srpB mp -> gicp password srpB (Some mp) random = Err).
  Proof.
    intros Hpw. split; intros HB.
    - apply validate_iff in HB. destruct (gicp_form password srpB mp random Hpw HB) as [hx [_ Hr]]. eauto.
    - destruct password as [|c pw]; [congruence|]. unfold get_input_check_password.
      destruct (validate_current_algo srpB mp) eqn:E; [apply validate_iff in E; contradiction|reflexivity].
  Qed.

  Lemma gicp_B_range password srpB mp random : password <> [] ->
    (exists ans, gicp password srpB (Some mp) random = Ok (Some ans)) <-> B_in_range srpB mp.
  Proof.
    intros Hpw. destruct (gicp_class password srpB mp random Hpw) as [Hy Hn]. split; [|exact Hy].
    intros [ans Hr]. destruct (validate_current_algo srpB mp) eqn:E; [now apply validate_iff|].
    rewrite Hn in Hr; [discriminate|]. intros HB. apply validate_iff in HB. congruence.
  Qed.

  Lemma gicp_refuses password srpB mp random : password <> [] ->
    gicp password srpB (Some mp) random = Err <-> ~ B_in_range srpB mp.
  Proof.
    intros Hpw. destruct (gicp_class password srpB mp random Hpw) as [Hy Hn]. split; [|exact Hn].
    intros Hr HB. destruct (Hy HB) as [ans Ha]. congruence.
  Qed.

  Lemma gicp_no_panic password srpB mp random : gicp password srpB (Some mp) random <> Panic.
  Proof.
    destruct password as [|c pw] eqn:E; [discriminate|]. rewrite <- E.
    assert (Hpw : password <> []) by (subst; discriminate).
    destruct (gicp_class password srpB mp random Hpw) as [Hy Hn].
    destruct (validate_current_algo srpB mp) eqn:V.
    - apply validate_iff in V. destruct (Hy V) as [ans ->]. discriminate.
    - rewrite Hn; [discriminate|]. intros HB. apply validate_iff in HB. congruence.
  Qed.

  Lemma gicp_empty srpB mp random : gicp [] srpB mp random = Ok None.
  Proof. reflexivity. Qed.

  Notation tg := (tg_get_input_check_password H pbkdf2 mexp).

  Lemma tg_empty srpB id mp random :
    tg [] (Some {| ap_algo := AlgoModPow (Some mp); ap_srpB := srpB; ap_srpid := id |}) random = Ok CheckEmpty.
  Proof. reflexivity. Qed.

  (* panics of the exported entry point: exactly the two nil dereferences *)
  Lemma tg_panic_iff password ap random :
    tg password ap random = Panic <-> ap = None \/ exists a, ap = Some a /\ ap_algo a = AlgoModPow None.
  Proof.
    unfold tg_get_input_check_password. destruct ap as [[al sb id]|]; cbn [ap_algo ap_srpB ap_srpid].
    - destruct al as [| |[mp|]].
      + split; [discriminate|]. intros [E|[a [E1 E2]]]; [discriminate|]. injection E1 as <-. discriminate.
      + split; [discriminate|]. intros [E|[a [E1 E2]]]; [discriminate|]. injection E1 as <-. discriminate.
      + pose proof (gicp_no_panic password sb mp random) as Hnp.
        destruct (gicp password sb (Some mp) random) as [[r|]| |]; try congruence;
          (split; [discriminate|]; intros [E|[a [E1 E2]]]; [discriminate|]; injection E1 as <-; discriminate).
      + split; [|reflexivity]. intros _. right. eexists. split; [reflexivity|reflexivity].
    - split; [|reflexivity]. now left.
  Qed.

  Lemma tg_result password srpB id mp random :
    tg password (Some {| ap_algo := AlgoModPow (Some mp); ap_srpB := srpB; ap_srpid := id |}) random =
    match gicp password srpB (Some mp) random with
    | Ok None => Ok CheckEmpty
    | Ok (Some r) => Ok (CheckSRP id (GA r) (M1 r))
    | Err => Err
    | Panic => Panic
    end.
  Proof. reflexivity. Qed.

  (* ---- the password enters verbatim, and only through PH2 of the exact byte string ----
     [srp_answer_x] is the computation of getInputCheckPassword with x as a parameter. *)
  Definition srp_answer_x (x : Z) (srpB : bytes) (mp : modpow) (random : bytes) : outcome (option answer) :=
    if negb (validate_current_algo srpB mp) then Err else
    let p := big_of_bytes (mp_p mp) in
    let g := mp_g mp in
    let gBytes := pad256 (big_bytes g) in
    let a := big_of_bytes random in
    let ga := pad256 (big_bytes (mexp g a p)) in
    let gb := pad256 srpB in
    let u := big_of_bytes (H (ga ++ gb)) in
    let v := mexp g x p in
    let k := big_of_bytes (H (mp_p mp ++ gBytes)) in
    if p =? 0 then Panic else
    let kv := (k * v) mod p in
    let t0 := big_of_bytes srpB - kv in
    let t := if t0 <? 0 then t0 + p else t0 in
    let sa := pad256 (big_bytes (mexp t (u * x + a) p)) in
    let ka := H sa in
    do hx <- bytes_xor (H (mp_p mp)) (H gBytes);
    Ok (Some {| GA := ga;
                M1 := H (hx ++ H (mp_salt1 mp) ++ H (mp_salt2 mp) ++ ga ++ gb ++ ka) |}).

  Lemma gicp_via_ph2 password srpB mp random : password <> [] ->
    gicp password srpB (Some mp) random =
    srp_answer_x (big_of_bytes (PH2 password (mp_salt1 mp) (mp_salt2 mp))) srpB mp random.
  Proof. destruct password as [|c pw]; [congruence|]. intros _. reflexivity. Qed.

  Lemma srp_answer_x_not_none x srpB mp random : srp_answer_x x srpB mp random <> Ok None.
  Proof.
    unfold srp_answer_x. destruct (negb (validate_current_algo srpB mp)); [discriminate|]. cbv zeta.
    destruct (big_of_bytes (mp_p mp) =? 0); [discriminate|].
    destruct (bytes_xor _ _); cbn [obind]; discriminate.
  Qed.

  Lemma gicp_same_ph2 password password' srpB mp random :
    password <> [] -> password' <> [] ->
    PH2 password (mp_salt1 mp) (mp_salt2 mp) = PH2 password' (mp_salt1 mp) (mp_salt2 mp) ->
    gicp password srpB (Some mp) random = gicp password' srpB (Some mp) random.
  Proof. intros H1 H2 E. rewrite !gicp_via_ph2 by assumption. now rewrite E. Qed.

  Lemma gicp_none_iff password srpB mp random :
    gicp password srpB (Some mp) random = Ok None <-> password = [].
  Proof.
    split; [|intros ->; reflexivity].
    destruct password as [|c pw]; [reflexivity|]. intros E.
    rewrite gicp_via_ph2 in E by discriminate. now apply srp_answer_x_not_none in E.
  Qed.

  (* the exported wrapper hands the password to the internal function unchanged *)
  Lemma tg_via_ph2 password srpB id mp random :
    tg password (Some {| ap_algo := AlgoModPow (Some mp); ap_srpB := srpB; ap_srpid := id |}) random =
    match password with
    | [] => Ok CheckEmpty
    | _ :: _ =>
      match srp_answer_x (big_of_bytes (PH2 password (mp_salt1 mp) (mp_salt2 mp))) srpB mp random with
      | Ok None => Ok CheckEmpty
      | Ok (Some r) => Ok (CheckSRP id (GA r) (M1 r))
      | Err => Err
      | Panic => Panic
      end
    end.
  Proof. rewrite tg_result. destruct password as [|c pw]; [reflexivity|]. rewrite gicp_via_ph2 by discriminate. reflexivity. Qed.

  Lemma tg_empty_iff password srpB id mp random :
    tg password (Some {| ap_algo := AlgoModPow (Some mp); ap_srpB := srpB; ap_srpid := id |}) random = Ok CheckEmpty
    <-> password = [].
  Proof.
    rewrite tg_result. split; [|intros ->; reflexivity]. intros E.
    apply (gicp_none_iff password srpB mp random).
    destruct (gicp password srpB (Some mp) random) as [[r|]| |]; try discriminate. reflexivity.
  Qed.

  (* ---- wrong password ----
     The server recomputes M1 from ITS secret; the two M1 preimages differ only in the final
     H(enc256 S) block.  Under injectivity of H on exactly those two strings, and on the two
     256-byte encodings of S, the server accepts iff the client's S equals the server's S. *)
  Definition m1_string (hx s1 s2 A gb : bytes) (S : Z) : bytes :=
    hx ++ H s1 ++ H s2 ++ A ++ gb ++ H (enc256 S).

  Lemma sv_check_iff_same_secret password srpB (sv : server) random ans hx :
    gicp password srpB (Some (sv_params sv)) random = Ok (Some ans) ->
    bytes_xor (H (enc256 (sv_p sv))) (H (enc256 (sv_g sv))) = Ok hx ->
    pad256 srpB = enc256 (sv_B H mexp sv) ->
    let Sc := client_S password srpB (sv_params sv) random in
    let Ss := sv_S H mexp sv (GA ans) in
    let m := m1_string hx (sv_salt1 sv) (sv_salt2 sv) (GA ans) (enc256 (sv_B H mexp sv)) in
    0 <= Sc < 2 ^ 2048 -> 0 <= Ss < 2 ^ 2048 ->
    (H (m Sc) = H (m Ss) -> m Sc = m Ss) ->
    (H (enc256 Sc) = H (enc256 Ss) -> enc256 Sc = enc256 Ss) ->
    (sv_check H mexp sv (GA ans) (M1 ans) = true <-> Sc = Ss).
  Proof.
    intros Hr Hx' Hgb Sc Ss m HSc HSs Hinj1 Hinj2.
    assert (Hpw : password <> []) by (intros ->; discriminate).
    assert (Hval : validate_current_algo srpB (sv_params sv) = true).
    { apply validate_iff. apply (gicp_B_range password srpB (sv_params sv) random Hpw). eauto. }
    destruct (gicp_form password srpB (sv_params sv) random Hpw Hval) as [hx0 [Hx Hres]].
    cbn [sv_params mp_p mp_g mp_salt1 mp_salt2] in Hx. rewrite Hx' in Hx. injection Hx as <-.
    rewrite Hres in Hr. injection Hr as <-. cbn [GA M1] in *.
    assert (Hl : length (client_GA (sv_params sv) random) = 256%nat) by apply enc256_length.
    unfold sv_check. rewrite Hl. cbn [Nat.eqb negb].
    unfold sv_M1. rewrite Hx'. cbn [obind sv_params mp_salt1 mp_salt2].
    rewrite Hgb. fold Sc Ss. rewrite beq_eq. split.
    - intros E. symmetry in E. apply Hinj1 in E. unfold m, m1_string in E.
      repeat apply app_inv_head in E. apply Hinj2 in E.
      rewrite <- (enc256_value Sc), <- (enc256_value Ss) by assumption. now rewrite E.
    - intros ->. reflexivity.
  Qed.

  Hypothesis mexp_ok : mexp_spec mexp.

  (* the exchange between this client and the reference server *)
  Theorem srp_accepts (password random srpB : bytes) (sv : server) :
    password <> [] ->
    1 < sv_p sv < 2 ^ 2048 -> 0 <= sv_b sv ->
    sv_v sv = sv_g sv ^ big_of_bytes (PH2 password (sv_salt1 sv) (sv_salt2 sv)) mod sv_p sv ->
    bytes_ok srpB = true -> (248 <= length srpB <= 256)%nat ->
    big_of_bytes srpB = sv_B H mexp sv -> 0 < sv_B H mexp sv ->
    exists ans, gicp password srpB (Some (sv_params sv)) random = Ok (Some ans) /\
      length (GA ans) = 256%nat /\
      big_of_bytes (GA ans) = sv_g sv ^ big_of_bytes random mod sv_p sv /\
      client_S password srpB (sv_params sv) random = sv_S H mexp sv (GA ans) /\
      sv_M1 H mexp sv (GA ans) = Ok (M1 ans) /\
      sv_check H mexp sv (GA ans) (M1 ans) = true.
  Proof.
    intros Hpw Hp Hb Hv HokB HlenB HB HB0.
    destruct sv as [s1 s2 g p v b]. cbn [sv_p sv_b sv_v sv_g sv_salt1 sv_salt2] in *.
    set (sv := {| sv_salt1 := s1; sv_salt2 := s2; sv_g := g; sv_p := p; sv_v := v; sv_b := b |}) in *.
    assert (Hpv : big_of_bytes (enc256 p) = p) by (apply enc256_value; lia).
    assert (HBp : sv_B H mexp sv < p) by (unfold sv_B; cbn [sv_p sv]; apply Z.mod_pos_bound; lia).
    assert (Hval : validate_current_algo srpB (sv_params sv) = true).
    { apply validate_iff. unfold B_in_range. cbn [sv_params mp_p sv_p sv]. rewrite Hpv, HB. lia. }
    destruct (gicp_form password srpB (sv_params sv) random Hpw Hval) as [hx [Hx Hres]].
    eexists. split; [exact Hres|]. cbn [GA M1].
    set (a := big_of_bytes random).
    assert (Ha : 0 <= a) by apply big_of_bytes_nonneg.
    assert (HGA : client_GA (sv_params sv) random = enc256 (g ^ a mod p)).
    { unfold client_GA. cbn [sv_params mp_g mp_p sv_g sv_p sv]. rewrite Hpv. fold a. rewrite mexp_ok by lia. reflexivity. }
    assert (Hgap : 0 <= g ^ a mod p < p) by (apply Z.mod_pos_bound; lia).
    assert (HGAv : big_of_bytes (enc256 (g ^ a mod p)) = g ^ a mod p) by (apply enc256_value; lia).
    assert (Hgb : pad256 srpB = enc256 (sv_B H mexp sv)) by (rewrite <- HB; apply pad256_canon; [assumption|lia]).
    (* the shared secret *)
    assert (Hp0 : 0 < p) by (clear - Hp; lia).
    assert (HS : client_S password srpB (sv_params sv) random = sv_S H mexp sv (enc256 (g ^ a mod p))).
    { unfold client_S, sv_S. cbn [sv_params mp_g mp_p mp_salt1 mp_salt2 sv_g sv_p sv_v sv_b sv_salt1 sv_salt2 sv].
      rewrite Hpv. fold a. cbv zeta. rewrite (mexp_ok g a) by assumption. rewrite Hgb.
      change (pad256 (big_bytes (g ^ a mod p))) with (enc256 (g ^ a mod p)).
      set (u := big_of_bytes (H (enc256 (g ^ a mod p) ++ enc256 (sv_B H mexp sv)))).
      set (x := big_of_bytes (PH2 password s1 s2)) in *.
      assert (Hu : 0 <= u) by apply big_of_bytes_nonneg.
      assert (Hx0 : 0 <= x) by apply big_of_bytes_nonneg.
      assert (Hexp : 0 <= u * x + a) by (clear - Hu Hx0 Ha; nia).
      rewrite (mexp_ok g x) by assumption. rewrite <- Hv.
      change (pad256 (big_bytes g)) with (enc256 g).
      change (big_of_bytes (H (enc256 p ++ enc256 g))) with (sv_k H sv).
      set (k := sv_k H sv).
      rewrite HB, HGAv.
      assert (HBdef : sv_B H mexp sv = (k * v + g ^ b mod p) mod p).
      { unfold sv_B. cbn [sv_g sv_p sv_v sv_b sv]. fold k. rewrite mexp_ok by assumption. reflexivity. }
      rewrite srp_t_mod; [|assumption|clear - HB0 HBp; lia|apply Z.mod_pos_bound; assumption].
      rewrite mexp_ok by assumption. rewrite (mexp_ok v u) by assumption. rewrite mexp_ok by assumption.
      rewrite HBdef, Hv. apply srp_agree; assumption. }
    rewrite HGA.
    assert (HM : sv_M1 H mexp sv (enc256 (g ^ a mod p)) =
                 Ok (H (hx ++ H (mp_salt1 (sv_params sv)) ++ H (mp_salt2 (sv_params sv)) ++ enc256 (g ^ a mod p) ++ pad256 srpB
                           ++ H (enc256 (client_S password srpB (sv_params sv) random))))).
    { unfold sv_M1. cbn [sv_params mp_p mp_g mp_salt1 mp_salt2] in Hx |- *. rewrite Hx. cbn [obind].
      rewrite HS, Hgb. reflexivity. }
    repeat split.
    - apply enc256_length.
    - exact HGAv.
    - exact HS.
    - exact HM.
    - unfold sv_check. rewrite enc256_length. cbn [Nat.eqb negb]. rewrite HM. apply beq_refl.
  Qed.

  Corollary tg_accepts (password random srpB : bytes) (sv : server) (id : Z) :
    password <> [] ->
    1 < sv_p sv < 2 ^ 2048 -> 0 <= sv_b sv ->
    sv_v sv = sv_g sv ^ big_of_bytes (PH2 password (sv_salt1 sv) (sv_salt2 sv)) mod sv_p sv ->
    bytes_ok srpB = true -> (248 <= length srpB <= 256)%nat ->
    big_of_bytes srpB = sv_B H mexp sv -> 0 < sv_B H mexp sv ->
    exists A m1,
      tg password (Some {| ap_algo := AlgoModPow (Some (sv_params sv)); ap_srpB := srpB; ap_srpid := id |}) random
      = Ok (CheckSRP id A m1) /\ sv_check H mexp sv A m1 = true.
  Proof.
    intros Hpw Hp Hb Hv HokB HlenB HB HB0.
    destruct (srp_accepts password random srpB sv Hpw Hp Hb Hv HokB HlenB HB HB0) as [ans [Hr [_ [_ [_ [_ Hc]]]]]].
    exists (GA ans), (M1 ans). rewrite tg_result, Hr. split; [reflexivity|exact Hc].
  Qed.

  Lemma client_S_range password srpB mp random :
    0 < big_of_bytes (mp_p mp) ->
    0 <= client_S password srpB mp random < big_of_bytes (mp_p mp).
  Proof.
    intros Hp. unfold client_S. cbv zeta. rewrite mexp_ok; [apply Z.mod_pos_bound; assumption| |assumption].
    pose proof (big_of_bytes_nonneg random).
    pose proof (big_of_bytes_nonneg (PH2 password (mp_salt1 mp) (mp_salt2 mp))).
    match goal with |- 0 <= big_of_bytes ?h * _ + _ => pose proof (big_of_bytes_nonneg h) end.
    nia.
  Qed.

  (* the answer of a client that used ANOTHER password: rejected as soon as its secret differs *)
  Theorem srp_wrong_password (password' random srpB : bytes) (sv : server) ans hx :
    1 < sv_p sv < 2 ^ 2048 -> 0 <= sv_b sv ->
    bytes_ok srpB = true -> (length srpB <= 256)%nat -> big_of_bytes srpB = sv_B H mexp sv ->
    gicp password' srpB (Some (sv_params sv)) random = Ok (Some ans) ->
    bytes_xor (H (enc256 (sv_p sv))) (H (enc256 (sv_g sv))) = Ok hx ->
    let Sc := client_S password' srpB (sv_params sv) random in
    let Ss := sv_S H mexp sv (GA ans) in
    let m := m1_string hx (sv_salt1 sv) (sv_salt2 sv) (GA ans) (enc256 (sv_B H mexp sv)) in
    Sc <> Ss ->
    (H (m Sc) = H (m Ss) -> m Sc = m Ss) ->
    (H (enc256 Sc) = H (enc256 Ss) -> enc256 Sc = enc256 Ss) ->
    sv_check H mexp sv (GA ans) (M1 ans) = false.
  Proof.
    intros Hp Hb HokB HlenB HB Hr Hx Sc Ss m Hne Hinj1 Hinj2.
    assert (Hp0 : 0 < sv_p sv) by (clear - Hp; lia).
    assert (Hpv : big_of_bytes (enc256 (sv_p sv)) = sv_p sv) by (apply enc256_value; clear - Hp; lia).
    assert (Hgb : pad256 srpB = enc256 (sv_B H mexp sv)) by (rewrite <- HB; apply pad256_canon; assumption).
    assert (HSc : 0 <= Sc < 2 ^ 2048).
    { pose proof (client_S_range password' srpB (sv_params sv) random) as R.
      cbn [sv_params mp_p] in R. rewrite Hpv in R. specialize (R Hp0). fold Sc in R. clear - R Hp. lia. }
    assert (HSs : 0 <= Ss < 2 ^ 2048).
    { assert (HSr : 0 <= Ss < sv_p sv); [|clear - HSr Hp; lia].
      unfold Ss, sv_S. cbv zeta. rewrite (mexp_ok _ (sv_b sv)) by assumption. apply Z.mod_pos_bound. assumption. }
    destruct (sv_check H mexp sv (GA ans) (M1 ans)) eqn:E; [|reflexivity].
    apply (sv_check_iff_same_secret password' srpB sv random ans hx Hr Hx Hgb HSc HSs Hinj1 Hinj2) in E.
    contradiction.
  Qed.
End Main.

Lemma pow_mod_nonzero g a p : 1 < p -> 0 <= a -> rel_prime g p -> 0 < g ^ a mod p.
Proof.
  intros Hp Ha Hr. pose proof (Z.mod_pos_bound (g ^ a) p ltac:(lia)) as Hb.
  destruct (Z.eq_dec (g ^ a mod p) 0) as [E|]; [|lia]. exfalso.
  apply Z.mod_divide in E; [|lia].
  assert (Hr' : rel_prime p (g ^ a)) by (apply rel_prime_Zpower_r; [assumption|now apply rel_prime_sym]).
  destruct Hr' as [_ _ Hd]. specialize (Hd p (Z.divide_refl p) E).
  apply Z.divide_1_r_nonneg in Hd; lia.
Qed.
