(* Proofs about Crypto/Envelope.v (properties C03 and C04).
   SHA-1 and IGE stay Section variables; each theorem lists the hypotheses it uses:
     sha1_len  : forall m, length (sha1 m) = 20
     ige_e_len : forall k iv d, length iv = 32 -> length d mod 16 = 0 -> length (ige_e k iv d) = length d
     ige_inv   : forall k iv d, length k = 32 -> length iv = 32 -> length d mod 16 = 0 ->
                 ige_d k iv (ige_e k iv d) = d
   The C04 acceptance and no-panic theorems use none of them. *)
From Coq Require Import ZArith NArith List Lia ZifyN ZifyNat ZifyBool Bool.
From MTV Require Import Base.Bytes Base.Outcome Crypto.Envelope.
Import ListNotations.
Open Scope N_scope.
Ltac Zify.zify_post_hook ::= Z.div_mod_to_equations.

(* ---------------------------------------------------------------------------------------- *)
(* list and word plumbing *)

Lemma firstn_app_len {A} (a b : list A) n : length a = n -> firstn n (a ++ b) = a.
Proof. intros <-. rewrite firstn_app, firstn_all, Nat.sub_diag, firstn_O, app_nil_r. reflexivity. Qed.

Lemma skipn_app_len {A} (a b : list A) n : length a = n -> skipn n (a ++ b) = b.
Proof. intros <-. rewrite skipn_app, skipn_all, Nat.sub_diag. reflexivity. Qed.

Lemma skipn_add {A} (a b : nat) (l : list A) : skipn a (skipn b l) = skipn (b + a) l.
Proof.
  revert l; induction b as [|b IH]; intros l; [reflexivity|].
  destruct l as [|x l]; [now rewrite !skipn_nil|]. cbn [skipn plus]. apply IH.
Qed.

Lemma slice_length s a b : (b <= length s)%nat -> length (slice s a b) = (b - a)%nat.
Proof. intros H. unfold slice. rewrite firstn_length, skipn_length. lia. Qed.

Lemma of_le_app a b : of_le (a ++ b) = of_le a + 256 ^ N.of_nat (length a) * of_le b.
Proof.
  induction a as [|x a IH]; cbn [app of_le length].
  - change (256 ^ N.of_nat 0) with 1. lia.
  - rewrite IH. rewrite Nat2N.inj_succ, N.pow_succ_r'. lia.
Qed.

Lemma of_le_le32 n : n < 4294967296 -> of_le (le32 n) = n.
Proof. intros H. unfold le32. cbn [of_le]. lia. Qed.

Lemma le64_length n : length (le64 n) = 8%nat.
Proof. reflexivity. Qed.

Lemma of_le_le64 n : n < 18446744073709551616 -> of_le (le64 n) = n.
Proof.
  intros H. unfold le64. rewrite of_le_app, !of_le_le32 by lia.
  rewrite le32_length. change (256 ^ N.of_nat 4) with 4294967296. lia.
Qed.

Lemma to_i32_small n : n < 2147483648 -> to_i32 n = Z.of_N n.
Proof. intros H. unfold to_i32. destruct (N.ltb_spec n 2147483648); [reflexivity|lia]. Qed.

Lemma of_le_bound l : Forall (fun b => b < 256) l -> of_le l < 256 ^ N.of_nat (length l).
Proof.
  induction 1 as [|x l Hx _ IH]; cbn [of_le length]; [cbn; lia|].
  rewrite Nat2N.inj_succ, N.pow_succ_r'. lia.
Qed.

Lemma Forall_firstn' {A} (P : A -> Prop) n : forall l, Forall P l -> Forall P (firstn n l).
Proof.
  induction n as [|n IH]; intros l H; [constructor|].
  destruct H as [|x l Hx Hl]; cbn [firstn]; constructor; auto.
Qed.

Lemma Forall_skipn' {A} (P : A -> Prop) n : forall l, Forall P l -> Forall P (skipn n l).
Proof.
  induction n as [|n IH]; intros l H; [exact H|].
  destruct H as [|x l Hx Hl]; cbn [skipn]; [constructor|auto].
Qed.

(* an 8-byte field of a byte string is a 64-bit pattern *)
Lemma of_le_slice8_lt (dec : bytes) a :
  Forall (fun b => b < 256) dec -> of_le (slice dec a (a + 8)) < 18446744073709551616.
Proof.
  intros H. unfold slice.
  assert (F : Forall (fun b => b < 256) (firstn (a + 8 - a) (skipn a dec)))
    by (apply Forall_firstn', Forall_skipn', H).
  pose proof (of_le_bound _ F) as B.
  assert (L : (length (firstn (a + 8 - a) (skipn a dec)) <= 8)%nat) by (rewrite firstn_length; lia).
  eapply N.lt_le_trans; [exact B|].
  change 18446744073709551616 with (256 ^ 8). apply N.pow_le_mono_r; lia.
Qed.

(* Go: int64 & 3 on a possibly negative msg_id = the two low bits of its 64-bit pattern *)
Lemma land3_signed n : n < 18446744073709551616 -> Z.land (to_i64 n) 3 = Z.of_N (n mod 4).
Proof.
  intros H. change 3%Z with (Z.ones 2). rewrite Z.land_ones by lia. change (2 ^ 2)%Z with 4%Z.
  unfold to_i64. destruct (N.ltb_spec n 9223372036854775808); lia.
Qed.

Lemma server_parity_signed n : n < 18446744073709551616 -> server_parity n = go_parity n.
Proof.
  intros H. unfold server_parity, go_parity. cbv zeta. rewrite land3_signed by exact H.
  destruct (N.eqb_spec (n mod 4) 1), (N.eqb_spec (n mod 4) 3),
           (Z.eqb_spec (Z.of_N (n mod 4)) 1), (Z.eqb_spec (Z.of_N (n mod 4)) 3); try reflexivity; lia.
Qed.

Lemma lor1_lt n : n < 4294967296 -> N.lor n 1 < 4294967296.
Proof.
  intros H. destruct (N.eq_dec n 0) as [->|Hn]; [cbn; lia|].
  apply N.log2_lt_pow2 with (b := 32); [|].
  - destruct (N.lor n 1) eqn:E; [apply N.lor_eq_0_l in E; lia|lia].
  - rewrite N.log2_lor. change (N.log2 1) with 0. rewrite N.max_0_r.
    apply N.log2_lt_pow2; lia.
Qed.

(* N.land x 15 = x mod 16 *)
Lemma pad_amount_spec len : pad_amount len = ((16 - len mod 16) mod 16)%nat.
Proof.
  unfold pad_amount. change 15 with (N.ones 4). rewrite N.land_ones. change (2 ^ 4) with 16. lia.
Qed.

Lemma pad_amount_lt len : (pad_amount len < 16)%nat.
Proof. rewrite pad_amount_spec. apply Nat.mod_upper_bound. lia. Qed.

Lemma pad_amount_aligned len : ((len + pad_amount len) mod 16 = 0)%nat.
Proof.
  rewrite pad_amount_spec.
  pose proof (Nat.div_mod len 16 ltac:(lia)) as D.
  assert (H : (len mod 16 < 16)%nat) by (apply Nat.mod_upper_bound; lia).
  destruct (Nat.eq_dec (len mod 16) 0) as [E|E].
  - rewrite E. change ((16 - 0) mod 16)%nat with 0%nat. rewrite Nat.add_0_r. exact E.
  - rewrite (Nat.mod_small (16 - len mod 16) 16) by lia.
    replace (len + (16 - len mod 16))%nat with (0 + (len / 16 + 1) * 16)%nat by lia.
    rewrite Nat.mod_add by lia. reflexivity.
Qed.

Lemma pad16_length msg : length (pad16 msg) = (length msg + pad_amount (length msg))%nat.
Proof. unfold pad16. rewrite app_length, repeat_length. reflexivity. Qed.

(* the 32-byte inner header followed by body and padding *)
Lemma plain_parse (a b c d e body pad : bytes) :
  length a = 8%nat -> length b = 8%nat -> length c = 8%nat -> length d = 4%nat -> length e = 4%nat ->
  let pt := a ++ b ++ c ++ d ++ e ++ body ++ pad in
  substr pt 0 8 = a /\ substr pt 8 8 = b /\ substr pt 16 8 = c /\ substr pt 24 4 = d /\ substr pt 28 4 = e /\
  skipn 32 pt = body ++ pad /\ firstn 32 pt = a ++ b ++ c ++ d ++ e /\
  length pt = (32 + length body + length pad)%nat.
Proof.
  intros Ha Hb Hc Hd He.
  do 8 (destruct a as [|? a]; [discriminate Ha|]). destruct a; [|discriminate Ha].
  do 8 (destruct b as [|? b]; [discriminate Hb|]). destruct b; [|discriminate Hb].
  do 8 (destruct c as [|? c]; [discriminate Hc|]). destruct c; [|discriminate Hc].
  do 4 (destruct d as [|? d]; [discriminate Hd|]). destruct d; [|discriminate Hd].
  do 4 (destruct e as [|? e]; [discriminate He|]). destruct e; [|discriminate He].
  cbn [app]. unfold substr. cbn [skipn firstn length]. repeat split.
  rewrite app_length. lia.
Qed.

(* ---------------------------------------------------------------------------------------- *)
(* decoder *)

Lemma pop_raw_ok n rest :
  (0 <= n)%Z -> rest <> [] -> (n <= Z.of_nat (length rest))%Z ->
  pop_raw n (mkdec rest false) = Ok (firstn (Z.to_nat n) rest, mkdec (skipn (Z.to_nat n) rest) false).
Proof.
  intros H0 Hne Hn. unfold pop_raw_gen. cbn [d_err d_rest].
  destruct (Z.ltb_spec n 0); [lia|].
  destruct (Z.ltb_spec (Z.of_nat (length rest)) n); [lia|]. cbn [orb].
  destruct rest as [|x r]; [congruence|reflexivity].
Qed.

(* the last Pop of DeserializeEncrypted may hit the end of the data (empty body, no padding) *)
Lemma pop_raw_fst n rest :
  (0 <= n)%Z -> (n <= Z.of_nat (length rest))%Z ->
  exists d', pop_raw n (mkdec rest false) = Ok (firstn (Z.to_nat n) rest, d').
Proof.
  intros H0 Hn. destruct rest as [|x r].
  - unfold pop_raw_gen. cbn [d_err d_rest length]. destruct (Z.ltb_spec n 0); [lia|].
    destruct (Z.ltb_spec (Z.of_nat 0) n); [cbn [length] in Hn; lia|]. cbn [orb].
    rewrite firstn_nil. eauto.
  - rewrite pop_raw_ok by (congruence || lia). eauto.
Qed.

(* PopRawBytes of HEAD never panics, whatever the size *)
Lemma pop_raw_total n d : exists r, pop_raw n d = Ok r.
Proof.
  unfold pop_raw_gen. destruct (d_err d); [eauto|].
  destruct ((n <? 0)%Z || (Z.of_nat (length (d_rest d)) <? n)%Z); [eauto|].
  destruct (d_rest d); eauto.
Qed.

Lemma pop_word_ok k rest :
  (k <= length rest)%nat ->
  pop_word k (mkdec rest false) = (of_le (firstn k rest), mkdec (skipn k rest) false).
Proof.
  intros H. unfold pop_word, pop_fixed. cbn [d_err d_rest].
  destruct (Nat.ltb_spec (length rest) k); [lia|reflexivity].
Qed.

Lemma pop_word_err k rest : pop_word k (mkdec rest true) = (0, mkdec rest true).
Proof. reflexivity. Qed.

Lemma pop_header_ok dec :
  (32 <= length dec)%nat ->
  pop_header (new_decoder dec) =
  ((of_le (slice dec 0 8), of_le (slice dec 8 16), of_le (slice dec 16 24), of_le (slice dec 24 28),
    of_le (slice dec 28 32)), mkdec (skipn 32 dec) false).
Proof.
  intros H. unfold pop_header, new_decoder.
  rewrite pop_word_ok by lia.
  rewrite pop_word_ok by (rewrite skipn_length; lia).
  rewrite pop_word_ok by (rewrite !skipn_length; lia).
  rewrite pop_word_ok by (rewrite !skipn_length; lia).
  rewrite pop_word_ok by (rewrite !skipn_length; lia).
  rewrite !skipn_add. unfold slice. cbn [Nat.sub Nat.add skipn]. reflexivity.
Qed.

(* fewer than 32 decrypted bytes: some Pop fails, the error is sticky, the length word reads 0 *)
Lemma pop_header_short dec :
  (length dec < 32)%nat ->
  exists salt sid msgid seq d, pop_header (new_decoder dec) = ((salt, sid, msgid, seq, 0), d).
Proof.
  intros H. unfold pop_header, new_decoder.
  destruct (Nat.le_gt_cases 8 (length dec)) as [H1|H1].
  2:{ unfold pop_word at 1, pop_fixed at 1. cbn [d_err d_rest].
      destruct (Nat.ltb_spec (length dec) 8); [|lia]. rewrite !pop_word_err. eauto 6. }
  rewrite pop_word_ok by lia.
  destruct (Nat.le_gt_cases 16 (length dec)) as [H2|H2].
  2:{ unfold pop_word at 1, pop_fixed at 1. cbn [d_err d_rest]. rewrite skipn_length.
      destruct (Nat.ltb_spec (length dec - 8) 8); [|lia]. rewrite !pop_word_err. eauto 6. }
  rewrite pop_word_ok by (rewrite skipn_length; lia).
  destruct (Nat.le_gt_cases 24 (length dec)) as [H3|H3].
  2:{ unfold pop_word at 1, pop_fixed at 1. cbn [d_err d_rest]. rewrite !skipn_length.
      destruct (Nat.ltb_spec (length dec - 8 - 8) 8); [|lia]. rewrite !pop_word_err. eauto 6. }
  rewrite pop_word_ok by (rewrite !skipn_length; lia).
  destruct (Nat.le_gt_cases 28 (length dec)) as [H4|H4].
  2:{ unfold pop_word at 1, pop_fixed at 1. cbn [d_err d_rest]. rewrite !skipn_length.
      destruct (Nat.ltb_spec (length dec - 8 - 8 - 8) 4); [|lia]. rewrite !pop_word_err. eauto 6. }
  rewrite pop_word_ok by (rewrite !skipn_length; lia).
  unfold pop_word, pop_fixed. cbn [d_err d_rest]. rewrite !skipn_length.
  destruct (Nat.ltb_spec (length dec - 8 - 8 - 8 - 4) 4); [|lia]. cbn [of_le]. eauto 6.
Qed.

(* the three PopRawBytes of DeserializeEncrypted on a packet of at least 40 bytes *)
Lemma open_pops data :
  (40 <= length data)%nat ->
  pop_raw 8 (new_decoder data) = Ok (firstn 8 data, mkdec (skipn 8 data) false) /\
  pop_raw 16 (mkdec (skipn 8 data) false) = Ok (slice data 8 24, mkdec (skipn 24 data) false) /\
  pop_raw (Z.of_nat (length data) - 24) (mkdec (skipn 24 data) false) = Ok (skipn 24 data, mkdec [] false).
Proof.
  intros H. unfold new_decoder. split; [|split].
  - rewrite pop_raw_ok; [reflexivity|lia|destruct data; [cbn in H; lia|congruence]|lia].
  - rewrite pop_raw_ok.
    + change (Z.to_nat 16) with 16%nat. rewrite skipn_add. reflexivity.
    + lia.
    + intros E. apply (f_equal (@length _)) in E. rewrite skipn_length in E. cbn [length] in E. lia.
    + rewrite skipn_length. lia.
  - rewrite pop_raw_ok.
    + replace (Z.to_nat (Z.of_nat (length data) - 24)) with (length (skipn 24 data)) by (rewrite skipn_length; lia).
      rewrite firstn_all, skipn_all. reflexivity.
    + lia.
    + intros E. apply (f_equal (@length _)) in E. rewrite skipn_length in E. cbn [length] in E. lia.
    + rewrite skipn_length. lia.
Qed.

(* ---------------------------------------------------------------------------------------- *)
(* unencrypted (key exchange) messages *)

Lemma unenc_parse (a b e body : bytes) :
  length a = 8%nat -> length b = 8%nat -> length e = 4%nat ->
  let d := a ++ b ++ e ++ body in
  slice d 0 8 = a /\ slice d 8 16 = b /\ slice d 16 20 = e /\ skipn 20 d = body /\
  length d = (20 + length body)%nat.
Proof.
  intros Ha Hb He.
  do 8 (destruct a as [|? a]; [discriminate Ha|]). destruct a; [|discriminate Ha].
  do 8 (destruct b as [|? b]; [discriminate Hb|]). destruct b; [|discriminate Hb].
  do 4 (destruct e as [|? e]; [discriminate He|]). destruct e; [|discriminate He].
  cbn [app]. unfold slice. cbn [Nat.sub skipn firstn length]. repeat split.
Qed.

Theorem unencrypted_layout msgid body :
  let d := serialize_unencrypted msgid body in
  slice d 0 8 = repeat 0 8 /\ slice d 8 16 = le64 msgid /\
  slice d 16 20 = le32 (N.of_nat (length body) mod 4294967296) /\ skipn 20 d = body /\
  length d = (20 + length body)%nat /\ is_packet_encrypted d = false.
Proof.
  cbv zeta. unfold serialize_unencrypted.
  destruct (unenc_parse (le64 0) (le64 msgid) (le32 (N.of_nat (length body) mod 4294967296)) body
              eq_refl eq_refl eq_refl) as (U1 & U2 & U3 & U4 & U5). cbv zeta in *.
  repeat split; assumption.
Qed.

Theorem unencrypted_roundtrip msgid body :
  msgid < 18446744073709551616 -> N.of_nat (length body) < 4294967296 ->
  deserialize_unencrypted (serialize_unencrypted msgid body) =
  if server_parity msgid then Ok (mkumsg msgid body) else Err.
Proof.
  intros Hid Hlen. unfold deserialize_unencrypted, serialize_unencrypted.
  destruct (unenc_parse (le64 0) (le64 msgid) (le32 (N.of_nat (length body) mod 4294967296)) body
              eq_refl eq_refl eq_refl) as (U1 & U2 & U3 & U4 & U5). cbv zeta in *.
  set (d := le64 0 ++ le64 msgid ++ le32 (N.of_nat (length body) mod 4294967296) ++ body) in *.
  unfold new_decoder. rewrite pop_raw_ok; [|lia|intros E; rewrite E in U5; cbn in U5; lia|lia].
  cbn [obind snd]. change (Z.to_nat 8) with 8%nat.
  rewrite pop_word_ok by (rewrite skipn_length; lia).
  rewrite skipn_add. cbn [Nat.add].
  change (firstn 8 (skipn 8 d)) with (slice d 8 16). rewrite U2, of_le_le64 by exact Hid.
  destruct (server_parity msgid); cbn [negb]; [|reflexivity].
  rewrite pop_word_ok by (rewrite skipn_length; lia).
  rewrite skipn_add. cbn [Nat.add].
  change (firstn 4 (skipn 16 d)) with (slice d 16 20). rewrite U3, of_le_le32 by lia.
  rewrite N.mod_small by lia. rewrite U5.
  destruct (Z.eqb_spec (Z.of_nat (20 + length body) - 20) (Z.of_N (N.of_nat (length body)))); [|lia].
  cbn [negb d_rest]. rewrite U4. reflexivity.
Qed.

(* ---------------------------------------------------------------------------------------- *)
(* facts that do not mention SHA-1 or IGE *)

Lemma deserialize_unencrypted_no_panic data : deserialize_unencrypted data <> Panic.
Proof.
  unfold deserialize_unencrypted.
  destruct (pop_raw_total 8 (new_decoder data)) as [r ->]. cbn [obind].
  destruct (pop_word 8 (snd r)) as [msgid d].
  destruct (negb (server_parity msgid)); [discriminate|].
  destruct (pop_word 4 d) as [mlen d'].
  destruct (negb (Z.of_nat (length data) - 20 =? Z.of_N mlen)%Z); discriminate.
Qed.

Lemma pkt_parts (a m c : bytes) :
  length a = 8%nat -> length m = 16%nat ->
  substr (a ++ m ++ c) 0 8 = a /\ substr (a ++ m ++ c) 8 16 = m /\ skipn 24 (a ++ m ++ c) = c /\
  length (a ++ m ++ c) = (24 + length c)%nat.
Proof.
  intros Ha Hm.
  do 8 (destruct a as [|? a]; [discriminate Ha|]). destruct a; [|discriminate Ha].
  do 16 (destruct m as [|? m]; [discriminate Hm|]). destruct m; [|discriminate Hm].
  cbn [app]. unfold substr. cbn [skipn firstn length]. repeat split.
Qed.

Lemma serialize_packet_length salt sid msgid seq ack body :
  length (serialize_packet salt sid msgid seq ack body) = (32 + length body)%nat.
Proof. unfold serialize_packet. rewrite !app_length, !le64_length, !le32_length. lia. Qed.

Definition seq_ack (seq : N) (ack : bool) : N := if ack then N.lor seq 1 else seq.

Lemma seq_ack_lt seq ack : seq < 4294967296 -> seq_ack seq ack < 4294967296.
Proof. destruct ack; cbn [seq_ack]; [apply lor1_lt|auto]. Qed.

(* ---------------------------------------------------------------------------------------- *)
(* key schedule: no hypothesis on SHA-1 *)
Section KeySchedule.
Variable sha1 : bytes -> bytes.
Notation msg_key := (msg_key sha1).
Notation auth_key_id := (auth_key_id sha1).
Notation kiv := (kiv sha1).
Notation kiv_spec := (kiv_spec sha1).

Lemma kiv_no_panic x key mk : (96 + x + 32 <= length key)%nat -> exists ki, kiv x key mk = Ok ki.
Proof. intros H. unfold Envelope.kiv. destruct (Nat.ltb_spec (length key) (96 + x + 32)); [lia|eauto]. Qed.

(* both readings of the key schedule agree (the Go code's slices = the description's substr) *)
Lemma kiv_is_spec (to_server : bool) key mk :
  (128 + dir_x to_server <= length key)%nat -> kiv (dir_x to_server) key mk = Ok (kiv_spec (dir_x to_server) key mk).
Proof.
  intros H. unfold Envelope.kiv.
  destruct (Nat.ltb_spec (length key) (96 + dir_x to_server + 32)); [destruct to_server; cbn [dir_x] in *; lia|].
  destruct to_server; reflexivity.
Qed.

End KeySchedule.

(* ---------------------------------------------------------------------------------------- *)
(* receive path (C04): SHA-1 and IGE decryption are arbitrary functions, no hypothesis *)
Section Receive.
Variable sha1 : bytes -> bytes.
Variable ige_d : bytes -> bytes -> bytes -> bytes.
Notation msg_key := (msg_key sha1).
Notation auth_key_id := (auth_key_id sha1).
Notation kiv := (kiv sha1).
Notation kiv_spec := (kiv_spec sha1).

Lemma decrypt_no_panic enc key mk : (136 <= length key)%nat -> decrypt sha1 ige_d enc key mk <> Panic.
Proof.
  intros H. unfold decrypt. destruct (kiv_no_panic sha1 8 key mk ltac:(lia)) as [ki ->]. cbn [obind].
  destruct (negb (aes_key_len_ok (fst ki))); [discriminate|].
  destruct (negb (correct_data enc)); discriminate.
Qed.

Lemma decrypt_ok_inv enc key mk dec :
  decrypt sha1 ige_d enc key mk = Ok dec ->
  exists k iv, kiv 8 key mk = Ok (k, iv) /\ dec = ige_d k iv enc /\
               (16 <= length enc)%nat /\ (length enc mod 16 = 0)%nat.
Proof.
  unfold decrypt. destruct (kiv 8 key mk) as [[k iv]| |]; cbn [obind fst snd]; try discriminate.
  destruct (negb (aes_key_len_ok k)); [discriminate|].
  unfold correct_data.
  destruct (Nat.ltb_spec (length enc) 16); cbn [negb andb]; [discriminate|].
  destruct (Nat.eqb_spec (length enc mod 16) 0); cbn [negb]; [|discriminate].
  intros E; injection E as <-. eauto 8.
Qed.

(* C04: what acceptance implies.  No hypothesis on SHA-1 or IGE. *)
Lemma accept_inv key pkt m :
  open_client sha1 ige_d key pkt = Ok m ->
  (40 <= length pkt)%nat /\ (136 <= length key)%nat /\
  firstn 8 pkt = auth_key_id key /\
  exists dec,
    decrypt sha1 ige_d (skipn 24 pkt) key (slice pkt 8 24) = Ok dec /\
    let mlen := to_i32 (of_le (slice dec 28 32)) in
    (0 <= mlen <= Z.of_nat (length dec) - 32)%Z /\
    slice pkt 8 24 = msg_key (firstn (Z.to_nat (32 + mlen)) dec) /\
    server_parity (of_le (slice dec 16 24)) = true /\
    m = mkemsg (of_le (slice dec 0 8)) (of_le (slice dec 8 16)) (of_le (slice dec 16 24))
               (of_le (slice dec 24 28)) (slice pkt 8 24) (firstn (Z.to_nat mlen) (skipn 32 dec)).
Proof.
  unfold open_client, open_client_gen. cbn [andb negb].
  destruct (Nat.ltb_spec (length pkt) 40) as [|H40]; [discriminate|].
  destruct (Nat.ltb_spec (length key) 136) as [|H136]; [discriminate|].
  destruct (open_pops pkt H40) as (O1 & O2 & O3).
  rewrite O1. cbn [obind fst snd].
  destruct (beq_spec (firstn 8 pkt) (auth_key_id key)) as [Hid|]; cbn [negb]; [|discriminate].
  rewrite O2. cbn [obind fst snd]. rewrite O3. cbn [obind fst snd].
  destruct (decrypt sha1 ige_d (skipn 24 pkt) key (slice pkt 8 24)) as [dec| |] eqn:Ed; cbn [obind]; try discriminate.
  destruct (Nat.le_gt_cases 32 (length dec)) as [H32|H32].
  2:{ destruct (pop_header_short dec H32) as (a & b & c & d & dd & Eh). rewrite Eh.
      change (to_i32 0) with 0%Z. cbn [Z.ltb Z.compare orb].
      destruct (Z.ltb_spec (Z.of_nat (length dec) - 32) 0); [discriminate|lia]. }
  rewrite (pop_header_ok dec H32).
  set (mlen := to_i32 (of_le (slice dec 28 32))).
  destruct (Z.ltb_spec mlen 0) as [|G1]; cbn [orb]; [discriminate|].
  destruct (Z.ltb_spec (Z.of_nat (length dec) - 32) mlen) as [|G2]; [discriminate|].
  destruct (server_parity (of_le (slice dec 16 24))) eqn:Hpar; cbn [negb]; [|discriminate].
  destruct (Z.ltb_spec (32 + mlen) 0); cbn [orb]; [lia|].
  destruct (Z.ltb_spec (Z.of_nat (length dec)) (32 + mlen)); [lia|].
  destruct (beq_spec (slice (sha1 (firstn (Z.to_nat (32 + mlen)) dec)) 4 20) (slice pkt 8 24)) as [Hmk|];
    cbn [negb]; [|discriminate].
  destruct (pop_raw_fst mlen (skipn 32 dec)) as [d' Hd']; [lia|rewrite skipn_length; lia|].
  rewrite Hd'. cbn [obind fst]. intros E. injection E as <-.
  split; [exact H40|]. split; [exact H136|]. split; [exact Hid|]. exists dec. split; [reflexivity|].
  fold mlen. cbv zeta. split; [lia|]. split; [symmetry; exact Hmk|]. split; [exact Hpar|reflexivity].
Qed.

(* C04: DeserializeEncrypted never panics: any packet, ANY key (absent, short, long) *)
Theorem open_client_no_panic key pkt : open_client sha1 ige_d key pkt <> Panic.
Proof.
  unfold open_client, open_client_gen. cbn [andb negb].
  destruct (Nat.ltb_spec (length pkt) 40) as [|H40]; [discriminate|].
  destruct (Nat.ltb_spec (length key) 136) as [|Hkey]; [discriminate|].
  destruct (open_pops pkt H40) as (O1 & O2 & O3).
  rewrite O1. cbn [obind fst snd].
  destruct (negb (beq (firstn 8 pkt) (auth_key_id key))); [discriminate|].
  rewrite O2. cbn [obind fst snd]. rewrite O3. cbn [obind fst snd].
  pose proof (decrypt_no_panic (skipn 24 pkt) key (slice pkt 8 24) Hkey) as Hnp.
  destruct (decrypt sha1 ige_d (skipn 24 pkt) key (slice pkt 8 24)) as [dec| |]; cbn [obind];
    [|discriminate|congruence].
  destruct (pop_header (new_decoder dec)) as [[[[[salt sid] msgid] seq] lenw] d].
  set (mlen := to_i32 lenw).
  destruct (Z.ltb_spec mlen 0) as [|G1]; cbn [orb]; [discriminate|].
  destruct (Z.ltb_spec (Z.of_nat (length dec) - 32) mlen) as [|G2]; [discriminate|].
  destruct (negb (server_parity msgid)); [discriminate|].
  destruct (Z.ltb_spec (32 + mlen) 0); cbn [orb]; [lia|].
  destruct (Z.ltb_spec (Z.of_nat (length dec)) (32 + mlen)); [lia|].
  destruct (negb (beq (slice (sha1 (firstn (Z.to_nat (32 + mlen)) dec)) 4 20) (slice pkt 8 24))); [discriminate|].
  destruct (pop_raw_total mlen d) as [r ->]. discriminate.
Qed.

Theorem read_dispatch_no_panic key data : read_dispatch sha1 ige_d key data <> Panic.
Proof.
  unfold read_dispatch.
  destruct (is_packet_encrypted data).
  - pose proof (open_client_no_panic key data).
    destruct (open_client sha1 ige_d key data); cbn [omap obind]; [|discriminate|congruence].
    destruct (negb (server_parity (any_msgid (AEnc a)))); discriminate.
  - pose proof (deserialize_unencrypted_no_panic data).
    destruct (deserialize_unencrypted data); cbn [omap obind]; [|discriminate|congruence].
    destruct (negb (server_parity (any_msgid (AUn a)))); discriminate.
Qed.

(* C04: an accepted packet that carries the msg_key of a sealed message IS that message, provided
   msg_key does not collide on the two strings involved: the decrypted prefix the client hashed
   ([client_plain key pkt]) and the sealed plaintext. *)
Theorem same_message_core key pkt m salt sid msgid seq body :
  open_client sha1 ige_d key pkt = Ok m ->
  salt < 18446744073709551616 -> sid < 18446744073709551616 -> msgid < 18446744073709551616 ->
  seq < 4294967296 -> N.of_nat (length body) < 2147483648 ->
  let P := le64 salt ++ le64 sid ++ le64 msgid ++ le32 seq ++ le32 (N.of_nat (length body)) ++ body in
  slice pkt 8 24 = msg_key P ->
  (forall T, client_plain sha1 ige_d key pkt = Some T -> msg_key T = msg_key P -> T = P) ->
  fields_of m = (salt, sid, msgid, seq, body).
Proof.
  intros Hacc Hsalt Hsid Hmsgid Hseq Hbody P Hmk Hnc.
  destruct (accept_inv _ _ _ Hacc) as (_ & _ & _ & dec & Ed & Hrest). cbv zeta in Hrest.
  destruct Hrest as (Hlen & Hmk2 & _ & ->).
  assert (HT : client_plain sha1 ige_d key pkt = Some (firstn (Z.to_nat (32 + to_i32 (of_le (slice dec 28 32)))) dec))
    by (unfold client_plain; rewrite Ed; reflexivity).
  specialize (Hnc _ HT). rewrite <- Hmk2 in Hnc. specialize (Hnc Hmk). clear HT Hmk Hmk2 Hacc Ed.
  set (mlen := to_i32 (of_le (slice dec 28 32))) in *.
  assert (HP : length P = (32 + length body)%nat)
    by (unfold P; rewrite !app_length, !le64_length, !le32_length; lia).
  assert (Hm : mlen = Z.of_nat (length body)).
  { apply (f_equal (@length _)) in Hnc. rewrite firstn_length, HP in Hnc. lia. }
  clearbody mlen. subst mlen.
  pose proof (firstn_skipn (Z.to_nat (32 + Z.of_nat (length body))) dec) as Hd. rewrite Hnc in Hd.
  set (rest := skipn (Z.to_nat (32 + Z.of_nat (length body))) dec) in *. clearbody rest. subst dec.
  assert (Hpt : P ++ rest = le64 salt ++ le64 sid ++ le64 msgid ++ le32 seq
                  ++ le32 (N.of_nat (length body)) ++ body ++ rest)
    by (unfold P; rewrite <- !app_assoc; reflexivity).
  destruct (plain_parse (le64 salt) (le64 sid) (le64 msgid) (le32 seq) (le32 (N.of_nat (length body))) body rest
              eq_refl eq_refl eq_refl eq_refl eq_refl) as (Q1 & Q2 & Q3 & Q4 & Q5 & Q6 & _).
  cbv zeta in Q1, Q2, Q3, Q4, Q5, Q6. rewrite <- Hpt in *.
  unfold fields_of. cbn [e_salt e_sid e_msgid e_seq e_body].
  change (slice (P ++ rest) 0 8) with (substr (P ++ rest) 0 8).
  change (slice (P ++ rest) 8 16) with (substr (P ++ rest) 8 8).
  change (slice (P ++ rest) 16 24) with (substr (P ++ rest) 16 8).
  change (slice (P ++ rest) 24 28) with (substr (P ++ rest) 24 4).
  rewrite Q1, Q2, Q3, Q4, Q6.
  rewrite !of_le_le64 by assumption. rewrite of_le_le32 by assumption.
  rewrite Nat2Z.id, firstn_app_len by reflexivity. reflexivity.
Qed.

End Receive.

(* ---------------------------------------------------------------------------------------- *)
(* C03: needs the SHA-1 output length ... *)
Section WithSha.
Variable sha1 : bytes -> bytes.
Hypothesis sha1_len : forall m, length (sha1 m) = 20%nat.
Notation msg_key := (msg_key sha1).
Notation auth_key_id := (auth_key_id sha1).
Notation kiv := (kiv sha1).
Notation kiv_spec := (kiv_spec sha1).

Lemma msg_key_length p : length (msg_key p) = 16%nat.
Proof. unfold Envelope.msg_key. rewrite slice_length; [reflexivity|rewrite sha1_len; lia]. Qed.

Lemma auth_key_id_length k : length (auth_key_id k) = 8%nat.
Proof. unfold Envelope.auth_key_id. rewrite slice_length; [reflexivity|rewrite sha1_len; lia]. Qed.

Lemma spec_key_id_is k : spec_key_id sha1 k = auth_key_id k.
Proof.
  unfold spec_key_id, low_bits, Envelope.auth_key_id, slice. rewrite sha1_len. cbn [Nat.sub].
  rewrite firstn_all2; [reflexivity|]. rewrite skipn_length, sha1_len. lia.
Qed.

Lemma spec_msg_key_is p : spec_msg_key sha1 p = msg_key p.
Proof.
  unfold spec_msg_key, low_bits, Envelope.msg_key, slice. rewrite sha1_len. cbn [Nat.sub].
  rewrite firstn_all2; [reflexivity|]. rewrite skipn_length, sha1_len. lia.
Qed.

Lemma kiv_spec_lengths x key mk :
  length (fst (kiv_spec x key mk)) = 32%nat /\ length (snd (kiv_spec x key mk)) = 32%nat.
Proof.
  unfold Envelope.kiv_spec, substr. cbn [fst snd].
  rewrite !app_length, !firstn_length, !skipn_length, !sha1_len. cbn. split; reflexivity.
Qed.

Section Layout.
Variable ige_e : bytes -> bytes -> bytes -> bytes.

(* C03 layout: byte offsets of key id / msg_key / ciphertext, both readings of every piece *)
Theorem seal_layout key salt sid msgid seq ack body pkt :
  seal_client sha1 ige_e key salt sid msgid seq ack body = Ok pkt ->
  let obj := serialize_packet salt sid msgid seq ack body in
  let p := pad_amount (length obj) in
  obj = le64 salt ++ le64 sid ++ le64 msgid ++ le32 (seq_ack seq ack)
        ++ le32 (N.of_nat (length body) mod 4294967296) ++ body /\
  slice pkt 0 8 = auth_key_id key /\ auth_key_id key = spec_key_id sha1 key /\
  slice pkt 8 24 = msg_key obj /\ msg_key obj = spec_msg_key sha1 obj /\
  (p < 16)%nat /\ ((length obj + p) mod 16 = 0)%nat /\
  skipn 24 pkt = ige_e (fst (kiv_spec 0 key (msg_key obj))) (snd (kiv_spec 0 key (msg_key obj)))
                       (obj ++ repeat 0 p) /\
  kiv 0 key (msg_key obj) = Ok (kiv_spec 0 key (msg_key obj)).
Proof.
  cbv zeta. unfold seal_client, encrypt.
  set (obj := serialize_packet salt sid msgid seq ack body).
  destruct (Nat.le_gt_cases 128 (length key)) as [Hk|Hk].
  2:{ unfold Envelope.kiv at 1. destruct (Nat.ltb_spec (length key) (96 + 0 + 32)); [|lia]. discriminate. }
  pose proof (kiv_is_spec sha1 true key (msg_key obj)) as Hkiv. cbn [dir_x] in Hkiv.
  rewrite Hkiv by lia. cbn [obind].
  destruct (negb (aes_key_len_ok (fst (kiv_spec 0 key (msg_key obj))))); [discriminate|].
  destruct (negb (correct_data (pad16 obj))); [discriminate|].
  intros E. injection E as <-.
  destruct (pkt_parts (auth_key_id key) (msg_key obj)
              (ige_e (fst (kiv_spec 0 key (msg_key obj))) (snd (kiv_spec 0 key (msg_key obj))) (pad16 obj))
              (auth_key_id_length key) (msg_key_length obj)) as (P1 & P2 & P3 & _).
  split; [reflexivity|]. split; [exact P1|]. split; [symmetry; apply spec_key_id_is|].
  split; [exact P2|]. split; [symmetry; apply spec_msg_key_is|].
  split; [apply pad_amount_lt|]. split; [apply pad_amount_aligned|].
  split; [exact P3|]. reflexivity.
Qed.

End Layout.

(* ... and, for the round trips, IGE length preservation and inversion on block-aligned data *)
Section WithIge.
Variables ige_e ige_d : bytes -> bytes -> bytes -> bytes.
Hypothesis ige_e_len : forall k iv d,
  length iv = 32%nat -> (length d mod 16 = 0)%nat -> length (ige_e k iv d) = length d.
Hypothesis ige_inv : forall k iv d,
  length k = 32%nat -> length iv = 32%nat -> (length d mod 16 = 0)%nat -> ige_d k iv (ige_e k iv d) = d.

Theorem server_opens_client key salt sid msgid seq ack body :
  (128 <= length key)%nat ->
  salt < 18446744073709551616 -> sid < 18446744073709551616 -> msgid < 18446744073709551616 ->
  seq < 4294967296 -> N.of_nat (length body) < 2147483648 ->
  exists pkt,
    seal_client sha1 ige_e key salt sid msgid seq ack body = Ok pkt /\
    open_server sha1 ige_d key pkt = Some (salt, sid, msgid, seq_ack seq ack, body) /\
    length pkt = (24 + 32 + length body + pad_amount (32 + length body))%nat /\
    (pad_amount (32 + length body) < 16)%nat.
Proof.
  intros Hkey Hsalt Hsid Hmsgid Hseq Hbody.
  unfold seal_client, encrypt.
  set (obj := serialize_packet salt sid msgid seq ack body).
  assert (Hobj : length obj = (32 + length body)%nat) by apply serialize_packet_length.
  rewrite (kiv_is_spec sha1 true) by (cbn [dir_x]; lia). cbn [obind dir_x].
  destruct (kiv_spec_lengths 0 key (msg_key obj)) as [Hk Hiv].
  destruct (kiv_spec 0 key (msg_key obj)) as [k iv] eqn:Ekiv. cbn [fst snd] in *.
  assert (Hpl : length (pad16 obj) = (32 + length body + pad_amount (32 + length body))%nat)
    by (rewrite pad16_length, Hobj; reflexivity).
  pose proof (pad_amount_aligned (32 + length body)) as Hal.
  pose proof (pad_amount_lt (32 + length body)) as Hplt.
  assert (Hkl : aes_key_len_ok k = true) by (unfold aes_key_len_ok; rewrite Hk; reflexivity).
  rewrite Hkl. cbn [negb].
  assert (Hcd : correct_data (pad16 obj) = true).
  { unfold correct_data. rewrite Hpl, Hal.
    destruct (Nat.ltb_spec (32 + length body + pad_amount (32 + length body)) 16); [lia|reflexivity]. }
  rewrite Hcd. cbn [negb].
  set (ct := ige_e k iv (pad16 obj)).
  assert (Hct : length ct = (32 + length body + pad_amount (32 + length body))%nat).
  { unfold ct. rewrite ige_e_len; [exact Hpl|exact Hiv|rewrite Hpl; exact Hal]. }
  eexists. split; [reflexivity|].
  destruct (pkt_parts (auth_key_id key) (msg_key obj) ct (auth_key_id_length key) (msg_key_length obj))
    as (P1 & P2 & P3 & P4).
  split; [|split; [rewrite P4, Hct; lia|exact Hplt]].
  unfold open_server, spec_open. rewrite P1, P2, P3, spec_key_id_is, beq_refl. cbn [negb dir_x].
  rewrite Hct, Hal.
  destruct (Nat.eqb_spec (32 + length body + pad_amount (32 + length body)) 0); [lia|]. cbn [orb negb Nat.eqb].
  rewrite Ekiv. unfold ct. rewrite ige_inv by (assumption || (rewrite Hpl; exact Hal)).
  assert (Hpt : pad16 obj = le64 salt ++ le64 sid ++ le64 msgid ++ le32 (seq_ack seq ack)
                  ++ le32 (N.of_nat (length body) mod 4294967296) ++ body
                  ++ repeat 0 (pad_amount (length obj))).
  { unfold pad16, obj, serialize_packet, seq_ack. rewrite <- !app_assoc. reflexivity. }
  destruct (plain_parse (le64 salt) (le64 sid) (le64 msgid) (le32 (seq_ack seq ack))
              (le32 (N.of_nat (length body) mod 4294967296)) body (repeat 0 (pad_amount (length obj)))
              eq_refl eq_refl eq_refl eq_refl eq_refl) as (Q1 & Q2 & Q3 & Q4 & Q5 & Q6 & Q7 & Q8).
  cbv zeta in Q1, Q2, Q3, Q4, Q5, Q6, Q7, Q8. rewrite <- Hpt in *.
  rewrite Q1, Q2, Q3, Q4, Q5.
  rewrite !of_le_le64 by assumption.
  rewrite (of_le_le32 (seq_ack seq ack)) by (apply seq_ack_lt; exact Hseq).
  rewrite of_le_le32 by lia.
  rewrite N.mod_small by lia. rewrite Nat2N.id.
  rewrite Hpl.
  destruct (Nat.ltb_spec (32 + length body + pad_amount (32 + length body)) 32); [lia|].
  destruct (N.ltb_spec (N.of_nat (32 + length body + pad_amount (32 + length body)) - 32) (N.of_nat (length body))); [lia|].
  destruct (N.ltb_spec 15 (N.of_nat (32 + length body + pad_amount (32 + length body)) - 32 - N.of_nat (length body))); [lia|].
  assert (Hf : firstn (32 + length body) (pad16 obj) = obj) by (unfold pad16; apply firstn_app_len; exact Hobj).
  rewrite Hf, spec_msg_key_is, beq_refl. cbn [negb].
  unfold substr. rewrite Q6, firstn_app_len by reflexivity. reflexivity.
Qed.

Theorem client_opens_server key salt sid msgid seq body pad :
  (136 <= length key)%nat ->
  salt < 18446744073709551616 -> sid < 18446744073709551616 -> msgid < 18446744073709551616 ->
  seq < 4294967296 -> N.of_nat (length body) < 2147483648 ->
  server_parity msgid = true -> pad_ok body pad = true ->
  exists m,
    open_client sha1 ige_d key (seal_server sha1 ige_e key salt sid msgid seq body pad) = Ok m /\
    fields_of m = (salt, sid, msgid, seq, body) /\
    e_msgkey m = msg_key (le64 salt ++ le64 sid ++ le64 msgid ++ le32 seq ++ le32 (N.of_nat (length body)) ++ body).
Proof.
  intros Hkey Hsalt Hsid Hmsgid Hseq Hbody Hpar Hpad.
  unfold pad_ok in Hpad. apply andb_true_iff in Hpad. destruct Hpad as [Hp1 Hp2].
  apply Nat.ltb_lt in Hp1. apply Nat.eqb_eq in Hp2.
  unfold seal_server, spec_seal. cbn [dir_x].
  set (plain := le64 salt ++ le64 sid ++ le64 msgid ++ le32 seq ++ le32 (N.of_nat (length body)) ++ body).
  assert (Hplain : length plain = (32 + length body)%nat)
    by (unfold plain; rewrite !app_length, !le64_length, !le32_length; lia).
  rewrite spec_key_id_is, spec_msg_key_is.
  destruct (kiv_spec_lengths 8 key (msg_key plain)) as [Hk Hiv].
  destruct (kiv_spec 8 key (msg_key plain)) as [k iv] eqn:Ekiv. cbn [fst snd] in *.
  assert (Hpl : length (plain ++ pad) = (32 + length body + length pad)%nat) by (rewrite app_length; lia).
  set (ct := ige_e k iv (plain ++ pad)).
  assert (Hct : length ct = (32 + length body + length pad)%nat).
  { unfold ct. rewrite ige_e_len; [exact Hpl|exact Hiv|rewrite Hpl; exact Hp2]. }
  destruct (pkt_parts (auth_key_id key) (msg_key plain) ct (auth_key_id_length key) (msg_key_length plain))
    as (P1 & P2 & P3 & P4).
  set (pkt := auth_key_id key ++ msg_key plain ++ ct) in *.
  unfold substr in P1, P2. cbn [skipn] in P1.
  assert (H40 : (40 <= length pkt)%nat) by (rewrite P4, Hct; lia).
  destruct (open_pops pkt H40) as (O1 & O2 & O3).
  unfold open_client, open_client_gen. cbn [andb negb].
  destruct (Nat.ltb_spec (length pkt) 40); [lia|].
  destruct (Nat.ltb_spec (length key) 136); [lia|].
  rewrite O1. cbn [obind fst snd]. rewrite P1, beq_refl. cbn [negb].
  rewrite O2. cbn [obind fst snd].
  change (slice pkt 8 24) with (firstn 16 (skipn 8 pkt)). rewrite P2.
  rewrite O3. cbn [obind fst snd]. rewrite P3.
  unfold decrypt. rewrite (kiv_is_spec sha1 false) by (cbn [dir_x]; lia). cbn [obind dir_x]. rewrite Ekiv. cbn [fst snd].
  assert (Hkl : aes_key_len_ok k = true) by (unfold aes_key_len_ok; rewrite Hk; reflexivity).
  rewrite Hkl. cbn [negb].
  assert (Hcd : correct_data ct = true).
  { unfold correct_data. rewrite Hct, Hp2.
    destruct (Nat.ltb_spec (32 + length body + length pad) 16); [lia|reflexivity]. }
  rewrite Hcd. cbn [negb obind]. unfold ct.
  rewrite ige_inv by (assumption || (rewrite Hpl; exact Hp2)).
  assert (Hpt : plain ++ pad = le64 salt ++ le64 sid ++ le64 msgid ++ le32 seq
                  ++ le32 (N.of_nat (length body)) ++ body ++ pad)
    by (unfold plain; rewrite <- !app_assoc; reflexivity).
  destruct (plain_parse (le64 salt) (le64 sid) (le64 msgid) (le32 seq) (le32 (N.of_nat (length body))) body pad
              eq_refl eq_refl eq_refl eq_refl eq_refl) as (Q1 & Q2 & Q3 & Q4 & Q5 & Q6 & Q7 & Q8).
  cbv zeta in Q1, Q2, Q3, Q4, Q5, Q6, Q7, Q8. rewrite <- Hpt in *.
  rewrite pop_header_ok by lia.
  change (slice (plain ++ pad) 0 8) with (substr (plain ++ pad) 0 8).
  change (slice (plain ++ pad) 8 16) with (substr (plain ++ pad) 8 8).
  change (slice (plain ++ pad) 16 24) with (substr (plain ++ pad) 16 8).
  change (slice (plain ++ pad) 24 28) with (substr (plain ++ pad) 24 4).
  change (slice (plain ++ pad) 28 32) with (substr (plain ++ pad) 28 4).
  rewrite Q1, Q2, Q3, Q4, Q5, Q6.
  rewrite !of_le_le64 by assumption. rewrite !of_le_le32 by lia.
  rewrite to_i32_small by exact Hbody. rewrite Hpl.
  destruct (Z.ltb_spec (Z.of_N (N.of_nat (length body))) 0); [lia|].
  destruct (Z.ltb_spec (Z.of_nat (32 + length body + length pad) - 32) (Z.of_N (N.of_nat (length body)))); [lia|].
  cbn [orb]. rewrite Hpar. cbn [negb].
  destruct (Z.ltb_spec (32 + Z.of_N (N.of_nat (length body))) 0); [lia|].
  destruct (Z.ltb_spec (Z.of_nat (32 + length body + length pad)) (32 + Z.of_N (N.of_nat (length body)))); [lia|].
  cbn [orb].
  replace (Z.to_nat (32 + Z.of_N (N.of_nat (length body)))) with (32 + length body)%nat by lia.
  rewrite firstn_app_len by exact Hplain.
  fold (msg_key plain). rewrite beq_refl. cbn [negb].
  destruct (pop_raw_fst (Z.of_N (N.of_nat (length body))) (body ++ pad)) as [d' Hd'];
    [lia|rewrite app_length; lia|].
  rewrite Hd'. cbn [obind fst].
  replace (Z.to_nat (Z.of_N (N.of_nat (length body)))) with (length body) by lia.
  rewrite firstn_app_len by reflexivity.
  eexists. split; [reflexivity|]. split; reflexivity.
Qed.

End WithIge.
End WithSha.
