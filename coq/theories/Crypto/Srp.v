(* Model of the 2FA SRP answer: telegram/internal/srp/2fa.go (getInputCheckPassword,
   validateCurrentAlgo, passwordHash1/2, pad256, calcSHA256, bytesToBig, bigExp) and
   telegram/srp.go (GetInputCheckPassword), plus the reference SERVER side written from
   Telegram's SRP definition (https://core.telegram.org/api/srp).

   Executable, no proofs (those are in Crypto/SrpProofs.v).

   Standard-library code enters as Section variables:
     H       crypto/sha256 (Sum of the concatenation of the written slices)
     pbkdf2  golang.org/x/crypto/pbkdf2.Key(password, salt, 100000, 64, sha512.New)
     mexp    math/big  new(big.Int).Exp(x, y, m)
   For execution H is Prim/Sha256.sha256, mexp is [modexp] below (square and multiply, small
   groups) or an oracle table recorded from math/big, pbkdf2 is always an oracle table.

   Go values: a []byte / string is [bytes] (string = its UTF-8 bytes, as []byte(password)
   gives them); *big.Int is Z; *ModPow is [option modpow] (None = nil pointer).
   The client's ephemeral secret is the argument [random] (dry.RandomBytes(256) in the
   exported entry point). *)
From Coq Require Import ZArith NArith List Lia Bool.
From MTV Require Import Base.Bytes Base.Outcome.
Import ListNotations.
Open Scope Z_scope.

(* ---- math/big conversions ---- *)

(* big.Int.Bytes(): big-endian bytes of the absolute value without leading zeros, [] for 0 *)
Fixpoint be_acc (fuel : nat) (n : N) (acc : bytes) : bytes :=
  match fuel with
  | O => acc
  | S f => if (n =? 0)%N then acc else be_acc f (n / 256)%N ((n mod 256)%N :: acc)
  end.
Definition be_min (n : N) : bytes := be_acc (N.to_nat (N.size n)) n [].

Definition big_bytes (z : Z) : bytes := be_min (Z.abs_N z).
(* new(big.Int).SetBytes(b): big-endian, any length, leading zeros allowed *)
Definition big_of_bytes (b : bytes) : Z := Z.of_N (of_be b).

(* 2fa.go pad256: the last 256 bytes, or left padding with zeros to 256 bytes *)
Definition pad256 (b : bytes) : bytes :=
  if (256 <=? length b)%nat then skipn (length b - 256) b
  else repeat 0%N (256 - length b) ++ b.

Definition enc256 (z : Z) : bytes := pad256 (big_bytes z).

(* dry.BytesXor(a, b): res := copy of a; for i := range res { res[i] ^= b[i] }  - index out of
   range when b is shorter than a *)
Fixpoint bytes_xor (a b : bytes) : outcome bytes :=
  match a, b with
  | [], _ => Ok []
  | x :: a', y :: b' => omap (cons (N.lxor x y)) (bytes_xor a' b')
  | _ :: _, [] => Panic
  end.

(* square and multiply; the base is reduced once, every product is reduced *)
Fixpoint pow_mod_pos (b : Z) (e : positive) (m : Z) : Z :=
  match e with
  | xH => b mod m
  | xO e' => let r := pow_mod_pos b e' m in (r * r) mod m
  | xI e' => let r := pow_mod_pos b e' m in (((r * r) mod m) * b) mod m
  end.
Definition modexp (b e m : Z) : Z :=
  match e with
  | Z0 => 1 mod m
  | Zpos e' => pow_mod_pos (b mod m) e' m
  | Zneg _ => 0 (* big.Int.Exp takes a modular inverse here; the model never calls it so *)
  end.

Record modpow := { mp_salt1 : bytes; mp_salt2 : bytes; mp_g : Z; mp_p : bytes }.
Record answer := { GA : bytes; M1 : bytes }.

Section Model.
  Variable H : bytes -> bytes.
  Variable pbkdf2 : bytes -> bytes -> bytes.
  Variable mexp : Z -> Z -> Z -> Z.

  (* SH(data, salt) = H(salt | data | salt) *)
  Definition salting_hashing (data salt : bytes) : bytes := H (salt ++ data ++ salt).
  Definition password_hash1 (pw s1 s2 : bytes) : bytes :=
    salting_hashing (salting_hashing pw s1) s2.
  Definition password_hash2 (pw s1 s2 : bytes) : bytes :=
    salting_hashing (pbkdf2 (password_hash1 pw s1 s2) s1) s2.

  (* validateCurrentAlgo: dhHandshakeCheckConfigIsError always answers false (a TODO in the
     source), so g and p are not examined; B must satisfy 0 < B < p and 248 <= len <= 256.
     true = accepted *)
  Definition validate_current_algo (srpB : bytes) (mp : modpow) : bool :=
    let p := big_of_bytes (mp_p mp) in
    let gb := big_of_bytes srpB in
    negb ((gb <=? 0) || (p <=? gb) || (length srpB <? 248)%nat || (256 <? length srpB)%nat).

  (* getInputCheckPassword *)
  Definition get_input_check_password (password srpB : bytes) (mp : option modpow) (random : bytes)
    : outcome (option answer) :=
    match password with
    | [] => Ok None                                         (* return nil, nil *)
    | _ :: _ =>
      match mp with
      | None => Panic                                       (* mp.G on a nil pointer *)
      | Some mp =>
        if negb (validate_current_algo srpB mp) then Err else
        let p := big_of_bytes (mp_p mp) in
        let g := mp_g mp in
        let gBytes := pad256 (big_bytes g) in
        let a := big_of_bytes random in
        let ga := pad256 (big_bytes (mexp g a p)) in
        let gb := pad256 srpB in
        let u := big_of_bytes (H (ga ++ gb)) in
        let x := big_of_bytes (password_hash2 password (mp_salt1 mp) (mp_salt2 mp)) in
        let v := mexp g x p in
        let k := big_of_bytes (H (mp_p mp ++ gBytes)) in
        if p =? 0 then Panic else                           (* big.Int.Mod: division by zero *)
        let kv := (k * v) mod p in
        let t0 := big_of_bytes srpB - kv in
        let t := if t0 <? 0 then t0 + p else t0 in
        let sa := pad256 (big_bytes (mexp t (u * x + a) p)) in
        let ka := H sa in
        do hx <- bytes_xor (H (mp_p mp)) (H gBytes);
        Ok (Some {| GA := ga;
                    M1 := H (hx ++ H (mp_salt1 mp) ++ H (mp_salt2 mp) ++ ga ++ gb ++ ka) |})
      end
    end.

  (* ---- telegram/srp.go GetInputCheckPassword ---- *)

  (* accountPassword.CurrentAlgo: nil interface, a value of another type, or a (possibly nil)
     pointer to the ModPow algorithm *)
  Inductive algo :=
  | AlgoNil
  | AlgoOther
  | AlgoModPow (mp : option modpow).

  Record account_password := { ap_algo : algo; ap_srpB : bytes; ap_srpid : Z }.

  Inductive check_password :=
  | CheckEmpty                                     (* InputCheckPasswordEmpty *)
  | CheckSRP (srpid : Z) (A m1 : bytes).           (* InputCheckPasswordSRPObj *)

  Definition tg_get_input_check_password (password : bytes) (ap : option account_password)
             (random : bytes) : outcome check_password :=
    match ap with
    | None => Panic                                          (* accountPassword.CurrentAlgo on nil *)
    | Some ap =>
      match ap_algo ap with
      | AlgoNil | AlgoOther => Err                           (* comma-ok assertion fails *)
      | AlgoModPow None => Panic                             (* current.Salt1 on a typed nil pointer *)
      | AlgoModPow (Some mp) =>
        match get_input_check_password password (ap_srpB ap) (Some mp) random with
        | Ok None => Ok CheckEmpty
        | Ok (Some r) => Ok (CheckSRP (ap_srpid ap) (GA r) (M1 r))
        | Err => Err
        | Panic => Panic
        end
      end
    end.

  (* ---- reference server, from the definition ----
     The server holds the salts, g, p, the verifier v = g^x mod p (never the password) and its
     secret b.   k = H(p | g),  B = (k*v + g^b) mod p,  u = H(g_a | g_b),
     s_b = (g_a * v^u)^b mod p,  k_b = H(s_b),
     M1 = H(H(p) xor H(g) | H(salt1) | H(salt2) | g_a | g_b | k_b);
     every number is written as 256 big-endian bytes. *)
  Record server := { sv_salt1 : bytes; sv_salt2 : bytes; sv_g : Z; sv_p : Z; sv_v : Z; sv_b : Z }.

  Definition sv_register (pw s1 s2 : bytes) (g p : Z) : Z :=
    mexp g (big_of_bytes (password_hash2 pw s1 s2)) p.

  Definition sv_k (s : server) : Z := big_of_bytes (H (enc256 (sv_p s) ++ enc256 (sv_g s))).
  Definition sv_B (s : server) : Z :=
    (sv_k s * sv_v s + mexp (sv_g s) (sv_b s) (sv_p s)) mod (sv_p s).

  (* what the server sends in account.password *)
  Definition sv_params (s : server) : modpow :=
    {| mp_salt1 := sv_salt1 s; mp_salt2 := sv_salt2 s; mp_g := sv_g s; mp_p := enc256 (sv_p s) |}.
  Definition sv_srpB (s : server) : bytes := enc256 (sv_B s).

  Definition sv_S (s : server) (A : bytes) : Z :=
    let gb := enc256 (sv_B s) in
    let u := big_of_bytes (H (A ++ gb)) in
    mexp (big_of_bytes A * mexp (sv_v s) u (sv_p s)) (sv_b s) (sv_p s).

  Definition sv_M1 (s : server) (A : bytes) : outcome bytes :=
    let gb := enc256 (sv_B s) in
    let kb := H (enc256 (sv_S s A)) in
    do hx <- bytes_xor (H (enc256 (sv_p s))) (H (enc256 (sv_g s)));
    Ok (H (hx ++ H (sv_salt1 s) ++ H (sv_salt2 s) ++ A ++ gb ++ kb)).

  (* accept = A has 256 bytes and M1 is the value the server computes *)
  Definition sv_check (s : server) (A m1 : bytes) : bool :=
    if negb (length A =? 256)%nat then false else
    match sv_M1 s A with
    | Ok m => beq m m1
    | _ => false
    end.
End Model.
