(* internal/aes_ige/aes.go: the wrappers around the IGE loops.  Model of the code AFTER the two
   repairs exported under /verif/patches/C05 (fixed-width nonce conversion; padding 0..15):

     generateTempKeys(nonceSecond, nonceServer *big.Int)      -> generate_temp_keys
     encryptMessageWithTempKeys / EncryptMessageWithTempKeys   -> encrypt_temp_raw / encrypt_temp
     DecryptMessageWithTempKeys                                -> decrypt_temp
     generateAESIGE                                            -> generate_aes_ige
     Encrypt / Decrypt (message level, zero padding)           -> encrypt_msg / decrypt_msg

   Go semantics that matter are written out: big.Int.Bytes() (minimal big-endian, no leading
   zero byte, empty for 0), copy (left aligned, min length), slice expressions with their
   bounds panics, check(err) turning an error into a panic.
   [H] stands for crypto/sha1 (dry.Sha1Byte), [E]/[D] for crypto/aes; execution instances are
   Prim.Sha1.sha1 and Prim.Aes256.aes_enc/aes_dec.  Nonces are naturals (a negative big.Int
   behaves as its absolute value in Bytes(); nil pointers panic in Go and are not represented).
   The random padding of EncryptMessageWithTempKeys is a parameter [rnd]. *)
From Coq Require Import ZArith NArith List Lia Bool.
From MTV Require Import Base.Bytes Base.Outcome Prim.Xor Prim.Aes256 Crypto.Ige Crypto.IgeMem.
Import ListNotations.
Open Scope nat_scope.

(* ---- math/big ---- *)
Fixpoint le_min (fuel : nat) (n : N) : bytes :=
  match fuel with
  | O => []
  | S f => if (n =? 0)%N then [] else (n mod 256)%N :: le_min f (n / 256)%N
  end.

(* big.Int.Bytes() of a non-negative value *)
Definition big_bytes (n : N) : bytes := rev (le_min (N.to_nat (N.size n)) n).

(* the repaired conversion (helper fixedBytes in aes.go): left-pad with zeros to [size] bytes;
   a value that does not fit is returned unpadded (longer), so the later copy()s behave exactly as
   they did before the repair *)
Definition fixed_bytes (size : nat) (n : N) : bytes :=
  let b := big_bytes n in
  if size <=? length b then b else repeat 0%N (size - length b) ++ b.

(* ---- slices ---- *)
(* s[lo:hi] with len = cap *)
Definition gslice (l : bytes) (lo hi : nat) : outcome bytes :=
  if (lo <=? hi) && (hi <=? length l) then Ok (firstn (hi - lo) (skipn lo l)) else Panic.

(* copy(dst[off:], src) for off <= len(dst) (all call sites use constants inside the buffer) *)
Definition copy_into (dst : bytes) (off : nat) (src : bytes) : bytes :=
  let n := Nat.min (length src) (length dst - off) in
  firstn off dst ++ firstn n src ++ skipn (off + n) dst.

Definition zbuf (n : nat) : bytes := repeat 0%N n.

Section Wrappers.
Variable H : bytes -> bytes.
Variables E D : bytes -> bytes -> bytes.

Definition generate_temp_keys (n_second n_server : N) : outcome (bytes * bytes) :=
  let second := fixed_bytes 32 n_second in
  let server := fixed_bytes 16 n_server in
  let t1 := copy_into (copy_into (zbuf 48) 0 second) 32 server in
  let hash1 := H t1 in
  let t2 := copy_into (copy_into (zbuf 48) 0 server) 16 second in
  let hash2 := H t2 in
  do h2a <- gslice hash2 0 12;
  let key := copy_into (copy_into (zbuf 32) 0 hash1) 20 h2a in
  let t3 := copy_into (copy_into (zbuf 64) 0 second) 32 second in
  let hash3 := H t3 in
  do h2b <- gslice hash2 12 20;
  do s4 <- gslice second 0 4;
  Ok (key, copy_into (copy_into (copy_into (zbuf 32) 0 h2b) 8 hash3) 28 s4).

(* err := doAES256IGE..crypt(...); check(err) *)
Definition checked (r : IgeMem.result) : outcome bytes :=
  match r with
  | (Done, out, _) => Ok out
  | _ => Panic
  end.

Definition encrypt_temp_raw (msg : bytes) (n_second n_server : N) : outcome bytes :=
  do kv <- generate_temp_keys n_second n_server;
  checked (do_encrypt E msg (zbuf (length msg)) (fst kv) (snd kv)).

Definition pad_need (total : nat) : nat := Nat.modulo (16 - Nat.modulo total 16) 16.

Definition encrypt_temp (rnd : nat -> bytes) (msg : bytes) (n_second n_server : N) : outcome bytes :=
  let hash := H msg in
  let need := pad_need (length hash + length msg) in
  encrypt_temp_raw (hash ++ msg ++ rnd need) n_second n_server.

(* for i := len(m); i > len(m)-16 && i >= 0; i-- { if bytes.Equal(hash, sha1(m[:i])) { return m[:i] } }
   panic(...)          -  j = len(m) - i = number of bytes cut off *)
Fixpoint try_cuts (fuel j : nat) (hash m : bytes) : outcome bytes :=
  match fuel with
  | O => Panic
  | S f =>
      if length m <? j then Panic
      else let cand := firstn (length m - j) m in
           if beq hash (H cand) then Ok cand else try_cuts f (S j) hash m
  end.

Definition decrypt_temp (msg : bytes) (n_second n_server : N) : outcome bytes :=
  do kv <- generate_temp_keys n_second n_server;
  do dec <- checked (do_decrypt D msg (zbuf (length msg)) (fst kv) (snd kv));
  do hash <- gslice dec 0 20;
  do m <- gslice dec 20 (length dec);
  try_cuts 16 0 hash m.

(* ---- message level (auth key) ---- *)
Definition generate_aes_ige (msg_key auth_key : bytes) (decode : bool) : outcome (bytes * bytes) :=
  let x := if decode then 8 else 0 in
  if length auth_key <? 96 + x + 32 then Panic
  else
    let sl a b := firstn (b - a) (skipn a auth_key) in
    let sha_a := H (msg_key ++ sl x (x + 32)) in
    let sha_b := H (sl (32 + x) (48 + x) ++ msg_key ++ sl (48 + x) (64 + x)) in
    let sha_c := H (sl (64 + x) (96 + x) ++ msg_key) in
    let sha_d := H (msg_key ++ sl (96 + x) (128 + x)) in
    do a0 <- gslice sha_a 0 8;
    do b8 <- gslice sha_b 8 20;
    do c4 <- gslice sha_c 4 16;
    do a8 <- gslice sha_a 8 20;
    do b0 <- gslice sha_b 0 8;
    do c16 <- gslice sha_c 16 20;
    do d0 <- gslice sha_d 0 8;
    Ok (a0 ++ b8 ++ c4, a8 ++ b0 ++ c16 ++ d0).

Definition returned (r : IgeMem.result) : outcome bytes :=
  match r with
  | (Done, out, _) => Ok out
  | (Failed, _, _) => Err
  | (Panicked, _, _) => Panic
  end.

(* len(msg) + ((16 - len(msg)%16) & 15) *)
Definition zero_pad (msg : bytes) : bytes := msg ++ zbuf (pad_need (length msg)).

Definition encrypt_msg (msg key : bytes) : outcome bytes :=
  do mkey <- gslice (H msg) 4 20;
  do kv <- generate_aes_ige mkey key false;
  let data := zero_pad msg in
  returned (do_encrypt E data (zbuf (length data)) (fst kv) (snd kv)).

Definition decrypt_msg (msg key check_data : bytes) : outcome bytes :=
  do kv <- generate_aes_ige check_data key true;
  returned (do_decrypt D msg (zbuf (length msg)) (fst kv) (snd kv)).

(* ---- TryDecryptMessageWithTempKeys: the entry used by the handshake on data from the network.
   Every malformed input is an ERROR RETURN, never a panic:
     err := doAES256IGEdecrypt(...); if err != nil { return nil, err }        (length 0 / not a multiple of 16)
     if len(decoded) < 20 { return nil, ErrDataTooSmall }                     (no room for the hash)
     decoded[:20], decoded[20:]                                               (slice expressions: bounds tests kept here)
     for i := len(m); i > len(m)-16 && i >= 0; i-- { if hash == sha1(m[:i]) { return m[:i], nil } }
     return nil, errors.New("couldn't trim message ...")
   DecryptMessageWithTempKeys = check(err) around it ([decrypt_temp] above is the same function with every
   refusal a panic; TempKeysProofs.decrypt_temp_is_checked_try). ---- *)
Fixpoint try_cuts_err (fuel j : nat) (hash m : bytes) : outcome bytes :=
  match fuel with
  | O => Err
  | S f =>
      if length m <? j then Err
      else let cand := firstn (length m - j) m in
           if beq hash (H cand) then Ok cand else try_cuts_err f (S j) hash m
  end.

Definition trydec_temp (msg : bytes) (n_second n_server : N) : outcome bytes :=
  do kv <- generate_temp_keys n_second n_server;
  do dec <- returned (do_decrypt D msg (zbuf (length msg)) (fst kv) (snd kv));
  if length dec <? 20 then Err
  else
    do hash <- gslice dec 0 20;
    do m <- gslice dec 20 (length dec);
    try_cuts_err 16 0 hash m.
End Wrappers.

(* ---- the MTProto formulas on raw nonce bytes (core.telegram.org/mtproto/auth_key) ---- *)
Section Formula.
Variable H : bytes -> bytes.
Definition tmp_aes_key (new_nonce server_nonce : bytes) : bytes :=
  H (new_nonce ++ server_nonce) ++ firstn 12 (H (server_nonce ++ new_nonce)).
Definition tmp_aes_iv (new_nonce server_nonce : bytes) : bytes :=
  skipn 12 (H (server_nonce ++ new_nonce)) ++ H (new_nonce ++ new_nonce) ++ firstn 4 new_nonce.
End Formula.
