(* Proofs about Crypto/TempKeys.v: big.Int.Bytes()/fixed-width conversion, the temp-key formula,
   the padding wrappers and their round trips. *)
From Coq Require Import ZArith NArith List Lia ZifyN ZifyNat ZifyBool Bool.
From MTV Require Import Base.Bytes Base.Outcome Prim.Xor Prim.Aes256 Prim.Aes256Facts Crypto.Ige Crypto.IgeMem Crypto.IgeProofs Crypto.TempKeys.
Import ListNotations.
Open Scope nat_scope.
Ltac Zify.zify_post_hook ::= Z.div_mod_to_equations.

(* ------------------------------------------------------------------------------------------ *)
(* fixed-width big-endian bytes, independent definition *)
Fixpoint le_fixed (size : nat) (n : N) : bytes :=
  match size with
  | O => []
  | S s => (n mod 256)%N :: le_fixed s (n / 256)%N
  end.
Definition be_fixed (size : nat) (n : N) : bytes := rev (le_fixed size n).

Lemma le_fixed_length size : forall n, length (le_fixed size n) = size.
Proof. induction size as [|s IH]; intros n; cbn [le_fixed length]; auto. Qed.

Lemma be_fixed_length size n : length (be_fixed size n) = size.
Proof. unfold be_fixed. rewrite rev_length. apply le_fixed_length. Qed.

Lemma le_fixed_zero size : le_fixed size 0 = repeat 0%N size.
Proof.
  induction size as [|s IH]; cbn [le_fixed repeat]; [reflexivity|].
  change (0 / 256)%N with 0%N. change (0 mod 256)%N with 0%N. now rewrite IH.
Qed.

Lemma le_min_zero f : le_min f 0 = [].
Proof. destruct f; reflexivity. Qed.

Lemma le_min_length f : forall n, length (le_min f n) <= f.
Proof.
  induction f as [|f IH]; intros n; cbn [le_min length]; [lia|].
  destruct (n =? 0)%N; cbn [length]; [lia|]. specialize (IH (n / 256)%N). lia.
Qed.

Lemma pow256_S k : (256 ^ N.of_nat (S k) = 256 * 256 ^ N.of_nat k)%N.
Proof. rewrite Nat2N.inj_succ, N.pow_succ_r'. reflexivity. Qed.

Lemma le_fixed_min size : forall n, (n < 256 ^ N.of_nat size)%N ->
  le_fixed size n = le_min size n ++ repeat 0%N (size - length (le_min size n)).
Proof.
  induction size as [|s IH]; intros n Hn; [reflexivity|].
  cbn [le_min]. destruct (N.eqb_spec n 0) as [->|Hz].
  - rewrite le_fixed_zero. cbn [app length]. now rewrite Nat.sub_0_r.
  - cbn [le_fixed app length]. rewrite pow256_S in Hn.
    rewrite (IH (n / 256)%N) by (apply N.div_lt_upper_bound; lia).
    reflexivity.
Qed.

Lemma le_min_fuel f : forall g n, (n < 256 ^ N.of_nat f)%N -> f <= g -> le_min g n = le_min f n.
Proof.
  induction f as [|f IH]; intros g n Hn Hg.
  - cbn in Hn. assert (n = 0%N) by lia. subst. now rewrite !le_min_zero.
  - destruct g as [|g]; [lia|]. cbn [le_min]. destruct (n =? 0)%N; [reflexivity|].
    rewrite pow256_S in Hn. f_equal. apply IH; [apply N.div_lt_upper_bound; lia|lia].
Qed.

Lemma size_bound n : (n < 256 ^ N.of_nat (N.to_nat (N.size n)))%N.
Proof.
  rewrite N2Nat.id. pose proof (N.size_gt n) as H.
  eapply N.lt_le_trans; [exact H|].
  change 256%N with (2 ^ 8)%N. rewrite <- N.pow_mul_r. apply N.pow_le_mono_r; lia.
Qed.

Lemma rev_repeat {A} (x : A) n : rev (repeat x n) = repeat x n.
Proof.
  induction n as [|n IH]; [reflexivity|]. cbn [repeat rev]. rewrite IH.
  symmetry. apply repeat_cons.
Qed.

Lemma big_bytes_fuel size n : (n < 256 ^ N.of_nat size)%N -> big_bytes n = rev (le_min size n).
Proof.
  intros Hn. unfold big_bytes. f_equal.
  destruct (Nat.le_ge_cases size (N.to_nat (N.size n))) as [H|H].
  - apply le_min_fuel; assumption.
  - symmetry. apply le_min_fuel; [apply size_bound|assumption].
Qed.

(* a value that fits is converted to exactly [size] big-endian bytes *)
Lemma fixed_bytes_fit size n : (n < 256 ^ N.of_nat size)%N -> fixed_bytes size n = be_fixed size n.
Proof.
  intros Hn. unfold fixed_bytes, be_fixed. rewrite (big_bytes_fuel size n Hn), rev_length.
  rewrite (le_fixed_min size n Hn), rev_app_distr, rev_repeat.
  pose proof (le_min_length size n) as Hl.
  destruct (Nat.leb_spec size (length (le_min size n))) as [H|H].
  - replace (size - length (le_min size n)) with 0 by lia. reflexivity.
  - reflexivity.
Qed.

(* math/big SetBytes followed by the fixed-width conversion is the identity on raw nonces *)
Lemma of_be_acc_snoc l : forall acc b, of_be_acc acc (l ++ [b]) = (256 * of_be_acc acc l + b)%N.
Proof. induction l as [|x l IH]; intros acc b; cbn [of_be_acc app]; [reflexivity|apply IH]. Qed.

Lemma of_be_snoc l b : of_be (l ++ [b]) = (256 * of_be l + b)%N.
Proof. apply of_be_acc_snoc. Qed.

Lemma le_fixed_of_be raw : bytes_ok raw = true -> le_fixed (length raw) (of_be raw) = rev raw.
Proof.
  induction raw as [|b l IH] using rev_ind; intros Hok; [reflexivity|].
  rewrite bytes_ok_forall in Hok. apply Forall_app in Hok as [Hl Hb].
  apply Forall_cons_iff in Hb as [Hb _].
  rewrite app_length, Nat.add_comm. cbn [length plus le_fixed].
  rewrite of_be_snoc, rev_app_distr. cbn [rev app].
  replace ((256 * of_be l + b) mod 256)%N with b by lia.
  replace ((256 * of_be l + b) / 256)%N with (of_be l) by lia.
  rewrite IH by (now apply bytes_ok_forall). reflexivity.
Qed.

Lemma of_be_bound raw : bytes_ok raw = true -> (of_be raw < 256 ^ N.of_nat (length raw))%N.
Proof.
  induction raw as [|b l IH] using rev_ind; intros Hok; [cbn; lia|].
  rewrite bytes_ok_forall in Hok. apply Forall_app in Hok as [Hl Hb].
  apply Forall_cons_iff in Hb as [Hb _].
  rewrite app_length, Nat.add_comm. cbn [length plus]. rewrite pow256_S, of_be_snoc.
  specialize (IH (proj2 (bytes_ok_forall l) Hl)). lia.
Qed.

Theorem fixed_bytes_of_be raw : bytes_ok raw = true -> fixed_bytes (length raw) (of_be raw) = raw.
Proof.
  intros Hok. rewrite fixed_bytes_fit by (apply of_be_bound, Hok).
  unfold be_fixed. rewrite le_fixed_of_be by exact Hok. apply rev_involutive.
Qed.

(* leading zeros really are dropped by Bytes(): the reason for the repair *)
Example big_bytes_drops_zeros : big_bytes (of_be [0; 0; 7; 1]%N) = [7; 1]%N.
Proof. reflexivity. Qed.
Example fixed_bytes_restores : fixed_bytes 4 (of_be [0; 0; 7; 1]%N) = [0; 0; 7; 1]%N.
Proof. reflexivity. Qed.
Example fixed_bytes_oversize : fixed_bytes 2 (of_be [9; 0; 7; 1]%N) = [9; 0; 7; 1]%N.
Proof. reflexivity. Qed.

(* ------------------------------------------------------------------------------------------ *)
(* copy and slices *)

Lemma copy_into_mid (pre mid post src : bytes) off :
  length pre = off -> length src = length mid ->
  copy_into (pre ++ mid ++ post) off src = pre ++ src ++ post.
Proof.
  intros Hp Hs. unfold copy_into. rewrite !app_length.
  replace (Nat.min (length src) (length pre + (length mid + length post) - off)) with (length src) by lia.
  rewrite (firstn_app_exact _ _ _ Hp), firstn_all.
  rewrite (app_assoc pre mid post), (skipn_app_exact (pre ++ mid) post) by (rewrite app_length; lia). reflexivity.
Qed.

Lemma zbuf_app a b : zbuf (a + b) = zbuf a ++ zbuf b.
Proof. apply repeat_app. Qed.

Lemma zbuf_length n : length (zbuf n) = n.
Proof. apply repeat_length. Qed.

Lemma copy_into_head (mid post src : bytes) : length src = length mid ->
  copy_into (mid ++ post) 0 src = src ++ post.
Proof. intros Hs. exact (copy_into_mid [] mid post src 0 eq_refl Hs). Qed.

Lemma copy_into_tail (pre mid src : bytes) off : length pre = off -> length src = length mid ->
  copy_into (pre ++ mid) off src = pre ++ src.
Proof.
  intros Hp Hs. pose proof (copy_into_mid pre mid [] src off Hp Hs) as Hc.
  rewrite !app_nil_r in Hc. exact Hc.
Qed.

Lemma copy2 (a b : bytes) n1 n2 : length a = n1 -> length b = n2 ->
  copy_into (copy_into (zbuf (n1 + n2)) 0 a) n1 b = a ++ b.
Proof.
  intros Ha Hb. rewrite zbuf_app.
  rewrite copy_into_head by (rewrite zbuf_length; auto).
  rewrite copy_into_tail by (rewrite ?zbuf_length; auto). reflexivity.
Qed.

Lemma copy3 (a b c : bytes) n1 n2 n3 : length a = n1 -> length b = n2 -> length c = n3 ->
  copy_into (copy_into (copy_into (zbuf (n1 + n2 + n3)) 0 a) n1 b) (n1 + n2) c = a ++ b ++ c.
Proof.
  intros Ha Hb Hc. rewrite <- Nat.add_assoc, zbuf_app, zbuf_app.
  rewrite copy_into_head by (rewrite zbuf_length; auto).
  rewrite (copy_into_mid a (zbuf n2) (zbuf n3) b n1) by (rewrite ?zbuf_length; auto).
  rewrite app_assoc.
  rewrite copy_into_tail by (rewrite ?zbuf_length, ?app_length; auto).
  now rewrite <- app_assoc.
Qed.

Lemma gslice_ok (l : bytes) lo hi : lo <= hi -> hi <= length l ->
  gslice l lo hi = Ok (firstn (hi - lo) (skipn lo l)).
Proof.
  intros H1 H2. unfold gslice.
  destruct (Nat.leb_spec lo hi); [|lia]. destruct (Nat.leb_spec hi (length l)); [|lia]. reflexivity.
Qed.

Lemma slice_length (l : bytes) lo hi : lo <= hi -> hi <= length l ->
  length (firstn (hi - lo) (skipn lo l)) = hi - lo.
Proof. intros. rewrite firstn_length, skipn_length. lia. Qed.

Lemma key_len_ok_32 (k : bytes) : length k = 32 -> key_len_ok k = true.
Proof. unfold key_len_ok. intros ->. reflexivity. Qed.

(* ------------------------------------------------------------------------------------------ *)
Section WrapperProofs.
Variable H : bytes -> bytes.
Hypothesis H_len : forall m, length (H m) = 20.

(* generateTempKeys computes the MTProto formula on the raw 32/16-byte nonces *)
Theorem generate_temp_keys_spec (new_nonce server_nonce : bytes) :
  length new_nonce = 32 -> bytes_ok new_nonce = true ->
  length server_nonce = 16 -> bytes_ok server_nonce = true ->
  generate_temp_keys H (of_be new_nonce) (of_be server_nonce)
  = Ok (tmp_aes_key H new_nonce server_nonce, tmp_aes_iv H new_nonce server_nonce).
Proof.
  intros L1 O1 L2 O2. unfold generate_temp_keys.
  assert (F1 : fixed_bytes 32 (of_be new_nonce) = new_nonce) by (rewrite <- L1; apply fixed_bytes_of_be, O1).
  assert (F2 : fixed_bytes 16 (of_be server_nonce) = server_nonce) by (rewrite <- L2; apply fixed_bytes_of_be, O2).
  cbv zeta. rewrite F1, F2.
  rewrite (copy2 new_nonce server_nonce 32 16 L1 L2
           : copy_into (copy_into (zbuf 48) 0 new_nonce) 32 server_nonce = _).
  rewrite (copy2 server_nonce new_nonce 16 32 L2 L1
           : copy_into (copy_into (zbuf 48) 0 server_nonce) 16 new_nonce = _).
  rewrite (copy2 new_nonce new_nonce 32 32 L1 L1
           : copy_into (copy_into (zbuf 64) 0 new_nonce) 32 new_nonce = _).
  set (h1 := H (new_nonce ++ server_nonce)). set (h2 := H (server_nonce ++ new_nonce)).
  set (h3 := H (new_nonce ++ new_nonce)).
  assert (Lh2 : length h2 = 20) by apply H_len.
  rewrite !gslice_ok by lia. cbn [obind].
  change (12 - 0) with 12. change (20 - 12) with 8. change (4 - 0) with 4. rewrite !skipn_O.
  assert (La : length (firstn 12 h2) = 12) by (rewrite firstn_length; lia).
  assert (Lb : length (firstn 8 (skipn 12 h2)) = 8) by (rewrite firstn_length, skipn_length; lia).
  assert (Lc : length (firstn 4 new_nonce) = 4) by (rewrite firstn_length; lia).
  rewrite (copy2 h1 (firstn 12 h2) 20 12 (H_len _) La
           : copy_into (copy_into (zbuf 32) 0 h1) 20 (firstn 12 h2) = _).
  rewrite (copy3 (firstn 8 (skipn 12 h2)) h3 (firstn 4 new_nonce) 8 20 4 Lb (H_len _) Lc
           : copy_into (copy_into (copy_into (zbuf 32) 0 (firstn 8 (skipn 12 h2))) 8 h3) 28 (firstn 4 new_nonce) = _).
  unfold tmp_aes_key, tmp_aes_iv. fold h1 h2 h3.
  rewrite (firstn_all2 (skipn 12 h2)) by (rewrite skipn_length; lia). reflexivity.
Qed.

Lemma tmp_aes_key_length a b : length (tmp_aes_key H a b) = 32.
Proof. unfold tmp_aes_key. rewrite app_length, firstn_length, !H_len. reflexivity. Qed.

Lemma tmp_aes_iv_length a b : length a = 32 -> length (tmp_aes_iv H a b) = 32.
Proof. intros L. unfold tmp_aes_iv. rewrite !app_length, firstn_length, skipn_length, !H_len, L. reflexivity. Qed.

(* it never panics, whatever the nonces (also zero and oversize values) *)
Theorem generate_temp_keys_total n1 n2 : exists k iv, generate_temp_keys H n1 n2 = Ok (k, iv).
Proof.
  unfold generate_temp_keys.
  assert (L : 32 <= length (fixed_bytes 32 n1)).
  { unfold fixed_bytes. destruct (Nat.leb_spec 32 (length (big_bytes n1))); [assumption|].
    rewrite app_length, repeat_length. lia. }
  rewrite !gslice_ok by (rewrite ?H_len; lia). cbn [obind]. eauto.
Qed.
End WrapperProofs.

(* ------------------------------------------------------------------------------------------ *)
(* padding arithmetic *)
Lemma pad_need_lt n : pad_need n < 16.
Proof. unfold pad_need. apply Nat.mod_upper_bound. lia. Qed.

Lemma pad_need_aligned n : Nat.modulo (n + pad_need n) 16 = 0.
Proof. unfold pad_need. lia. Qed.

(* it is the least padding that aligns: any p < 16 aligning n equals it *)
Lemma pad_need_unique n p : p < 16 -> Nat.modulo (n + p) 16 = 0 -> p = pad_need n.
Proof. unfold pad_need. lia. Qed.

Lemma pad_need_zero n : Nat.modulo n 16 = 0 -> pad_need n = 0.
Proof. unfold pad_need. lia. Qed.

Lemma aligned_blocks n : Nat.modulo n 16 = 0 -> n = 16 * Nat.div n 16.
Proof. lia. Qed.

Section SecH.
Variable H : bytes -> bytes.

(* the trim loop finds the payload: cuts 0 .. |pad|-1 are rejected by the no-collision hypothesis,
   cut |pad| matches *)
Lemma try_cuts_finds (p pad : bytes) :
  (forall i, 0 < i <= length pad -> H (p ++ firstn i pad) <> H p) ->
  forall d j fuel, j + d = length pad -> d < fuel ->
  try_cuts H fuel j (H p) (p ++ pad) = Ok p.
Proof.
  intros NC. induction d as [|d IH]; intros j fuel Hj Hf.
  - destruct fuel as [|f]; [lia|]. cbn [try_cuts]. rewrite app_length.
    destruct (Nat.ltb_spec (length p + length pad) j); [lia|].
    replace (length p + length pad - j) with (length p) by lia.
    rewrite firstn_app_exact by reflexivity. rewrite beq_refl. reflexivity.
  - destruct fuel as [|f]; [lia|]. cbn [try_cuts]. rewrite app_length.
    destruct (Nat.ltb_spec (length p + length pad) j); [lia|].
    replace (length p + length pad - j) with (length p + S d) by lia.
    rewrite firstn_app, firstn_all2 by lia.
    replace (length p + S d - length p) with (S d) by lia.
    destruct (beq_spec (H p) (H (p ++ firstn (S d) pad))) as [Heq|Hne].
    + exfalso. apply (NC (S d)); [lia|]. now symmetry.
    + apply IH; lia.
Qed.

Hypothesis H_len : forall m, length (H m) = 20.

Theorem generate_aes_ige_ok (msg_key auth_key : bytes) (decode : bool) :
  96 + (if decode then 8 else 0) + 32 <= length auth_key ->
  exists k iv, generate_aes_ige H msg_key auth_key decode = Ok (k, iv) /\ length k = 32 /\ length iv = 32.
Proof.
  intros Hl. unfold generate_aes_ige.
  destruct (Nat.ltb_spec (length auth_key) (96 + (if decode then 8 else 0) + 32)); [lia|].
  rewrite !gslice_ok by (rewrite ?H_len; lia). cbn [obind].
  eexists. eexists. split; [reflexivity|].
  rewrite !app_length, !slice_length by (rewrite ?H_len; lia). split; reflexivity.
Qed.

Theorem generate_aes_ige_short (msg_key auth_key : bytes) (decode : bool) :
  length auth_key < 96 + (if decode then 8 else 0) + 32 ->
  generate_aes_ige H msg_key auth_key decode = Panic.
Proof.
  intros Hl. unfold generate_aes_ige.
  destruct (Nat.ltb_spec (length auth_key) (96 + (if decode then 8 else 0) + 32)); [reflexivity|lia].
Qed.
End SecH.

Section SecHE.
Variable H : bytes -> bytes.
Variable E : bytes -> bytes -> bytes.
Hypothesis H_len : forall m, length (H m) = 20.
Hypothesis E_len : forall k b, length (E k b) = 16.

(* the client's own EncryptMessageWithTempKeys: succeeds for every payload length, appends
   pad_need (20+len) = 0..15 random bytes, and is textbook IGE under the MTProto temp keys *)
Theorem encrypt_temp_spec (rnd : nat -> bytes) (new_nonce server_nonce payload : bytes) :
  (forall n, length (rnd n) = n) ->
  length new_nonce = 32 -> bytes_ok new_nonce = true ->
  length server_nonce = 16 -> bytes_ok server_nonce = true ->
  encrypt_temp H E rnd payload (of_be new_nonce) (of_be server_nonce)
  = Ok (ige_encrypt E (tmp_aes_key H new_nonce server_nonce) (tmp_aes_iv H new_nonce server_nonce)
                    (H payload ++ payload ++ rnd (pad_need (20 + length payload)))).
Proof.
  intros Hr L1 O1 L2 O2. unfold encrypt_temp, encrypt_temp_raw. rewrite H_len.
  rewrite (generate_temp_keys_spec H H_len new_nonce server_nonce L1 O1 L2 O2). cbn [obind fst snd].
  set (key := tmp_aes_key H new_nonce server_nonce). set (iv := tmp_aes_iv H new_nonce server_nonce).
  set (pt := H payload ++ payload ++ rnd (pad_need (20 + length payload))).
  assert (Lk : key_len_ok key = true) by (apply key_len_ok_32, tmp_aes_key_length, H_len).
  assert (Liv : length iv = 32) by (apply tmp_aes_iv_length; assumption).
  assert (Lpt : length pt = 20 + length payload + pad_need (20 + length payload))
    by (unfold pt; rewrite !app_length, H_len, Hr; lia).
  pose proof (pad_need_aligned (20 + length payload)) as Hal.
  set (n := Nat.div (length pt) 16).
  assert (Hn : length pt = 16 * n) by (apply aligned_blocks; rewrite Lpt; exact Hal).
  assert (Hn1 : 1 <= n) by lia.
  rewrite (do_encrypt_is_ige E E_len key iv pt (zbuf (length pt)) n Lk Liv Hn Hn1) by (rewrite zbuf_length; lia).
  rewrite skipn_all2 by (rewrite zbuf_length; lia). rewrite app_nil_r. reflexivity.
Qed.

(* Encrypt pads with zeros to the next multiple of 16 (nothing when already aligned) and is textbook
   IGE of the padded message; the empty message is refused *)
Theorem encrypt_msg_pads (msg auth_key : bytes) :
  128 <= length auth_key ->
  exists k iv, generate_aes_ige H (firstn 16 (skipn 4 (H msg))) auth_key false = Ok (k, iv) /\
    length k = 32 /\ length iv = 32 /\
    (msg <> [] ->
       encrypt_msg H E msg auth_key = Ok (ige_encrypt E k iv (msg ++ zbuf (pad_need (length msg)))) /\
       length (ige_encrypt E k iv (msg ++ zbuf (pad_need (length msg)))) = length msg + pad_need (length msg)) /\
    (msg = [] -> encrypt_msg H E msg auth_key = Err).
Proof.
  intros Hl.
  destruct (generate_aes_ige_ok H H_len (firstn 16 (skipn 4 (H msg))) auth_key false Hl) as (k & iv & Hg & Lk & Liv).
  exists k, iv. split; [exact Hg|]. split; [exact Lk|]. split; [exact Liv|].
  assert (Hk : key_len_ok k = true) by (apply key_len_ok_32, Lk).
  unfold encrypt_msg. rewrite gslice_ok by (rewrite ?H_len; lia). cbn [obind].
  change (20 - 4) with 16. rewrite Hg. cbn [obind fst snd]. split.
  - intros Hne. unfold zero_pad.
    set (data := msg ++ zbuf (pad_need (length msg))).
    assert (Ld : length data = length msg + pad_need (length msg))
      by (unfold data; rewrite app_length, zbuf_length; reflexivity).
    pose proof (pad_need_aligned (length msg)) as Hal.
    set (n := Nat.div (length data) 16).
    assert (Hn : length data = 16 * n) by (apply aligned_blocks; rewrite Ld; exact Hal).
    assert (Hn1 : 1 <= n) by (destruct msg; [congruence|cbn [length] in *; lia]).
    rewrite (do_encrypt_is_ige E E_len k iv data (zbuf (length data)) n Hk Liv Hn Hn1) by (rewrite zbuf_length; lia).
    rewrite skipn_all2 by (rewrite zbuf_length; lia). rewrite app_nil_r. cbn [returned].
    split; [reflexivity|]. rewrite (ige_encrypt_length E E_len k iv data n Liv Hn). exact Ld.
  - intros ->. cbn [zero_pad length app]. change (pad_need 0) with 0. cbn [zbuf repeat app length].
    destruct (do_encrypt_rejects_err E E k iv [] [] Hk ltac:(lia) (or_introl eq_refl)) as [He _].
    rewrite He. reflexivity.
Qed.
End SecHE.

Section SecHD.
Variable H : bytes -> bytes.
Variable D : bytes -> bytes -> bytes.
Hypothesis H_len : forall m, length (H m) = 20.
Hypothesis D_len : forall k b, length (D k b) = 16.

(* Decrypt is textbook IGE decryption under the decode-side keys; bad lengths are errors *)
Theorem decrypt_msg_spec (msg auth_key check_data : bytes) n :
  136 <= length auth_key -> length msg = 16 * n -> 1 <= n ->
  exists k iv, generate_aes_ige H check_data auth_key true = Ok (k, iv) /\
    decrypt_msg H D msg auth_key check_data = Ok (ige_decrypt D k iv msg).
Proof.
  intros Hl Hn Hn1.
  destruct (generate_aes_ige_ok H H_len check_data auth_key true Hl) as (k & iv & Hg & Lk & Liv).
  exists k, iv. split; [exact Hg|]. unfold decrypt_msg. rewrite Hg. cbn [obind fst snd].
  rewrite (do_decrypt_is_ige D D_len k iv msg (zbuf (length msg)) n (key_len_ok_32 k Lk) Liv Hn Hn1) by (rewrite zbuf_length; lia).
  rewrite skipn_all2 by (rewrite zbuf_length; lia). rewrite app_nil_r. reflexivity.
Qed.

Theorem decrypt_msg_rejects (msg auth_key check_data : bytes) :
  136 <= length auth_key -> length msg = 0 \/ Nat.modulo (length msg) 16 <> 0 ->
  decrypt_msg H D msg auth_key check_data = Err.
Proof.
  intros Hl Hbad.
  destruct (generate_aes_ige_ok H H_len check_data auth_key true Hl) as (k & iv & Hg & Lk & Liv).
  unfold decrypt_msg. rewrite Hg. cbn [obind fst snd].
  destruct (do_encrypt_rejects_err D D k iv msg (zbuf (length msg)) (key_len_ok_32 k Lk) ltac:(lia) Hbad) as [_ Hd].
  rewrite Hd. reflexivity.
Qed.
End SecHD.

Section RoundTrip.
Variable H : bytes -> bytes.
Variables E D : bytes -> bytes -> bytes.
Hypothesis H_len : forall m, length (H m) = 20.
Hypothesis H_ok : forall m, ok (H m).
Hypothesis E_len : forall k b, length (E k b) = 16.
Hypothesis D_len : forall k b, length (D k b) = 16.
Hypothesis E_ok : forall k b, ok k -> ok b -> ok (E k b).
(* AES-256 is a permutation of the 16-byte blocks under every 32-byte key *)
Hypothesis DE : forall k b, length k = 32 -> ok k -> length b = 16 -> ok b -> D k (E k b) = b.

Lemma tmp_aes_key_ok a b : ok (tmp_aes_key H a b).
Proof. unfold tmp_aes_key. apply ok_app. split; [apply H_ok|apply ok_firstn, H_ok]. Qed.

Lemma tmp_aes_iv_ok a b : ok a -> ok (tmp_aes_iv H a b).
Proof.
  intros Ha. unfold tmp_aes_iv. rewrite !ok_app.
  split; [apply ok_skipn, H_ok|]. split; [apply H_ok|apply ok_firstn, Ha].
Qed.

(* what DecryptMessageWithTempKeys does with anything a conformant peer (textbook IGE under the
   MTProto temp keys) produced from SHA1(payload) ++ payload ++ padding, padding 0..15 bytes *)
Theorem decrypt_temp_peer (new_nonce server_nonce payload pad : bytes) :
  length new_nonce = 32 -> bytes_ok new_nonce = true ->
  length server_nonce = 16 -> bytes_ok server_nonce = true ->
  ok payload -> ok pad ->
  length pad <= 15 -> Nat.modulo (20 + length payload + length pad) 16 = 0 ->
  (forall i, 0 < i <= length pad -> H (payload ++ firstn i pad) <> H payload) ->
  decrypt_temp H D
    (ige_encrypt E (tmp_aes_key H new_nonce server_nonce) (tmp_aes_iv H new_nonce server_nonce)
                 (H payload ++ payload ++ pad))
    (of_be new_nonce) (of_be server_nonce)
  = Ok payload.
Proof.
  intros L1 O1 L2 O2 Opl Opad Lp Hal NC. unfold decrypt_temp.
  rewrite (generate_temp_keys_spec H H_len new_nonce server_nonce L1 O1 L2 O2). cbn [obind fst snd].
  set (key := tmp_aes_key H new_nonce server_nonce). set (iv := tmp_aes_iv H new_nonce server_nonce).
  set (pt := H payload ++ payload ++ pad).
  assert (Lk : key_len_ok key = true) by (apply key_len_ok_32, tmp_aes_key_length, H_len).
  assert (Liv : length iv = 32) by (apply tmp_aes_iv_length; assumption).
  assert (Lpt : length pt = 20 + length payload + length pad)
    by (unfold pt; rewrite !app_length, H_len; lia).
  set (n := Nat.div (length pt) 16).
  assert (Hn : length pt = 16 * n) by (apply aligned_blocks; rewrite Lpt; exact Hal).
  assert (Hn1 : 1 <= n) by lia.
  set (ct := ige_encrypt E key iv pt).
  assert (Lct : length ct = length pt) by (apply (ige_encrypt_length E E_len key iv pt n); assumption).
  rewrite (do_decrypt_is_ige D D_len key iv ct (zbuf (length ct)) n Lk Liv) by (rewrite ?zbuf_length; lia).
  assert (Ok : ok key) by apply tmp_aes_key_ok.
  assert (Oiv : ok iv) by (apply tmp_aes_iv_ok, O1).
  assert (Opt : ok pt) by (unfold pt; rewrite !ok_app; auto).
  unfold ct at 1.
  rewrite (ige_decrypt_encrypt_ok E D E_len key iv pt n (fun b Hb => E_ok key b Ok Hb)
             (fun b Hb Ob => DE key b (tmp_aes_key_length H H_len _ _) Ok Hb Ob) Liv Hn Oiv Opt).
  rewrite skipn_all2 by (rewrite zbuf_length; lia). rewrite app_nil_r. cbn [checked obind].
  rewrite !gslice_ok by lia. cbn [obind].
  change (20 - 0) with 20. rewrite skipn_O.
  unfold pt at 1. rewrite firstn_app_exact by apply H_len.
  replace (firstn (length pt - 20) (skipn 20 pt)) with (payload ++ pad).
  - apply (try_cuts_finds H payload pad NC (length pad) 0 16); lia.
  - rewrite firstn_all2 by (rewrite skipn_length; lia).
    unfold pt. rewrite skipn_app_exact by apply H_len. reflexivity.
Qed.

Theorem temp_roundtrip_own (rnd : nat -> bytes) (new_nonce server_nonce payload : bytes) :
  (forall n, length (rnd n) = n) -> (forall n, ok (rnd n)) -> ok payload ->
  length new_nonce = 32 -> bytes_ok new_nonce = true ->
  length server_nonce = 16 -> bytes_ok server_nonce = true ->
  (forall i, 0 < i <= pad_need (20 + length payload) ->
     H (payload ++ firstn i (rnd (pad_need (20 + length payload)))) <> H payload) ->
  exists ct, encrypt_temp H E rnd payload (of_be new_nonce) (of_be server_nonce) = Ok ct /\
             length ct = 20 + length payload + pad_need (20 + length payload) /\
             decrypt_temp H D ct (of_be new_nonce) (of_be server_nonce) = Ok payload.
Proof.
  intros Hr Or Opl L1 O1 L2 O2 NC.
  pose proof (pad_need_lt (20 + length payload)) as Hlt.
  pose proof (pad_need_aligned (20 + length payload)) as Hal.
  eexists. split; [apply (encrypt_temp_spec H E H_len E_len); assumption|]. split.
  - set (pt := H payload ++ payload ++ rnd (pad_need (20 + length payload))).
    assert (Lpt : length pt = 20 + length payload + pad_need (20 + length payload))
      by (unfold pt; rewrite !app_length, H_len, Hr; lia).
    rewrite (ige_encrypt_length E E_len _ _ pt (Nat.div (length pt) 16)); [exact Lpt| |].
    + apply tmp_aes_iv_length; assumption.
    + apply aligned_blocks. rewrite Lpt. exact Hal.
  - apply decrypt_temp_peer; try assumption; try apply Or; rewrite Hr; [lia|exact Hal|exact NC].
Qed.
End RoundTrip.

(* ------------------------------------------------------------------------------------------ *)
(* TryDecryptMessageWithTempKeys: total (no panic for ANY input) and an exact acceptance condition *)

Lemma copy_into_length (dst src : bytes) off : off <= length dst -> length (copy_into dst off src) = length dst.
Proof.
  intros Ho. unfold copy_into. rewrite !app_length, !firstn_length, skipn_length. lia.
Qed.

Ltac ci_len := rewrite ?zbuf_length; first [lia | rewrite copy_into_length; [ci_len | ci_len]].

Lemma is_correct_data_false_inv (data : bytes) :
  is_correct_data data = false -> length data = 0 \/ Nat.modulo (length data) 16 <> 0.
Proof.
  unfold is_correct_data. intros Hf. apply andb_false_iff in Hf as [Hf|Hf].
  - apply Nat.leb_gt in Hf. destruct (length data) as [|n] eqn:E; [now left|right].
    rewrite Nat.mod_small by lia. lia.
  - right. now apply Nat.eqb_neq.
Qed.

Section TryDecrypt.
Variable H : bytes -> bytes.
Variable D : bytes -> bytes -> bytes.

(* the trim loop: never a panic; Ok exactly for the first cut (fewest bytes removed) whose hash matches *)
Lemma try_cuts_err_no_panic hash m : forall fuel j, try_cuts_err H fuel j hash m <> Panic.
Proof.
  induction fuel as [|f IH]; intros j; cbn [try_cuts_err]; [discriminate|].
  destruct (length m <? j); [discriminate|].
  destruct (beq hash (H (firstn (length m - j) m))); [discriminate|apply IH].
Qed.

Lemma try_cuts_err_ok hash m : forall fuel j c, try_cuts_err H fuel j hash m = Ok c ->
  exists i, j <= i < j + fuel /\ i <= length m /\ c = firstn (length m - i) m /\ H c = hash /\
            (forall i', j <= i' < i -> H (firstn (length m - i') m) <> hash).
Proof.
  induction fuel as [|f IH]; intros j c; cbn [try_cuts_err]; [discriminate|].
  destruct (Nat.ltb_spec (length m) j) as [Hl|Hl]; [discriminate|].
  destruct (beq_spec hash (H (firstn (length m - j) m))) as [Heq|Hne].
  - intros Hc. apply Ok_inj in Hc. subst c. exists j. repeat split; auto; try (intros; lia).
  - intros Hc. destruct (IH (S j) c Hc) as (i & Hi & Hil & Hci & Hh & Hmin).
    exists i. split; [lia|]. split; [exact Hil|]. split; [exact Hci|]. split; [exact Hh|]. intros i' Hi'.
    destruct (Nat.eq_dec i' j) as [->|Hn]; [congruence|]. apply Hmin. lia.
Qed.

Lemma try_cuts_err_err hash m : forall fuel j, try_cuts_err H fuel j hash m = Err ->
  forall i, j <= i < j + fuel -> i <= length m -> H (firstn (length m - i) m) <> hash.
Proof.
  induction fuel as [|f IH]; intros j He i Hi Hil; [lia|]. cbn [try_cuts_err] in He.
  destruct (Nat.ltb_spec (length m) j) as [Hl|Hl]; [lia|].
  destruct (beq_spec hash (H (firstn (length m - j) m))) as [Heq|Hne]; [discriminate|].
  destruct (Nat.eq_dec i j) as [->|Hn]; [congruence|]. apply (IH (S j) He); lia.
Qed.

Hypothesis H_len : forall m, length (H m) = 20.

(* key and iv are 32 bytes for ANY pair of big.Int values (zero, short, oversize) *)
Lemma generate_temp_keys_total_len n1 n2 :
  exists k iv, generate_temp_keys H n1 n2 = Ok (k, iv) /\ length k = 32 /\ length iv = 32.
Proof.
  unfold generate_temp_keys.
  assert (L : 32 <= length (fixed_bytes 32 n1)).
  { unfold fixed_bytes. destruct (Nat.leb_spec 32 (length (big_bytes n1))); [assumption|].
    rewrite app_length, repeat_length. lia. }
  rewrite !gslice_ok by (rewrite ?H_len; lia). cbn [obind].
  eexists. eexists. split; [reflexivity|].
  split; ci_len.
Qed.

Hypothesis D_len : forall k b, length (D k b) = 16.

(* doAES256IGEdecrypt into a fresh buffer of the same length, 32-byte key and iv: error or success, never a panic *)
Lemma do_decrypt_fresh key iv msg : length key = 32 -> length iv = 32 ->
  (is_correct_data msg = false /\ do_decrypt D msg (zbuf (length msg)) key iv = (Failed, zbuf (length msg), msg)) \/
  (is_correct_data msg = true /\ do_decrypt D msg (zbuf (length msg)) key iv = (Done, ige_decrypt D key iv msg, msg) /\
   length (ige_decrypt D key iv msg) = length msg).
Proof.
  intros Lk Liv. destruct (is_correct_data msg) eqn:Hc.
  - right. split; [reflexivity|]. apply is_correct_data_iff in Hc as (n & Hn & Hl).
    rewrite (do_decrypt_is_ige D D_len key iv msg (zbuf (length msg)) n (key_len_ok_32 key Lk) Liv Hl Hn)
      by (rewrite zbuf_length; lia).
    rewrite skipn_all2 by (rewrite zbuf_length; lia). rewrite app_nil_r.
    split; [reflexivity|]. apply (ige_decrypt_length D D_len key iv msg n Liv Hl).
  - left. split; [reflexivity|].
    destruct (do_encrypt_rejects_err D D key iv msg (zbuf (length msg)) (key_len_ok_32 key Lk) ltac:(lia)
                (is_correct_data_false_inv msg Hc)) as [_ Hd]. exact Hd.
Qed.

(* TryDecryptMessageWithTempKeys, for EVERY input (no premise on the ciphertext or on the nonces):
   - never panics;
   - returns m exactly when the length is a positive multiple of 16, at least 20, and m is the decrypted
     body with the fewest trailing bytes (0..15) removed such that SHA1(m) equals the first 20 decrypted bytes;
   - returns an error exactly when the length is bad or no cut of 0..15 bytes matches. *)
Theorem trydec_temp_spec msg n1 n2 :
  exists key iv, generate_temp_keys H n1 n2 = Ok (key, iv) /\
  let dec := ige_decrypt D key iv msg in
  let body := skipn 20 dec in
  match trydec_temp H D msg n1 n2 with
  | Panic => False
  | Ok m => is_correct_data msg = true /\ 20 <= length msg /\
            exists i, i <= 15 /\ i <= length msg - 20 /\ m = firstn (length msg - 20 - i) body /\
                      H m = firstn 20 dec /\
                      (forall i', i' < i -> H (firstn (length msg - 20 - i') body) <> firstn 20 dec)
  | Err => is_correct_data msg = false \/ length msg < 20 \/
           (forall i, i <= 15 -> i <= length msg - 20 -> H (firstn (length msg - 20 - i) body) <> firstn 20 dec)
  end.
Proof.
  destruct (generate_temp_keys_total_len n1 n2) as (key & iv & Hg & Lk & Liv).
  exists key, iv. split; [exact Hg|]. cbv zeta. unfold trydec_temp. rewrite Hg. cbn [obind fst snd].
  destruct (do_decrypt_fresh key iv msg Lk Liv) as [[Hc Hd]|(Hc & Hd & Ll)]; rewrite Hd; cbn [returned obind].
  - left. exact Hc.
  - set (dec := ige_decrypt D key iv msg) in *.
    destruct (Nat.ltb_spec (length dec) 20) as [Hs|Hs]; [right; left; lia|].
    rewrite !gslice_ok by lia. cbn [obind]. change (20 - 0) with 20. rewrite skipn_O.
    rewrite (firstn_all2 (skipn 20 dec)) by (rewrite skipn_length; lia).
    assert (Lb : length (skipn 20 dec) = length msg - 20) by (rewrite skipn_length; lia).
    destruct (try_cuts_err H 16 0 (firstn 20 dec) (skipn 20 dec)) as [m| |] eqn:Ht.
    + destruct (try_cuts_err_ok _ _ _ _ _ Ht) as (i & Hi & Hil & Hm & Hh & Hmin).
      rewrite Lb in *. split; [exact Hc|]. split; [lia|].
      exists i. repeat split; try lia; auto. intros i' Hi'. apply Hmin. lia.
    + right. right. intros i Hi Hil. rewrite <- Lb. apply (try_cuts_err_err _ _ _ _ Ht); lia.
    + exact (try_cuts_err_no_panic _ _ _ _ Ht).
Qed.

Corollary trydec_temp_no_panic msg n1 n2 : trydec_temp H D msg n1 n2 <> Panic.
Proof.
  destruct (trydec_temp_spec msg n1 n2) as (k & iv & _ & Hs). cbv zeta in Hs.
  intros Hp. rewrite Hp in Hs. exact Hs.
Qed.
End TryDecrypt.

Lemma try_cuts_checked H hash m : forall fuel j,
  try_cuts H fuel j hash m = match try_cuts_err H fuel j hash m with Ok c => Ok c | _ => Panic end.
Proof.
  induction fuel as [|f IH]; intros j; cbn [try_cuts try_cuts_err]; [reflexivity|].
  destruct (length m <? j); [reflexivity|].
  destruct (beq hash (H (firstn (length m - j) m))); [reflexivity|apply IH].
Qed.

(* DecryptMessageWithTempKeys = check(err) around TryDecryptMessageWithTempKeys *)
Lemma decrypt_temp_is_checked_try H D msg n1 n2 : (forall m, length (H m) = 20) ->
  decrypt_temp H D msg n1 n2 = match trydec_temp H D msg n1 n2 with Ok m => Ok m | _ => Panic end.
Proof.
  intros H_len. unfold decrypt_temp, trydec_temp.
  destruct (generate_temp_keys_total H H_len n1 n2) as (k & iv & ->). cbn [obind fst snd].
  destruct (do_decrypt D msg (zbuf (length msg)) k iv) as [[st dec] inp].
  destruct st; cbn [checked returned obind]; try reflexivity.
  destruct (Nat.ltb_spec (length dec) 20) as [Hl|Hl].
  - unfold gslice at 1. destruct (Nat.leb_spec 20 (length dec)); [lia|]. rewrite andb_false_r. reflexivity.
  - rewrite !gslice_ok by lia. cbn [obind].
    apply try_cuts_checked.
Qed.
