(* AES-IGE (infinite garble extension) - the textbook definition on lists of 16-byte blocks.
     encryption:  c_i = E(p_i xor c_{i-1}) xor p_{i-1}
     decryption:  p_i = D(c_i xor p_{i-1}) xor c_{i-1}
   with c_0 = iv[0:16] and p_0 = iv[16:32] (the split used by OpenSSL, Telegram and by
   NewCipher in internal/aes_ige/ige_cipher.go).  [E], [D] : block -> block are the block cipher
   under one fixed key.  No proofs in this file (Crypto/IgeProofs.v). *)
From Coq Require Import ZArith NArith List Lia Bool.
From MTV Require Import Base.Bytes Prim.Xor.
Import ListNotations.
Open Scope N_scope.

Section IgeDef.
Variables E D : bytes -> bytes.

Fixpoint ige_enc (cprev pprev : bytes) (ps : list bytes) : list bytes :=
  match ps with
  | [] => []
  | p :: r => let c := xorb (E (xorb p cprev)) pprev in c :: ige_enc c p r
  end.

Fixpoint ige_dec (cprev pprev : bytes) (cs : list bytes) : list bytes :=
  match cs with
  | [] => []
  | c :: r => let p := xorb (D (xorb c pprev)) cprev in p :: ige_dec c p r
  end.
End IgeDef.

(* consecutive 16-byte blocks of a byte string (a trailing partial block is dropped; the
   callers only use it on lengths that are multiples of 16) *)
Fixpoint chunks16 (l : bytes) : list bytes :=
  match l with
  | b0 :: b1 :: b2 :: b3 :: b4 :: b5 :: b6 :: b7 :: b8 :: b9 :: b10 :: b11 :: b12 :: b13 :: b14 :: b15 :: r =>
      [b0; b1; b2; b3; b4; b5; b6; b7; b8; b9; b10; b11; b12; b13; b14; b15] :: chunks16 r
  | _ => []
  end.

(* byte-level specification: what a conformant implementation produces for a 32-byte IV and
   data whose length is a multiple of 16.  [E k], [D k] = block cipher under key k. *)
Definition ige_encrypt (E : bytes -> bytes -> bytes) (key iv data : bytes) : bytes :=
  concat (ige_enc (E key) (firstn 16 iv) (skipn 16 iv) (chunks16 data)).

Definition ige_decrypt (D : bytes -> bytes -> bytes) (key iv data : bytes) : bytes :=
  concat (ige_dec (D key) (firstn 16 iv) (skipn 16 iv) (chunks16 data)).
