(* C01 instantiated on the type universe regenerated from the current tree (gen/Registry.v).
   These are the facts that tie the generic round-trip theorem to today's constructors:
   if a generated type, tag, FlagIndex() or registration changes so that encoder and decoder
   no longer agree on a layout, one of these closed computations stops being [true]. *)
From Coq Require Import NArith List Bool.
From MTV Require Import Base.Bytes Base.Outcome TL.Types TL.Codec TL.Typing.
From MTVgen Require Import Registry.
Import ListNotations.
Open Scope N_scope.

Fixpoint indexed {A} (i : N) (l : list A) : list (N * A) :=
  match l with [] => [] | x :: r => (i, x) :: indexed (i + 1) r end.

(* every struct type of the universe, except the named exceptions (objects.Null, whose CRC()
   panics, and objects.MsgCopy, which holds a non-TL struct), is a well-formed descriptor *)
Theorem C01i_all_structs_wellformed :
  forallb (fun p => mem (fst p) shipped_exceptions || wf_struct (snd p)) (indexed 0 shipped_structs) = true.
Proof. vm_compute. reflexivity. Qed.
Print Assumptions C01i_all_structs_wellformed.

(* every registered struct constructor is registered under its own id, and that id is not
   shadowed by the built-in vector/true/false/null ids: the decoder picks the same type *)
Theorem C01i_registered_under_own_id :
  forallb (fun p => match snd p with
                    | RStruct tid =>
                        match get_struct shipped tid with
                        | Some sd => match s_crc sd with
                                     | Some c => (c =? fst p) && reg_ok shipped tid c
                                     | None => false end
                        | None => false end
                    | _ => true end) shipped_reg = true.
Proof. vm_compute. reflexivity. Qed.
Print Assumptions C01i_registered_under_own_id.

(* the pseudo objects behind Bool/Null ids exist with the right ids and no fields *)
Theorem C01i_pseudo_objects :
  match get_struct shipped (u_true shipped), get_struct shipped (u_false shipped), get_struct shipped (u_null shipped) with
  | Some t, Some f, Some n =>
      (match s_crc t with Some c => c =? crc_true | None => false end)
      && (match s_crc f with Some c => c =? crc_false | None => false end)
      && (match s_crc n with Some c => c =? crc_null | None => false end)
      && match s_fields t, s_fields f, s_fields n with [], [], [] => true | _, _, _ => false end
  | _, _, _ => false
  end = true.
Proof. vm_compute. reflexivity. Qed.
Print Assumptions C01i_pseudo_objects.

(* no two registry entries share an id (RegisterObjects panics on duplicates; checked here too) *)
Fixpoint nodup_keys (l : list (N * rkind)) : bool :=
  match l with [] => true | (k, _) :: r => negb (existsb (fun q => fst q =? k) r) && nodup_keys r end.
Theorem C01i_registry_ids_distinct : nodup_keys shipped_reg = true.
Proof. vm_compute. reflexivity. Qed.
Print Assumptions C01i_registry_ids_distinct.

From MTV Require Import TL.RoundTrip.

Theorem C01i_pseudo_ok : pseudo_ok shipped = true.
Proof. vm_compute. reflexivity. Qed.
Print Assumptions C01i_pseudo_ok.

(* the round trip on today's universe: for every struct type of the tree and every value of it *)
Theorem C01i_roundtrip_shipped : forall inflate tid fs bs,
  wt shipped (TPtr tid) (VObj tid fs) = true -> enc shipped (VObj tid fs) = Ok bs ->
  exists f0, forall f, (f0 <= f)%nat -> decode_named shipped inflate f tid bs = DOk (norm shipped (VObj tid fs)).
Proof. intros inflate. apply roundtrip_named. exact C01i_pseudo_ok. Qed.
Print Assumptions C01i_roundtrip_shipped.

Theorem C01i_roundtrip_unknown_shipped : forall inflate tid fs bs,
  wt shipped (TIface 0) (VObj tid fs) = true -> enc shipped (VObj tid fs) = Ok bs ->
  exists f0, forall f, (f0 <= f)%nat -> decode_unknown shipped inflate f [] bs = DOk (norm shipped (VObj tid fs)).
Proof. intros inflate. apply roundtrip_unknown. exact C01i_pseudo_ok. Qed.
Print Assumptions C01i_roundtrip_unknown_shipped.

(* the two hand-written codecs are registered in today's universe, so TL/ContainerRT.v applies to it *)
From MTV Require Import TL.ContainerRT.

Theorem C01i_container_and_gzip_registered :
  lookup_reg shipped crc_container = Some RContainer /\ lookup_reg shipped crc_gzip = Some RGzip.
Proof. split; vm_compute; reflexivity. Qed.
Print Assumptions C01i_container_and_gzip_registered.

Theorem C01i_container_roundtrip_shipped : forall inflate items bs,
  forallb item_ok items = true -> N.of_nat (length items) < two32 / 2 -> enc shipped (VContainer items) = Ok bs ->
  exists f0, forall f, (f0 <= f)%nat -> decode_unknown shipped inflate f [] bs = DOk (VContainer items).
Proof. intros inflate. apply container_roundtrip_unknown. exact (proj1 C01i_container_and_gzip_registered). Qed.
Print Assumptions C01i_container_roundtrip_shipped.

Theorem C01i_gzip_decodes_shipped : forall inflate v raw payload packed,
  wt shipped (TIface 0) v = true -> enc shipped v = Ok raw -> inflate payload = Some raw -> put_bytes payload = Some packed ->
  exists f0, forall f, (f0 <= f)%nat ->
    decode_unknown shipped inflate f [] (le32 crc_gzip ++ packed) = DOk (VGzip (norm shipped v)).
Proof.
  intros inflate. apply gzip_decodes_unknown;
    [exact C01i_pseudo_ok|exact (proj2 C01i_container_and_gzip_registered)].
Qed.
Print Assumptions C01i_gzip_decodes_shipped.
