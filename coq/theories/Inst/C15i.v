(* C15 instantiated on the type universe regenerated from the current tree. *)
From Coq Require Import NArith List Bool.
From MTV Require Import Base.Bytes Base.Outcome TL.Types TL.Codec TL.Typing.
From MTVgen Require Import Registry.
Import ListNotations.
Open Scope N_scope.

(* every descriptor satisfies what the decoder needs in order not to panic: a type with
   conditional fields has a flags index inside its field list, and every pointer field points
   to a type with a constructor id *)
Theorem C15i_no_panic_conditions : np_universe shipped = true.
Proof. vm_compute. reflexivity. Qed.
Print Assumptions C15i_no_panic_conditions.
