(* C15 instantiated on the type universe regenerated from the current tree. *)
From Coq Require Import NArith List Bool.
From MTV Require Import Base.Bytes Base.Outcome TL.Types TL.Codec TL.Typing.
From MTVgen Require Import Registry.
Import ListNotations.
Open Scope N_scope.

(* every descriptor satisfies what the decoder needs in order not to panic: a type with
   conditional fields has a flags index inside its field list, and every pointer field points
   to a type with a constructor id *)
Theorem C15i_no_panic_conditions : np_universe shipped = true.
Proof. vm_compute. reflexivity. Qed.
Print Assumptions C15i_no_panic_conditions.

From MTV Require Import TL.NPPost TL.NoPanic TL.Total.

(* hence: on today's registry DecodeUnknownObject never panics, whatever the bytes and slice hints *)
Theorem C15i_shipped_never_panics : forall inflate h, hints_ok shipped h = true ->
  forall fuel bs, decode_unknown shipped inflate fuel h bs <> DPanic.
Proof. intros inflate. apply decode_unknown_no_panic. exact C15i_no_panic_conditions. Qed.
Print Assumptions C15i_shipped_never_panics.

(* every struct of the universe with an id can be named in tl.Decode without panic *)
Theorem C15i_shipped_named_never_panics : forall inflate fuel tid bs,
  (match get_struct shipped tid with Some sd => s_crc sd <> None | None => True end) ->
  decode_named shipped inflate fuel tid bs <> DPanic.
Proof. intros inflate. apply decode_named_no_panic. exact C15i_no_panic_conditions. Qed.
Print Assumptions C15i_shipped_named_never_panics.
