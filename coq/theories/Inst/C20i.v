(* C20 instantiated on the host list regenerated from the current tree (gen/Hosts.v). *)
From Coq Require Import String.
From Coq Require Import ZArith NArith List Lia.
From MTV Require Import Base.Bytes Base.Outcome Base.Str Misc.Deeplink Misc.DeeplinkProofs.
From MTVgen Require Hosts.
Import ListNotations.
Open Scope N_scope.

(* the shipped list is exactly the five hosts the property names *)
Theorem C20i_hosts_are_telegram : Hosts.shipped_hosts = telegram_hosts.
Proof. vm_compute. reflexivity. Qed.
Print Assumptions C20i_hosts_are_telegram.

Lemma hostname_telegram h : In h telegram_hosts -> hostname h = h /\ h <> [].
Proof.
  unfold telegram_hosts. cbn [In].
  intros [<-|[<-|[<-|[<-|[<-|[]]]]]]; (split; [vm_compute; reflexivity|discriminate]).
Qed.
Print Assumptions hostname_telegram.

(* every Telegram host, https/http/no scheme, optional absence of port: one-segment path -> username *)
Theorem C20i_username_on_every_host : forall lower ord sc h s,
  good_scheme sc -> In h telegram_hosts -> s <> [] -> ~ In 47 s ->
  resolve lower Hosts.shipped_hosts ord {| u_scheme := sc; u_host := h; u_path := 47 :: s |}
  = Ok (Username (lower s)).
Proof.
  intros lower ord sc h s Hsc Hh Hs Hn. rewrite C20i_hosts_are_telegram.
  apply resolve_username_iff. destruct (hostname_telegram h Hh) as [Hhn Hne].
  destruct h as [|h0 h]; [congruence|].
  cbn [u_scheme u_host u_path eff fst snd].
  split; [assumption|]. split; [rewrite Hhn; assumption|].
  exists s. auto.
Qed.
Print Assumptions C20i_username_on_every_host.

Theorem C20i_invite_on_every_host : forall lower ord sc h t,
  good_scheme sc -> In h telegram_hosts -> t <> [] -> ~ In 47 t ->
  resolve lower Hosts.shipped_hosts ord {| u_scheme := sc; u_host := h; u_path := 47 :: s_joinchat_sl ++ t |}
  = Ok (Invite t).
Proof.
  intros lower ord sc h t Hsc Hh Ht Hn. rewrite C20i_hosts_are_telegram.
  apply resolve_invite_iff. destruct (hostname_telegram h Hh) as [Hhn Hne].
  destruct h as [|h0 h]; [congruence|].
  cbn [u_scheme u_host u_path eff fst snd].
  split; [assumption|]. split; [rewrite Hhn; assumption|]. auto.
Qed.
Print Assumptions C20i_invite_on_every_host.

(* a scheme-less link "host/segment" (url.Parse leaves it in Path) recovers the host *)
Theorem C20i_schemeless : forall lower ord h s,
  In h telegram_hosts -> s <> [] -> ~ In 47 s ->
  resolve lower Hosts.shipped_hosts ord {| u_scheme := []; u_host := []; u_path := h ++ 47 :: s |}
  = Ok (Username (lower s)).
Proof.
  intros lower ord h s Hh Hs Hn. rewrite C20i_hosts_are_telegram.
  apply resolve_username_iff. destruct (hostname_telegram h Hh) as [Hhn Hne].
  assert (Hnh : ~ In 47 h).
  { revert Hh. unfold telegram_hosts. cbn [In].
    intros [<-|[<-|[<-|[<-|[<-|[]]]]]]; apply contains_byte_false; reflexivity. }
  assert (Heff : eff {| u_scheme := []; u_host := []; u_path := h ++ 47 :: s |} = (h, 47 :: s)).
  { unfold eff. cbn [u_host u_path]. destruct h as [|c h']; [congruence|].
    cbn [app]. destruct (N.eqb_spec c slash) as [->|Hc]; [exfalso; apply Hnh; left; reflexivity|].
    change (c :: h' ++ 47 :: s) with ((c :: h') ++ 47 :: s).
    unfold slash. rewrite (index_byte_app 47 (c :: h') s Hnh).
    unfold zlen. destruct (Z.ltb_spec (Z.of_nat (length (c :: h'))) 0); [lia|].
    rewrite Nat2Z.id, firstn_app, Nat.sub_diag, firstn_all, skipn_app, Nat.sub_diag, skipn_all.
    cbn [firstn skipn app]. now rewrite app_nil_r. }
  rewrite Heff. cbn [fst snd u_scheme].
  split; [left; reflexivity|]. split; [rewrite Hhn; assumption|]. exists s. auto.
Qed.
Print Assumptions C20i_schemeless.
