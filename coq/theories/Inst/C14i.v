(* C14 instantiated on the schema text shipped as the generator's input
   (schemes/api_latest.tl -> api_121.tl), re-embedded verbatim into gen/SchemaTextC14.v on every run. *)
From Coq Require Import String.
From Coq Require Import NArith List.
From MTV Require Import Base.Bytes Base.Str TLGen.Parser TLGen.Printer TLGen.Classify.
From MTVgen Require SchemaTextC14.
Import ListNotations.
Open Scope N_scope.

(* the file = its lines joined by '\n' *)
Fixpoint join_lines (l : list string) : bytes :=
  match l with
  | [] => []
  | [x] => lit x
  | x :: t => lit x ++ 10 :: join_lines t
  end.

Definition shipped_text : bytes := join_lines SchemaTextC14.shipped_lines.

(* ParseSchema (model of the fixed tlparser) accepts the shipped schema *)
Theorem C14_accepts_shipped : sres_is_ok (parse shipped_text) = true.
Proof. vm_compute. reflexivity. Qed.
Print Assumptions C14_accepts_shipped.

(* ... and what it extracts is inside the subset of C14_parse_print: printing the parsed value and
   parsing it again gives the same value (an instance computed here, independent of the proof) *)
Theorem C14_shipped_in_subset :
  match parse shipped_text with SOk s => wf_schema s | _ => false end = true.
Proof. vm_compute. reflexivity. Qed.
Print Assumptions C14_shipped_in_subset.

Theorem C14_shipped_counts :
  match parse shipped_text with
  | SOk s => ((0 <? N.of_nat (length (s_objects s))) && (0 <? N.of_nat (length (s_methods s))))%bool
  | _ => false
  end = true.
Proof. vm_compute. reflexivity. Qed.
Print Assumptions C14_shipped_counts.
