(* C02, expensive instance (about a minute of vm_compute): the side conditions of
   C02_value_conforms_to_schema on the registry and schema text regenerated from the tree.
   Rebuilt by make only when gen/Registry.v or gen/SchemaText.v changed. *)
From Coq Require Import String.
From Coq Require Import NArith List Bool.
From MTV Require Import Base.Bytes Base.Outcome Base.Str TL.Types TL.Codec TL.Typing TL.TLText TL.Match TL.Spec TL.Conform TL.RoundTrip TL.MatchProofs TL.SpecProofs TL.ConformProofs.
From MTVgen Require Import SchemaText Registry.
Import ListNotations.
Open Scope N_scope.

Definition api := defs (parse_lines false (map lit api_lines)).

(* each closed boolean is evaluated once, by the kernel's VM at Qed (vm_cast_no_check only skips the
   tactic-time evaluation; the cast is checked by the kernel) *)
Theorem C02x_ids_distinct : ids_distinct api = true.
Proof. vm_cast_no_check (eq_refl true). Qed.
Print Assumptions C02x_ids_distinct.
Theorem C02x_reg_consistent : reg_consistent shipped = true.
Proof. vm_cast_no_check (eq_refl true). Qed.
Print Assumptions C02x_reg_consistent.
Theorem C02x_fields_exact : fields_exact shipped api = true.
Proof. vm_cast_no_check (eq_refl true). Qed.
Print Assumptions C02x_fields_exact.

(* hence the conformance theorem applies to every value of today's types against today's schema *)
Theorem C02x_value_conforms_shipped : forall v t tt bs, let tbl := kind_table shipped api in
  all_in_schema shipped api tbl v = true -> wt shipped t v = true -> ty_agrees shipped tbl tt t = true ->
  ty_exact shipped api tt t = true -> enums_members shipped t v = true -> enc shipped v = MTV.Base.Outcome.Ok bs ->
  conforms api (sdepth (abs shipped v)) tt (abs shipped v) = true.
Proof. exact (abs_conforms shipped api C02x_ids_distinct C02x_reg_consistent C02x_fields_exact). Qed.
Print Assumptions C02x_value_conforms_shipped.
