(* C13 instantiated: the registry regenerated from the tree (gen/Registry.v) against the schema
   text of the tree (gen/SchemaText.v), both recomputed on every run. *)
From Coq Require Import String.
From Coq Require Import NArith List Bool.
From MTV Require Import Base.Bytes Base.Str Prim.Crc32 TL.Types TL.Codec TL.Typing TL.TLText TL.Match TL.Names.
From MTVgen Require Import SchemaText Registry.
Import ListNotations.
Open Scope N_scope.

Definition api_text := map lit api_lines.
Definition mt_text := map lit mtproto_lines.
Definition api_parsed := parse_lines false api_text.
Definition mt_parsed := parse_lines false mt_text.
Definition api := defs api_parsed.
Definition mt := defs mt_parsed.

(* definitions the generator is documented to leave to hand-written code / the codec itself *)
Definition excluded := map lit
  ["boolFalse"; "boolTrue"; "true"; "vector"; "invokeAfterMsg"; "invokeAfterMsgs"; "initConnection";
   "invokeWithLayer"; "invokeWithoutUpdates"; "invokeWithMessagesRange"; "invokeWithTakeout"]%string.

(* service definitions the client puts on, or takes off, the wire with their field layout *)
Definition wire_used := map lit
  ["req_pq"; "req_DH_params"; "set_client_DH_params"; "ping"; "msgs_ack"; "p_q_inner_data"; "client_DH_inner_data";
   "resPQ"; "server_DH_params_ok"; "server_DH_params_fail"; "server_DH_inner_data"; "dh_gen_ok"; "dh_gen_retry"; "dh_gen_fail";
   "rpc_result"; "rpc_error"; "pong"; "new_session_created"; "bad_msg_notification"; "bad_server_salt"]%string.
(* ... and the two with hand-written (de)serialisers: checked for their id *)
Definition wire_custom := map lit ["msg_container"; "gzip_packed"]%string.

Definition api_mismatches := mismatches shipped api excluded.
Definition mt_wire := filter (fun c => list_contains wire_used (c_name c)) mt.
Definition mt_mismatches := filter (fun c => negb (def_matches shipped (kind_table shipped mt) c)) mt_wire.
Definition mt_custom_bad := filter (fun c => list_contains wire_custom (c_name c) &&
   negb match lookup_reg shipped (c_id c) with Some RContainer | Some RGzip => true | _ => false end) mt.
Definition bad_ids := filter (fun s => negb (line_id_ok s)) (api_text ++ mt_text)%list.
Definition not_in_schema := unaccounted shipped (map c_id api ++ map c_id mt)%list.

(* the wrappers carry the ids and layouts their schema lines give them *)
Definition wrapper_ok (tid : N) : bool :=
  match get_struct shipped tid with
  | Some sd => match s_crc sd with
               | Some k => match find (fun c => (c_id c =? k) && c_isfun c) api with
                           | Some c => struct_matches shipped (kind_table shipped api) c sd
                           | None => false end
               | None => false end
  | None => false
  end.
Definition bad_wrappers := filter (fun t => negb (wrapper_ok t)) shipped_wrappers.
Fixpoint nodup_n (l : list N) : bool := match l with [] => true | x :: r => negb (mem x r) && nodup_n r end.
Definition wrapper_ids := flat_map (fun t => match get_struct shipped t with Some sd => match s_crc sd with Some k => [k] | None => [] end | None => [] end) shipped_wrappers.

(* parameter names against Go field names (API layer and wrappers: generated naming convention;
   the hand-written service objects name their fields freely) *)
Definition names_of (tid : N) : list bytes := nth (N.to_nat tid) shipped_field_names [].
Definition api_name_mismatches := filter (fun c =>
  negb (list_contains excluded (c_name c)) &&
  match lookup_reg shipped (c_id c) with
  | Some (RStruct tid) => negb (names_agree (c_params c) (names_of tid))
  | _ => false end) api.
Definition bad_wrapper_names := filter (fun t =>
  match get_struct shipped t with
  | Some sd => match s_crc sd with
               | Some k => match find (fun c => (c_id c =? k) && c_isfun c) api with
                           | Some c => negb (names_agree (c_params c) (names_of t))
                           | None => false end
               | None => false end
  | None => false end) shipped_wrappers.

(* ---- identifiers: the Go NAME under which the programmer finds a definition ----
   Every check above keys on the id.  Two constructors of one type with the same layout
   (messageEntityBold / messageEntityItalic), or two values of an enum (storage.fileJpeg /
   storage.filePng), whose ids were exchanged in the Go source pass all of them; only the
   identifier tells.  Struct type names come from the registry translator (reflection), enum
   constant identifiers from the Go source of package telegram (harness subcommand `consts`). *)
Definition struct_name (tid : N) : bytes := nth (N.to_nat tid) shipped_struct_names [].

(* definitions whose Go identifier legitimately differs from the schema name, one by one (ids): none at HEAD *)
Definition ident_exceptions : list N := [].

Definition api_ident_mismatches := filter (fun c =>
  negb (list_contains excluded (c_name c)) && negb (mem (c_id c) ident_exceptions) &&
  match lookup_reg shipped (c_id c) with
  | Some (RStruct tid) => negb (ident_names c (struct_name tid))
  | _ => false end) api.
Definition wrapper_ident_mismatches := filter (fun t =>
  match get_struct shipped t with
  | Some sd => match s_crc sd with
               | Some k => match find (fun c => (c_id c =? k) && c_isfun c) api with
                           | Some c => negb (ident_names c (struct_name t))
                           | None => false end   (* no schema line: reported by bad_wrappers *)
               | None => false end
  | None => false end) shipped_wrappers.
Definition wrapper_crc (t : N) : N := match get_struct shipped t with Some sd => match s_crc sd with Some k => k | None => 0 end | None => 0 end.
Definition ident_mismatches : list N := (map c_id api_ident_mismatches ++ map wrapper_crc wrapper_ident_mismatches)%list.
Definition const_mismatches : list N := map c_id (filter (fun c =>
  negb (list_contains excluded (c_name c)) && negb (mem (c_id c) ident_exceptions) &&
  match lookup_reg shipped (c_id c) with
  | Some (REnum _) => negb (const_names c shipped_enum_consts)
  | _ => false end) api).
(* constants of an enum type whose value is no constructor id of the API schema *)
Definition stray_consts : list N := map snd (filter (fun kv => negb (existsb (fun c => (c_id c =? snd kv) && negb (c_isfun c)) api)) shipped_enum_consts).
(* information only: the service objects (package objects) are hand-written and named freely *)
Definition mt_ident_info : list N := map c_id (filter (fun c =>
  match lookup_reg shipped (c_id c) with
  | Some (RStruct tid) => negb (ident_names c (struct_name tid))
  | _ => false end) mt_wire).

(* ---- exactly one: no id registered twice, no two struct types carrying one id ---- *)
Definition reg_ids : list N := map fst (u_reg shipped).
Definition struct_crcs : list N := flat_map (fun sd => match s_crc sd with Some k => [k] | None => [] end) shipped_structs.

(* ---- a constructor is a member of its result type's Go interface ----
   ty_agrees checks membership only where the type occurs as a PARAMETER; a type that occurs only
   as the RESULT of methods (contacts.Contacts, ...) is reached here: for every constructor of
   every type of the API schema, the registered struct implements exactly tl.Object and the
   interface the generator created for the result type (none for a type with one constructor). *)
Definition api_tbl := kind_table shipped api.
Definition struct_ifaces (tid : N) : list N := nth (N.to_nat tid) shipped_struct_ifaces [].
Definition needs_iface (t : bytes) : bool := match lookup_kind api_tbl t with KMulti _ => true | _ => false end.
Definition iface_mismatches := filter (fun c =>
  negb (c_isfun c) && negb (list_contains excluded (c_name c)) &&
  match lookup_reg shipped (c_id c) with
  | Some (RStruct tid) => negb (result_iface_ok shipped_ifaces (c_result c) (needs_iface (c_result c)) (struct_ifaces tid))
  | _ => false end) api.
(* the reflection walk saw every interface the source declares, and names identify interfaces *)
Definition unseen_ifaces := filter (fun n => negb (list_contains shipped_ifaces n)) shipped_src_ifaces.
Fixpoint nodup_b (l : list bytes) : bool := match l with [] => true | x :: r => negb (list_contains r x) && nodup_b r end.

(* machine-readable report for ./check (printed before the theorems so that it is available when one fails) *)
Eval vm_compute in ("C13-REPORT"%string,
  ("api_mismatch_ids", map c_id api_mismatches), ("mt_mismatch_ids", (map c_id mt_mismatches ++ map c_id mt_custom_bad)%list),
  ("bad_crc_lines", map (fun s => match parse_line false s with LDef c => c_id c | _ => 0 end) bad_ids),
  ("not_in_schema", not_in_schema), ("bad_wrappers", (bad_wrappers ++ bad_wrapper_names)%list),
  ("name_mismatch_ids", map c_id api_name_mismatches),
  ("ident_mismatch_ids", ident_mismatches), ("const_mismatch_ids", const_mismatches), ("stray_consts", stray_consts),
  ("mt_ident_info", mt_ident_info), ("dup_reg_ids", dups_n reg_ids), ("dup_struct_crcs", dups_n struct_crcs),
  ("iface_mismatch_ids", map c_id iface_mismatches), ("unseen_ifaces", map (fun n => N.of_nat (length n)) unseen_ifaces),
  ("fingerprint", [shipped_fingerprint]),
  ("counts", [N.of_nat (length api); N.of_nat (length mt); N.of_nat (length mt_wire); N.of_nat (count_bad api_parsed + count_bad mt_parsed);
              N.of_nat (length shipped_wrappers); N.of_nat (length (u_reg shipped));
              N.of_nat (length shipped_enum_consts); N.of_nat (length shipped_ifaces); N.of_nat (length shipped_src_ifaces)])).

(* ids registered although no definition of the shipped schema files accounts for them: the five
   definitions that api_121.tl carries only as comments ("exist in tl schema, but ... aren't using
   anywhere"). Recorded as a known finding (KNOWN_FINDINGS.txt), see DESIGN.md. *)
Definition known_not_in_schema : list N := [932718150; 1182381663; 1515793004; 3300522427; 3560156531].

Theorem C13i_schema_parses : (count_bad api_parsed + count_bad mt_parsed)%nat = 0%nat.
Proof. vm_compute. reflexivity. Qed.
Print Assumptions C13i_schema_parses.

Theorem C13i_ids_are_crc32 : bad_ids = [].
Proof. vm_compute. reflexivity. Qed.
Print Assumptions C13i_ids_are_crc32.

Theorem C13i_api_layer_matches_schema : api_mismatches = [].
Proof. vm_compute. reflexivity. Qed.
Print Assumptions C13i_api_layer_matches_schema.

Theorem C13i_service_layer_matches_schema : mt_mismatches = [] /\ mt_custom_bad = [] /\ length mt_wire = length wire_used.
Proof. vm_compute. repeat split. Qed.
Print Assumptions C13i_service_layer_matches_schema.

Theorem C13i_nothing_else_registered : forallb (fun k => mem k known_not_in_schema) not_in_schema = true.
Proof. vm_compute. reflexivity. Qed.
Print Assumptions C13i_nothing_else_registered.

Theorem C13i_wrappers_match_schema : bad_wrappers = [] /\ nodup_n wrapper_ids = true.
Proof. vm_compute. split; reflexivity. Qed.
Print Assumptions C13i_wrappers_match_schema.

Theorem C13i_parameter_names_match : api_name_mismatches = [] /\ bad_wrapper_names = [].
Proof. vm_compute. split; reflexivity. Qed.
Print Assumptions C13i_parameter_names_match.

Theorem C13i_identifiers_match : ident_mismatches = [] /\ const_mismatches = [].
Proof. vm_compute. split; reflexivity. Qed.
Print Assumptions C13i_identifiers_match.

Theorem C13i_no_stray_constants : stray_consts = [].
Proof. vm_compute. reflexivity. Qed.
Print Assumptions C13i_no_stray_constants.

Theorem C13i_registered_once : nodup_n reg_ids = true /\ nodup_n struct_crcs = true.
Proof. vm_compute. split; reflexivity. Qed.
Print Assumptions C13i_registered_once.

Theorem C13i_constructors_implement_result_interface :
  iface_mismatches = [] /\ unseen_ifaces = [] /\ nodup_b (map norm_ident shipped_ifaces) = true /\
  length shipped_struct_ifaces = length shipped_structs /\ length shipped_struct_names = length shipped_structs.
Proof. vm_compute. repeat split. Qed.
Print Assumptions C13i_constructors_implement_result_interface.
