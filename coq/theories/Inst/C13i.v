(* C13 instantiated: the registry regenerated from the tree (gen/Registry.v) against the schema
   text of the tree (gen/SchemaText.v), both recomputed on every run. *)
From Coq Require Import String.
From Coq Require Import NArith List Bool.
From MTV Require Import Base.Bytes Base.Str Prim.Crc32 TL.Types TL.Codec TL.Typing TL.TLText TL.Match TL.Names.
From MTVgen Require Import SchemaText Registry.
Import ListNotations.
Open Scope N_scope.

Definition api_text := map lit api_lines.
Definition mt_text := map lit mtproto_lines.
Definition api_parsed := parse_lines false api_text.
Definition mt_parsed := parse_lines false mt_text.
Definition api := defs api_parsed.
Definition mt := defs mt_parsed.

(* definitions the generator is documented to leave to hand-written code / the codec itself *)
Definition excluded := map lit
  ["boolFalse"; "boolTrue"; "true"; "vector"; "invokeAfterMsg"; "invokeAfterMsgs"; "initConnection";
   "invokeWithLayer"; "invokeWithoutUpdates"; "invokeWithMessagesRange"; "invokeWithTakeout"]%string.

(* service definitions the client puts on, or takes off, the wire with their field layout *)
Definition wire_used := map lit
  ["req_pq"; "req_DH_params"; "set_client_DH_params"; "ping"; "msgs_ack"; "p_q_inner_data"; "client_DH_inner_data";
   "resPQ"; "server_DH_params_ok"; "server_DH_params_fail"; "server_DH_inner_data"; "dh_gen_ok"; "dh_gen_retry"; "dh_gen_fail";
   "rpc_result"; "rpc_error"; "pong"; "new_session_created"; "bad_msg_notification"; "bad_server_salt"]%string.
(* ... and the two with hand-written (de)serialisers: checked for their id *)
Definition wire_custom := map lit ["msg_container"; "gzip_packed"]%string.

Definition api_mismatches := mismatches shipped api excluded.
Definition mt_wire := filter (fun c => list_contains wire_used (c_name c)) mt.
Definition mt_mismatches := filter (fun c => negb (def_matches shipped (kind_table shipped mt) c)) mt_wire.
Definition mt_custom_bad := filter (fun c => list_contains wire_custom (c_name c) &&
   negb match lookup_reg shipped (c_id c) with Some RContainer | Some RGzip => true | _ => false end) mt.
Definition bad_ids := filter (fun s => negb (line_id_ok s)) (api_text ++ mt_text)%list.
Definition not_in_schema := unaccounted shipped (map c_id api ++ map c_id mt)%list.

(* the wrappers carry the ids and layouts their schema lines give them *)
Definition wrapper_ok (tid : N) : bool :=
  match get_struct shipped tid with
  | Some sd => match s_crc sd with
               | Some k => match find (fun c => (c_id c =? k) && c_isfun c) api with
                           | Some c => struct_matches shipped (kind_table shipped api) c sd
                           | None => false end
               | None => false end
  | None => false
  end.
Definition bad_wrappers := filter (fun t => negb (wrapper_ok t)) shipped_wrappers.
Fixpoint nodup_n (l : list N) : bool := match l with [] => true | x :: r => negb (mem x r) && nodup_n r end.
Definition wrapper_ids := flat_map (fun t => match get_struct shipped t with Some sd => match s_crc sd with Some k => [k] | None => [] end | None => [] end) shipped_wrappers.

(* parameter names against Go field names (API layer and wrappers: generated naming convention;
   the hand-written service objects name their fields freely) *)
Definition names_of (tid : N) : list bytes := nth (N.to_nat tid) shipped_field_names [].
Definition api_name_mismatches := filter (fun c =>
  negb (list_contains excluded (c_name c)) &&
  match lookup_reg shipped (c_id c) with
  | Some (RStruct tid) => negb (names_agree (c_params c) (names_of tid))
  | _ => false end) api.
Definition bad_wrapper_names := filter (fun t =>
  match get_struct shipped t with
  | Some sd => match s_crc sd with
               | Some k => match find (fun c => (c_id c =? k) && c_isfun c) api with
                           | Some c => negb (names_agree (c_params c) (names_of t))
                           | None => false end
               | None => false end
  | None => false end) shipped_wrappers.

(* machine-readable report for ./check (printed before the theorems so that it is available when one fails) *)
Eval vm_compute in ("C13-REPORT"%string,
  ("api_mismatch_ids", map c_id api_mismatches), ("mt_mismatch_ids", (map c_id mt_mismatches ++ map c_id mt_custom_bad)%list),
  ("bad_crc_lines", map (fun s => match parse_line false s with LDef c => c_id c | _ => 0 end) bad_ids),
  ("not_in_schema", not_in_schema), ("bad_wrappers", (bad_wrappers ++ bad_wrapper_names)%list),
  ("name_mismatch_ids", map c_id api_name_mismatches),
  ("counts", [N.of_nat (length api); N.of_nat (length mt); N.of_nat (length mt_wire); N.of_nat (count_bad api_parsed + count_bad mt_parsed);
              N.of_nat (length shipped_wrappers); N.of_nat (length (u_reg shipped))])).

(* ids registered although no definition of the shipped schema files accounts for them: the five
   definitions that api_121.tl carries only as comments ("exist in tl schema, but ... aren't using
   anywhere"). Recorded as a known finding (KNOWN_FINDINGS.txt), see DESIGN.md. *)
Definition known_not_in_schema : list N := [932718150; 1182381663; 1515793004; 3300522427; 3560156531].

Theorem C13i_schema_parses : (count_bad api_parsed + count_bad mt_parsed)%nat = 0%nat.
Proof. vm_compute. reflexivity. Qed.
Print Assumptions C13i_schema_parses.

Theorem C13i_ids_are_crc32 : bad_ids = [].
Proof. vm_compute. reflexivity. Qed.
Print Assumptions C13i_ids_are_crc32.

Theorem C13i_api_layer_matches_schema : api_mismatches = [].
Proof. vm_compute. reflexivity. Qed.
Print Assumptions C13i_api_layer_matches_schema.

Theorem C13i_service_layer_matches_schema : mt_mismatches = [] /\ mt_custom_bad = [] /\ length mt_wire = length wire_used.
Proof. vm_compute. repeat split. Qed.
Print Assumptions C13i_service_layer_matches_schema.

Theorem C13i_nothing_else_registered : forallb (fun k => mem k known_not_in_schema) not_in_schema = true.
Proof. vm_compute. reflexivity. Qed.
Print Assumptions C13i_nothing_else_registered.

Theorem C13i_wrappers_match_schema : bad_wrappers = [] /\ nodup_n wrapper_ids = true.
Proof. vm_compute. split; reflexivity. Qed.
Print Assumptions C13i_wrappers_match_schema.

Theorem C13i_parameter_names_match : api_name_mismatches = [] /\ bad_wrapper_names = [].
Proof. vm_compute. split; reflexivity. Qed.
Print Assumptions C13i_parameter_names_match.
