(* C19 instantiated on the flow graph regenerated from the current tree (gen/FlowGraph.v).
   This is the obligation that breaks when a secret starts to depend on math/rand, the clock or a
   Seed call site: vm_compute then yields false and the file does not compile. *)
From Coq Require Import NArith List.
From MTV Require Import Misc.Taint Misc.TaintProofs Props.C19.
From MTVgen Require FlowGraph.
Import ListNotations.
Open Scope N_scope.

(* the four secrets: nonce, new_nonce, DH exponent b, SRP ephemeral a *)
Theorem C19i_four_secrets : length FlowGraph.secrets = 4%nat.
Proof. vm_compute. reflexivity. Qed.
Print Assumptions C19i_four_secrets.

Theorem C19i_secrets_ok : secrets_ok FlowGraph.graph FlowGraph.secrets FlowGraph.seed_sites = true.
Proof. vm_compute. reflexivity. Qed.
Print Assumptions C19i_secrets_ok.

(* hence, on the graph of the shipped code *)
Theorem C19i_shipped : forall s, In s FlowGraph.secrets ->
  (forall n k, flows FlowGraph.graph n s -> kind_at FlowGraph.graph n k -> k <> KPrng /\ k <> KTime /\ k <> KSeed) /\
  (exists n, flows FlowGraph.graph n s /\ kind_at FlowGraph.graph n KOS) /\
  (forall sd, In sd FlowGraph.seed_sites -> ~ flows FlowGraph.graph sd s).
Proof. exact (C19_sound _ _ _ C19i_secrets_ok). Qed.
Print Assumptions C19i_shipped.

(* every definition site of every secret (regenerated with the graph): one list per secret, none empty,
   each site flows into its secret and is OS-fed with no weak source *)
Theorem C19i_sites_cover_secrets : map fst FlowGraph.sites = FlowGraph.secrets.
Proof. vm_compute. reflexivity. Qed.
Print Assumptions C19i_sites_cover_secrets.

Theorem C19i_sites_ok : sites_ok FlowGraph.graph FlowGraph.seed_sites FlowGraph.sites = true.
Proof. vm_compute. reflexivity. Qed.
Print Assumptions C19i_sites_ok.

Theorem C19i_every_site_os_fed : forall secret l, In (secret, l) FlowGraph.sites ->
  l <> [] /\
  forall site, In site l ->
    flows FlowGraph.graph site secret /\
    (forall n k, flows FlowGraph.graph n site -> kind_at FlowGraph.graph n k -> k <> KPrng /\ k <> KTime /\ k <> KSeed) /\
    (exists n, flows FlowGraph.graph n site /\ kind_at FlowGraph.graph n KOS) /\
    (forall sd, In sd FlowGraph.seed_sites -> ~ flows FlowGraph.graph sd site).
Proof. exact (C19_every_site_os_fed _ _ _ _ C19i_secrets_ok C19i_sites_ok). Qed.
Print Assumptions C19i_every_site_os_fed.
