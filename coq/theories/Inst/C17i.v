(* C17 instantiated on the tables regenerated from the current tree (gen/ErrTables.v):
   specificErrors, errorMessages, defaultDCList as exported by verif_export.go. *)
From Coq Require Import String.
From Coq Require Import ZArith NArith List Lia Bool.
From MTV Require Import Base.Bytes Base.Outcome Base.Str Misc.RpcError Misc.RpcErrorProofs.
From MTVgen Require ErrTables.
Import ListNotations.
Open Scope N_scope.

Definition kind_of (k : N) : kind := match k with 0 => KInt | 1 => KString | _ => KOther end.

Definition shipped : table :=
  List.map (fun r => {| e_prefix := fst (fst r); e_suffix := snd (fst r); e_kind := kind_of (snd r) |})
           ErrTables.shipped_rows.
Definition shipped_cat : catalogue := ErrTables.shipped_messages.
Definition shipped_dcs : dctable := ErrTables.shipped_dcs.

(* --- the decidable conditions of the generic theorems, on today's tables --- *)

Theorem C17i_table_ok : table_ok shipped = true.
Proof. vm_compute. reflexivity. Qed.
Print Assumptions C17i_table_ok.

Theorem C17i_all_int : forallb (fun e => match e_kind e with KInt => true | _ => false end) shipped = true.
Proof. vm_compute. reflexivity. Qed.
Print Assumptions C17i_all_int.

Theorem C17i_suffixes_clean : suffixes_clean shipped = true.
Proof. vm_compute. reflexivity. Qed.
Print Assumptions C17i_suffixes_clean.

(* every parameterised name has a description with exactly one formatting verb *)
Theorem C17i_descs_ok : descs_ok shipped shipped_cat = true.
Proof. vm_compute. reflexivity. Qed.
Print Assumptions C17i_descs_ok.

(* the generated lists stand for Go maps: keys are unique *)
Theorem C17i_catalogue_keys_unique : keys_unique beq (List.map fst shipped_cat) = true.
Proof. vm_compute. reflexivity. Qed.
Print Assumptions C17i_catalogue_keys_unique.

Theorem C17i_dc_keys_unique :
  keys_unique Z.eqb (List.map fst shipped_dcs) = true /\ forallb in_int (List.map fst shipped_dcs) = true.
Proof. vm_compute. split; reflexivity. Qed.
Print Assumptions C17i_dc_keys_unique.

Definition entry_eqb (a b : entry) : bool :=
  beq (e_prefix a) (e_prefix b) && beq (e_suffix a) (e_suffix b) &&
  match e_kind a, e_kind b with KInt, KInt | KString, KString | KOther, KOther => true | _, _ => false end.

Lemma entry_eqb_eq a b : entry_eqb a b = true -> a = b.
Proof.
  destruct a as [p s k], b as [p' s' k']. unfold entry_eqb. cbn [e_prefix e_suffix e_kind].
  intros H. apply andb_true_iff in H. destruct H as [H Hk]. apply andb_true_iff in H. destruct H as [Hp Hs].
  apply beq_eq in Hp, Hs. subst. destruct k, k'; try discriminate; reflexivity.
Qed.
Print Assumptions entry_eqb_eq.

Theorem C17i_phone_migrate_row : In pm_entry shipped.
Proof.
  assert (H : existsb (entry_eqb pm_entry) shipped = true) by (vm_compute; reflexivity).
  apply existsb_exists in H. destruct H as (e & Hin & He). apply entry_eqb_eq in He. now subst.
Qed.
Print Assumptions C17i_phone_migrate_row.

(* --- the property on today's tables --- *)

Theorem C17i_total : forall s, expand shipped s <> Panic.
Proof.
  intros s. apply expand_total. pose proof C17i_table_ok as H. now apply table_ok_split in H.
Qed.
Print Assumptions C17i_total.

Theorem C17i_structured : forall dcs code s,
  exists e a, handle shipped shipped_cat dcs code s = Ok (e, a) /\
              to_native shipped shipped_cat code s = Ok e /\ n_code e = code.
Proof.
  intros dcs code s. pose proof C17i_table_ok as H. apply table_ok_split in H. destruct H as [Hk _].
  destruct (handle_total shipped shipped_cat dcs code s Hk) as (e & a & H1 & H2).
  destruct (to_native_total shipped shipped_cat code s Hk) as (e' & H3 & H4).
  exists e, a. repeat split; auto. congruence.
Qed.
Print Assumptions C17i_structured.

Lemma shipped_kind e : In e shipped -> e_kind e = KInt.
Proof.
  intros H. pose proof C17i_all_int as Ha. rewrite forallb_forall in Ha. specialize (Ha e H).
  destruct (e_kind e); congruence.
Qed.
Print Assumptions shipped_kind.

(* every shipped row, every Go int *)
Theorem C17i_expand : forall e n, In e shipped -> in_int n = true ->
  expand shipped (e_prefix e ++ dec n ++ e_suffix e) = Ok (e_prefix e ++ [c_X] ++ e_suffix e, AInt n).
Proof.
  intros e n He Hn. apply (expand_int shipped e n C17i_table_ok He (shipped_kind e He) Hn).
Qed.
Print Assumptions C17i_expand.

Theorem C17i_expand_only : forall s name n, expand shipped s = Ok (name, AInt n) ->
  exists e d, In e shipped /\ s = e_prefix e ++ d ++ e_suffix e /\ atoi d = Some n /\ name = native_name e.
Proof.
  intros s name n H. destruct (expand_int_inv shipped s name n C17i_suffixes_clean H) as (e & d & H1 & _ & H2 & H3 & H4).
  exists e, d. auto.
Qed.
Print Assumptions C17i_expand_only.

Theorem C17i_bad_parameter : forall e x, In e shipped -> atoi x = None ->
  expand shipped (e_prefix e ++ x ++ e_suffix e) = Ok (e_prefix e ++ x ++ e_suffix e, ANone).
Proof.
  intros e x He Hx. apply (expand_bad_parameter shipped e x C17i_table_ok He (shipped_kind e He) Hx).
Qed.
Print Assumptions C17i_bad_parameter.

Theorem C17i_descriptions : forall code e n, In e shipped -> in_int n = true ->
  exists pre v post,
    cat_lookup (native_name e) shipped_cat = Some (pre ++ c_pct :: v :: post) /\
    ~ In c_pct pre /\ ~ In c_pct post /\
    to_native shipped shipped_cat code (e_prefix e ++ dec n ++ e_suffix e)
    = Ok {| n_code := code; n_message := native_name e;
            n_description := Some (pre ++ dec n ++ post); n_info := AInt n |}.
Proof.
  intros code e n He Hn.
  apply (to_native_int shipped shipped_cat code e n C17i_table_ok C17i_descs_ok He (shipped_kind e He) Hn).
Qed.
Print Assumptions C17i_descriptions.

(* PHONE_MIGRATE_n for every DC of the default list: switch to its address; any other n: error *)
Theorem C17i_migrate_default : forall code n addr, In (n, addr) shipped_dcs ->
  exists e, handle shipped shipped_cat shipped_dcs code (s_phone_migrate_ ++ dec n) = Ok (e, Switch addr) /\
            n_info e = AInt n /\ n_code e = code.
Proof.
  intros code n addr Hin. destruct C17i_dc_keys_unique as [Hu Hr].
  assert (Hn : in_int n = true).
  { rewrite forallb_forall in Hr. apply Hr. apply in_map_iff. exists (n, addr). auto. }
  destruct (handle_migrate shipped shipped_cat shipped_dcs code n C17i_table_ok C17i_phone_migrate_row Hn)
    as (e & Hnat & _ & Hi & Hh).
  rewrite (dc_lookup_unique n addr shipped_dcs Hu Hin) in Hh.
  exists e. repeat split; auto.
  destruct (to_native_total shipped shipped_cat code (s_phone_migrate_ ++ dec n)) as (e' & H1 & H2).
  - pose proof C17i_table_ok as H. now apply table_ok_split in H.
  - congruence.
Qed.
Print Assumptions C17i_migrate_default.

Theorem C17i_migrate_unconfigured : forall dcs code n, in_int n = true -> ~ In n (List.map fst dcs) ->
  exists e, handle shipped shipped_cat dcs code (s_phone_migrate_ ++ dec n) = Ok (e, NoSuchDC).
Proof.
  intros dcs code n Hn Hnot.
  destruct (handle_migrate shipped shipped_cat dcs code n C17i_table_ok C17i_phone_migrate_row Hn)
    as (e & _ & _ & _ & Hh).
  apply dc_lookup_none in Hnot. rewrite Hnot in Hh. eauto.
Qed.
Print Assumptions C17i_migrate_unconfigured.

(* concrete texts of the property's quantifier, on today's tables *)
Definition n_description_of (o : outcome native) : option bytes :=
  match o with Ok e => n_description e | _ => None end.

Example C17i_examples :
  expand shipped (lit "FLOOD_WAIT_abc") = Ok (lit "FLOOD_WAIT_abc", ANone) /\
  expand shipped (lit "PHONE_MIGRATE_") = Ok (lit "PHONE_MIGRATE_", ANone) /\
  expand shipped (lit "FLOOD_WAIT_9223372036854775808") = Ok (lit "FLOOD_WAIT_9223372036854775808", ANone) /\
  expand shipped (lit "FLOOD_WAIT_9223372036854775807") = Ok (lit "FLOOD_WAIT_X", AInt 9223372036854775807) /\
  expand shipped (lit "FILE_PART_MISSING") = Ok (lit "FILE_PART_MISSING", ANone) /\
  expand shipped (lit "FILE_PART_-3_MISSING") = Ok (lit "FILE_PART_X_MISSING", AInt (-3)) /\
  expand shipped (lit "INTERDC_2_CALL_ERROR") = Ok (lit "INTERDC_X_CALL_ERROR", AInt 2) /\
  expand shipped (lit "INTERDC_2_CALL_RICH_ERROR") = Ok (lit "INTERDC_X_CALL_RICH_ERROR", AInt 2) /\
  expand shipped (lit "FLOOD_TEST_PHONE_WAIT_+5") = Ok (lit "FLOOD_TEST_PHONE_WAIT_X", AInt 5) /\
  expand shipped (lit "%d%s%n") = Ok (lit "%d%s%n", ANone) /\
  n_description_of (to_native shipped shipped_cat 420 (lit "FLOOD_WAIT_86400"))
    = Some (lit "A wait of 86400 seconds is required") /\
  n_description_of (to_native shipped shipped_cat 400 (lit "ABOUT_TOO_LONG"))
    = Some (lit "About string too long") /\
  omap snd (handle shipped shipped_cat shipped_dcs 303 (lit "PHONE_MIGRATE_X")) = Ok Return /\
  omap snd (handle shipped shipped_cat shipped_dcs 303 (lit "PHONE_MIGRATE_9")) = Ok NoSuchDC.
Proof. vm_compute. repeat split; reflexivity. Qed.
Print Assumptions C17i_examples.

(* the pinned code on the same tables: the two panics *)
Example C17i_refuted_before_fix :
  expand_unfixed shipped (lit "FLOOD_WAIT_abc") = Panic /\
  expand_unfixed shipped (lit "PHONE_MIGRATE_") = Panic /\
  expand_unfixed shipped (lit "FILE_PART_MISSING") = Panic /\
  process_err_unfixed shipped_dcs (lit "PHONE_MIGRATE_X") ANone = Panic.
Proof. vm_compute. repeat split; reflexivity. Qed.
Print Assumptions C17i_refuted_before_fix.

(* several clients, today's default list: a client that never configured DC x itself and
   whose x is not in the default list gets "DC not found", whatever the other clients did *)
Theorem C17i_unconfigured_per_client : forall h1 a0 h2 c x,
  length (crun shipped_dcs [] h1) = c ->
  dc_lookup x (own_sets c h2) = None -> ~ In x (List.map fst shipped_dcs) ->
  observe (crun shipped_dcs [] (h1 ++ NewClient a0 :: h2)) c s_phone_migrate_x (AInt x) = Some (Ok NoSuchDC).
Proof.
  intros h1 a0 h2 c x Hl Hown Hd. rewrite (observe_migrate shipped_dcs h1 a0 h2 c x Hl), Hown.
  apply dc_lookup_none in Hd. now rewrite Hd.
Qed.
Print Assumptions C17i_unconfigured_per_client.

Theorem C17i_default_per_client : forall h1 a0 h2 c x addr,
  length (crun shipped_dcs [] h1) = c ->
  dc_lookup x (own_sets c h2) = None -> In (x, addr) shipped_dcs ->
  observe (crun shipped_dcs [] (h1 ++ NewClient a0 :: h2)) c s_phone_migrate_x (AInt x) = Some (Ok (Switch addr)).
Proof.
  intros h1 a0 h2 c x addr Hl Hown Hin. rewrite (observe_migrate shipped_dcs h1 a0 h2 c x Hl), Hown.
  destruct C17i_dc_keys_unique as [Hu _]. now rewrite (dc_lookup_unique x addr shipped_dcs Hu Hin).
Qed.
Print Assumptions C17i_default_per_client.
