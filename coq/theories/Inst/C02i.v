(* C02 instantiated on the registry and schema text regenerated from the tree. *)
From Coq Require Import String.
From Coq Require Import NArith List Bool.
From MTV Require Import Base.Bytes Base.Str TL.Types TL.Codec TL.Typing TL.TLText TL.Match TL.Spec.
From MTVgen Require Import SchemaText Registry.
Import ListNotations.
Open Scope N_scope.

Definition api := defs (parse_lines false (map lit api_lines)).
Definition mt := defs (parse_lines false (map lit mtproto_lines)).

(* every constructor id of the schemas is found again by the spec's lookup (ids are unique) *)
Fixpoint nodup_n (l : list N) : bool := match l with [] => true | x :: r => negb (mem x r) && nodup_n r end.
Theorem C02i_schema_ids_unique : nodup_n (map c_id api) = true /\ nodup_n (map c_id mt) = true.
Proof. vm_compute. split; reflexivity. Qed.
Print Assumptions C02i_schema_ids_unique.

From MTV Require Import Base.Outcome TL.RoundTrip TL.MatchProofs TL.SpecProofs.

Definition schema := (api ++ mt)%list.
Definition tbl := kind_table shipped api.

Fixpoint indexed {A} (i : N) (l : list A) : list (N * A) :=
  match l with [] => [] | x :: r => (i, x) :: indexed (i + 1) r end.

(* every struct type whose constructor id is defined by the API schema matches its schema line
   (so C02_encode_is_spec applies to every value built from these types) *)
Definition api_ids := map c_id api.
Theorem C02i_api_structs_in_schema :
  forallb (fun p => match s_crc (snd p) with
                    | Some k => if mem k api_ids then struct_in_schema shipped api tbl (fst p) else true
                    | None => true end) (indexed 0 shipped_structs) = true.
Proof. vm_compute. reflexivity. Qed.
Print Assumptions C02i_api_structs_in_schema.

(* instance: for today's types and today's schema text *)
Theorem C02i_encode_is_spec_shipped : forall v bs,
  all_in_schema shipped api tbl v = true -> enc shipped v = Ok bs -> spec api (abs shipped v) = Some bs.
Proof. exact (encode_is_spec shipped api tbl). Qed.
Print Assumptions C02i_encode_is_spec_shipped.

(* ---- the service schema (schemes/mtproto.tl): the only lines with int128 / int256 and the
   key-exchange objects ----
   The client (de)serialises through the generic walk exactly the definitions listed in
   [wire_used] (the same list as Inst/C13i.v: what internal/mtproto/objects and the handshake put on or
   take off the wire with their field layout).  Each of their struct types matches its line of
   mtproto.tl, so C02_encode_is_spec applies, with S := mt, to every value built from them. *)
Definition wire_used := map lit
  ["req_pq"; "req_DH_params"; "set_client_DH_params"; "ping"; "msgs_ack"; "p_q_inner_data"; "client_DH_inner_data";
   "resPQ"; "server_DH_params_ok"; "server_DH_params_fail"; "server_DH_inner_data"; "dh_gen_ok"; "dh_gen_retry"; "dh_gen_fail";
   "rpc_result"; "rpc_error"; "pong"; "new_session_created"; "bad_msg_notification"; "bad_server_salt"]%string.
Definition mt_wire := filter (fun c => list_contains wire_used (c_name c)) mt.
Definition mt_wire_ids := map c_id mt_wire.
Definition mt_tbl := kind_table shipped mt.

(* the struct types carrying a wire-used service id: one per definition, every one in the schema *)
Definition mt_wire_structs := filter (fun p => match s_crc (snd p) with Some k => mem k mt_wire_ids | None => false end) (indexed 0 shipped_structs).
Theorem C02i_service_structs_in_schema :
  length mt_wire = length wire_used /\
  length mt_wire_structs = length wire_used /\
  forallb (fun p => struct_in_schema shipped mt mt_tbl (fst p)) mt_wire_structs = true.
Proof. vm_compute. repeat split. Qed.
Print Assumptions C02i_service_structs_in_schema.

Theorem C02i_encode_is_spec_service : forall v bs,
  all_in_schema shipped mt mt_tbl v = true -> enc shipped v = Ok bs -> spec mt (abs shipped v) = Some bs.
Proof. exact (encode_is_spec shipped mt mt_tbl). Qed.
Print Assumptions C02i_encode_is_spec_service.

(* every line of mtproto.tl that has an int128 / int256 parameter is one of them *)
Definition uses_big (c : comb) : bool :=
  existsb (fun p => match p_ty p with PPlain TTInt128 | PPlain TTInt256 => true | _ => false end) (c_params c).
Theorem C02i_int128_lines_covered :
  forallb (fun c => negb (uses_big c) || list_contains wire_used (c_name c)) mt = true /\
  existsb uses_big mt = true /\ existsb uses_big api = false.
Proof. vm_compute. repeat split. Qed.
Print Assumptions C02i_int128_lines_covered.

(* beyond the wire-used ones: EVERY struct type that carries an id of mtproto.tl matches its line,
   except the two named here, which cannot be covered:
   - future_salts#ae500895 `salts:vector<future_salt>`: the lower-case `vector` is a BARE vector (count and
     bare items, no 0x1cb5c415, no constructor id per item); objects.FutureSalts has `Salts []*FutureSalt`,
     which the generic walk writes as a boxed Vector of boxed objects.  The Go layout is not the schema's
     (the client never sends or decodes it: get_future_salts is not implemented; reported by C02 when the
     comparison is not restricted, see DESIGN.md 11.3).
   - msg_copy#e06046b2 `orig_message:Message`: `message` is a bare type without id (line `message msg_id:long ...`
     has no `#id`), objects.MsgCopy holds a *Message that is not a tl.Object: no descriptor exists for the field
     (translator: `bad:*objects.Message`); a value cannot be built through the generic walk at all.
   msg_container and gzip_packed have hand-written (de)serialisers (RContainer / RGzip, modelled in TL/Codec.v,
   round trip in C01); destroy_session_ok/none, rpc_drop_answer, get_future_salts, ping_delay_disconnect,
   destroy_session, http_wait have no Go type. *)
Definition mt_ids := map c_id mt.
Definition mt_uncovered : list N := [2924480661 (* future_salts *); 3764405938 (* msg_copy *)].
Theorem C02i_all_service_structs_in_schema :
  forallb (fun p => match s_crc (snd p) with
                    | Some k => if mem k mt_ids && negb (mem k mt_uncovered) then struct_in_schema shipped mt mt_tbl (fst p) else true
                    | None => true end) (indexed 0 shipped_structs) = true /\
  forallb (fun k => negb (mem k mt_wire_ids)) mt_uncovered = true.
Proof. vm_compute. split; reflexivity. Qed.
Print Assumptions C02i_all_service_structs_in_schema.

(* both schemas at once: a service object carrying API objects (rpc_result's `result:Object`, the
   content of a container) is a value over the union.  Ids are unique across the two files, so the
   spec's lookup finds the same line in the union as in the file that defines it. *)
Definition both_tbl := kind_table shipped schema.
Definition covered_ids := (api_ids ++ filter (fun k => negb (mem k mt_uncovered)) mt_ids)%list.
Theorem C02i_all_structs_in_schema :
  nodup_n (map c_id schema) = true /\
  forallb (fun p => match s_crc (snd p) with
                    | Some k => if mem k covered_ids then struct_in_schema shipped schema both_tbl (fst p) else true
                    | None => true end) (indexed 0 shipped_structs) = true.
Proof. vm_compute. split; reflexivity. Qed.
Print Assumptions C02i_all_structs_in_schema.

Theorem C02i_encode_is_spec_both : forall v bs,
  all_in_schema shipped schema both_tbl v = true -> enc shipped v = Ok bs -> spec schema (abs shipped v) = Some bs.
Proof. exact (encode_is_spec shipped schema both_tbl). Qed.
Print Assumptions C02i_encode_is_spec_both.
