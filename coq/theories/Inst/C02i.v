(* C02 instantiated on the registry and schema text regenerated from the tree. *)
From Coq Require Import String.
From Coq Require Import NArith List Bool.
From MTV Require Import Base.Bytes Base.Str TL.Types TL.Codec TL.Typing TL.TLText TL.Match TL.Spec.
From MTVgen Require Import SchemaText Registry.
Import ListNotations.
Open Scope N_scope.

Definition api := defs (parse_lines false (map lit api_lines)).
Definition mt := defs (parse_lines false (map lit mtproto_lines)).

(* every constructor id of the schemas is found again by the spec's lookup (ids are unique) *)
Fixpoint nodup_n (l : list N) : bool := match l with [] => true | x :: r => negb (mem x r) && nodup_n r end.
Theorem C02i_schema_ids_unique : nodup_n (map c_id api) = true /\ nodup_n (map c_id mt) = true.
Proof. vm_compute. split; reflexivity. Qed.
Print Assumptions C02i_schema_ids_unique.

From MTV Require Import Base.Outcome TL.RoundTrip TL.MatchProofs TL.SpecProofs.

Definition schema := (api ++ mt)%list.
Definition tbl := kind_table shipped api.

Fixpoint indexed {A} (i : N) (l : list A) : list (N * A) :=
  match l with [] => [] | x :: r => (i, x) :: indexed (i + 1) r end.

(* every struct type whose constructor id is defined by the API schema matches its schema line
   (so C02_encode_is_spec applies to every value built from these types) *)
Definition api_ids := map c_id api.
Theorem C02i_api_structs_in_schema :
  forallb (fun p => match s_crc (snd p) with
                    | Some k => if mem k api_ids then struct_in_schema shipped api tbl (fst p) else true
                    | None => true end) (indexed 0 shipped_structs) = true.
Proof. vm_compute. reflexivity. Qed.
Print Assumptions C02i_api_structs_in_schema.

(* instance: for today's types and today's schema text *)
Theorem C02i_encode_is_spec_shipped : forall v bs,
  all_in_schema shipped api tbl v = true -> enc shipped v = Ok bs -> spec api (abs shipped v) = Some bs.
Proof. exact (encode_is_spec shipped api tbl). Qed.
Print Assumptions C02i_encode_is_spec_shipped.
