(* C02 instantiated on the registry and schema text regenerated from the tree. *)
From Coq Require Import String.
From Coq Require Import NArith List Bool.
From MTV Require Import Base.Bytes Base.Str TL.Types TL.Codec TL.Typing TL.TLText TL.Match TL.Spec.
From MTVgen Require Import SchemaText Registry.
Import ListNotations.
Open Scope N_scope.

Definition api := defs (parse_lines false (map lit api_lines)).
Definition mt := defs (parse_lines false (map lit mtproto_lines)).

(* every constructor id of the schemas is found again by the spec's lookup (ids are unique) *)
Fixpoint nodup_n (l : list N) : bool := match l with [] => true | x :: r => negb (mem x r) && nodup_n r end.
Theorem C02i_schema_ids_unique : nodup_n (map c_id api) = true /\ nodup_n (map c_id mt) = true.
Proof. vm_compute. split; reflexivity. Qed.
Print Assumptions C02i_schema_ids_unique.
