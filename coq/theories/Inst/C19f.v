(* C19, freshness, instantiated on the draw log recorded from the real code of the current tree
   (harness/root/cmd/c19 fresh -> gen/DrawLog.v, rewritten on every run): crypto/rand.Reader was a
   recording stream; [reads] are its Read(offset, len) calls in order, [handed] the ranges of the stream
   that the secrets handed out occupy (nonce, new_nonce, DH exponent, SRP a, and a session id when it is
   taken from the stream; for a value that is no literal slice - rejection sampling, b mod (p-1) - the
   Reads made during its call), [unlocated] the number of secrets the harness could justify neither way.
   The ex_ definitions are the same for the run of real key exchanges (real makeAuthKey against the
   scripted server): what the SERVER received. *)
From Coq Require Import NArith List.
From MTV Require Import Misc.Fresh Misc.FreshProofs Props.C19.
From MTVgen Require DrawLog.
Import ListNotations.
Open Scope N_scope.

(* the recorder is the stream model: the i-th Read got exactly the i-th range of [draws] *)
Theorem C19f_recorder_is_stream : DrawLog.reads = draws 0 (map snd DrawLog.reads) /\ DrawLog.served = total (map snd DrawLog.reads).
Proof. vm_compute. split; reflexivity. Qed.
Print Assumptions C19f_recorder_is_stream.

(* every secret was found in the served stream (nothing from math/rand, the clock, zero bytes) *)
Theorem C19f_all_located : DrawLog.unlocated = 0 /\ (40 <=? N.of_nat (length DrawLog.handed)) = true.
Proof. vm_compute. split; reflexivity. Qed.
Print Assumptions C19f_all_located.

(* ... inside the served prefix, and no byte was handed out twice over the whole run *)
Theorem C19f_fresh : fresh_ok DrawLog.served DrawLog.handed = true.
Proof. vm_compute. reflexivity. Qed.
Print Assumptions C19f_fresh.

Theorem C19f_disjoint : Forall (fun r => r_end r <= DrawLog.served) DrawLog.handed /\ ForallOrdPairs disjoint DrawLog.handed.
Proof. exact (proj1 (C19_fresh_ok_exact _ _) C19f_fresh). Qed.
Print Assumptions C19f_disjoint.

(* the same for the values the scripted server received in the real key exchanges *)
Theorem C19f_exchange_recorder_is_stream :
  DrawLog.ex_reads = draws 0 (map snd DrawLog.ex_reads) /\ DrawLog.ex_served = total (map snd DrawLog.ex_reads).
Proof. vm_compute. split; reflexivity. Qed.
Print Assumptions C19f_exchange_recorder_is_stream.

Theorem C19f_exchange_all_located : DrawLog.ex_unlocated = 0 /\ (48 <=? N.of_nat (length DrawLog.ex_handed)) = true.
Proof. vm_compute. split; reflexivity. Qed.
Print Assumptions C19f_exchange_all_located.

Theorem C19f_exchange_fresh : fresh_ok DrawLog.ex_served DrawLog.ex_handed = true.
Proof. vm_compute. reflexivity. Qed.
Print Assumptions C19f_exchange_fresh.
