#!/bin/sh
# regenerate the Coq Makefile from _CoqProject + the list of .v files present
cd "$(dirname "$0")"
{ cat _CoqProject; find theories gen -name '*.v' | sort; } > _CoqProject.full
coq_makefile -f _CoqProject.full -o Makefile.coq >/dev/null
