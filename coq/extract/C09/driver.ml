(* C09/C10 driver for the extracted client model: [step2] of Client/Live.v (= Client/Model.v with the
   repaired receive loop: a message that cannot be handled is acknowledged and skipped instead of
   killing the loop), started keyed, without Warnings channel and handler.
   Numbers cross the boundary as OCaml Int64 (server msg ids are unix time << 32).
     model_C09 replay   < trace      replays the A lines of a trace recorded by harness/root/cmd/c09:
                                     prints  M idx n projection   and   MF idx final-state
     model_C09 enum k0 k1 gz limit   enumerates every maximal history of two callers (one call each of result
                                     kinds k0, k1) against a server that answers in any order, plain or in
                                     one container; prints them as scripts for `c09 run script`. *)

let rec pos_of_i64 (i : int64) : positive =
  if i = 1L then XH
  else if Int64.logand i 1L = 0L then XO (pos_of_i64 (Int64.shift_right_logical i 1))
  else XI (pos_of_i64 (Int64.shift_right_logical i 1))
let z_of_i64 (i : int64) : z =
  if i = 0L then Z0 else if Int64.compare i 0L > 0 then Zpos (pos_of_i64 i) else Zneg (pos_of_i64 (Int64.neg i))
let rec i64_of_pos (p : positive) : int64 =
  match p with XH -> 1L | XO q -> Int64.mul 2L (i64_of_pos q) | XI q -> Int64.add (Int64.mul 2L (i64_of_pos q)) 1L
let i64_of_z (x : z) : int64 = match x with Z0 -> 0L | Zpos p -> i64_of_pos p | Zneg p -> Int64.neg (i64_of_pos p)
let zs (s : string) : z = z_of_i64 (Int64.of_string s)
let sz (x : z) : string = Int64.to_string (i64_of_z x)
let z_of_int (i : int) : z = z_of_i64 (Int64.of_int i)
let int_of_z (x : z) : int = Int64.to_int (i64_of_z x)
let rec nat_of_int (i : int) : nat = if i <= 0 then O else S (nat_of_int (i - 1))
let rec int_of_nat (n : nat) : int = match n with O -> 0 | S m -> 1 + int_of_nat m

let kind_of_string = function
  | "obj" -> KObj | "bool" -> KBool | "vecbare" -> KVecBare | "vecobj" -> KVecObj
  | s -> failwith ("kind " ^ s)
let string_of_kind = function KObj -> "obj" | KBool -> "bool" | KVecBare -> "vecbare" | KVecObj -> "vecobj"

(* body parser over a token list *)
let rec parse_body (tok : string list) : body * string list =
  match tok with
  | "res" :: r :: g :: k :: p :: rest ->
    (BResult (zs r, g = "1", kind_of_string k, zs p), rest)
  | "err" :: r :: g :: p :: rest ->
    (BError (zs r, g = "1", false, zs p), rest)
  | "gz" :: rest -> let (b, rest') = parse_body rest in (BGzip b, rest')
  | "cont" :: n :: rest ->
    let n = int_of_string n in
    let rec items i tok acc =
      if i = 0 then (List.rev acc, tok)
      else match tok with
        | sid :: seq :: rest ->
          let (b, rest') = parse_body rest in
          items (i - 1) rest' (((zs sid, zs seq), b) :: acc)
        | _ -> failwith "container item"
    in
    let (its, rest') = items n rest [] in (BContainer its, rest')
  | "pong" :: rest -> (BPong, rest)
  | "ack" :: rest -> (BAck, rest)
  | "upd" :: rest -> (BUpdate, rest)
  | "newsess" :: s :: rest -> (BNewSession (zs s), rest)
  | "badsalt" :: i :: s :: rest -> (BBadSalt (zs i, zs s), rest)
  | "badmsg" :: i :: rest -> (BBadMsg (zs i), rest)
  | "garbage" :: rest -> (BGarbage, rest)
  | t :: _ -> failwith ("body " ^ t)
  | [] -> failwith "empty body"

let cpoint = function
  | CIdle -> "done" | CLock -> "prelock" | CReg _ -> "idgen" | CWritten _ -> "written"
  | CRecv _ -> "prerecv" | CStuck -> "stuck"
let rpoint = function
  | RRead -> "read" | RDispatch _ -> "dispatch" | RDeliver _ -> "deliver" | RAckLock _ -> "prelock"
  | RAckReg _ -> "idgen" | RAckWritten _ -> "written" | RAckRecv _ -> "prerecv" | RNotify _ -> "notify"
  | RReconnect -> "reconnect" | RDead -> "dead"

let getc_i (t : int) (s : state) : caller =
  let rec nth i l = match l with [] -> idle_caller | x :: r -> if i = 0 then x else nth (i - 1) r in
  nth t s.callers

(* a result is (kind, token); the harness derives the whole value from the token (vector length class
   token mod 7: 1 2 17 0 1500 9000 20000 elements, the token in the LAST element) and prints kind:token only if every
   element / field it got back is the one sent; an empty vector cannot carry the token *)
let show_ret = function
  | RetVal (KBool, p) -> "bool:" ^ string_of_int ((int_of_z p) land 1)
  | RetVal ((KVecBare | KVecObj) as k, p) when (int_of_z p) mod 7 = 3 -> string_of_kind k ^ ":empty"
  | RetVal (k, p) -> string_of_kind k ^ ":" ^ sz p
  | RetErr p -> "err:" ^ sz p
  | RetNil -> "nil"

(* projection of the frame written by this step, if any *)
let show_written (pre : state) (post : state) : string list =
  match wire_out post.elog, wire_out pre.elog with
  | w :: prev, old when List.length (w :: prev) = List.length old + 1 ->
    let id = i64_of_z w.w_id in
    let inc = match prev with [] -> "1" | p :: _ -> if Int64.compare id (i64_of_z p.w_id) > 0 then "1" else "0" in
    let m4 = Int64.to_int (Int64.rem (Int64.add (Int64.rem id 4L) 4L) 4L) in
    let b4 = match prev with [] -> "0" | p :: _ -> if id = Int64.add (i64_of_z p.w_id) 4L then "1" else "0" in
    (match w.w_kind with
     | WReq _ -> [Printf.sprintf "W:req:%s:%d:%s:b%s" (sz w.w_seq) m4 inc b4]
     | WAck sid -> [Printf.sprintf "W:ack:%s:%d:%s:b%s:ack=%s" (sz w.w_seq) m4 inc b4 (sz sid)])
  | _ -> []

let project (pre2 : state2) (l : label) (post2 : state2) : string =
  let pre = pre2.base and post = post2.base in
  let items =
    match l with
    | LCall (t, _) -> let t = int_of_nat t in [Printf.sprintf "c%d@%s" t (cpoint (getc_i t post).c_pc)]
    | LStep (ACaller t, _) ->
      let t = int_of_nat t in
      (* the block that registers and writes ends when the bytes are out ("wire"): the harness wraps the
         transport; the model's CWritten / RAckWritten = written, WriteMsg or sendPacket not yet returned *)
      let pt = match (getc_i t pre).c_pc, (getc_i t post).c_pc with CReg _, CWritten _ -> "wire" | _, p -> cpoint p in
      Printf.sprintf "c%d@%s" t pt :: show_written pre post
    | LStep (ARx, _) ->
      let pt = match pre.rx, post.rx with RAckReg _, RAckWritten _ -> "wire" | _, p -> rpoint p in
      let base = ("rx@" ^ pt) :: show_written pre post in
      (match pre.rx with
       | RDeliver (_, (t, _), _, _) ->
         let t = int_of_nat t in
         let c = getc_i t post in
         let r = if List.length post.rets = List.length pre.rets + 1
           then (match post.rets with (_, r) :: _ -> ["ret:" ^ show_ret r] | [] -> []) else [] in
         base @ [Printf.sprintf "c%d@%s" t (cpoint c.c_pc)] @ r
       | _ -> base)
    | LSrv _ -> ["ok"]
    | LClose -> ["ok"]
  in
  String.concat " " items

let parse_label (tok : string list) : label option =
  match tok with
  | "call" :: t :: h :: _ -> Some (LCall (nat_of_int (int_of_string t), h = "1"))
  | ["step"; a; clk] ->
    if String.length clk > 0 && clk.[0] = 'x' then None
    else
      let c = zs clk in
      if a = "rx" then Some (LStep (ARx, c))
      else Some (LStep (ACaller (nat_of_int (int_of_string (String.sub a 1 (String.length a - 1)))), c))
  | "srv" :: sid :: seq :: rest ->
    let (b, _) = parse_body rest in
    Some (LSrv ((zs sid, zs seq), b))
  | ["close"] -> Some LClose
  | _ -> None

let start2 : state2 = init2 { cf_warn = WNil; cf_handler = false; cf_keyed = true }
let step_l (s : state2) (l : label) : state2 option = step2 s (L1 l)

let replay () =
  let st = ref (Some start2) in
  (* the finer system of Client/Rendezvous.v beside the canonical replay: after a commit (`commit rx`) the next
     action - the step that makes the receiver ready - is also given to xstep, and what xstep reaches with it must
     be what step2 reaches with that action AND the loop's hand-over that follows (C09_early_handover_refines) *)
  let shadow : xstate option ref = ref None in
  let shadow_after : xstate option ref = ref None in
  iter_lines (fun l ->
    match split_tab l with
    | "B" :: _ -> st := Some start2; shadow := None; shadow_after := None
    | "A" :: idx :: n :: "commit rx" :: _ ->
      (match !st with
       | None -> Printf.printf "M\t%s\t%s\tREJECTED-EARLIER\n" idx n
       | Some s ->
         (match step_l s (LStep (ARx, Z0)), xstep (plain s) (L1 (LStep (ARx, Z0))) with
          | None, Some x when x.committed && x.cur = s -> shadow := Some x; Printf.printf "M\t%s\t%s\tcommitted\n" idx n
          | Some _, _ -> Printf.printf "M\t%s\t%s\tREJECT:the-receiver-listens(no-commit)\n" idx n; st := None
          | _, _ -> Printf.printf "M\t%s\t%s\tREJECT:not-a-send\n" idx n; st := None))
    | "P" :: _ :: "seq" :: v :: _ ->
      (* the session starts with this seq_no (the client's counter was set before the run) *)
      (match !st with Some s -> st := Some { s with base = { s.base with seqno = zs v } } | None -> ())
    | "A" :: idx :: n :: lbl :: _ when String.length lbl > 6 && String.sub lbl 0 6 = "probe " ->
      (* a sender released from "prelock" while another one holds the send lock: the model refuses the step *)
      (match !st with
       | None -> Printf.printf "M\t%s\t%s\tREJECTED-EARLIER\n" idx n
       | Some s ->
         let a = String.sub lbl 6 (String.length lbl - 6) in
         let lab = if a = "rx" then LStep (ARx, Z0)
           else LStep (ACaller (nat_of_int (int_of_string (String.sub a 1 (String.length a - 1)))), Z0) in
         (match step_l s lab with
          | None -> Printf.printf "M\t%s\t%s\tblocked\n" idx n
          | Some _ -> Printf.printf "M\t%s\t%s\tREJECT:model-lets-it-pass\n" idx n; st := None))
    | "A" :: idx :: n :: lbl :: _ when String.length lbl > 8 && String.sub lbl 0 8 = "stutter " ->
      (* WriteMsg returns and the sender reaches its "written" yield: no model step, the actor must be in
         the state "written, not yet returned" *)
      (match !st with
       | None -> Printf.printf "M\t%s\t%s\tREJECTED-EARLIER\n" idx n
       | Some s ->
         let a = String.sub lbl 8 (String.length lbl - 8) in
         let ok = if a = "rx" then (match s.base.rx with RAckWritten _ -> true | _ -> false)
           else (match (getc_i (int_of_string (String.sub a 1 (String.length a - 1))) s.base).c_pc with CWritten _ -> true | _ -> false) in
         if ok then Printf.printf "M\t%s\t%s\t%s@written\n" idx n a
         else (Printf.printf "M\t%s\t%s\tREJECT:not-after-a-write\n" idx n; st := None))
    | "A" :: idx :: n :: lbl :: _ ->
      (match !st with
       | None -> Printf.printf "M\t%s\t%s\tREJECTED-EARLIER\n" idx n
       | Some s ->
         (match parse_label (String.split_on_char ' ' lbl) with
          | None -> Printf.printf "M\t%s\t%s\tREJECT:unrepresentable-label\n" idx n; st := None
          | Some lab ->
            (match step_l s lab with
             | None -> Printf.printf "M\t%s\t%s\tREJECT:not-enabled\n" idx n; st := None
             | Some s' ->
               let is_rx = (match lab with LStep (ARx, _) -> true | _ -> false) in
               let ok () = Printf.printf "M\t%s\t%s\t%s\n" idx n (project s lab s'); st := Some s' in
               (match !shadow, !shadow_after with
                | _, Some x' when is_rx ->
                  (* the canonical hand-over: the state must be the one the finer system has reached already *)
                  shadow_after := None;
                  if x'.cur = s' then ok ()
                  else (Printf.printf "M\t%s\t%s\tREJECT:finer-system-differs\n" idx n; st := None)
                | _, Some x' ->
                  (* somebody else moves before the canonical hand-over is written down (a sender that got the lock) *)
                  (match xstep x' (L1 lab) with
                   | Some x'' -> shadow_after := Some x''; ok ()
                   | None -> Printf.printf "M\t%s\t%s\tREJECT:finer-system-refuses\n" idx n; st := None)
                | Some x, None ->
                  (* after the commit: the finer system takes the action (and completes the send if it can) *)
                  (match xstep x (L1 lab) with
                   | Some x' when not x'.committed -> shadow := None; shadow_after := Some x'; ok ()
                   | Some x' -> shadow := Some x'; ok ()
                   | None -> Printf.printf "M\t%s\t%s\tREJECT:finer-system-refuses\n" idx n; st := None)
                | None, None -> ok ()))))
    | "F" :: idx :: _ ->
      (match !st with
       | Some s2 ->
         let s = s2.base in
         Printf.printf "MF\t%s\tseq=%s table=%d hints=%d\tunacked=%d rx=%s failed=%d\n" idx (sz s.seqno)
           (List.length s.table) (List.length s.hints) (List.length (unacked s.elog)) (rpoint s.rx) (int_of_nat s2.failed)
       | None -> Printf.printf "MF\t%s\tREJECTED\n" idx)
    | _ -> ())

(* ---- exhaustive enumeration of a two-caller scope -------------------------------------- *)

let enum_pass k0 k1 gz stride =
  let kinds = [| k0; k1 |] in
  let hinted k = (k = "vecbare" || k = "vecobj") in
  let count = ref 0 in
  let total = ref 0 in
  let emit (path : string list) =
    incr total;
    if stride > 0 && (!total - 1) mod stride = 0 then begin
      incr count;
      Printf.printf "S %d 2 enum-%s-%s-gz%s\n" !count k0 k1 gz;
      List.iter print_endline (List.rev path);
      print_endline "E"
    end in
  (* ids of the calls once written, which of them the server has answered *)
  (* wire.(a): actor a (0, 1 = callers, 2 = receive loop) has its bytes out but WriteMsg has not returned: its next
     step in the real client is the stutter to "written" (no model step); everybody else may move in between *)
  let rec go (s2 : state2) (path : string list) (called : bool array) (answered : bool array) (wire : bool array) (clk : int) (nsid : int) =
    let moves = ref [] in
    let s = s2.base in
    let add0 lab line upd wa = match step_l s2 lab with
      | Some s' ->
        let w = Array.copy wire in
        (match wa with
         | Some a ->
           let wrote = List.length (wire_out s'.base.elog) = List.length (wire_out s.elog) + 1 in
           if wrote then w.(a) <- true
         | None -> ());
        moves := (s', line, upd, w) :: !moves
      | None -> () in
    let add lab line upd = add0 lab line upd None in
    let stutter a line = let w = Array.copy wire in w.(a) <- false; moves := (s2, line, (fun _ _ -> ()), w) :: !moves in
    for t = 0 to 1 do
      if not called.(t) then
        add (LCall (nat_of_int t, hinted kinds.(t)))
          (Printf.sprintf "call %d %s %s %d" t kinds.(t) (if hinted kinds.(t) then "1" else "0") (100 + t))
          (fun c a -> c.(t) <- true);
      if wire.(t) then stutter t (Printf.sprintf "step c%d" t)
      else add0 (LStep (ACaller (nat_of_int t), z_of_int clk)) (Printf.sprintf "step c%d" t) (fun _ _ -> ()) (Some t)
    done;
    if wire.(2) then stutter 2 "step rx"
    else add0 (LStep (ARx, z_of_int clk)) "step rx" (fun _ _ -> ()) (Some 2);
    (* server answers: requests that are on the wire and unanswered *)
    let written t =
      List.fold_left (fun acc w -> match w.w_kind with
          | WReq (t', _, _) when int_of_nat t' = t -> Some w.w_id | _ -> acc) None (wire_out s.elog) in
    let mk t id =
      if kinds.(t) = "err" then BError (id, gz = "1", false, z_of_int (100 + t))
      else BResult (id, gz = "1", kind_of_string kinds.(t), z_of_int (100 + t)) in
    let txt t =
      if kinds.(t) = "err" then Printf.sprintf "err @%d.0 %s %d" t gz (100 + t)
      else Printf.sprintf "res @%d.0 %s %s %d" t gz kinds.(t) (100 + t) in
    let avail = List.filter (fun t -> not answered.(t) && written t <> None) [0; 1] in
    let getid t = match written t with Some i -> i | None -> Z0 in
    List.iter (fun t ->
        add (LSrv ((z_of_int (nsid + 1), z_of_int 1), mk t (getid t)))
          (Printf.sprintf "srv %d 1 %s" (nsid + 1) (txt t)) (fun _ a -> a.(t) <- true)) avail;
    if List.length avail = 2 then
      List.iter (fun (a, b) ->
          add (LSrv ((z_of_int (nsid + 9), z_of_int 2),
                     BContainer [((z_of_int (nsid + 1), z_of_int 1), mk a (getid a));
                                 ((z_of_int (nsid + 5), z_of_int 3), mk b (getid b))]))
            (Printf.sprintf "srv %d 2 cont 2 %d 1 %s %d 3 %s" (nsid + 9) (nsid + 1) (txt a) (nsid + 5) (txt b))
            (fun _ an -> an.(0) <- true; an.(1) <- true)) [(0, 1); (1, 0)];
    match !moves with
    | [] -> emit path
    | ms ->
      List.iter (fun (s', line, upd, w) ->
          let c = Array.copy called and a = Array.copy answered in
          upd c a;
          go s' (line :: path) c a w (clk + 1) (nsid + 12)) (List.rev ms)
  in
  go start2 [] [| false; false |] [| false; false |] [| false; false; false |] 1 0;
  (!total, !count)

(* all maximal histories if there are at most [limit], otherwise every k-th of them in enumeration order *)
let enum k0 k1 gz limit =
  let (total, _) = enum_pass k0 k1 gz 0 in
  let stride = if limit <= 0 || total <= limit then 1 else (total + limit - 1) / limit in
  let (_, printed) = if limit = 0 then (total, 0) else enum_pass k0 k1 gz stride in
  Printf.eprintf "enum %s %s gz=%s: %d maximal histories, %d printed%s\n" k0 k1 gz total printed
    (if stride > 1 then Printf.sprintf " (every %d-th)" stride else "")

(* an N of any size in hex without leading zeros ("0" for zero), as strconv.FormatUint(x, 16) prints it *)
let hex_of_n (x : n) : String.t =
  match x with
  | N0 -> "0"
  | Npos p ->
    let rec bits p acc = match p with        (* LSB first *)
      | XH -> List.rev (1 :: acc)
      | XO q -> bits q (0 :: acc)
      | XI q -> bits q (1 :: acc) in
    let l = bits p [] in
    let rec nibbles l acc = match l with
      | [] -> acc
      | a :: b :: c :: d :: r -> nibbles r ((a + 2*b + 4*c + 8*d) :: acc)
      | [a; b; c] -> (a + 2*b + 4*c) :: acc
      | [a; b] -> (a + 2*b) :: acc
      | [a] -> a :: acc in
    String.concat "" (List.map (fun d -> String.make 1 "0123456789abcdef".[d]) (nibbles l []))

(* table: Q seq idx r|h op key arg ... -> Q seq idx <result of Client/Table.v tab_apply / set_apply + lookup / memz>
   the response table is the association list of Client/Model.v (a value = (ordinal, 0)), the hint table its key list *)
let table () =
  let tb : (z * (nat * nat)) list ref = ref [] and hs : z list ref = ref [] and cur = ref "" in
  let uniq_sorted (l : z list) : string =
    let l = List.sort_uniq compare (List.map i64_of_z l) in
    if l = [] then "-" else String.concat "," (List.map Int64.to_string l) in
  iter_lines (fun l ->
    match split_tab l with
    | "Q" :: seq :: idx :: tab :: op :: key :: arg :: _ ->
      if seq <> !cur then (cur := seq; tb := []; hs := []);
      let k = zs key in
      let res =
        if tab = "r" then
          (match op with
           | "add" -> tb := tab_apply !tb (TAdd (k, (nat_of_int (int_of_string arg), O))); "-"
           | "del" -> let r = (match lookup k !tb with Some _ -> "1" | None -> "0") in tb := tab_apply !tb (TDel k); r
           | "get" -> (match lookup k !tb with Some (o, _) -> string_of_int (int_of_nat o) | None -> "none")
           | "has" -> (match lookup k !tb with Some _ -> "1" | None -> "0")
           | _ -> uniq_sorted (List.map fst !tb))
        else
          (match op with
           | "add" -> hs := set_apply !hs (SAdd k); "-"
           | "del" -> let r = if memz k !hs then "1" else "0" in hs := set_apply !hs (SDel k); r
           | "get" -> if memz k !hs then "some" else "none"
           | "has" -> if memz k !hs then "1" else "0"
           | _ -> uniq_sorted !hs) in
      Printf.printf "Q\t%s\t%s\t%s\n" seq idx res
    | _ -> ())

(* reqid: Z payload ok:<hex>|err (oracle), K id kind body ... -> id \t <64-bit pattern in hex> *)
let reqid () =
  let gz : (String.t, String.t) Hashtbl.t = Hashtbl.create 64 in
  let inflate (payload : n list) : n list option =
    match Hashtbl.find_opt gz (hex_of_bytes payload) with
    | Some "err" -> None
    | Some r -> Some (bytes_of_hex (String.sub r 3 (String.length r - 3)))
    | None -> (prerr_endline ("ORACLE-ERROR: inflate oracle has no entry for " ^ hex_of_bytes payload); exit 3) in
  iter_lines (fun l ->
    match split_tab l with
    | "Z" :: payload :: res :: _ -> Hashtbl.replace gz (hex_of_bytes (bytes_of_hex payload)) res
    | "K" :: id :: _ :: body :: _ ->
      Printf.printf "%s\t%s\n" id (hex_of_n (req_msg_id_of inflate (bytes_of_hex body)))
    | _ -> ())

let () =
  match Array.to_list Sys.argv with
  | _ :: "reqid" :: _ -> reqid ()
  | _ :: "table" :: _ -> table ()
  | _ :: "enum" :: k0 :: k1 :: gz :: lim :: _ -> enum k0 k1 gz (int_of_string lim)
  | _ -> replay ()
