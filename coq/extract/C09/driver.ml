(* C09/C10 driver for the extracted client model (Client/Model.v).
     model_C09 replay   < trace      replays the A lines of a trace recorded by harness/root/cmd/c09:
                                     prints  M idx n projection   and   MF idx final-state
     model_C09 enum k0 k1 gz limit   enumerates every maximal history of two callers (one call each of result
                                     kinds k0, k1) against a server that answers in any order, plain or in
                                     one container; prints them as scripts for `c09 run script`. *)

let rec z_of_int (i : int) : z =
  if i = 0 then Z0 else if i > 0 then Zpos (pos_of_int i) else Zneg (pos_of_int (- i))
let int_of_z (x : z) : int = match x with Z0 -> 0 | Zpos p -> int_of_pos p | Zneg p -> - (int_of_pos p)
let rec nat_of_int (i : int) : nat = if i <= 0 then O else S (nat_of_int (i - 1))
let rec int_of_nat (n : nat) : int = match n with O -> 0 | S m -> 1 + int_of_nat m

let kind_of_string = function
  | "obj" -> KObj | "bool" -> KBool | "vecbare" -> KVecBare | "vecobj" -> KVecObj
  | s -> failwith ("kind " ^ s)
let string_of_kind = function KObj -> "obj" | KBool -> "bool" | KVecBare -> "vecbare" | KVecObj -> "vecobj"

(* body parser over a token list *)
let rec parse_body (tok : string list) : body * string list =
  match tok with
  | "res" :: r :: g :: k :: p :: rest ->
    (BResult (z_of_int (int_of_string r), g = "1", kind_of_string k, z_of_int (int_of_string p)), rest)
  | "err" :: r :: g :: p :: rest ->
    (BError (z_of_int (int_of_string r), g = "1", false, z_of_int (int_of_string p)), rest)
  | "gz" :: rest -> let (b, rest') = parse_body rest in (BGzip b, rest')
  | "cont" :: n :: rest ->
    let n = int_of_string n in
    let rec items i tok acc =
      if i = 0 then (List.rev acc, tok)
      else match tok with
        | sid :: seq :: rest ->
          let (b, rest') = parse_body rest in
          items (i - 1) rest' (((z_of_int (int_of_string sid), z_of_int (int_of_string seq)), b) :: acc)
        | _ -> failwith "container item"
    in
    let (its, rest') = items n rest [] in (BContainer its, rest')
  | "pong" :: rest -> (BPong, rest)
  | "ack" :: rest -> (BAck, rest)
  | "upd" :: rest -> (BUpdate, rest)
  | "newsess" :: s :: rest -> (BNewSession (z_of_int (int_of_string s)), rest)
  | "badsalt" :: i :: s :: rest -> (BBadSalt (z_of_int (int_of_string i), z_of_int (int_of_string s)), rest)
  | "badmsg" :: i :: rest -> (BBadMsg (z_of_int (int_of_string i)), rest)
  | "garbage" :: rest -> (BGarbage, rest)
  | t :: _ -> failwith ("body " ^ t)
  | [] -> failwith "empty body"

let cpoint = function
  | CIdle -> "done" | CLock -> "prelock" | CReg _ -> "idgen" | CWritten _ -> "written"
  | CRecv _ -> "prerecv" | CStuck -> "stuck"
let rpoint = function
  | RRead -> "read" | RDispatch _ -> "dispatch" | RDeliver _ -> "deliver" | RAckLock _ -> "prelock"
  | RAckReg _ -> "idgen" | RAckWritten _ -> "written" | RAckRecv _ -> "prerecv" | RNotify _ -> "notify"
  | RReconnect -> "reconnect" | RDead -> "dead"

let getc_i (t : int) (s : state) : caller =
  let rec nth i l = match l with [] -> idle_caller | x :: r -> if i = 0 then x else nth (i - 1) r in
  nth t s.callers

let show_ret = function
  | RetVal (KBool, p) -> "bool:" ^ string_of_int ((int_of_z p) land 1)
  | RetVal (k, p) -> string_of_kind k ^ ":" ^ string_of_int (int_of_z p)
  | RetErr p -> "err:" ^ string_of_int (int_of_z p)
  | RetNil -> "nil"

(* projection of the frame written by this step, if any *)
let show_written (pre : state) (post : state) : string list =
  match wire_out post.elog, wire_out pre.elog with
  | w :: prev, old when List.length (w :: prev) = List.length old + 1 ->
    let inc = match prev with [] -> "1" | p :: _ -> if int_of_z w.w_id > int_of_z p.w_id then "1" else "0" in
    let m4 = ((int_of_z w.w_id) mod 4 + 4) mod 4 in
    let b4 = match prev with [] -> "0" | p :: _ -> if int_of_z w.w_id = int_of_z p.w_id + 4 then "1" else "0" in
    (match w.w_kind with
     | WReq _ -> [Printf.sprintf "W:req:%d:%d:%s:b%s" (int_of_z w.w_seq) m4 inc b4]
     | WAck sid -> [Printf.sprintf "W:ack:%d:%d:%s:b%s:ack=%d" (int_of_z w.w_seq) m4 inc b4 (int_of_z sid)])
  | _ -> []

let project (pre : state) (l : label) (post : state) : string =
  let items =
    match l with
    | LCall (t, _) -> let t = int_of_nat t in [Printf.sprintf "c%d@%s" t (cpoint (getc_i t post).c_pc)]
    | LStep (ACaller t, _) ->
      let t = int_of_nat t in
      Printf.sprintf "c%d@%s" t (cpoint (getc_i t post).c_pc) :: show_written pre post
    | LStep (ARx, _) ->
      let base = ("rx@" ^ rpoint post.rx) :: show_written pre post in
      (match pre.rx with
       | RDeliver (_, (t, _), _, _) ->
         let t = int_of_nat t in
         let c = getc_i t post in
         let r = if List.length post.rets = List.length pre.rets + 1
           then (match post.rets with (_, r) :: _ -> ["ret:" ^ show_ret r] | [] -> []) else [] in
         base @ [Printf.sprintf "c%d@%s" t (cpoint c.c_pc)] @ r
       | _ -> base)
    | LSrv _ -> ["ok"]
    | LClose -> ["ok"]
  in
  String.concat " " items

let parse_label (tok : string list) : label option =
  match tok with
  | "call" :: t :: h :: _ -> Some (LCall (nat_of_int (int_of_string t), h = "1"))
  | ["step"; a; clk] ->
    if String.length clk > 0 && clk.[0] = 'x' then None
    else
      let c = z_of_int (int_of_string clk) in
      if a = "rx" then Some (LStep (ARx, c))
      else Some (LStep (ACaller (nat_of_int (int_of_string (String.sub a 1 (String.length a - 1)))), c))
  | "srv" :: sid :: seq :: rest ->
    let (b, _) = parse_body rest in
    Some (LSrv ((z_of_int (int_of_string sid), z_of_int (int_of_string seq)), b))
  | ["close"] -> Some LClose
  | _ -> None

let replay () =
  let st = ref (Some init) in
  iter_lines (fun l ->
    match split_tab l with
    | "B" :: _ -> st := Some init
    | "A" :: idx :: n :: lbl :: _ when String.length lbl > 6 && String.sub lbl 0 6 = "probe " ->
      (* a sender released from "prelock" while another one holds the send lock: the model refuses the step *)
      (match !st with
       | None -> Printf.printf "M\t%s\t%s\tREJECTED-EARLIER\n" idx n
       | Some s ->
         let a = String.sub lbl 6 (String.length lbl - 6) in
         let lab = if a = "rx" then LStep (ARx, Z0)
           else LStep (ACaller (nat_of_int (int_of_string (String.sub a 1 (String.length a - 1)))), Z0) in
         (match step s lab with
          | None -> Printf.printf "M\t%s\t%s\tblocked\n" idx n
          | Some _ -> Printf.printf "M\t%s\t%s\tREJECT:model-lets-it-pass\n" idx n; st := None))
    | "A" :: idx :: n :: lbl :: _ ->
      (match !st with
       | None -> Printf.printf "M\t%s\t%s\tREJECTED-EARLIER\n" idx n
       | Some s ->
         (match parse_label (String.split_on_char ' ' lbl) with
          | None -> Printf.printf "M\t%s\t%s\tREJECT:unrepresentable-label\n" idx n; st := None
          | Some lab ->
            (match step s lab with
             | None -> Printf.printf "M\t%s\t%s\tREJECT:not-enabled\n" idx n; st := None
             | Some s' -> Printf.printf "M\t%s\t%s\t%s\n" idx n (project s lab s'); st := Some s')))
    | "F" :: idx :: _ ->
      (match !st with
       | Some s ->
         Printf.printf "MF\t%s\tseq=%d table=%d hints=%d\tunacked=%d rx=%s\n" idx (int_of_z s.seqno)
           (List.length s.table) (List.length s.hints) (List.length (unacked s.elog)) (rpoint s.rx)
       | None -> Printf.printf "MF\t%s\tREJECTED\n" idx)
    | _ -> ())

(* ---- exhaustive enumeration of a two-caller scope -------------------------------------- *)

let enum k0 k1 gz limit =
  let kinds = [| k0; k1 |] in
  let hinted k = (k = "vecbare" || k = "vecobj") in
  let count = ref 0 in
  let total = ref 0 in
  let emit (path : string list) =
    incr total;
    if !count < limit then begin
      incr count;
      Printf.printf "S %d 2 enum-%s-%s-gz%s\n" !count k0 k1 gz;
      List.iter print_endline (List.rev path);
      print_endline "E"
    end in
  (* ids of the calls once written, which of them the server has answered *)
  let rec go (s : state) (path : string list) (called : bool array) (answered : bool array) (clk : int) (nsid : int) =
    let moves = ref [] in
    let add lab line upd = match step s lab with Some s' -> moves := (s', line, upd) :: !moves | None -> () in
    for t = 0 to 1 do
      if not called.(t) then
        add (LCall (nat_of_int t, hinted kinds.(t)))
          (Printf.sprintf "call %d %s %s %d" t kinds.(t) (if hinted kinds.(t) then "1" else "0") (100 + t))
          (fun c a -> c.(t) <- true);
      add (LStep (ACaller (nat_of_int t), z_of_int clk)) (Printf.sprintf "step c%d" t) (fun _ _ -> ())
    done;
    add (LStep (ARx, z_of_int clk)) "step rx" (fun _ _ -> ());
    (* server answers: requests that are on the wire and unanswered *)
    let written t =
      List.fold_left (fun acc w -> match w.w_kind with
          | WReq (t', _, _) when int_of_nat t' = t -> Some w.w_id | _ -> acc) None (wire_out s.elog) in
    let mk t id =
      if kinds.(t) = "err" then BError (id, gz = "1", false, z_of_int (100 + t))
      else BResult (id, gz = "1", kind_of_string kinds.(t), z_of_int (100 + t)) in
    let txt t =
      if kinds.(t) = "err" then Printf.sprintf "err @%d.0 %s %d" t gz (100 + t)
      else Printf.sprintf "res @%d.0 %s %s %d" t gz kinds.(t) (100 + t) in
    let avail = List.filter (fun t -> not answered.(t) && written t <> None) [0; 1] in
    let getid t = match written t with Some i -> i | None -> Z0 in
    List.iter (fun t ->
        add (LSrv ((z_of_int (nsid + 1), z_of_int 1), mk t (getid t)))
          (Printf.sprintf "srv %d 1 %s" (nsid + 1) (txt t)) (fun _ a -> a.(t) <- true)) avail;
    if List.length avail = 2 then
      List.iter (fun (a, b) ->
          add (LSrv ((z_of_int (nsid + 9), z_of_int 2),
                     BContainer [((z_of_int (nsid + 1), z_of_int 1), mk a (getid a));
                                 ((z_of_int (nsid + 5), z_of_int 3), mk b (getid b))]))
            (Printf.sprintf "srv %d 2 cont 2 %d 1 %s %d 3 %s" (nsid + 9) (nsid + 1) (txt a) (nsid + 5) (txt b))
            (fun _ an -> an.(0) <- true; an.(1) <- true)) [(0, 1); (1, 0)];
    match !moves with
    | [] -> emit path
    | ms ->
      List.iter (fun (s', line, upd) ->
          let c = Array.copy called and a = Array.copy answered in
          upd c a;
          go s' (line :: path) c a (clk + 1) (nsid + 12)) (List.rev ms)
  in
  go init [] [| false; false |] [| false; false |] 1 0;
  Printf.eprintf "enum %s %s gz=%s: %d maximal histories, %d printed\n" k0 k1 gz !total !count

let () =
  match Array.to_list Sys.argv with
  | _ :: "enum" :: k0 :: k1 :: gz :: lim :: _ -> enum k0 k1 gz (int_of_string lim)
  | _ -> replay ()
