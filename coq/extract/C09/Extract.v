From Coq Require Import Extraction ExtrOcamlBasic.
From MTV Require Import Client.Model Client.Live Client.Rendezvous Client.Table TL.ReqId.
Extraction "model.ml" init init2 step step2 run run2 wire_out unacked settle req_msg_id_of xstep plain tab_apply set_apply lookup memz.
