From Coq Require Import Extraction ExtrOcamlBasic.
From MTV Require Import Client.Model.
Extraction "model.ml" init step run wire_out unacked settle.
