(* C11 / C16 (and the reconnect part of C10) driver for the extracted client model Client/Live.v.
     model_C11 replay  < trace    replays the A lines of a trace recorded by harness/root/cmd/c11 through step2:
                                  prints  M idx n projection   and   MF idx final-state
     model_C11 enum k0 k1 limit   enumerates every maximal history of two callers (one call each, result kinds
                                  k0 k1) against a server that answers each request or rejects it with
                                  bad_server_salt (one rotation in total, naming any request written so far),
                                  in any order (answers carry an even seq_no: no acknowledgements inside the scope; the
                                  closing procedure of the harness then exercises them); prints them as scripts for
                                  `c11 run c11 script`.  Interleavings are reduced by taking invisible steps eagerly. *)

let rec z_of_int (i : int) : z =
  if i = 0 then Z0 else if i > 0 then Zpos (pos_of_int i) else Zneg (pos_of_int (- i))
let int_of_z (x : z) : int = match x with Z0 -> 0 | Zpos p -> int_of_pos p | Zneg p -> - (int_of_pos p)
let rec nat_of_int (i : int) : nat = if i <= 0 then O else S (nat_of_int (i - 1))
let rec int_of_nat (n : nat) : int = match n with O -> 0 | S m -> 1 + int_of_nat m

let kind_of_string = function
  | "obj" -> KObj | "bool" -> KBool | "vecbare" -> KVecBare | "vecobj" -> KVecObj
  | s -> failwith ("kind " ^ s)
let string_of_kind = function KObj -> "obj" | KBool -> "bool" | KVecBare -> "vecbare" | KVecObj -> "vecobj"

(* salts are arbitrary 64-bit integers (OCaml's int has 63 bits): numbers go through Int64 *)
let rec pos_of_u64 (m : int64) : positive =
  if m = 1L then XH
  else if Int64.logand m 1L = 0L then XO (pos_of_u64 (Int64.shift_right_logical m 1))
  else XI (pos_of_u64 (Int64.shift_right_logical m 1))
let z_of_int64 (n : int64) : z =
  if n = 0L then Z0 else if n > 0L then Zpos (pos_of_u64 n) else Zneg (pos_of_u64 (Int64.neg n))
let rec u64_of_pos (p : positive) : int64 =
  match p with XH -> 1L | XO q -> Int64.shift_left (u64_of_pos q) 1 | XI q -> Int64.logor (Int64.shift_left (u64_of_pos q) 1) 1L
let int64_of_z (x : z) : int64 = match x with Z0 -> 0L | Zpos p -> u64_of_pos p | Zneg p -> Int64.neg (u64_of_pos p)
let zs s = z_of_int64 (Int64.of_string s)
let sz (x : z) : string = Int64.to_string (int64_of_z x)

let rec parse_body (tok : string list) : body * string list =
  match tok with
  | "res" :: r :: g :: k :: p :: rest -> (BResult (zs r, g = "1", kind_of_string k, zs p), rest)
  | "err" :: r :: g :: p :: rest -> (BError (zs r, g = "1", false, zs p), rest)
  | "gz" :: rest -> let (b, rest') = parse_body rest in (BGzip b, rest')
  | "cont" :: n :: rest ->
    let n = int_of_string n in
    let rec items i tok acc =
      if i = 0 then (List.rev acc, tok)
      else match tok with
        | sid :: seq :: rest ->
          let (b, rest') = parse_body rest in
          items (i - 1) rest' (((zs sid, zs seq), b) :: acc)
        | _ -> failwith "container item"
    in
    let (its, rest') = items n rest [] in (BContainer its, rest')
  | "pong" :: rest -> (BPong, rest)
  | "ack" :: rest -> (BAck, rest)
  | "upd" :: rest -> (BUpdate, rest)
  | "newsess" :: s :: rest -> (BNewSession (zs s), rest)
  | "badsalt" :: i :: s :: rest -> (BBadSalt (zs i, zs s), rest)
  | "badmsg" :: i :: rest -> (BBadMsg (zs i), rest)
  | "garbage" :: rest -> (BGarbage, rest)
  | t :: _ -> failwith ("body " ^ t)
  | [] -> failwith "empty body"

let cpoint = function
  | CIdle -> "done" | CLock -> "prelock" | CReg _ -> "idgen" | CWritten _ -> "written"
  | CRecv _ -> "prerecv" | CStuck -> "stuck"
let rpoint = function
  | RRead -> "read" | RDispatch _ -> "dispatch" | RDeliver _ -> "deliver" | RAckLock _ -> "prelock"
  | RAckReg _ -> "idgen" | RAckWritten _ -> "written" | RAckRecv _ -> "prerecv" | RNotify _ -> "notify"
  | RReconnect -> "reconnect" | RDead -> "dead"

let getc_i (t : int) (s : state) : caller = getc (nat_of_int t) s

let show_ret = function
  | RetVal (KBool, p) -> "bool:" ^ string_of_int ((int_of_z p) land 1)
  | RetVal (k, p) -> string_of_kind k ^ ":" ^ string_of_int (int_of_z p)
  | RetErr p -> "err:" ^ string_of_int (int_of_z p)
  | RetNil -> "nil"

let show_written (pre : state) (post : state) : string list =
  match wire_out post.elog, wire_out pre.elog with
  | w :: prev, old when List.length (w :: prev) = List.length old + 1 ->
    let inc = match prev with [] -> "1" | p :: _ -> if int_of_z w.w_id > int_of_z p.w_id then "1" else "0" in
    let m4 = ((int_of_z w.w_id) mod 4 + 4) mod 4 in
    (match w.w_kind with
     | WReq _ -> [Printf.sprintf "W:req:%d:%d:%s:s=%s" (int_of_z w.w_seq) m4 inc (sz w.w_salt)]
     | WAck sid -> [Printf.sprintf "W:ack:%d:%d:%s:s=%s:ack=%d" (int_of_z w.w_seq) m4 inc (sz w.w_salt) (int_of_z sid)])
  | _ -> []

let qlen (s : state2) : int = match s.wch with WNil -> 0 | WBuf (_, n) -> int_of_nat n
let stored (s : state2) : string =
  (match s.base.store with x :: _ -> sz x | [] -> "0") ^ "#" ^ string_of_int (List.length s.base.store)

let rx_state (s : state2) : string =
  Printf.sprintf "q=%d h=%d st=%s" (qlen s) (int_of_nat s.handled) (stored s)

let project (pre : state2) (l : label2) (post : state2) : string =
  let items =
    match l with
    | LDrain -> [Printf.sprintf "q=%d" (qlen post)]
    | LKeyEx _ -> [Printf.sprintf "keyed plain=%d st=%s" (int_of_nat post.plain_out) (stored post)]
    | L1 (LCall (t, _)) -> let t = int_of_nat t in [Printf.sprintf "c%d@%s" t (cpoint (getc_i t post.base).c_pc)]
    | L1 (LStep (ACaller t, _)) ->
      let t = int_of_nat t in
      Printf.sprintf "c%d@%s" t (cpoint (getc_i t post.base).c_pc) :: show_written pre.base post.base
    | L1 (LStep (ARx, _)) ->
      let base = ("rx@" ^ rpoint post.base.rx) :: show_written pre.base post.base in
      let partner t =
        let t = int_of_nat t in
        let c = getc_i t post.base in
        let r = if List.length post.base.rets = List.length pre.base.rets + 1
          then (match post.base.rets with (_, r) :: _ -> ["ret:" ^ show_ret r] | [] -> []) else [] in
        [Printf.sprintf "c%d@%s" t (cpoint c.c_pc)] @ r in
      let mid =
        (match pre.base.rx with
         | RDeliver (_, (t, _), _, _) -> partner t
         | RNotify ([i], _) -> (match lookup i pre.base.table with Some (t, _) -> partner t | None -> [])
         | RReconnect -> [Printf.sprintf "gen=%d" (int_of_nat post.gen); Printf.sprintf "plain=%d"
                            (int_of_nat post.plain_out - 3 * int_of_nat post.keyex)]
         | _ -> []) in
      base @ mid @ [rx_state post]
    | L1 (LSrv _) -> ["ok"]
    | L1 LClose -> ["ok"]
  in
  String.concat " " items

let parse_label (tok : string list) : label2 option =
  match tok with
  | "call" :: t :: h :: _ -> Some (L1 (LCall (nat_of_int (int_of_string t), h = "1")))
  | ["step"; a; clk] ->
    if String.length clk > 0 && clk.[0] = 'x' then None
    else
      let c = zs clk in
      if a = "rx" then Some (L1 (LStep (ARx, c)))
      else Some (L1 (LStep (ACaller (nat_of_int (int_of_string (String.sub a 1 (String.length a - 1)))), c)))
  | "srv" :: sid :: seq :: rest ->
    let (b, _) = parse_body rest in
    Some (L1 (LSrv ((zs sid, zs seq), b)))
  | ["close"] -> Some (L1 LClose)
  | ["drain"] -> Some LDrain
  | ["keyex"; x] -> Some (LKeyEx (zs x))
  | _ -> None

(* "warn=nil|live|buf:N handler=0|1|2|3 fresh=0|1"; an unbuffered channel with a live reader is not projected: nil *)
let parse_config (s : string) : config =
  let w = ref WNil and h = ref false and k = ref true in
  List.iter (fun kv ->
      match String.split_on_char '=' kv with
      | ["warn"; v] ->
        if String.length v > 4 && String.sub v 0 4 = "buf:" then
          w := WBuf (nat_of_int (int_of_string (String.sub v 4 (String.length v - 4))), O)
      | ["handler"; v] -> h := (v = "1" || v = "3")   (* 2 = a handler that declines; 3 = one that declines, one that accepts *)
      | ["fresh"; v] -> k := (v <> "1")
      | _ -> ()) (String.split_on_char ' ' s);
  { cf_warn = !w; cf_handler = !h; cf_keyed = !k }

let replay () =
  let st = ref (Some (init2 (parse_config ""))) in
  (* the finer system of Client/Rendezvous.v beside the canonical replay (see coq/extract/C09/driver.ml) *)
  let shadow : xstate option ref = ref None in
  let shadow_after : xstate option ref = ref None in
  iter_lines (fun l ->
    match split_tab l with
    | "B" :: _ :: cfg :: _ -> st := Some (init2 (parse_config cfg)); shadow := None; shadow_after := None
    | "A" :: idx :: n :: "commit rx" :: _ ->
      (match !st with
       | None -> Printf.printf "M\t%s\t%s\tREJECTED-EARLIER\n" idx n
       | Some s ->
         (match step2 s (L1 (LStep (ARx, Z0))), xstep (plain s) (L1 (LStep (ARx, Z0))) with
          | None, Some x when x.committed && x.cur = s -> shadow := Some x; Printf.printf "M\t%s\t%s\tcommitted\n" idx n
          | Some _, _ -> Printf.printf "M\t%s\t%s\tREJECT:the-receiver-listens(no-commit)\n" idx n; st := None
          | _, _ -> Printf.printf "M\t%s\t%s\tREJECT:not-a-send\n" idx n; st := None))
    | "A" :: idx :: n :: lbl :: _ when String.length lbl > 8 && String.sub lbl 0 8 = "stutter " ->
      (* configuration wire=1: WriteMsg returns and the sender reaches its "written" yield: no model step, the
         actor must be in the state "written, not yet returned" *)
      (match !st with
       | None -> Printf.printf "M\t%s\t%s\tREJECTED-EARLIER\n" idx n
       | Some s ->
         let a = String.sub lbl 8 (String.length lbl - 8) in
         let ok = if a = "rx" then (match s.base.rx with RAckWritten _ -> true | _ -> false)
           else (match (getc_i (int_of_string (String.sub a 1 (String.length a - 1))) s.base).c_pc with CWritten _ -> true | _ -> false) in
         if ok then Printf.printf "M\t%s\t%s\t%s@written\n" idx n a
         else (Printf.printf "M\t%s\t%s\tREJECT:not-after-a-write\n" idx n; st := None))
    | "A" :: idx :: n :: lbl :: _ ->
      (match !st with
       | None -> Printf.printf "M\t%s\t%s\tREJECTED-EARLIER\n" idx n
       | Some s ->
         (match (try parse_label (String.split_on_char ' ' lbl) with _ -> None) with
          | None -> Printf.printf "M\t%s\t%s\tREJECT:unrepresentable-label\n" idx n; st := None
          | Some lab ->
            (match step2 s lab with
             | None -> Printf.printf "M\t%s\t%s\tREJECT:not-enabled(rx@%s)\n" idx n (rpoint s.base.rx); st := None
             | Some s' ->
               let is_rx = (match lab with L1 (LStep (ARx, _)) -> true | _ -> false) in
               let ok () = Printf.printf "M\t%s\t%s\t%s\n" idx n (project s lab s'); st := Some s' in
               (match !shadow, !shadow_after with
                | _, Some x' when is_rx ->
                  shadow_after := None;
                  if x'.cur = s' then ok ()
                  else (Printf.printf "M\t%s\t%s\tREJECT:finer-system-differs\n" idx n; st := None)
                | _, Some x' ->
                  (match xstep x' lab with
                   | Some x'' -> shadow_after := Some x''; ok ()
                   | None -> Printf.printf "M\t%s\t%s\tREJECT:finer-system-refuses\n" idx n; st := None)
                | Some x, None ->
                  (match xstep x lab with
                   | Some x' when not x'.committed -> shadow := None; shadow_after := Some x'; ok ()
                   | Some x' -> shadow := Some x'; ok ()
                   | None -> Printf.printf "M\t%s\t%s\tREJECT:finer-system-refuses\n" idx n; st := None)
                | None, None -> ok ()))))
    | "F" :: idx :: _ ->
      (match !st with
       | Some s ->
         Printf.printf "MF\t%s\tseq=%d table=%d hints=%d salt=%s gen=%d q=%d\tunacked=%d rx=%s failed=%d retries=%d\n" idx
           (int_of_z s.base.seqno) (List.length s.base.table) (List.length s.base.hints) (sz s.base.salt)
           (int_of_nat s.gen) (qlen s) (List.length (unacked s.base.elog)) (rpoint s.base.rx)
           (int_of_nat s.failed) (List.length (retries s.base.elog))
       | None -> Printf.printf "MF\t%s\tREJECTED\n" idx)
    | _ -> ())

(* ---- exhaustive enumeration: 2 callers x 1 rotation x answer permutations ------------------ *)

let enum k0 k1 limit =
  let kinds = [| k0; k1 |] in
  let hinted k = (k = "vecbare" || k = "vecobj") in
  let count = ref 0 in
  let total = ref 0 in
  let emit (path : string list) =
    incr total;
    if !count < limit then begin
      incr count;
      Printf.printf "S %d 2 enum-%s-%s\ncfg warn=nil handler=0 fresh=0\n" !count k0 k1;
      List.iter print_endline (List.rev path);
      print_endline "finish";
      print_endline "E"
    end in
  let s0 = init2 { cf_warn = WNil; cf_handler = false; cf_keyed = true } in
  (* answered.(t): the server has answered caller t's current request; rotated: the one rotation is spent *)
  let rec go (s : state2) (path : string list) (called : bool array) (answered : bool array) (rotated : bool)
      (clk : int) (nsid : int) =
    let moves = ref [] in
    let add lab line upd = match step2 s lab with Some s' -> moves := (s', line, upd) :: !moves | None -> () in
    for t = 0 to 1 do
      if not called.(t) then
        add (L1 (LCall (nat_of_int t, hinted kinds.(t))))
          (Printf.sprintf "call %d %s %s %d" t kinds.(t) (if hinted kinds.(t) then "1" else "0") (100 + t))
          (fun c _ -> c.(t) <- true; false);
      add (L1 (LStep (ACaller (nat_of_int t), z_of_int clk))) (Printf.sprintf "step c%d" t) (fun _ _ -> false)
    done;
    add (L1 (LStep (ARx, z_of_int clk))) "step rx" (fun _ _ -> false);
    (* frames of caller t on the wire, oldest first *)
    let frames t =
      List.rev (List.filter_map (fun w -> match w.w_kind with
          | WReq (t', _, _) when int_of_nat t' = t -> Some w.w_id | _ -> None) (wire_out s.base.elog)) in
    let latest t = match List.rev (frames t) with i :: _ -> Some i | [] -> None in
    let in_table i = match lookup i s.base.table with Some _ -> true | None -> false in
    let mk t id =
      if kinds.(t) = "err" then BError (id, false, false, z_of_int (100 + t))
      else BResult (id, false, kind_of_string kinds.(t), z_of_int (100 + t)) in
    let txt t =
      if kinds.(t) = "err" then Printf.sprintf "err @%d.0 0 %d" t (100 + t)
      else Printf.sprintf "res @%d.0 0 %s %d" t kinds.(t) (100 + t) in
    (* the server answers a request it has seen under its latest id and that is still registered *)
    List.iter (fun t ->
        match latest t with
        | Some id when not answered.(t) && in_table id ->
          add (L1 (LSrv ((z_of_int (nsid + 1), z_of_int 0), mk t id)))
            (Printf.sprintf "srv %d 0 %s" (nsid + 1) (txt t)) (fun _ a -> a.(t) <- true; false)
        | _ -> ()) [0; 1];
    (* the one rotation: bad_server_salt naming any frame written so far (pending, answered, earlier attempt) *)
    if not rotated then
      List.iter (fun t ->
          List.iteri (fun j id ->
              add (L1 (LSrv ((z_of_int (nsid + 3), z_of_int 0), BBadSalt (id, z_of_int 777))))
                (Printf.sprintf "srv %d 0 badsalt @%d.0.%d 777" (nsid + 3) t j)
                (fun _ a -> (if Some id = latest t && in_table id then a.(t) <- false); true)) (frames t)) [0; 1];
    (* partial-order reduction: a step that commutes with every step of the other actors and can only enable
       them is taken at once, alone - starting a call, leaving sendPacket (written -> prerecv: releases the
       lock), taking the next frame from the socket (read -> dispatch).  Everything else branches. *)
    let eager (_, line, _) =
      (String.length line > 4 && String.sub line 0 4 = "call") ||
      (List.exists (fun t -> line = Printf.sprintf "step c%d" t &&
                             (match (getc_i t s.base).c_pc with CWritten _ -> true | _ -> false)) [0; 1]) ||
      (line = "step rx" && (match s.base.rx with RRead -> true | _ -> false)) in
    let ms = List.rev !moves in
    let ms = match List.filter eager ms with e :: _ -> [e] | [] -> ms in
    match ms with
    | [] -> emit path
    | ms ->
      List.iter (fun (s', line, upd) ->
          let c = Array.copy called and a = Array.copy answered in
          let rot = upd c a in
          go s' (line :: path) c a (rotated || rot) (clk + 1) (nsid + 8)) ms
  in
  go s0 [] [| false; false |] [| false; false |] false 1 0;
  Printf.eprintf "enum %s %s: %d maximal histories, %d printed\n" k0 k1 !total !count

let () =
  match Array.to_list Sys.argv with
  | _ :: "enum" :: k0 :: k1 :: lim :: _ -> enum k0 k1 (int_of_string lim)
  | _ -> replay ()
