From Coq Require Import Extraction ExtrOcamlBasic.
From MTV Require Import Client.Model Client.Live Client.Rendezvous.
Extraction "model.ml" init init2 step2 run2 wire_out unacked settle retries getc lookup xstep plain.
