(* Shared I/O glue for the extracted models (textually prepended to each driver after
   the extracted module is opened).  Conversions between OCaml ints / hex strings and the
   extracted Coq datatypes positive / N / Z / nat / list.  No Extract directive of ours:
   numbers stay Coq datatypes inside the model. *)

let rec pos_of_int (i : int) : positive =
  if i = 1 then XH
  else if i land 1 = 0 then XO (pos_of_int (i lsr 1))
  else XI (pos_of_int (i lsr 1))

let n_of_int (i : int) : n = if i = 0 then N0 else Npos (pos_of_int i)

let rec int_of_pos (p : positive) : int =
  match p with XH -> 1 | XO q -> 2 * int_of_pos q | XI q -> 2 * int_of_pos q + 1

let int_of_n (x : n) : int = match x with N0 -> 0 | Npos p -> int_of_pos p

let hexval c =
  match c with
  | '0' .. '9' -> Char.code c - 48
  | 'a' .. 'f' -> Char.code c - 87
  | 'A' .. 'F' -> Char.code c - 55
  | _ -> failwith "bad hex digit"

(* "-" is the empty byte string *)
let bytes_of_hex (s : String.t) : n list =
  if s = "-" || s = "" then []
  else begin
    let l = String.length s / 2 in
    let rec go i acc =
      if i < 0 then acc
      else go (i - 1) (n_of_int (hexval s.[2 * i] * 16 + hexval s.[2 * i + 1]) :: acc)
    in
    go (l - 1) []
  end

let hex_of_bytes (l : n list) : String.t =
  match l with
  | [] -> "-"
  | _ ->
    let b = Buffer.create 64 in
    List.iter (fun x -> Buffer.add_string b (Printf.sprintf "%02x" (int_of_n x))) l;
    Buffer.contents b

let split_tab (s : String.t) : String.t list = String.split_on_char '\t' s

let iter_lines (f : String.t -> unit) : unit =
  try
    while true do
      let l = input_line stdin in
      if l <> "" then f l
    done
  with End_of_file -> ()
