(* C20 driver: reads case lines (see harness/deeplinks/main.go), runs the extracted
   [resolve] for BOTH map orders with [lower] = identity (the harness applies Go's
   strings.ToLower afterwards), prints  id \t result  for cases whose url.Parse succeeded. *)
let hosts = ref []

let show r =
  match r with
  | Ok (Username s) -> "U:" ^ hex_of_bytes s
  | Ok (Invite t) -> "I:" ^ hex_of_bytes t
  | Err -> "E"
  | Panic -> "P"

let () =
  iter_lines (fun l ->
    match split_tab l with
    | "#hosts" :: hs -> hosts := List.map bytes_of_hex hs
    | id :: _link :: "ok" :: sc :: h :: p :: _ ->
      let u = { u_scheme = bytes_of_hex sc; u_host = bytes_of_hex h; u_path = bytes_of_hex p } in
      let r1 = resolve (fun s -> s) !hosts true u in
      let r2 = resolve (fun s -> s) !hosts false u in
      let s1 = show r1 and s2 = show r2 in
      if s1 = s2 then Printf.printf "%s\t%s\n" id s1
      else Printf.printf "%s\tORDER-DEPENDENT:%s/%s\n" id s1 s2
    | _ -> ())
