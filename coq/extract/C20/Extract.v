From Coq Require Import Extraction ExtrOcamlBasic.
From MTV Require Import Misc.Deeplink.
Extraction "model.ml" resolve.
