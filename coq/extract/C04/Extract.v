From Coq Require Import Extraction ExtrOcamlBasic.
From MTV Require Import Crypto.Envelope Crypto.EnvelopeIge.
Extraction "model.ml" x_open_client x_deserialize_unencrypted x_read_dispatch.
