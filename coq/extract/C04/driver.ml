(* C04 driver (receive path only; same line format as coq/extract/C03/driver.ml):
     open  id fixed key pkt     DeserializeEncrypted (fixed=1: repaired code, 0: pinned code)
                                -> O:salt,sid,msgid,seq,body,msgkey | E | P
     udes  id data              DeserializeUnencrypted  -> O:msgid,body | E | P
     disp  id key data          ReadMsg dispatch + parity -> O:kind,msgid,body | E | P *)
let show_out r = match r with Ok l -> "O:" ^ String.concat "," (List.map hex_of_bytes l) | Err -> "E" | Panic -> "P"
let h = bytes_of_hex

let () =
  iter_lines (fun l ->
    let ans id s = Printf.printf "%s\t%s\n" id s in
    match split_tab l with
    | ["open"; id; fixed; key; pkt] -> ans id (show_out (x_open_client (fixed = "1") (h key) (h pkt)))
    | ["udes"; id; data] -> ans id (show_out (x_deserialize_unencrypted (h data)))
    | ["disp"; id; key; data] -> ans id (show_out (x_read_dispatch (h key) (h data)))
    | _ -> ())
