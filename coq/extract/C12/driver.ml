(* C12 driver: reads the case file written by harness/root/cmd/c12 (histories with the concrete
   path, what os.Stat says about filepath.Dir(path), and the JSON oracle tables J / U recorded from
   encoding/json for exactly the calls of that history), runs the extracted [step] of
   Misc/Session.v op by op from an empty file system and a new loader, and prints one observation
   line per op in the format of the harness.
   Instantiation of the Section variables: base64 = the Gallina b64_encode / b64_decode (proved
   round trip, C12_base64_model); marshal / unmarshal = lookups in J / U - a missing entry is
   reported as ORACLE-MISS (never defaulted), which the check treats as a broken correspondence. *)
exception Oracle_miss of string

let rec nat_of_int i = if i <= 0 then O else S (nat_of_int (i - 1))

let kind_of s = match s with "D" -> DDir | "F" -> DFile | _ -> DMissing

let salt_of_hex h = i64_of_u64 (of_be (bytes_of_hex h))
let hex_of_salt z = hex_of_bytes (List.rev (le64 (u64_of_i64 z)))

let jt : (string * string * string * string, string) Hashtbl.t = Hashtbl.create 64
let ut : (string, (string * string * string * string) option) Hashtbl.t = Hashtbl.create 64

let marshal (t : tsf) : n list =
  let k = (hex_of_bytes t.t_key, hex_of_bytes t.t_hash, hex_of_bytes t.t_salt, hex_of_bytes t.t_host) in
  match Hashtbl.find_opt jt k with
  | Some c -> bytes_of_hex c
  | None -> raise (Oracle_miss "json.Marshal")

let unmarshal (c : n list) : tsf outcome =
  match Hashtbl.find_opt ut (hex_of_bytes c) with
  | Some (Some (k, h, s, o)) ->
    Ok { t_key = bytes_of_hex k; t_hash = bytes_of_hex h; t_salt = bytes_of_hex s; t_host = bytes_of_hex o }
  | Some None -> Err
  | None -> raise (Oracle_miss "json.Unmarshal")

(* utf8.ValidString and what encoding/json makes of the string *)
let vline (h : n list) : string =
  "V\t" ^ (if utf8_valid h then "1" else "0") ^ "\t" ^ hex_of_bytes (coerce_utf8 h)

let show_load r =
  match r with
  | LOk s -> String.concat "\t" ["L"; "ok"; hex_of_bytes s.s_key; hex_of_bytes s.s_hash; hex_of_salt s.s_salt; hex_of_bytes s.s_host]
  | LNotFound -> "L\tnf"
  | LErr -> "L\terr"
  | LPanic -> "L\tpanic"

let show_client r =
  match r with
  | Ok c -> String.concat "\t" ["N"; "ok"; (if c.c_encrypted then "1" else "0"); hex_of_bytes c.c_key;
                               hex_of_bytes c.c_hash; hex_of_salt c.c_salt; hex_of_bytes c.c_addr]
  | Err -> "N\terr"
  | Panic -> "N\tpanic"

let show_store fs path r =
  match r with
  | Ok _ -> (match fs.files path with
             | Some (c, _) -> "S\tok\t" ^ hex_of_bytes c
             | None -> "S\tok\tno-file")
  | Err -> "S\terr"
  | Panic -> "S\tpanic"

let run_history id path kind ops =
  let p = bytes_of_hex path in
  let d = go_dir p in
  Printf.printf "%s\tdir\t%s\n" id (hex_of_bytes d);
  let k = kind_of kind in
  let fs = ref { files = (fun _ -> None); dirs = (fun q -> if q = d then k else DMissing) } in
  let l = ref (fresh p) in
  let do_step o =
    let ((fs', l'), ob) = step b64_encode b64_decode marshal unmarshal !fs !l o in
    fs := fs'; l := l'; ob in
  let idx = ref 0 in
  (try
    List.iter (fun op ->
      let i = string_of_int !idx in
      (match op with
       | "S" :: key :: hash :: salt :: host :: mt :: _ ->
         let s = { s_key = bytes_of_hex key; s_hash = bytes_of_hex hash; s_salt = salt_of_hex salt; s_host = bytes_of_hex host } in
         (match do_step (OStore (s, n_of_int (int_of_string mt))) with
          | ObsStore r -> Printf.printf "%s\t%s\t%s\n" id i (show_store !fs p r)
          | _ -> failwith "obs");
         Printf.printf "%s\t%s.v\t%s\n" id i (vline s.s_host)
       | "L" :: _ ->
         (match do_step OLoad with
          | ObsLoad r -> Printf.printf "%s\t%s\t%s\n" id i (show_load r)
          | _ -> failwith "obs")
       | "F" :: _ -> ignore (do_step OFresh); Printf.printf "%s\t%s\t-\n" id i
       | "C" :: kk :: mt :: _ ->
         ignore (do_step (OCrash (nat_of_int (int_of_string kk), n_of_int (int_of_string mt))));
         Printf.printf "%s\t%s\t-\n" id i
       | "TR" :: kk :: mt :: _ ->
         ignore (do_step (OTear (nat_of_int (int_of_string kk), n_of_int (int_of_string mt))));
         Printf.printf "%s\t%s\t-\n" id i
       | "G" :: key :: hash :: salt :: host :: mt :: _ ->
         let s = { s_key = bytes_of_hex key; s_hash = bytes_of_hex hash; s_salt = salt_of_hex salt; s_host = bytes_of_hex host } in
         ignore (do_step (OForeign (s, n_of_int (int_of_string mt))));
         (* the other loader's Store succeeds exactly when the directory exists *)
         if k = DDir then
           (match !fs.files p with
            | Some (c, _) -> Printf.printf "%s\t%s\tG\tok\t%s\n" id i (hex_of_bytes c)
            | None -> Printf.printf "%s\t%s\tG\tok\tno-file\n" id i)
         else Printf.printf "%s\t%s\tG\terr\n" id i;
         Printf.printf "%s\t%s.v\t%s\n" id i (vline s.s_host)
       | "M" :: _ -> ignore (do_step OScribble); Printf.printf "%s\t%s\t-\n" id i
       | "X" :: c :: mt :: _ ->
         (* the harness can only write the file when its directory exists *)
         if k = DDir then ignore (do_step (OExt (bytes_of_hex c, n_of_int (int_of_string mt))))
         else ignore (do_step OFresh);
         Printf.printf "%s\t%s\t-\n" id i
       | "N" :: host :: _ ->
         (match do_step (OClient (bytes_of_hex host)) with
          | ObsClient r -> Printf.printf "%s\t%s\t%s\n" id i (show_client r)
          | _ -> failwith "obs")
       | "NS" :: host :: mt :: _ ->
         (match do_step (OClientSave (bytes_of_hex host, n_of_int (int_of_string mt))) with
          | ObsClientSave (r, sr) ->
            let sp = (match r with Ok _ -> show_store !fs p sr | _ -> "S\t-") in
            Printf.printf "%s\t%s\t%s\t|\t%s\n" id i (show_client r) sp
          | _ -> failwith "obs")
       | "V" :: s :: _ ->
         Printf.printf "%s\t%s\t%s\n" id i (vline (bytes_of_hex s))
       | _ -> failwith ("unknown op line in case file"));
      incr idx) ops
  with Oracle_miss w -> Printf.printf "%s\t%d\tORACLE-MISS\t%s\n" id !idx w)

let () =
  let hd = ref ("", "", "") and ops = ref [] in
  iter_lines (fun l ->
    match split_tab l with
    | "H" :: id :: _tag :: path :: _dir :: kind :: _ ->
      hd := (id, path, kind); Hashtbl.reset jt; Hashtbl.reset ut; ops := []
    | "J" :: k :: h :: s :: host :: content :: _ -> Hashtbl.replace jt (k, h, s, host) content
    | "U" :: c :: "err" :: _ -> Hashtbl.replace ut c None
    | "U" :: c :: "ok" :: k :: h :: s :: host :: _ -> Hashtbl.replace ut c (Some (k, h, s, host))
    | "E" :: _ -> let (id, path, kind) = !hd in run_history id path kind (List.rev !ops)
    | op -> ops := op :: !ops)
