From Coq Require Import Extraction ExtrOcamlBasic.
From MTV Require Import Base.Bytes Misc.Session Misc.SessionBase64.
Extraction "model.ml" step fresh go_dir utf8_valid coerce_utf8 b64_encode b64_decode i64_of_u64 u64_of_i64 of_be le64.
