From Coq Require Import Extraction ExtrOcamlBasic.
From MTV Require Import Misc.RpcError Misc.Migrate Misc.DcConfig.
Extraction "model.ml" to_native handle process_err sprintf1 dec atoi cstep dc_lookup Migrate.step Migrate.init Migrate.labels config_table.
