(* C17 driver: reads the case file written by harness/root/cmd/c17 (tables first, then cases),
   runs the extracted model on the tables of that file and prints, per case id, the same
   projection the harness printed for the implementation:
     E: id ok <message> <info> <code> <description | ?>     or  id P
     F: id <text | ?>            (? = format outside the modelled subset of fmt)
     M/D: id <class> <address>   or  id P
     H: id <observations of the history, one per op>   (several clients, see clients.go)      *)
let table = ref []      (* reversed while reading *)
let defaults = ref []   (* defaultDCList, reversed while reading (keys unique: order irrelevant) *)
let cat = ref []
let origin = bytes_of_hex "76657269662d6f726967696e"   (* "verif-origin" *)

let z_of_int (i : int) : z =
  if i = 0 then Z0 else if i > 0 then Zpos (pos_of_int i) else Zneg (pos_of_int (- i))

(* decimal text -> Z, through the model's own atoi would limit it to int64: parse by hand *)
let z_of_string (s : string) : z =
  let neg = String.length s > 0 && s.[0] = '-' in
  let ten = Zpos (XO (XI (XO XH))) in
  let acc = ref Z0 in
  String.iteri (fun i c ->
    if not (i = 0 && neg) then
      acc := Z.add (Z.mul ten !acc) (z_of_int (Char.code c - 48))) s;
  if neg then Z.opp !acc else !acc

let string_of_bytes (l : n list) : string =
  String.concat "" (List.map (fun x -> String.make 1 (Char.chr (int_of_n x))) l)

let bytes_of_string (s : string) : n list =
  List.init (String.length s) (fun i -> n_of_int (Char.code s.[i]))

let rec nat_of_int (i : int) : nat = if i <= 0 then O else S (nat_of_int (i - 1))

let string_of_z (v : z) : string = string_of_bytes (dec v)

let show_info a =
  match a with
  | ANone -> "nil"
  | AInt v -> "i:" ^ string_of_z v
  | AStr s -> "s:" ^ hex_of_bytes s

let parse_info (s : string) : adata =
  if s = "nil" then ANone
  else if String.length s >= 2 && String.sub s 0 2 = "i:" then AInt (z_of_string (String.sub s 2 (String.length s - 2)))
  else AStr (bytes_of_hex (String.sub s 2 (String.length s - 2)))

let parse_dcs (s : string) =
  if s = "-" || s = "" then []
  else List.map (fun kv ->
      match String.index_opt kv '=' with
      | Some i -> (z_of_string (String.sub kv 0 i), bytes_of_hex (String.sub kv (i + 1) (String.length kv - i - 1)))
      | None -> failwith "bad dc list") (String.split_on_char ',' s)

let kind_of s = match s with "0" -> KInt | "1" -> KString | _ -> KOther

let show_action a =
  match a with
  | Switch addr -> "switch\t" ^ hex_of_bytes addr
  | NoSuchDC -> "nodc\t" ^ hex_of_bytes origin
  | Return -> "self\t" ^ hex_of_bytes origin

let () =
  iter_lines (fun l ->
    match split_tab l with
    | "#row" :: p :: s :: k :: _ ->
      table := { e_prefix = bytes_of_hex p; e_suffix = bytes_of_hex s; e_kind = kind_of k } :: !table
    | "#msg" :: k :: v :: _ -> cat := (bytes_of_hex k, bytes_of_hex v) :: !cat
    | "#dc" :: id :: addr :: _ -> defaults := (z_of_string id, bytes_of_hex addr) :: !defaults
    | "E" :: id :: code :: text :: _ ->
      let tbl = List.rev !table in
      (match to_native tbl !cat (z_of_string code) (bytes_of_hex text) with
       | Ok e ->
         Printf.printf "%s\tok\t%s\t%s\t%s\t%s\n" id (hex_of_bytes e.n_message) (show_info e.n_info)
           (string_of_z e.n_code)
           (match e.n_description with Some d -> hex_of_bytes d | None -> "?")
       | Err -> Printf.printf "%s\tERR\n" id
       | Panic -> Printf.printf "%s\tP\n" id)
    | "F" :: id :: f :: arg :: _ ->
      (match sprintf1 (bytes_of_hex f) (parse_info arg) with
       | Some t -> Printf.printf "%s\t%s\n" id (hex_of_bytes t)
       | None -> Printf.printf "%s\t?\n" id)
    | "C" :: id :: opts :: _ ->
      (* opts: id:cdn:hosthex:port,...  ->  the table NewClient builds, as id=addrhex,... (ascending ids) *)
      let os = if opts = "-" then [] else List.map (fun o ->
          match String.split_on_char ':' o with
          | [i; c; h; p] -> { o_id = z_of_string i; o_cdn = (c = "1"); o_host = bytes_of_hex h; o_port = z_of_string p }
          | _ -> failwith "bad dc option") (String.split_on_char ',' opts) in
      let t = config_table os in
      let ids = List.sort_uniq compare (List.map (fun o -> int_of_string (string_of_z o.o_id)) os) in
      let parts = List.filter_map (fun i ->
          match dc_lookup (z_of_int i) t with
          | Some a -> Some (string_of_int i ^ "=" ^ hex_of_bytes a)
          | None -> Some (string_of_int i ^ "=-")) ids in
      Printf.printf "%s\t%s\n" id (if parts = [] then "-" else String.concat "," parts)
    | "M" :: id :: dcs :: code :: text :: _ ->
      let tbl = List.rev !table in
      (match handle tbl !cat (parse_dcs dcs) (z_of_string code) (bytes_of_hex text) with
       | Ok (_, a) -> Printf.printf "%s\t%s\n" id (show_action a)
       | Err -> Printf.printf "%s\tERR\n" id
       | Panic -> Printf.printf "%s\tP\n" id)
    | "D" :: id :: dcs :: msg :: info :: _ ->
      (match process_err (parse_dcs dcs) (bytes_of_hex msg) (parse_info info) with
       | Ok a -> Printf.printf "%s\t%s\n" id (show_action a)
       | Err -> Printf.printf "%s\tERR\n" id
       | Panic -> Printf.printf "%s\tP\n" id)
    | "H" :: id :: ops :: _ ->
      let w = ref [] in
      let nclients () = List.length !w in
      let obs = List.map (fun op ->
          let rest = String.sub op 1 (String.length op - 1) in
          match op.[0] with
          | 'N' ->
            let a = bytes_of_string ("verif-origin-" ^ string_of_int (nclients ())) in
            w := fst (cstep !defaults !w (NewClient a)); "n"
          | 'S' ->
            let i = String.index rest ':' in
            let c = int_of_string (String.sub rest 0 i) in
            w := fst (cstep !defaults !w (SetDC (nat_of_int c, parse_dcs (String.sub rest (i + 1) (String.length rest - i - 1)))));
            "s"
          | 'T' ->
            let c = int_of_string rest in
            let (_, t) = List.nth !w c in
            let keys = List.fold_left (fun acc (k, _) -> if List.mem k acc then acc else k :: acc) [] t in
            let parts = ref [] in
            for id = 12 downto -1 do
              match dc_lookup (z_of_int id) t with
              | Some a -> parts := (string_of_int id ^ "=" ^ hex_of_bytes a) :: !parts
              | None -> ()
            done;
            Printf.sprintf "t:%d;%s" (List.length keys) (String.concat "," !parts)
          | 'P' ->
            (match String.split_on_char ':' rest with
             | c :: msg :: info ->
               let c = int_of_string c in
               let (w', r) = cstep !defaults !w (Process (nat_of_int c, bytes_of_hex msg, parse_info (String.concat ":" info))) in
               w := w';
               let addr = fst (List.nth !w c) in
               (match r with
                | Some (Ok (Switch _)) -> "switch," ^ hex_of_bytes addr
                | Some (Ok NoSuchDC) -> "nodc," ^ hex_of_bytes addr
                | Some (Ok Return) -> "self," ^ hex_of_bytes addr
                | Some Panic -> "P"
                | _ -> "ERR")
             | _ -> failwith "bad P op")
          | _ -> failwith "bad op") (String.split_on_char ' ' ops) in
      Printf.printf "%s\t%s\n" id (String.concat " " obs)
    | "R" :: id :: xs :: _ ->
      (* several callers redirected at once (Misc/Migrate.v): every outcome the protocol model can end in,
         from the state in which all callers have written their request to A (address 0) and wait.
         Data centres 2 and 12 live at address 1 (B), 3 at address 2 (C); B and C serve everybody; A answers
         caller i with PHONE_MIGRATE_xs[i].  (A caller that A answers normally multiplies the state space by
         its own positions only; it is left out here and judged by the direct expectation alone.) *)
      let xl = List.map int_of_string (String.split_on_char '+' xs) in
      let k = List.length xl in
      let total = k in
      let rec int_of_nat n = match n with O -> 0 | S m -> 1 + int_of_nat m in
      let pol a i =
        if int_of_nat a = 0 then
          (let j = int_of_nat i in if j < k then Some (nat_of_int (List.nth xl j)) else None)
        else None in
      let dcs x = match int_of_nat x with 2 | 12 -> nat_of_int 1 | 3 -> nat_of_int 2 | _ -> nat_of_int 9 in
      let s0 = ref (init (nat_of_int total) O) in
      for i = 0 to total - 1 do
        List.iter (fun l -> match step pol dcs !s0 l with Some s -> s0 := s | None -> failwith "R: set-up step refused")
          [LSend (nat_of_int i); LRUnlock (nat_of_int i)]
      done;
      let labs = labels (nat_of_int total) in
      let visited = Hashtbl.create 4096 in
      let outcomes = Hashtbl.create 16 in
      let name a = match a with 0 -> "A" | 1 -> "B" | 2 -> "C" | _ -> "?" in
      let project s =
        let lg = List.map (fun (a, i) -> (int_of_nat a, int_of_nat i)) s.log in
        let cnt a i = List.length (List.filter (fun (b, j) -> a = b && i = j) lg) in
        let callers = List.mapi (fun i c ->
            let by = match c.c_pc with Done a -> name (int_of_nat a) | _ -> "-" in
            if i < k then Printf.sprintf "c%d=A%dB%dC%d>%s" i (cnt 0 i - 1) (cnt 1 i) (cnt 2 i) by
            else Printf.sprintf "n=%s" by) s.cs in
        let op = List.map int_of_nat s.opened in
        let oc a = List.length (List.filter (fun b -> a = b) op) in
        String.concat ";" (callers @ [Printf.sprintf "conns=A%dB%dC%d" (oc 0) (oc 1) (oc 2); "addr=" ^ name (int_of_nat s.addr)]) in
      let rec explore s =
        if not (Hashtbl.mem visited s) then begin
          Hashtbl.add visited s ();
          let next = List.filter_map (fun l -> step pol dcs s l) labs in
          if next = [] then Hashtbl.replace outcomes (project s) () else List.iter explore next
        end in
      explore !s0;
      let outs = List.sort compare (Hashtbl.fold (fun o () acc -> o :: acc) outcomes []) in
      Printf.printf "%s\t%d\t%s\n" id (Hashtbl.length visited) (String.concat "|" outs)
    | _ -> ())
