From Coq Require Import Extraction ExtrOcamlBasic.
From MTV Require Import Base.Bytes Prim.Sha1 Prim.Aes256 Crypto.Ige Crypto.IgeMem Crypto.TempKeys.
Extraction "model.ml" sha1 aes_enc aes_dec of_be
  do_encrypt do_decrypt is_correct_data ige_encrypt ige_decrypt
  generate_temp_keys encrypt_temp_raw encrypt_temp decrypt_temp trydec_temp pad_need
  generate_aes_ige encrypt_msg decrypt_msg tmp_aes_key tmp_aes_iv fixed_bytes.
