(* C05 driver: reads the case lines written by harness/root/cmd/c05 (tab separated:
   id kind a1 a2 a3 a4 a5 cls r1 r2 direct detail), runs the extracted Coq model of
   internal/aes_ige (Crypto/IgeMem.v, Crypto/TempKeys.v) with the Gallina SHA-1 and AES as the
   instances of crypto/sha1 and crypto/aes, and prints   id \t class \t r1 \t r2 . *)
let rec nat_of_int (i : int) : nat = if i <= 0 then O else S (nat_of_int (i - 1))
let rec int_of_nat (n : nat) : int = match n with O -> 0 | S m -> 1 + int_of_nat m

let st_name = function Done -> "ok" | Failed -> "err" | Panicked -> "panic"

let out3 id cls r1 r2 = Printf.printf "%s\t%s\t%s\t%s\n" id cls r1 r2

let show_pair id (r : (n list * n list) outcome) =
  match r with
  | Ok (k, iv) -> out3 id "ok" (hex_of_bytes k) (hex_of_bytes iv)
  | Err -> out3 id "err" "-" "-"
  | Panic -> out3 id "panic" "-" "-"

let show_bytes id (r : n list outcome) r2 =
  match r with
  | Ok b -> out3 id "ok" (hex_of_bytes b) r2
  | Err -> out3 id "err" "-" r2
  | Panic -> out3 id "panic" "-" r2

let rec repeat_n x k = if k <= 0 then [] else x :: repeat_n x (k - 1)

let () =
  iter_lines (fun l ->
    match split_tab l with
    | id :: kind :: a1 :: a2 :: a3 :: a4 :: a5 :: _cls :: _r1 :: r2 :: _ ->
      begin match kind with
      | "igeenc" | "igedec" ->
        let key = bytes_of_hex a1 and iv = bytes_of_hex a2 and data = bytes_of_hex a3 in
        let out = repeat_n (n_of_int (hexval a5.[0] * 16 + hexval a5.[1])) (int_of_string a4) in
        let ((s, o), i) =
          if kind = "igeenc" then do_encrypt aes_enc data out key iv
          else do_decrypt aes_dec data out key iv in
        out3 id (st_name s) (hex_of_bytes o) (hex_of_bytes i)
      | "tk" ->
        show_pair id (generate_temp_keys sha1 (of_be (bytes_of_hex a1)) (of_be (bytes_of_hex a2)))
      | "encraw" ->
        show_bytes id (encrypt_temp_raw sha1 aes_enc (bytes_of_hex a3) (of_be (bytes_of_hex a1)) (of_be (bytes_of_hex a2))) "-"
      | "enc" ->
        let payload = bytes_of_hex a3 in
        let need = int_of_nat (pad_need (nat_of_int (20 + List.length payload))) in
        let pad = if r2 = "?" then repeat_n N0 need else bytes_of_hex r2 in
        if List.length pad <> need then out3 id "ok" (Printf.sprintf "padlen-model-%d" need) r2
        else
          show_bytes id (encrypt_temp sha1 aes_enc (fun _ -> pad) payload (of_be (bytes_of_hex a1)) (of_be (bytes_of_hex a2))) r2
      | "dec" ->
        show_bytes id (decrypt_temp sha1 aes_dec (bytes_of_hex a3) (of_be (bytes_of_hex a1)) (of_be (bytes_of_hex a2))) "-"
      | "trydec" ->
        show_bytes id (trydec_temp sha1 aes_dec (bytes_of_hex a3) (of_be (bytes_of_hex a1)) (of_be (bytes_of_hex a2))) "-"
      | "aesige" ->
        show_pair id (generate_aes_ige sha1 (bytes_of_hex a1) (bytes_of_hex a2) (a3 = "1"))
      | "msgenc" ->
        show_bytes id (encrypt_msg sha1 aes_enc (bytes_of_hex a1) (bytes_of_hex a2)) "-"
      | "msgdec" ->
        show_bytes id (decrypt_msg sha1 aes_dec (bytes_of_hex a1) (bytes_of_hex a2) (bytes_of_hex a3)) "-"
      | "sha1" ->
        out3 id "ok" (hex_of_bytes (sha1 (bytes_of_hex a1))) "-"
      | _ -> ()
      end
    | _ -> ())
