(* C14 driver.  Input lines (tab separated; strings are hex of their UTF-8 bytes, "-" = empty):
     U                         dump the model's unicode.IsSpace / IsDigit as rune ranges
     G  name pub result        goify oracle entry (recorded from the real goify); GC clears the table
     S  id text                ParseSchema on the text, then (if it parsed) the generator model
     C  id text ops            cursor method sequence on NewCursor(text)
   Output: see lib/props/c14.py *)

let runes_of_hex (h : string) : n list = utf8_decode (bytes_of_hex h)

let utf8_of_runes (l : n list) : string =
  let b = Buffer.create 32 in
  List.iter (fun r -> Buffer.add_utf_8_uchar b (Uchar.of_int (int_of_n r))) l;
  Buffer.contents b

let hex_of_string (s : string) : string =
  if s = "" then "-"
  else begin
    let b = Buffer.create (2 * String.length s) in
    String.iter (fun c -> Buffer.add_string b (Printf.sprintf "%02x" (Char.code c))) s;
    Buffer.contents b
  end

let hx (l : n list) : string = hex_of_string (utf8_of_runes l)

let rec int_of_nat (x : nat) : int = match x with O -> 0 | S y -> 1 + int_of_nat y
let rec nat_of_int (i : int) : nat = if i <= 0 then O else S (nat_of_int (i - 1))

let string_of_big_n (x : n) : string =
  (* decimal without overflow for values up to 2^63 and beyond: use float-free manual conversion *)
  let rec bits p = match p with XH -> [1] | XO q -> 0 :: bits q | XI q -> 1 :: bits q in
  match x with
  | N0 -> "0"
  | Npos p ->
    (* little-endian bit list -> decimal string via repeated doubling on a digit array *)
    let bl = List.rev (bits p) in
    let digits = ref [0] in
    let double_add carry0 =
      let carry = ref carry0 in
      digits := List.map (fun d -> let v = 2 * d + !carry in carry := v / 10; v mod 10) !digits;
      if !carry > 0 then digits := !digits @ [!carry] in
    List.iter (fun b -> double_add b) bl;
    String.concat "" (List.rev_map string_of_int !digits)

(* ---- unicode tables ---- *)
let dump_ranges (name : string) (f : n -> bool) =
  let b = Buffer.create 256 in
  let lo = ref (-1) in
  for r = 0 to 0x110000 do
    let inn = r < 0x110000 && not (r >= 0xD800 && r <= 0xDFFF) && f (n_of_int r) in
    if inn && !lo < 0 then lo := r;
    if (not inn) && !lo >= 0 then begin
      Buffer.add_string b (Printf.sprintf "%d-%d," !lo (r - 1)); lo := -1 end
  done;
  Printf.printf "U\t%s\t%s\n" name (Buffer.contents b)

(* ---- goify oracle ---- *)
exception Oracle_missing of string
let goify_tbl : (string * bool, n list) Hashtbl.t = Hashtbl.create 1024
let goify (name : n list) (pub : bool) : n list =
  let k = utf8_of_runes name in
  match Hashtbl.find_opt goify_tbl (k, pub) with
  | Some r -> r
  | None -> raise (Oracle_missing (hex_of_string k))

(* ---- printing a parsed schema ---- *)
let show_param (p : param) : string =
  Printf.sprintf "%s:%s:%s:%s:%s" (hx p.p_name) (hx p.p_type)
    (if p.p_vector then "1" else "0") (if p.p_optional then "1" else "0") (string_of_big_n p.p_bit)

let show_def (id : string) (k : string) (d : def) =
  Printf.printf "D\t%s\t%s\t%s\t%s\t%s\t%s\t%s\n" id k (hx d.d_name) (string_of_big_n d.d_crc) (hx d.d_type)
    (if d.d_isvec then "1" else "0")
    (match d.d_params with [] -> "-" | ps -> String.concat ";" (List.map show_param ps))

(* ---- printing descriptors ---- *)
let rec show_kind (k : gokind) : string =
  match k with
  | KBool -> "bool" | KInt32 -> "int32" | KInt64 -> "int64" | KFloat64 -> "float64"
  | KString -> "string" | KBytes -> "[]uint8"
  | KEnum n -> "enum:" ^ utf8_of_runes n
  | KIface n -> "iface:" ^ utf8_of_runes n
  | KPtr n -> "*" ^ utf8_of_runes n

let show_kv (k, v) = (if v then "[]" else "") ^ show_kind k

let show_struct (id : string) (sd : sdesc) =
  Printf.printf "E\t%s\tstruct\t%s\t%s\t%s\t%s\n" id (string_of_big_n sd.sd_crc) (hx sd.sd_name)
    (match sd.sd_flagindex with Some i -> string_of_int (int_of_nat i) | None -> "-")
    (match sd.sd_impl with [] -> "-" | l -> String.concat "," (List.map hx l));
  List.iteri (fun i f ->
    let tag =
      (match f.f_flag with Some b -> "flag:" ^ string_of_big_n b | None -> "")
      ^ (if f.f_inbits then ",encoded_in_bitflags" else "") in
    Printf.printf "E\t%s\tfield\t%s\t%d\t%s\t%s\t%s\n" id (string_of_big_n sd.sd_crc) i (hx f.f_name)
      (hex_of_string (show_kv (f.f_kind, f.f_vec))) (if tag = "" then "-" else tag)) sd.sd_fields

(* Go method name -> parameters of the schema function (set per schema before show_output) *)
let method_params : (string * param list) list ref = ref []

let show_output (id : string) (o : output) =
  List.iter (fun e ->
    List.iter (fun ((cn, txt), crc) ->
      Printf.printf "E\t%s\tenum\t%s\t%s\t%s\t%s\n" id (string_of_big_n crc) (hx e.e_type) (hx txt) (hx cn)) e.e_vals) o.o_enums;
  List.iter (show_struct id) o.o_types;
  List.iter (fun (n, l) ->
    Printf.printf "E\t%s\tiface\t%s\n" id (hx n);
    List.iter (show_struct id) l) o.o_ifaces;
  List.iter (fun (sd, m) ->
    show_struct id sd;
    let args = match m.m_args with
      | ANone -> ""
      | AParams n -> "*" ^ utf8_of_runes n
      | APositional [] -> ""
      | APositional l -> String.concat ";" (List.map show_kv l) in
    Printf.printf "E\t%s\tmethod\t%s\t%s\t%s\n" id (hx m.m_name) (hex_of_string args) (hex_of_string (show_kv m.m_result))) o.o_methods;
  (* what a call of each generated method hands to MakeRequest: Params type, id, argument -> field *)
  List.iter (fun (sd, m) ->
    let map = match m.m_args with
      | ANone -> "-"
      | AParams _ -> "ptr"
      | APositional _ ->
        let call = gen_call goify (try List.assoc (utf8_of_runes m.m_name) !method_params with Not_found -> []) in
        let pairs = List.mapi (fun fi (_, a) -> match a with Some j -> Printf.sprintf "%d>%d" (int_of_nat j) fi | None -> Printf.sprintf "?>%d" fi) call in
        (match List.sort compare pairs with [] -> "-" | l -> String.concat "," l) in
    Printf.printf "E\t%s\tcall\t%s\t%s\t%s\t%s\n" id (hx m.m_name) (hx sd.sd_name) (string_of_big_n sd.sd_crc) map) o.o_methods;
  let (st, en) = o.o_init in
  Printf.printf "E\t%s\tinit\t%s\t%s\n" id
    (match st with [] -> "-" | l -> String.concat "," (List.map hx l))
    (match en with [] -> "-" | l -> String.concat "," (List.map hx l))

let b01 b = if b then "1" else "0"

let run_schema (id : string) (text : string) =
  let bs = bytes_of_hex text in
  match parse bs with
  | SPanic -> Printf.printf "P\t%s\tpanic\n" id
  | SFuel -> Printf.printf "P\t%s\tfuel\n" id
  | SErr -> Printf.printf "P\t%s\terr\n" id
  | SOk s ->
    Printf.printf "P\t%s\tok\t%d\t%d\n" id (List.length s.s_objects) (List.length s.s_methods);
    List.iter (show_def id "o") s.s_objects;
    List.iter (show_def id "m") s.s_methods;
    (* executable instance of C14_parse_print on this value *)
    let wf = wf_schema s in
    let rt = if wf then (match parse (print s) with SOk s' -> if s' = s then "ok" else "differs" | _ -> "fails") else "n/a" in
    Printf.printf "R\t%s\t%s\n" id rt;
    let names l = match l with [] -> "-" | _ -> String.concat "," (List.map (fun d -> hx d.d_name) l) in
    let gs = groups s.s_objects in
    List.iter (fun (k, l) -> Printf.printf "E\t%s\tclass\tenum\t%s\t%s\n" id (hx k) (names l)) (enums_of gs);
    List.iter (fun (k, l) -> Printf.printf "E\t%s\tclass\tiface\t%s\t%s\n" id (hx k) (names l)) (types_of gs);
    List.iter (fun d -> Printf.printf "E\t%s\tclass\tsingle\t%s\t%s\n" id (hx d.d_type) (hx d.d_name)) (singles_of gs);
    (try
      let wg = wf_gen goify s in
      let nk = names_ok goify s in
      Printf.printf "E\t%s\tsubset\t%s\t%s\t%s\n" id (b01 wf) (b01 wg) (b01 nk);
      method_params := List.map (fun m -> (utf8_of_runes (goify m.d_name true), m.d_params)) s.s_methods;
      let o1 = generate goify isort_defs isort_strs (fun g -> g) s in
      let o2 = generate goify isort_defs isort_strs List.rev s in
      (match o1 with
       | Ok o -> Printf.printf "E\t%s\tstatus\tok\t%s\n" id (if o2 = o1 then "order-independent" else "ORDER-DEPENDENT");
         show_output id o
       | _ -> Printf.printf "E\t%s\tstatus\tpanic\t%s\n" id (if o2 = o1 then "order-independent" else "ORDER-DEPENDENT"))
    with Oracle_missing k -> Printf.printf "E\t%s\tstatus\toracle-missing\t%s\n" id k)

(* ---- cursor method sequences ---- *)
let run_cursor (id : string) (text : string) (ops : string) =
  let src = runes_of_hex text in
  let c = ref (new_cursor src) in
  let out = Buffer.create 64 in
  let dead = ref false in
  let emit s = Buffer.add_string out s; Buffer.add_char out ',' in
  let pos () = string_of_int (int_of_nat (cur_pos !c)) in
  List.iter (fun op ->
    if not !dead && op <> "" then begin
      let arg = String.sub op 1 (String.length op - 1) in
      let fin r = (match r with
        | COk (v, c') -> c := c'; emit (pos () ^ ":" ^ v)
        | CEof c' -> c := c'; emit (pos () ^ ":E")
        | CPanic -> dead := true; emit "P") in
      match op.[0] with
      | 'S' -> (match skip_spaces !c with Some c' -> c := c'; emit (pos () ^ ":") | None -> dead := true; emit "P")
      | 'I' -> fin (match is_next (runes_of_hex arg) !c with
                    | COk (b, c') -> COk ((if b then "t" else "f"), c') | CEof c' -> CEof c' | CPanic -> CPanic)
      | 'R' -> (match runes_of_hex arg with
                | [r] -> fin (match read_at r !c with COk (s, c') -> COk (hx s, c') | CEof c' -> CEof c' | CPanic -> CPanic)
                | _ -> failwith "R needs one rune")
      | 'D' -> fin (match read_digits !c with COk (s, c') -> COk (hx s, c') | CEof c' -> CEof c' | CPanic -> CPanic)
      | 'K' -> c := skip (nat_of_int (int_of_string arg)) !c; emit (pos () ^ ":")
      | 'N' -> c := unread (nat_of_int (int_of_string arg)) !c; emit (pos () ^ ":")
      | _ -> failwith ("bad cursor op " ^ op)
    end) (String.split_on_char ',' ops);
  Printf.printf "C\t%s\t%s\n" id (Buffer.contents out)

let () =
  iter_lines (fun l ->
    match split_tab l with
    | ["U"] -> dump_ranges "space" is_space; dump_ranges "digit" is_digit
    | ["GC"] -> Hashtbl.reset goify_tbl
    | ["G"; name; pub; res] ->
      Hashtbl.replace goify_tbl (utf8_of_runes (runes_of_hex name), pub = "1") (runes_of_hex res)
    | "S" :: id :: text :: _ -> run_schema id text
    | "C" :: id :: text :: ops :: _ -> run_cursor id text ops
    | _ -> ())
