From Coq Require Import Extraction ExtrOcamlBasic.
From MTV Require Import TLGen.Parser TLGen.Printer TLGen.Classify.
Extraction "model.ml" utf8_decode is_space is_digit
  new_cursor cur_pos is_next read_at read_digits skip unread skip_spaces
  parse default_fuel parse_fuel print wf_schema
  groups enums_of types_of singles_of generate isort_defs isort_strs wf_gen names_ok gen_call.
