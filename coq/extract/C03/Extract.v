From Coq Require Import Extraction ExtrOcamlBasic.
From MTV Require Import Crypto.Envelope Crypto.EnvelopeIge.
Extraction "model.ml" x_seal_client x_open_client x_spec_seal x_spec_open x_serialize_packet
  x_serialize_unencrypted x_deserialize_unencrypted x_read_dispatch x_kiv is_packet_encrypted.
