(* C03 / C04 driver: one request per line (tab separated, bytes in hex, "-" = empty), one answer
   line  id \t result  per request.  64/32-bit fields travel as little-endian byte strings.
     seal  id key salt sid msgid seq ack body          Encrypted.Serialize            -> O:<pkt> | E | P
     open  id fixed key pkt                            DeserializeEncrypted (fixed=1: repaired code,
                                                       0: pinned code)                -> O:salt,sid,msgid,seq,body,msgkey | E | P
     sseal id dir key salt sid msgid seq body pad      conformant sender (dir 1 = to server) -> O:<pkt>
     sopen id dir key pkt                              conformant receiver            -> O:salt,sid,msgid,seq,body | N
     spkt  id salt sid msgid seq ack body              serializePacket                -> O:<bytes>
     user  id msgid body                               Unencrypted.Serialize          -> O:<bytes>
     udes  id data                                     DeserializeUnencrypted         -> O:msgid,body | E | P
     disp  id key data                                 ReadMsg dispatch + parity      -> O:kind,msgid,body | E | P
     kiv   id x key msgkey                             generateAESIGE (x = 0 | 8)     -> O:key,iv | P
     isenc id data                                     isPacketEncrypted              -> O:01 | O:00 *)
let show_list l = "O:" ^ String.concat "," (List.map hex_of_bytes l)
let show_out r = match r with Ok l -> show_list l | Err -> "E" | Panic -> "P"
let show_out1 r = match r with Ok b -> "O:" ^ hex_of_bytes b | Err -> "E" | Panic -> "P"
let h = bytes_of_hex
let flag s = (s = "1")

let () =
  iter_lines (fun l ->
    let ans id s = Printf.printf "%s\t%s\n" id s in
    match split_tab l with
    | ["seal"; id; key; salt; sid; msgid; seq; ack; body] ->
      ans id (show_out1 (x_seal_client (h key) (h salt) (h sid) (h msgid) (h seq) (flag ack) (h body)))
    | ["open"; id; fixed; key; pkt] ->
      ans id (show_out (x_open_client (flag fixed) (h key) (h pkt)))
    | ["sseal"; id; dir; key; salt; sid; msgid; seq; body; pad] ->
      ans id ("O:" ^ hex_of_bytes (x_spec_seal (flag dir) (h key) (h salt) (h sid) (h msgid) (h seq) (h body) (h pad)))
    | ["sopen"; id; dir; key; pkt] ->
      ans id (match x_spec_open (flag dir) (h key) (h pkt) with Some l -> show_list l | None -> "N")
    | ["spkt"; id; salt; sid; msgid; seq; ack; body] ->
      ans id ("O:" ^ hex_of_bytes (x_serialize_packet (h salt) (h sid) (h msgid) (h seq) (flag ack) (h body)))
    | ["user"; id; msgid; body] ->
      ans id ("O:" ^ hex_of_bytes (x_serialize_unencrypted (h msgid) (h body)))
    | ["udes"; id; data] -> ans id (show_out (x_deserialize_unencrypted (h data)))
    | ["disp"; id; key; data] -> ans id (show_out (x_read_dispatch (h key) (h data)))
    | ["kiv"; id; x; key; mk] -> ans id (show_out (x_kiv (x = "8") (h key) (h mk)))
    | ["isenc"; id; data] -> ans id (if is_packet_encrypted (h data) then "O:01" else "O:00")
    | _ -> ())
