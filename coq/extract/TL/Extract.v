From Coq Require Import Extraction ExtrOcamlBasic.
From MTV Require Import Base.Outcome TL.Types TL.Codec.
Extraction "model.ml" enc decode_named decode_unknown fuel_for.
