From Coq Require Import Extraction ExtrOcamlBasic.
From MTV Require Import Base.Outcome TL.Types TL.Codec TL.Typing TL.TLText TL.Spec TL.Conform TL.Canonical.
Extraction "model.ml" enc decode_named decode_unknown fuel_for wt abs spec parse_lines defs conforms sdepth canonical.
