(* TL driver: argv.(1) = registry descriptor file (translator output); stdin = case lines
   (harness/root/cmd/tl/main.go).  For E-lines runs the extracted [enc]; for D-lines
   [decode_named]/[decode_unknown] with the inflate oracle collected from the Z-lines.
   Prints  id \t result  in the same notation the harness uses for the implementation. *)

(* ---- numbers in hex <-> N, by bit manipulation only ---- *)
let n_of_hexs (s : String.t) : n =
  let acc = ref N0 in
  String.iter (fun c ->
    let d = hexval c in
    let bits = [d land 8 <> 0; d land 4 <> 0; d land 2 <> 0; d land 1 <> 0] in
    List.iter (fun b ->
      acc := (match !acc with
              | N0 -> if b then Npos XH else N0
              | Npos p -> Npos (if b then XI p else XO p))) bits) s;
  !acc

let hexs_of_n (x : n) : String.t =
  match x with
  | N0 -> "0"
  | Npos p ->
    let rec bits p = match p with XH -> [true] | XO q -> false :: bits q | XI q -> true :: bits q in
    let l = Array.of_list (bits p) in
    let nb = Array.length l in
    let nd = (nb + 3) / 4 in
    let b = Buffer.create nd in
    for d = nd - 1 downto 0 do
      let v = ref 0 in
      for k = 3 downto 0 do
        let i = 4 * d + k in
        v := !v * 2 + (if i < nb && l.(i) then 1 else 0)
      done;
      Buffer.add_char b "0123456789abcdef".[!v]
    done;
    Buffer.contents b

let rec nat_of_int (i : int) : nat = if i <= 0 then O else S (nat_of_int (i - 1))

(* ---- registry file -> universe ---- *)
let rec parse_fty (s : String.t) (p : int ref) : fty =
  let rest () = String.sub s !p (String.length s - !p) in
  let starts x = let r = rest () in String.length r >= String.length x && String.sub r 0 (String.length x) = x in
  let num () =
    let st = !p in
    while !p < String.length s && s.[!p] >= '0' && s.[!p] <= '9' do incr p done;
    n_of_int (int_of_string (String.sub s st (!p - st))) in
  if starts "i128" then (p := !p + 4; TI128)
  else if starts "i256" then (p := !p + 4; TI256)
  else if starts "i32" then (p := !p + 3; TI32)
  else if starts "u32" then (p := !p + 3; TU32)
  else if starts "i64" then (p := !p + 3; TI64)
  else if starts "f64" then (p := !p + 3; TF64)
  else if starts "bool" then (p := !p + 4; TBool)
  else if starts "str" then (p := !p + 3; TStr)
  else if starts "bytes" then (p := !p + 5; TBytes)
  else if starts "bad" then (p := String.length s; TBad)
  else match s.[!p] with
    | 'e' -> incr p; TEnum (num ())
    | 'I' -> incr p; TIface (num ())
    | 'P' -> incr p; TPtr (num ())
    | 'V' -> incr p; TVec (parse_fty s p)
    | _ -> failwith ("bad fty: " ^ s)

let fty_of_string s = parse_fty s (ref 0)

let parse_tag (s : String.t) : tag =
  if s = "none" then TagNone
  else if String.length s > 5 && String.sub s 0 5 = "flag:" then TagFlag (n_of_int (int_of_string (String.sub s 5 (String.length s - 5))))
  else if String.length s > 8 && String.sub s 0 8 = "bitflag:" then TagBit (n_of_int (int_of_string (String.sub s 8 (String.length s - 8))))
  else TagBad

let ints (s : String.t) : n list =
  if s = "-" then [] else List.map (fun x -> n_of_int (int_of_string x)) (String.split_on_char ',' s)

let load_universe (path : String.t) : universe =
  let ic = open_in path in
  let structs = ref [] and enums = ref [] and reg = ref [] in
  let cur = ref None in
  let tru = ref N0 and fls = ref N0 and nul = ref N0 in
  let flush () =
    match !cur with
    | None -> ()
    | Some (crc, fi, impls, fields) ->
      structs := { s_crc = crc; s_flagidx = fi; s_fields = List.rev fields; s_impls = impls } :: !structs;
      cur := None in
  (try
     while true do
       let l = input_line ic in
       match split_tab l with
       | "struct" :: tid :: name :: crc :: fi :: _nf :: impls :: _ ->
         flush ();
         let crc = if crc = "nocrc" then None else Some (n_of_int (int_of_string crc)) in
         let fi = let k = int_of_string fi in if k < 0 then None else Some (nat_of_int k) in
         if name = "tl.PseudoTrue" then tru := n_of_int (int_of_string tid);
         if name = "tl.PseudoFalse" then fls := n_of_int (int_of_string tid);
         if name = "tl.PseudoNil" then nul := n_of_int (int_of_string tid);
         cur := Some (crc, fi, ints impls, [])
       | "field" :: _name :: ft :: tg :: _ ->
         (match !cur with
          | Some (c, f, i, fs) -> cur := Some (c, f, i, { f_ty = fty_of_string ft; f_tag = parse_tag tg } :: fs)
          | None -> failwith "field outside struct")
       | "enum" :: _eid :: _name :: _members :: impls :: _ -> flush (); enums := ints impls :: !enums
       | "reg" :: crc :: k :: _ ->
         flush ();
         let crc = n_of_int (int_of_string crc) in
         let rk =
           if k = "container" then Some RContainer
           else if k = "gzip" then Some RGzip
           else if k.[0] = 's' then Some (RStruct (n_of_int (int_of_string (String.sub k 1 (String.length k - 1)))))
           else if k.[0] = 'e' then Some (REnum (n_of_int (int_of_string (String.sub k 1 (String.length k - 1)))))
           else None in
         (match rk with Some r -> reg := (crc, r) :: !reg | None -> ())
       | _ -> flush ()
     done
   with End_of_file -> flush ());
  close_in ic;
  { u_structs = List.rev !structs; u_enum_impls = List.rev !enums; u_reg = List.rev !reg;
    u_true = !tru; u_false = !fls; u_null = !nul }

(* ---- gval text ---- *)
exception Unsupported

let parse_gval (s : String.t) : gval =
  let p = ref 0 in
  let len = String.length s in
  let until_dot () =
    let st = !p in
    while s.[!p] <> '.' do incr p done;
    let r = String.sub s st (!p - st) in
    incr p; r in
  let hexnum () =
    let st = !p in
    while !p < len && (match s.[!p] with '0' .. '9' | 'a' .. 'f' -> true | _ -> false) do incr p done;
    n_of_hexs (String.sub s st (!p - st)) in
  let decnum () =
    let st = !p in
    while !p < len && s.[!p] >= '0' && s.[!p] <= '9' do incr p done;
    int_of_string (String.sub s st (!p - st)) in
  let rec value () : gval =
    let c = s.[!p] in
    incr p;
    match c with
    | 'i' -> VInt (hexnum ())
    | 'l' -> VLong (hexnum ())
    | 'd' -> VDouble (hexnum ())
    | 'e' -> VEnum (hexnum ())
    | 't' -> VBool true
    | 'f' -> VBool false
    | 's' -> VStr (bytes_of_hex (until_dot ()))
    | 'y' -> VBytes (false, bytes_of_hex (until_dot ()))
    | 'Y' -> VBytes (true, [])
    | 'n' -> VNil
    | 'V' -> VVec (true, [])
    | 'v' -> incr p; VVec (false, plist ())
    | 'o' -> let tid = decnum () in incr p; VObj (n_of_int tid, plist ())
    | 'g' -> let h = until_dot () in VBig (false, true, n_of_hexs h)   (* width fixed up by the caller's type *)
    | 'G' -> VBig (false, false, N0)
    | 'z' -> VGzip (value ())
    | 'w' -> VWrapped (value ())
    | 'c' -> incr p; VContainer (items ())
    | _ -> raise Unsupported
  and plist () : gval list =
    if s.[!p] = ')' then (incr p; [])
    else begin
      let v = value () in
      if s.[!p] = ',' then (incr p; v :: plist ())
      else (incr p; [v])
    end
  and items () =
    if s.[!p] = ')' then (incr p; [])
    else begin
      let mid = hexnum () in incr p;
      let seq = hexnum () in incr p;
      let body = bytes_of_hex (until_dot ()) in
      let it = ((mid, seq), body) in
      if s.[!p] = ',' then (incr p; it :: items ()) else (incr p; [it])
    end in
  value ()

(* the text does not say whether a big integer is 128 or 256 bit wide: take it from the field type *)
let rec fix_width (u : universe) (t : fty) (v : gval) : gval =
  match t, v with
  | TI256, VBig (_, h, n) -> VBig (true, h, n)
  | TI128, VBig (_, h, n) -> VBig (false, h, n)
  | TVec e, VVec (nl, l) -> VVec (nl, List.map (fix_width u e) l)
  | _, VObj (tid, fs) ->
    (match get_struct u tid with
     | Some sd ->
       let rec go fds vs = match fds, vs with
         | fd :: fds', v :: vs' -> fix_width u fd.f_ty v :: go fds' vs'
         | _, vs -> vs in
       VObj (tid, go sd.s_fields fs)
     | None -> v)
  | _, VGzip x -> VGzip (fix_width u TBad x)
  | _, VWrapped x -> VWrapped (fix_width u TBad x)
  | _, _ -> v

let rec show (b : Buffer.t) (v : gval) : unit =
  let add = Buffer.add_string b in
  let hx l = (match l with [] -> "" | _ -> hex_of_bytes l) ^ "." in
  match v with
  | VInt n -> add "i"; add (hexs_of_n n)
  | VLong n -> add "l"; add (hexs_of_n n)
  | VDouble n -> add "d"; add (hexs_of_n n)
  | VEnum n -> add "e"; add (hexs_of_n n)
  | VBool true -> add "t"
  | VBool false -> add "f"
  | VStr s -> add "s"; add (hx s)
  | VBytes (true, _) -> add "Y"
  | VBytes (false, s) -> add "y"; add (hx s)
  | VNil -> add "n"
  | VVec (true, _) -> add "V"
  | VVec (false, l) -> add "v("; slist b l; add ")"
  | VObj (tid, fs) -> add "o"; add (string_of_int (int_of_n tid)); add "("; slist b fs; add ")"
  | VBig (_, false, _) -> add "G"
  | VBig (_, true, n) -> add "g"; add (match n with N0 -> "" | _ -> let h = hexs_of_n n in if String.length h mod 2 = 1 then "0" ^ h else h); add "."
  | VGzip x -> add "z"; show b x
  | VWrapped x -> add "w"; show b x
  | VContainer its ->
    add "c(";
    List.iteri (fun i ((mid, seq), body) ->
      if i > 0 then add ",";
      add (hexs_of_n mid); add ":"; add (hexs_of_n seq); add ":"; add (hx body)) its;
    add ")"
and slist b l = List.iteri (fun i x -> if i > 0 then Buffer.add_string b ","; show b x) l

let show_gval v = let b = Buffer.create 256 in show b v; Buffer.contents b

let read_lines_bytes (path : String.t) : n list list =
  let ic = open_in_bin path in
  let res = ref [] in
  (try
     while true do
       let l = input_line ic in
       let l = if String.length l > 0 && l.[String.length l - 1] = '\r' then String.sub l 0 (String.length l - 1) else l in
       res := (List.init (String.length l) (fun i -> n_of_int (Char.code l.[i]))) :: !res
     done
   with End_of_file -> ());
  close_in ic;
  List.rev !res

let () =
  let u = load_universe Sys.argv.(1) in
  (* schema files (optional): parsed by the extracted Coq parser; spec side of C02 *)
  let schema =
    if Array.length Sys.argv > 2 then
      List.concat (List.map (fun p -> defs (parse_lines false (read_lines_bytes p)))
                     (Array.to_list (Array.sub Sys.argv 2 (Array.length Sys.argv - 2))))
    else [] in
  let gz : (String.t, String.t) Hashtbl.t = Hashtbl.create 64 in
  let inflate (payload : n list) : n list option =
    match Hashtbl.find_opt gz (hex_of_bytes payload) with
    | Some "err" -> None
    | Some r -> Some (bytes_of_hex (String.sub r 3 (String.length r - 3)))
    | None -> failwith ("inflate oracle has no entry for " ^ hex_of_bytes payload) in
  let dres r = match r with
    | DOk v -> "ok:" ^ show_gval v
    | DErr -> "err"
    | DPanic -> "panic"
    | DFuel -> "FUEL" in
  iter_lines (fun l ->
    match split_tab l with
    | "Z" :: payload :: res :: _ -> Hashtbl.replace gz (hex_of_bytes (bytes_of_hex payload)) res
    | "E" :: id :: tid :: g :: _ ->
      (try
         let v = fix_width u TBad (parse_gval g) in
         let r = match enc u v with
           | Ok b -> "ok:" ^ hex_of_bytes b
           | Err -> "err"
           | Panic -> "panic" in
         let sp =
           if schema = [] then
             (if tid = "c" then "c"
              else if wt u (TPtr (n_of_int (int_of_string tid))) v then
                (if canonical u (TPtr (n_of_int (int_of_string tid))) v then "wt-canonical" else "wt")
              else "illtyped")
           else if tid = "c" then "illtyped"
           else let tidn = n_of_int (int_of_string tid) in
           if not (wt u (TPtr tidn) v) then "illtyped"
           else
             let sv = abs u v in
             (* does the value mention a constructor the schema files do not define? then the schema says nothing about it *)
             let rec foreign (x : sval) : bool =
               match x with
               | SVec l -> List.exists foreign l
               | SCtor (id, args) ->
                 (not (List.exists (fun c -> c.c_id = id) schema))
                 || List.exists (fun a -> match a with Some y -> foreign y | None -> false) args
               | SOpaque -> true
               | _ -> false in
             match spec schema sv with
             | Some b -> (if conforms schema (sdepth sv) TTObject sv then "ok:" else "ok-nonconforming:") ^ hex_of_bytes b
             | None -> if foreign sv then "foreign" else "none" in
         Printf.printf "%s\t%s\t%s\n" id r sp
       with Unsupported -> Printf.printf "%s\tunsupported\n" id)
    | "D" :: id :: mode :: hints :: hx :: _ ->
      let bs = bytes_of_hex hx in
      let fuel = fuel_for u bs in
      let r =
        if mode = "u" then
          let hs = if hints = "-" then [] else List.map fty_of_string (String.split_on_char ',' hints) in
          decode_unknown u inflate fuel hs bs
        else
          decode_named u inflate fuel (n_of_int (int_of_string (String.sub mode 1 (String.length mode - 1)))) bs in
      Printf.printf "%s\t%s\n" id (dres r)
    | _ -> ())
