From Coq Require Import Extraction ExtrOcamlBasic ZArith NArith.
From MTV Require Import Base.Bytes Base.Outcome Prim.Sha1 Prim.Aes256 Crypto.Ige Crypto.TempKeys Crypto.Envelope
  Handshake.Bytes Handshake.Objects Handshake.Client Handshake.Server.
Extraction "model.ml" sha1 aes_enc aes_dec of_be big_bytes fixed_bytes modpow
  handshake connect_and_request outcome_of script_env dec_reply dec_inner ige_encrypt ige_decrypt
  srv_env srv_secrets spec_fingerprint.
