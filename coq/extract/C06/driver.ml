(* C06/C07 driver.  Input: blocks written by harness/root/cmd/c06 (tab separated lines)

     case <id> <prop>
     draw <nonce> <new_nonce> <b> <client padding as recovered by the server | ->
     pub <n> <e>
     srv ...                      (C06 only: the conformant server's parameters, for Handshake/Server.v)
     reply <body>  |  arrival err404  |  arrival closed      (in order: what the server sent: a plain body, the 4-byte
                                  transport error frame, the connection closed)
     enc <session id> <msg id> <seq_no> <body>      (the first encrypted request as opened by the server)
     modexp <b> <e> <m> <r> | prime <n> <0|1> | split <pq> <p> <q>     ORACLE TABLE recorded from math/big and the
                                  client's own SplitPQ for exactly the calls of this case
     end <id>

   The extracted client model (Handshake/Client.v) is run with the Gallina SHA-1 / AES-256 and with modexp,
   is_prime, split answering from the table; an entry that is missing is a harness error (exception),
   never a default.  Output: one line per case,  id \t key=value ... *)

exception Missing of string

let rec pos_of_hex_bits (s : string) : positive option =
  (* MSB first *)
  let acc = ref None in
  String.iter (fun c ->
    let d = hexval c in
    for k = 3 downto 0 do
      let bit = (d lsr k) land 1 = 1 in
      acc := (match !acc with
        | None -> if bit then Some XH else None
        | Some p -> Some (if bit then XI p else XO p))
    done) s;
  !acc

let n_of_hex (s : string) : n =
  if s = "-" || s = "" then N0 else
  match pos_of_hex_bits s with None -> N0 | Some p -> Npos p

let z_of_hex (s : string) : z =
  if String.length s > 0 && s.[0] = 'n' then
    (match pos_of_hex_bits (String.sub s 1 (String.length s - 1)) with None -> Z0 | Some p -> Zneg p)
  else (match n_of_hex s with N0 -> Z0 | Npos p -> Zpos p)

let hex_of_pos (p : positive) : string =
  (* collect bits LSB first *)
  let bits = ref [] in
  let rec go p = match p with
    | XH -> bits := 1 :: !bits
    | XO q -> bits := 0 :: !bits; go q
    | XI q -> bits := 1 :: !bits; go q in
  go p;
  (* !bits is MSB first now *)
  let l = !bits in
  let n = List.length l in
  let padn = (4 - n mod 4) mod 4 in
  let l = (List.init padn (fun _ -> 0)) @ l in
  let b = Buffer.create (n / 4 + 2) in
  let rec nib l = match l with
    | a :: b' :: c :: d :: r -> Buffer.add_char b "0123456789abcdef".[a*8 + b'*4 + c*2 + d]; nib r
    | _ -> () in
  nib l;
  let s = Buffer.contents b in
  if String.length s mod 2 = 1 then "0" ^ s else s

let hex_of_n (x : n) : string = match x with N0 -> "00" | Npos p -> hex_of_pos p
let hex_of_z (x : z) : string = match x with Z0 -> "00" | Zpos p -> hex_of_pos p | Zneg p -> "n" ^ hex_of_pos p

let rec nat_of_int (i : int) : nat = if i <= 0 then O else S (nat_of_int (i - 1))
let rec int_of_nat (n : nat) : int = match n with O -> 0 | S m -> 1 + int_of_nat m

let le8_of_n (x : n) : string =
  (* 8 bytes little endian *)
  let h = hex_of_n x in
  let h = if String.length h < 16 then String.make (16 - String.length h) '0' ^ h else h in
  let b = Buffer.create 16 in
  for i = 7 downto 0 do Buffer.add_string b (String.sub h (2*i) 2) done;
  Buffer.contents b

let n_of_le_hex (s : string) : n =
  (* little-endian byte string -> number *)
  let l = String.length s / 2 in
  let b = Buffer.create (2*l) in
  for i = l - 1 downto 0 do Buffer.add_string b (String.sub s (2*i) 2) done;
  n_of_hex (Buffer.contents b)

type case = {
  mutable id : string; mutable prop : string;
  mutable nonce : string; mutable new_nonce : string; mutable b : string; mutable pad : string;
  mutable pn : string; mutable pe : string;
  mutable srv : string list;
  mutable replies : string list;
  mutable enc : string list;
  modexp_t : (string, string) Hashtbl.t;
  prime_t : (string, bool) Hashtbl.t;
  split_t : (string, string * string) Hashtbl.t;
}

let fresh () = { id = ""; prop = ""; nonce = ""; new_nonce = ""; b = ""; pad = "-"; pn = ""; pe = ""; srv = [];
                 replies = []; enc = []; modexp_t = Hashtbl.create 8; prime_t = Hashtbl.create 4; split_t = Hashtbl.create 4 }

let norm_hex s = (* canonical number key: strip leading zero bytes *)
  let neg = String.length s > 0 && s.[0] = 'n' in
  let s' = if neg then String.sub s 1 (String.length s - 1) else s in
  let i = ref 0 in
  while !i + 2 <= String.length s' - 2 && s'.[!i] = '0' && s'.[!i+1] = '0' do i := !i + 2 done;
  let t = String.sub s' !i (String.length s' - !i) in
  let t = if t = "" then "00" else t in
  (if neg then "n" else "") ^ t

let stop_name (s : stop) = match s with HFailed -> "failed" | HPanicked -> "panicked" | HStalled -> "stalled"

let run_case (c : case) =
  let missing = ref "" in
  let modexp b e m =
    let k = norm_hex (hex_of_z b) ^ "|" ^ norm_hex (hex_of_z e) ^ "|" ^ norm_hex (hex_of_z m) in
    match Hashtbl.find_opt c.modexp_t k with
    | Some r -> z_of_hex r
    | None -> raise (Missing ("modexp " ^ (String.sub k 0 (min 60 (String.length k))))) in
  let is_prime x =
    match Hashtbl.find_opt c.prime_t (norm_hex (hex_of_n x)) with
    | Some r -> r | None -> raise (Missing ("prime " ^ hex_of_n x)) in
  let split x =
    match Hashtbl.find_opt c.split_t (norm_hex (hex_of_n x)) with
    | Some (p, q) -> Some (n_of_hex p, n_of_hex q)
    | None -> raise (Missing ("split " ^ hex_of_n x)) in
  let replies = List.rev c.replies in
  let pk = { k_n = n_of_hex c.pn; k_e = n_of_hex c.pe } in
  let pad = bytes_of_hex c.pad in
  let dr = { d_nonce = bytes_of_hex c.nonce; d_new_nonce = bytes_of_hex c.new_nonce; d_b = bytes_of_hex c.b;
             d_pad = (fun n -> if int_of_nat n = List.length pad then pad
                               else raise (Missing (Printf.sprintf "padding of %d bytes (server recovered %d)" (int_of_nat n) (List.length pad)))) } in
  let buf = Buffer.create 4096 in
  let put k v = Buffer.add_string buf ("\t" ^ k ^ "=" ^ v) in
  (* C06: the conformant server of Handshake/Server.v answers; C07: the recorded replies *)
  let sparams =
    match c.srv with
    | [snonce; pq; p; q; d; fps; g; dhp; a; time; spad; gaw; dpw] ->
      let real = spec_fingerprint sha1 pk.k_n pk.k_e in
      let all = if fps = "" then [] else List.map n_of_le_hex (String.split_on_char ',' fps) in
      let rec cut before l = match l with
        | [] -> raise (Missing "the real fingerprint among the offered ones")
        | x :: r -> if hex_of_n x = hex_of_n real then (List.rev before, r) else cut (x :: before) r in
      let (before, after) = cut [] all in
      let spadb = bytes_of_hex spad in
      Some { s_srv_nonce = bytes_of_hex snonce; s_p = n_of_hex p; s_q = n_of_hex q;
             s_pq_width = nat_of_int (List.length (bytes_of_hex pq));
             s_n = pk.k_n; s_e = pk.k_e; s_d = n_of_hex d; s_fps_before = before; s_fps_after = after;
             s_g = n_of_le_hex g; s_dh_prime = n_of_hex dhp; s_dp_width = nat_of_int (int_of_string dpw);
             s_a = n_of_hex a; s_ga_width = nat_of_int (int_of_string gaw); s_time = n_of_le_hex time;
             s_pad = (fun n -> if int_of_nat n = List.length spadb then spadb
                               else raise (Missing (Printf.sprintf "server padding of %d bytes (case has %d)" (int_of_nat n) (List.length spadb)))) }
    | _ -> None in
  (try
  let env = match sparams with
    | Some sp -> srv_env sha1 aes_enc aes_dec modexp sp
    | None -> script_env (List.map (fun h -> match h with
                                      | "!err404" -> TransportError
                                      | "!closed" -> Closed
                                      | _ -> Reply (bytes_of_hex h)) replies) in
    let (eff, fin) =
      match c.enc with
      | [sid; msgid; seq; body] ->
        connect_and_request sha1 aes_enc aes_dec modexp is_prime split pk dr env
          (n_of_le_hex sid) (n_of_le_hex msgid) (n_of_le_hex seq) false (bytes_of_hex body)
      | _ -> outcome_of (handshake sha1 aes_enc aes_dec modexp is_prime split pk dr env) in
    let nplain = ref 0 and saved = ref "-" and encp = ref "-" in
    List.iter (fun ef -> match ef with
      | SendPlain b -> incr nplain; put (Printf.sprintf "f%d" !nplain) (hex_of_bytes b)
      | Save (k, h, s) -> saved := hex_of_bytes k ^ "|" ^ hex_of_bytes h ^ "|" ^ le8_of_n s
      | SendEncrypted p -> encp := hex_of_bytes p) eff;
    (match sparams with
     | Some sp ->
       let frames = List.filter_map (fun ef -> match ef with SendPlain b -> Some b | _ -> None) eff in
       let rec prefixes acc l = match l with [] -> [] | x :: r -> (acc @ [x]) :: prefixes (acc @ [x]) r in
       List.iteri (fun i h -> put (Printf.sprintf "r%d" (i + 1))
                     (match srv_env sha1 aes_enc aes_dec modexp sp h with Some (Reply r) -> hex_of_bytes r | _ -> "refused"))
         (prefixes [] frames);
       (match frames with
        | [f1; f2; f3] ->
          (match srv_secrets sha1 aes_dec modexp sp f1 f2 f3 with
           | Some x -> put "skey" (hex_of_bytes x.x_key); put "skeyid" (hex_of_bytes x.x_key_id);
                       put "ssalt" (le8_of_n x.x_salt); put "shash1" (hex_of_bytes x.x_hash1)
           | None -> put "skey" "refused")
        | _ -> ())
     | None -> ());
    put "nplain" (string_of_int !nplain);
    put "saved" !saved;
    put "enc" !encp;
    (match fin with
     | Success (k, h, s) -> put "verdict" "success"; put "key" (hex_of_bytes k); put "hash" (hex_of_bytes h); put "salt" (le8_of_n s)
     | Stopped s -> put "verdict" (stop_name s))
  with Missing what -> Buffer.clear buf; put "verdict" "oracle-missing"; put "what" what);
  print_string (c.id ^ Buffer.contents buf ^ "\n")

let () =
  let cur = ref (fresh ()) in
  iter_lines (fun l ->
    match split_tab l with
    | "case" :: id :: prop :: _ -> cur := fresh (); !cur.id <- id; !cur.prop <- prop
    | "draw" :: a :: b :: c :: d :: _ -> !cur.nonce <- a; !cur.new_nonce <- b; !cur.b <- c; !cur.pad <- d
    | "pub" :: n :: e :: _ -> !cur.pn <- n; !cur.pe <- e
    | "srv" :: rest -> !cur.srv <- rest
    | "reply" :: h :: _ -> !cur.replies <- h :: !cur.replies
    | "arrival" :: k :: _ -> !cur.replies <- ("!" ^ k) :: !cur.replies
    | "enc" :: rest -> !cur.enc <- rest
    | "modexp" :: b :: e :: m :: r :: _ -> Hashtbl.replace !cur.modexp_t (norm_hex b ^ "|" ^ norm_hex e ^ "|" ^ norm_hex m) r
    | "prime" :: n :: v :: _ -> Hashtbl.replace !cur.prime_t (norm_hex n) (v = "1")
    | "split" :: n :: p :: q :: _ -> Hashtbl.replace !cur.split_t (norm_hex n) (p, q)
    | "end" :: _ -> run_case !cur
    | _ -> ())
