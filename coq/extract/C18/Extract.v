From Coq Require Import Extraction ExtrOcamlBasic.
From MTV Require Import Prim.Sha256 Crypto.Srp.
Extraction "model.ml" sha256 modexp get_input_check_password tg_get_input_check_password
  sv_register sv_B sv_srpB sv_params sv_check big_of_bytes enc256.
