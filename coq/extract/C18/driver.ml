(* C18 driver: reads the case file written by harness/srp/main.go (see the format there), runs the
   extracted model (Crypto/Srp.v) with H = the extracted Gallina SHA-256, and prints per case
     x:  id \t class \t A \t M1 \t v \t B256 \t verdict          (client + model server)
     r:  id \t class \t A \t M1
     t:  id \t class \t srpid
   Oracles.  pbkdf2 is always the "pb" table.  mexp is, per case mode,
     calc: the extracted square-and-multiply [modexp]; whenever the "me" table (math/big) has the same
           call, the two results must agree;
     orac: the "me" table.
   A missing table entry is an error of the harness (exit 3), never a default value. *)

exception Oracle of string

(* integers: hex, prefix 'm' when negative, "0" for zero *)
let z_of_hex (s : string) : z =
  let neg = String.length s > 0 && s.[0] = 'm' in
  let s = if neg then String.sub s 1 (String.length s - 1) else s in
  let n = String.length s in
  let bits = Array.make (4 * n + 1) false in
  for i = 0 to n - 1 do
    let v = hexval s.[n - 1 - i] in
    for j = 0 to 3 do bits.(4 * i + j) <- (v lsr j) land 1 = 1 done
  done;
  let top = ref (4 * n - 1) in
  while !top >= 0 && not bits.(!top) do decr top done;
  if !top < 0 then Z0
  else begin
    let p = ref XH in
    for i = !top - 1 downto 0 do p := if bits.(i) then XI !p else XO !p done;
    if neg then Zneg !p else Zpos !p
  end

let hex_of_pos (p : positive) : string =
  (* bits, least significant first *)
  let rec bits p acc = match p with XH -> true :: acc | XO q -> bits q (false :: acc) | XI q -> bits q (true :: acc) in
  let msb_first = bits p [] in
  let l = List.length msb_first in
  let padn = (4 - l mod 4) mod 4 in
  let all = Array.of_list (List.init padn (fun _ -> false) @ msb_first) in
  let b = Buffer.create (Array.length all / 4 + 1) in
  let i = ref 0 in
  while !i < Array.length all do
    let v = (if all.(!i) then 8 else 0) + (if all.(!i + 1) then 4 else 0) + (if all.(!i + 2) then 2 else 0) + (if all.(!i + 3) then 1 else 0) in
    Buffer.add_char b "0123456789abcdef".[v];
    i := !i + 4
  done;
  Buffer.contents b

let hex_of_z (x : z) : string =
  match x with Z0 -> "0" | Zpos p -> hex_of_pos p | Zneg p -> "m" ^ hex_of_pos p

let me_tbl : (string, z) Hashtbl.t = Hashtbl.create 1024
let pb_tbl : (string, n list) Hashtbl.t = Hashtbl.create 1024

let me_key b e m = hex_of_z b ^ "/" ^ hex_of_z e ^ "/" ^ hex_of_z m

let mexp_orac b e m =
  let k = me_key b e m in
  try Hashtbl.find me_tbl k with Not_found -> raise (Oracle ("no math/big Exp entry for " ^ k))

let mexp_calc b e m =
  let r = modexp b e m in
  (match Hashtbl.find_opt me_tbl (me_key b e m) with
   | Some r' when r' <> r -> raise (Oracle ("Gallina modexp and math/big Exp disagree on " ^ me_key b e m))
   | _ -> ());
  r

let pbkdf2 h s =
  let k = hex_of_bytes h ^ "/" ^ hex_of_bytes s in
  try Hashtbl.find pb_tbl k with Not_found -> raise (Oracle ("no PBKDF2 entry for " ^ k))

let mexp_of mode = match mode with
  | "calc" -> mexp_calc
  | "orac" -> mexp_orac
  | m -> raise (Oracle ("unknown mode " ^ m))

let show_client r =
  match r with
  | Ok None -> "empty\t-\t-"
  | Ok (Some a) -> "ok\t" ^ hex_of_bytes a.gA ^ "\t" ^ hex_of_bytes a.m1
  | Err -> "err\t-\t-"
  | Panic -> "panic\t-\t-"

let () =
  try
    iter_lines (fun l ->
      match split_tab l with
      | "me" :: b :: e :: m :: r :: _ ->
        Hashtbl.replace me_tbl (me_key (z_of_hex b) (z_of_hex e) (z_of_hex m)) (z_of_hex r)
      | "pb" :: h :: s :: o :: _ ->
        Hashtbl.replace pb_tbl (hex_of_bytes (bytes_of_hex h) ^ "/" ^ hex_of_bytes (bytes_of_hex s)) (bytes_of_hex o)
      | "x" :: id :: mode :: regpw :: pw :: s1 :: s2 :: g :: p :: b :: srpB :: random :: _ ->
        let mexp = mexp_of mode in
        let s1 = bytes_of_hex s1 and s2 = bytes_of_hex s2 in
        let g = z_of_hex g and p = z_of_hex p in
        let v = sv_register sha256 pbkdf2 mexp (bytes_of_hex regpw) s1 s2 g p in
        let sv = { sv_salt1 = s1; sv_salt2 = s2; sv_g = g; sv_p = p; sv_v = v; sv_b = z_of_hex b } in
        let b256 = sv_srpB sha256 mexp sv in
        let r = get_input_check_password sha256 pbkdf2 mexp (bytes_of_hex pw) (bytes_of_hex srpB)
                  (Some (sv_params sv)) (bytes_of_hex random) in
        let verdict = match r with
          | Ok (Some a) -> if sv_check sha256 mexp sv a.gA a.m1 then "acc" else "rej"
          | _ -> "na" in
        Printf.printf "%s\t%s\t%s\t%s\t%s\n" id (show_client r) (hex_of_z v) (hex_of_bytes b256) verdict
      | "r" :: id :: mode :: pw :: srpB :: flag :: s1 :: s2 :: g :: pbytes :: random :: _ ->
        let mexp = mexp_of mode in
        let mp = if flag = "mp" then
            Some { mp_salt1 = bytes_of_hex s1; mp_salt2 = bytes_of_hex s2; mp_g = z_of_hex g; mp_p = bytes_of_hex pbytes }
          else None in
        let r = get_input_check_password sha256 pbkdf2 mexp (bytes_of_hex pw) (bytes_of_hex srpB) mp (bytes_of_hex random) in
        Printf.printf "%s\t%s\n" id (show_client r)
      | "t" :: id :: mode :: pw :: apkind :: srpB :: srpid :: s1 :: s2 :: g :: pbytes :: _ ->
        let mexp = mexp_of mode in
        let mp = { mp_salt1 = bytes_of_hex s1; mp_salt2 = bytes_of_hex s2; mp_g = z_of_hex g; mp_p = bytes_of_hex pbytes } in
        let mk a = Some { ap_algo = a; ap_srpB = bytes_of_hex srpB; ap_srpid = z_of_hex srpid } in
        let ap = match apkind with
          | "nilap" -> None
          | "nilalgo" -> mk AlgoNil
          | "other" -> mk AlgoOther
          | "nilmp" -> mk (AlgoModPow None)
          | k when k = "mp" || (String.length k >= 4 && String.sub k 0 4 = "badB") -> mk (AlgoModPow (Some mp))
          | k -> raise (Oracle ("unknown account password kind " ^ k)) in
        let r = tg_get_input_check_password sha256 pbkdf2 mexp (bytes_of_hex pw) ap [] in
        (match r with
         | Ok CheckEmpty -> Printf.printf "%s\tempty\t0\n" id
         | Ok (CheckSRP (i, _, _)) -> Printf.printf "%s\tsrp\t%s\n" id (hex_of_z i)
         | Err -> Printf.printf "%s\terr\t0\n" id
         | Panic -> Printf.printf "%s\tpanic\t0\n" id)
      | _ -> ())
  with Oracle m -> (prerr_endline ("ORACLE-ERROR: " ^ m); exit 3)
