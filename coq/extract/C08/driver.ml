(* C08 driver.  Case lines (tab separated, see harness/root/cmd/c08/main.go); only the first
   fields named here are read, the harness appends the implementation's results behind them.
     A  id v                      -> id  hex(announce v)
     W  id v msg                  -> id  O:<hex(frame v msg)> | E          (write_msg)
     H  id v n                    -> id  O:<hex header> | E                 (write_header v n, n decimal: WriteMsg of an
                                                                            n-byte message writes this header ++ message, or refuses)
     F  id v m1,m2,...            -> id  hex(bytes written) | E            (write_stream: New + WriteMsg each)
     R  id stream sizes           -> id  <A|I|->|<n>:<m1,...>|<EOF|OTHER>    (read_stream (cut sizes stream))
     T  id v stream sizes         -> id  <n>:<Cdec|Dhex,...>|<EOF|OTHER>     (tr_stream v (cut sizes stream))
   v = A | I.  sizes = comma separated chunk lengths, "KxN" = N chunks of K bytes, "-" = none
   (what is left of the stream after the listed chunks is one last chunk). *)
(* faster hex glue than the shared one (1 MB messages): one shared N value per byte value *)
let byte_tab : n array = Array.init 256 n_of_int
let bytes_of_hex (s : string) : n list =
  if s = "-" || s = "" then []
  else begin
    let l = String.length s / 2 in
    let rec go i acc =
      if i < 0 then acc
      else go (i - 1) (byte_tab.(hexval s.[2 * i] * 16 + hexval s.[2 * i + 1]) :: acc)
    in
    go (l - 1) []
  end
let hexdigits = "0123456789abcdef"
let hex_of_bytes (l : n list) : string =
  match l with
  | [] -> "-"
  | _ ->
    let b = Buffer.create 4096 in
    List.iter (fun x -> let v = int_of_n x in
                Buffer.add_char b hexdigits.[(v lsr 4) land 15]; Buffer.add_char b hexdigits.[v land 15]) l;
    Buffer.contents b

let variant_of s = match s with "A" -> Abridged | "I" -> Intermediate | _ -> failwith ("bad variant " ^ s)
let show_variant v = match v with Abridged -> "A" | Intermediate -> "I"

let split_comma s = if s = "" then [] else String.split_on_char ',' s

let sizes_of (s : string) : n list =
  if s = "-" || s = "" then []
  else
    List.concat_map (fun item ->
      match String.index_opt item 'x' with
      | None -> [n_of_int (int_of_string item)]
      | Some i ->
        let k = int_of_string (String.sub item 0 i) in
        let cnt = int_of_string (String.sub item (i + 1) (String.length item - i - 1)) in
        let kn = n_of_int k in
        let rec rep c acc = if c = 0 then acc else rep (c - 1) (kn :: acc) in
        rep cnt [])
      (split_comma s)

let msgs_of (s : string) : n list list =
  if s = "" then [] else List.map bytes_of_hex (split_comma s)

let show_ekind e = match e with EEof -> "EOF" | EOther -> "OTHER"

let int_of_z z = match z with Z0 -> 0 | Zpos p -> int_of_pos p | Zneg p -> - (int_of_pos p)

let show_msgs ms = string_of_int (List.length ms) ^ ":" ^ String.concat "," (List.map hex_of_bytes ms)

let show_ev ev = match ev with
  | TCode z -> "C" ^ string_of_int (int_of_z z)
  | TData d -> "D" ^ hex_of_bytes d

let () =
  iter_lines (fun l ->
    match split_tab l with
    | "A" :: id :: v :: _ ->
      Printf.printf "%s\t%s\n" id (hex_of_bytes (announce (variant_of v)))
    | "W" :: id :: v :: msg :: _ ->
      let r = match write_msg (variant_of v) (bytes_of_hex msg) with
        | Ok b -> "O:" ^ hex_of_bytes b
        | Err -> "E"
        | Panic -> "P" in
      Printf.printf "%s\t%s\n" id r
    | "H" :: id :: v :: n :: _ ->
      let r = match write_header (variant_of v) (n_of_int (int_of_string n)) with
        | Ok b -> "O:" ^ hex_of_bytes b
        | Err -> "E"
        | Panic -> "P" in
      Printf.printf "%s\t%s\n" id r
    | "F" :: id :: v :: msgs :: _ ->
      let r = match write_stream (variant_of v) (msgs_of msgs) with
        | Ok b -> hex_of_bytes b
        | Err -> "E"
        | Panic -> "P" in
      Printf.printf "%s\t%s\n" id r
    | "R" :: id :: stream :: sizes :: _ ->
      let cs = cut (sizes_of sizes) (bytes_of_hex stream) in
      let r = match read_stream cs with
        | None -> "OUT-OF-FUEL"
        | Some d ->
          (match d.d_mode with None -> "-" | Some v -> show_variant v) ^ "|" ^ show_msgs d.d_msgs ^ "|" ^ show_ekind d.d_end in
      Printf.printf "%s\t%s\n" id r
    | "T" :: id :: v :: stream :: sizes :: _ ->
      let cs = cut (sizes_of sizes) (bytes_of_hex stream) in
      let r = match tr_stream (variant_of v) cs with
        | None -> "OUT-OF-FUEL"
        | Some (evs, e) ->
          string_of_int (List.length evs) ^ ":" ^ String.concat "," (List.map show_ev evs) ^ "|" ^ show_ekind e in
      Printf.printf "%s\t%s\n" id r
    | _ -> ())
