From Coq Require Import Extraction ExtrOcamlBasic.
From MTV Require Import Transport.Framing.
Extraction "model.ml" announce frame write_header write_msg write_stream wire carriableb read_stream tr_stream cut.
