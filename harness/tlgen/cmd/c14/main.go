// Harness for property C14 (tlparser / tlgen).
//
//	gen <tier> <outdir> <repo>   generate the case files of one run
//	one <schema-file> [seconds]  ParseSchema on one file (watchdog in seconds, default 5), print its projection
//	inproc <schema-file>         parse once, generate three times in process, compare (replay)
//	tables                       unicode.IsSpace / unicode.IsDigit of the toolchain as rune ranges
//
// gen writes
//
//	<outdir>/cases.txt  input of the Coq model driver (coq/extract/C14/driver.ml): GC / G / S / C lines
//	<outdir>/impl.txt   what the implementation did: P / D / K / C / X lines
//
// Strings are hex of their bytes ("-" = empty).  Every random choice derives from VERIF_SEED.
package main

import (
	"bufio"
	"fmt"
	"io/ioutil"
	"os"
	"path/filepath"
	"reflect"
	"sort"
	"strings"
	"time"
	"unicode"

	"github.com/xelaj/mtproto/internal/cmd/tlgen/gen"
	"github.com/xelaj/mtproto/internal/cmd/tlgen/tlparser"
	vc "verifcommon"
)

// ---------------------------------------------------------------------------------------------
// running the implementation

type parseResult struct {
	class  string // ok err panic hang
	schema *tlparser.Schema
	detail string
}

var parseWatchdog = 5 * time.Second

func runParse(text string) parseResult {
	ch := make(chan parseResult, 1)
	go func() {
		var r parseResult
		panicked, val := vc.Catch(func() {
			s, err := tlparser.ParseSchema(text)
			if err != nil {
				r = parseResult{class: "err", detail: err.Error()}
				return
			}
			r = parseResult{class: "ok", schema: s}
		})
		if panicked {
			r = parseResult{class: "panic", detail: fmt.Sprint(val)}
		}
		ch <- r
	}()
	select {
	case r := <-ch:
		return r
	case <-time.After(parseWatchdog):
		return parseResult{class: "hang"}
	}
}

func showParam(p tlparser.Parameter) string {
	b := func(x bool) string {
		if x {
			return "1"
		}
		return "0"
	}
	return fmt.Sprintf("%s:%s:%s:%s:%d", vc.HexS(p.Name), vc.HexS(p.Type), b(p.IsVector), b(p.IsOptional), p.BitToTrigger)
}

func showDef(o *vc.Out, tag, id, k, name string, crc uint32, params []tlparser.Parameter, typ string, isvec bool) {
	ps := "-"
	if len(params) > 0 {
		l := make([]string, len(params))
		for i, p := range params {
			l[i] = showParam(p)
		}
		ps = strings.Join(l, ";")
	}
	v := "0"
	if isvec {
		v = "1"
	}
	o.Line(tag, id, k, vc.HexS(name), fmt.Sprint(crc), vc.HexS(typ), v, ps)
}

func namesOf(l []tlparser.Object) string {
	if len(l) == 0 {
		return "-"
	}
	n := make([]string, len(l))
	for i, o := range l {
		n[i] = vc.HexS(o.Name)
	}
	return strings.Join(n, ",")
}

// goify oracle: every name the generator model may mangle for this schema
func goifyEntries(cases *vc.Out, s *tlparser.Schema) {
	seen := map[string]bool{}
	add := func(name string, pub bool) {
		k := name
		if pub {
			k += "\x00P"
		}
		if seen[k] {
			return
		}
		seen[k] = true
		var res string
		panicked, _ := vc.Catch(func() { res = gen.VerifGoify(name, pub) })
		if panicked {
			return // the model will report the missing entry if it needs it
		}
		p := "0"
		if pub {
			p = "1"
		}
		cases.Line("G", vc.HexS(name), p, vc.HexS(res))
	}
	for _, o := range s.Objects {
		add(o.Name, true)
		add(o.Name+"Obj", true)
		add(o.Interface, true)
		for _, p := range o.Parameters {
			add(p.Name, true)
			add(p.Type, true)
		}
	}
	for _, m := range s.Methods {
		add(m.Name, true)
		add(m.Name+"Params", true)
		add(m.Response.Type, true)
		for _, p := range m.Parameters {
			add(p.Name, true)
			add(p.Name, false) // the identifier of the positional argument
			add(p.Type, true)
		}
	}
}

// declDef: one definition as the random generator wrote it
type declDef struct {
	kind, name string
	id         uint32
	params     []tlparser.Parameter
	typ        string
	isvec      bool
}

func (d *rdef) declared(kind string) declDef {
	w := declDef{kind: kind, name: d.name, id: d.id, typ: d.result}
	if strings.HasPrefix(d.result, "Vector<") {
		w.typ = strings.TrimSuffix(strings.TrimPrefix(d.result, "Vector<"), ">")
		w.isvec = true
	}
	for _, p := range d.params {
		q := tlparser.Parameter{Name: p.name, Type: p.typ, IsVector: p.vec, IsOptional: p.opt, BitToTrigger: p.bit}
		if p.flags {
			q.Type = "bitflags"
		}
		w.params = append(w.params, q)
	}
	return w
}

type runner struct {
	cases, impl *vc.Out
	n           int
	stat        map[string]int
}

// one schema text: model input + implementation projection
func (r *runner) schema(kind, label, text string, compile bool, declared ...declDef) string {
	r.n++
	id := fmt.Sprintf("s%d", r.n)
	for _, w := range declared {
		// what the schema text declares, by construction of the generator (direct oracle)
		showDef(r.impl, "W", id, w.kind, w.name, w.id, w.params, w.typ, w.isvec)
	}
	res := runParse(text)
	r.cases.Line("GC")
	if res.class == "ok" {
		goifyEntries(r.cases, res.schema)
	}
	r.cases.Line("S", id, vc.HexS(text))
	c := "0"
	if compile {
		c = "1"
	}
	r.impl.Line("X", id, kind, vc.HexS(label), c)
	r.stat["kind:"+kind]++
	r.stat["parse:"+res.class]++
	if res.class != "ok" {
		r.impl.Line("P", id, res.class, vc.HexS(res.detail))
		return id
	}
	s := res.schema
	r.impl.Line("P", id, "ok", fmt.Sprint(len(s.Objects)), fmt.Sprint(len(s.Methods)))
	for _, o := range s.Objects {
		showDef(r.impl, "D", id, "o", o.Name, o.CRC, o.Parameters, o.Interface, false)
	}
	for _, m := range s.Methods {
		showDef(r.impl, "D", id, "m", m.Name, m.CRC, m.Parameters, m.Response.Type, m.Response.IsList)
	}
	if kind == "valid" || kind == "shipped" || kind == "fixture" {
		st := inProcess(text)
		r.impl.Line("I", id, vc.HexS(st))
		r.stat["inprocess:"+strings.SplitN(st, ":", 2)[0]]++
	}
	var cl *gen.VerifClass
	panicked, _ := vc.Catch(func() { cl, _ = gen.VerifClassify(s) })
	if panicked || cl == nil {
		r.impl.Line("K", id, "panic")
		return id
	}
	for k, l := range cl.Enums {
		r.impl.Line("K", id, "enum", vc.HexS(k), namesOf(l))
	}
	for k, l := range cl.Types {
		r.impl.Line("K", id, "iface", vc.HexS(k), namesOf(l))
	}
	for _, o := range cl.Singles {
		r.impl.Line("K", id, "single", vc.HexS(o.Interface), vc.HexS(o.Name))
	}
	return id
}

// ---------------------------------------------------------------------------------------------
// in-process generation: the same parsed schema value generated from more than once

func readDir(d string) map[string]string {
	m := map[string]string{}
	fs, _ := ioutil.ReadDir(d)
	for _, f := range fs {
		b, _ := ioutil.ReadFile(filepath.Join(d, f.Name()))
		m[f.Name()] = string(b)
	}
	return m
}

func sameFiles(a, b map[string]string) bool {
	if len(a) != len(b) {
		return false
	}
	for k, v := range a {
		if w, ok := b[k]; !ok || w != v {
			return false
		}
	}
	return true
}

// inProcess parses once and generates 8 times: Generate four times on one Generator, then four more
// NewGenerator+Generate from the SAME *tlparser.Schema.  All outputs must be byte-identical and the
// parsed schema must be left as it was.  Result: "ok", "first:<why>" (nothing to compare) or what broke.
func inProcess(text string) string {
	s, err := tlparser.ParseSchema(text)
	if err != nil {
		return "first:parse"
	}
	pristine, _ := tlparser.ParseSchema(text)
	base, err := ioutil.TempDir("", "c14-inproc-")
	if err != nil {
		return "first:tempdir"
	}
	defer os.RemoveAll(base)
	d1, d2 := filepath.Join(base, "a"), filepath.Join(base, "b")
	os.Mkdir(d1, 0755)
	os.Mkdir(d2, 0755)
	run := func(f func() error) string {
		var e error
		panicked, val := vc.Catch(func() { e = f() })
		if panicked {
			return "panic: " + fmt.Sprint(val)
		}
		if e != nil {
			return "error: " + e.Error()
		}
		return ""
	}
	// 8 generations from the one parsed schema: Go randomises the order of every range over a map, so an
	// unsorted range over even a 2-entry map shows up with probability >= 1-2^-7
	var g1 *gen.Generator
	if r := run(func() error { var e error; g1, e = gen.NewGenerator(s, "license", d1); return e }); r != "" {
		return "first:" + r
	}
	if r := run(g1.Generate); r != "" {
		return "first:" + r
	}
	out1 := readDir(d1)
	for k := 2; k <= 4; k++ {
		if r := run(g1.Generate); r != "" {
			return fmt.Sprintf("generate-again-on-one-generator (run %d) %s", k, r)
		}
		if !sameFiles(out1, readDir(d1)) {
			return fmt.Sprintf("generate-again-on-one-generator (run %d) output differs", k)
		}
	}
	for k := 5; k <= 8; k++ {
		os.RemoveAll(d2)
		os.Mkdir(d2, 0755)
		var g2 *gen.Generator
		if r := run(func() error { var e error; g2, e = gen.NewGenerator(s, "license", d2); return e }); r != "" {
			return fmt.Sprintf("another-generator-from-same-schema (run %d) %s", k, r)
		}
		if r := run(g2.Generate); r != "" {
			return fmt.Sprintf("another-generator-from-same-schema (run %d) %s", k, r)
		}
		if !sameFiles(out1, readDir(d2)) {
			return fmt.Sprintf("another-generator-from-same-schema (run %d) output differs", k)
		}
	}
	// an output directory that already holds generated files (the way `go generate` in telegram/ always runs: into the
	// package's own directory): stale files LONGER than the new ones, then SHORTER ones - the result must be the
	// files of a fresh generation, nothing of the old content left before, after or instead
	for k, stale := range []func(string) string{
		func(c string) string { return c + strings.Repeat("// stale tail of an earlier, longer generation\nvar _ = 0\n", 40) },
		func(c string) string { return c[:len(c)/2] },
	} {
		os.RemoveAll(d2)
		os.Mkdir(d2, 0755)
		for name, c := range out1 {
			ioutil.WriteFile(filepath.Join(d2, name), []byte(stale(c)), 0644)
		}
		var g3 *gen.Generator
		if r := run(func() error { var e error; g3, e = gen.NewGenerator(s, "license", d2); return e }); r != "" {
			return fmt.Sprintf("generate-into-used-directory (stale files %d) %s", k, r)
		}
		if r := run(g3.Generate); r != "" {
			return fmt.Sprintf("generate-into-used-directory (stale files %d) %s", k, r)
		}
		if !sameFiles(out1, readDir(d2)) {
			return fmt.Sprintf("generate-into-used-directory (stale files %d: %s) output differs from a fresh generation", k, []string{"longer", "shorter"}[k])
		}
	}
	// the generator sorts the method list of the schema it was given in place (harmless: same
	// definitions, other order); anything beyond a reordering of Methods is a change of the input
	byName := func(m []tlparser.Method) {
		sort.SliceStable(m, func(i, j int) bool {
			if m[i].Name != m[j].Name {
				return m[i].Name < m[j].Name
			}
			return m[i].CRC < m[j].CRC
		})
	}
	byName(s.Methods)
	byName(pristine.Methods)
	if !reflect.DeepEqual(s, pristine) {
		return "input-modified the generator changed the parsed schema it was given"
	}
	return "ok"
}

// ---------------------------------------------------------------------------------------------
// cursor method sequences

func (r *runner) cursorCase(text string, ops []string) {
	r.n++
	id := fmt.Sprintf("c%d", r.n)
	r.cases.Line("C", id, vc.HexS(text), strings.Join(ops, ","))
	cur := tlparser.NewCursor(text)
	var out strings.Builder
	pos := func() string { p, _ := cur.VerifPos(); return fmt.Sprint(p) }
	for _, op := range ops {
		arg := op[1:]
		var piece string
		panicked, _ := vc.Catch(func() {
			switch op[0] {
			case 'S':
				cur.SkipSpaces()
				piece = pos() + ":"
			case 'I':
				if cur.IsNext(string(vc.UnHex(arg))) {
					piece = pos() + ":t"
				} else {
					piece = pos() + ":f"
				}
			case 'R':
				s, err := cur.ReadAt([]rune(string(vc.UnHex(arg)))[0])
				if err != nil {
					piece = pos() + ":E"
				} else {
					piece = pos() + ":" + vc.HexS(s)
				}
			case 'D':
				s, err := cur.ReadDigits()
				if err != nil {
					piece = pos() + ":E"
				} else {
					piece = pos() + ":" + vc.HexS(s)
				}
			case 'K':
				var n int
				fmt.Sscan(arg, &n)
				cur.Skip(n)
				piece = pos() + ":"
			case 'N':
				var n int
				fmt.Sscan(arg, &n)
				cur.Unread(n)
				piece = pos() + ":"
			}
		})
		if panicked {
			out.WriteString("P,")
			break
		}
		out.WriteString(piece + ",")
	}
	r.impl.Line("C", id, out.String())
	r.stat["cursor-cases"]++
}

var curAlphabet = []string{" ", "\n", "\t", "-", "/", "=", "V", "e", "c", "t", "o", "r", "f", "l", "a", "g", "s", ".", "?", "#", ":", ";", "<", ">", "0", "7", "é", " ", "٣", "🎲", "\xff", "@"}
var curPatterns = []string{"---functions---", "---types---", "//", "=", "flags.", "?", "Vector", "-", "--", "é", "aé", "ee"}
var curRunes = []string{" ", "\n", "#", ":", ";", ">", "é", "-"}

func (r *runner) cursorCases(rng *vc.Rng, n int) {
	for i := 0; i < n; i++ {
		l := 1 + rng.Intn(14) // never empty: ParseSchema does not build a cursor for the empty source
		var b strings.Builder
		for j := 0; j < l; j++ {
			if rng.Intn(5) == 0 {
				b.WriteString(curPatterns[rng.Intn(len(curPatterns))])
			} else {
				b.WriteString(curAlphabet[rng.Intn(len(curAlphabet))])
			}
		}
		nops := 1 + rng.Intn(8)
		ops := make([]string, nops)
		for j := range ops {
			switch rng.Intn(7) {
			case 0:
				ops[j] = "S"
			case 1, 2:
				ops[j] = "I" + vc.HexS(curPatterns[rng.Intn(len(curPatterns))])
			case 3:
				ops[j] = "R" + vc.HexS(curRunes[rng.Intn(len(curRunes))])
			case 4:
				ops[j] = "D"
			case 5:
				ops[j] = fmt.Sprintf("K%d", rng.Intn(4))
			default:
				ops[j] = fmt.Sprintf("N%d", rng.Intn(5))
			}
		}
		r.cursorCase(b.String(), ops)
	}
}

// ---------------------------------------------------------------------------------------------
// random schemas of the documented subset

var syll = []string{"in", "put", "peer", "chat", "user", "msg", "id", "api", "url", "photo", "file", "geo", "doc", "web", "page", "bot", "key", "sha", "srp", "p2p", "media", "call", "state", "info", "data", "hash", "date", "text", "full", "empty", "x", "a2", "top"}
var namespaces = []string{"", "", "", "storage", "auth", "messages", "help", "upload", "x1"}
var awkwardParams = []string{"type", "range", "errors", "err", "c", "resp", "ok", "func", "map", "default", "go", "select", "string", "bool", "responseData", "reflect", "chan", "var", "nil", "len", "params", "interface", "import"}
var primTypes = []string{"int", "long", "double", "string", "bytes", "Bool"}

type rtype struct {
	name  string // schema type name, e.g. storage.FileType
	ctors []rdef
}
type rparam struct {
	name, typ string
	vec, opt  bool
	bit       int
	flags     bool // the flags:# word
}
type rdef struct {
	name   string
	id     uint32
	params []rparam
	result string // for methods, as written (may be Vector<...>)
}

type sgen struct {
	rng      *vc.Rng
	ids      map[uint32]bool // shared by the whole run: the compiled batch needs distinct ids
	goNames  map[string]bool // goified top-level names of this schema
	parts    map[string][]string
	style    int // forced clash style (-1: random)
	minWords int
	stat     map[string]int
}

func (g *sgen) id() uint32 {
	for {
		var v uint32
		switch g.rng.Intn(8) {
		case 0:
			v = uint32(g.rng.Intn(16)) // short ids: fewer than 8 hex digits
		case 1:
			v = 0xffffffff - uint32(g.rng.Intn(4))
		default:
			v = uint32(g.rng.U64())
		}
		// ids the tl package gives a meaning of its own are left alone
		if !g.ids[v] && v != 0x1cb5c415 && v != 0x997275b5 && v != 0xbc799737 && v != 0x56730bcc && v != 0x3072cfa1 {
			g.ids[v] = true
			return v
		}
	}
}

func upperFirst(s string) string { return strings.ToUpper(s[:1]) + s[1:] }

// heads that make a name BEGIN like something the parser or the generator treats specially (the builtin rows
// `int ? = Int;`, the excluded definitions, the Bool constructors) without being it: intPeer, stringData, vectorTop, ...
var reservedHeads = []string{"int", "long", "double", "string", "bytes", "true", "vector", "bool", "boolTrue", "invoke", "int128", "init"}

func (g *sgen) word(n int) string {
	var b strings.Builder
	if g.rng.Intn(6) == 0 {
		b.WriteString(reservedHeads[g.rng.Intn(len(reservedHeads))])
		if n < 2 {
			n = 2
		}
		for i := 1; i < n; i++ {
			b.WriteString(upperFirst(syll[g.rng.Intn(len(syll))]))
		}
		if g.stat != nil {
			g.stat["name-with-reserved-head"]++
		}
		return b.String()
	}
	for i := 0; i < n; i++ {
		w := syll[g.rng.Intn(len(syll))]
		if i > 0 {
			w = upperFirst(w)
		}
		b.WriteString(w)
	}
	return b.String()
}

// claim reports whether every one of the Go identifiers is still free, and takes them
func (g *sgen) claim(ids ...string) bool {
	for i, a := range ids {
		if g.goNames[a] {
			return false
		}
		for _, b := range ids[:i] {
			if a == b {
				return false
			}
		}
	}
	for _, a := range ids {
		g.goNames[a] = true
	}
	return true
}

func goy(s string) string { return gen.VerifGoify(s, true) }

func (g *sgen) typeName() string {
	for {
		k := 1 + g.rng.Intn(3)
		if g.rng.Intn(3) == 0 {
			k = 2 + g.rng.Intn(2) // several words: room for snake_case clashes
		}
		if k < g.minWords {
			k = g.minWords
		}
		parts := make([]string, k)
		n := ""
		for i := range parts {
			parts[i] = syll[g.rng.Intn(len(syll))]
			n += upperFirst(parts[i])
		}
		ns := namespaces[g.rng.Intn(len(namespaces))]
		if ns != "" {
			n = ns + "." + n
		}
		if strings.HasPrefix(n, "Vector") || n == "Bool" || n == "Client" {
			continue
		}
		if g.claim(goy(n)) {
			if g.parts == nil {
				g.parts = map[string][]string{}
			}
			g.parts[n] = parts
			return n
		}
	}
}

// clashName: a constructor name that differs from the type name t as a string but is (mostly) mangled
// to the same Go identifier.  style 0: first letter lowered (user = User); 1: snake_case
// (bad_msg_notification = BadMsgNotification); 2: snake head, camel tail (in_putPeer); 3: capitalised
// snake (Input_Foo); 4: all lower case (inputfoo = InputFoo: equal ignoring case, but NOT the same Go
// identifier when the type has several words)
func (g *sgen) clashName(t string, style int) string {
	i := strings.LastIndex(t, ".") + 1
	ns, base, parts := t[:i], t[i:], g.parts[t]
	switch style {
	case 1:
		return ns + strings.Join(parts, "_")
	case 2:
		n := parts[0]
		for j, w := range parts[1:] {
			if j == 0 {
				n += "_" + w
			} else {
				n += upperFirst(w)
			}
		}
		return ns + n
	case 3:
		l := make([]string, len(parts))
		for j, w := range parts {
			l[j] = upperFirst(w)
		}
		return ns + strings.Join(l, "_")
	case 4:
		return ns + strings.ToLower(base)
	}
	return ns + strings.ToLower(base[:1]) + base[1:]
}

// a constructor name for type t; clash => the name differs from the type's only by the first letter's case
func (g *sgen) ctorName(t string, clash bool, method bool) string {
	for try := 0; ; try++ {
		var n string
		if clash && try == 0 {
			st := g.style
			if st < 0 {
				st = g.rng.Intn(5)
			}
			n = g.clashName(t, st)
			if n == t { // a one-word type written in snake case is the type name itself
				n = g.clashName(t, 0)
				st = 0
			}
			if g.stat != nil {
				same := "same-go-name"
				if goy(n) != goy(t) {
					same = "other-go-name"
				}
				fold := "equal-fold"
				if !strings.EqualFold(n, t) {
					fold = "not-equal-fold"
				}
				g.stat[fmt.Sprintf("clash:style%d:%s:%s", st, same, fold)]++
			}
		} else {
			n = g.word(1 + g.rng.Intn(3))
			if g.rng.Intn(3) == 0 {
				n += "_" + g.word(1)
			}
			if ns := namespaces[g.rng.Intn(len(namespaces))]; ns != "" {
				n = ns + "." + n
			}
		}
		if excludedNames[n] {
			continue
		}
		if method {
			if g.claim(goy(n+"Params"), "method "+goy(n)) {
				return n
			}
			continue
		}
		// the struct / constant is called goify(n), or goify(n+"Obj") when that equals the type's name
		if goy(n) == goy(t) {
			if g.claim(goy(n + "Obj")) {
				return n
			}
			continue
		}
		if g.claim(goy(n)) {
			return n
		}
	}
}

var excludedNames = map[string]bool{"true": true, "boolFalse": true, "boolTrue": true, "vector": true, "invokeAfterMsg": true,
	"invokeAfterMsgs": true, "initConnection": true, "invokeWithLayer": true, "invokeWithoutUpdates": true,
	"invokeWithMessagesRange": true, "invokeWithTakeout": true}

func (g *sgen) params(n int, types []string, positional bool) []rparam {
	used := map[string]bool{"CRC": true, "FlagIndex": true, "Flags": true}
	argUsed := map[string]bool{}
	var ps []rparam
	anyOpt := false
	for len(ps) < n {
		var name string
		if g.rng.Intn(6) == 0 {
			name = awkwardParams[g.rng.Intn(len(awkwardParams))]
		} else {
			name = g.word(1 + g.rng.Intn(2))
			if g.rng.Intn(3) == 0 {
				name += "_" + g.word(1)
			}
		}
		gn := goy(name)
		an := gen.VerifGoify(name, false)
		if used[gn] || argUsed[an] || strings.HasPrefix(gn, "Implements") {
			continue
		}
		used[gn] = true
		argUsed[an] = true
		p := rparam{name: name}
		switch k := g.rng.Intn(10); {
		case k < 5:
			p.typ = primTypes[g.rng.Intn(len(primTypes))]
		case k < 9 && len(types) > 0:
			p.typ = types[g.rng.Intn(len(types))]
		default:
			p.typ = primTypes[g.rng.Intn(len(primTypes))]
		}
		p.vec = g.rng.Intn(4) == 0
		if g.rng.Intn(3) == 0 {
			p.opt = true
			switch g.rng.Intn(4) {
			case 0:
				p.bit = []int{0, 1, 30, 31}[g.rng.Intn(4)]
			case 1:
				if anyOpt { // share the bit of an earlier conditional field
					for _, q := range ps {
						if q.opt {
							p.bit = q.bit
						}
					}
				}
			default:
				p.bit = g.rng.Intn(32)
			}
			if !p.vec && g.rng.Intn(3) == 0 {
				p.typ = "true"
			}
			anyOpt = true
		}
		ps = append(ps, p)
	}
	if anyOpt {
		first := 0
		for i, p := range ps {
			if p.opt {
				first = i
				break
			}
		}
		at := 0
		if g.rng.Intn(3) == 0 {
			at = g.rng.Intn(first + 1)
		}
		ps = append(ps[:at], append([]rparam{{name: "flags", typ: "#", flags: true}}, ps[at:]...)...)
	}
	return ps
}

func (d *rdef) line() string {
	var b strings.Builder
	fmt.Fprintf(&b, "%s#%x", d.name, d.id)
	for _, p := range d.params {
		b.WriteString(" " + p.name + ":")
		if p.opt {
			fmt.Fprintf(&b, "flags.%d?", p.bit)
		}
		if p.vec {
			b.WriteString("Vector<" + p.typ + ">")
		} else {
			b.WriteString(p.typ)
		}
	}
	b.WriteString(" = " + d.result + ";")
	return b.String()
}

var commentTexts = []string{"", "Some text here", "an [url](https://core.telegram.org/constructor/user) inside", "ends with space ", "  padded", "🎲 dice, ¹ footnote", "semi;colon = and #hash"}

func (g *sgen) commentBlock(b *strings.Builder, kind string, d *rdef) {
	r := g.rng
	if r.Intn(3) != 0 {
		return
	}
	if r.Intn(4) == 0 {
		b.WriteString([]string{"// plain comment\n", "//\n", "//no space\n", "// TODO: something\n", "//===8===\n", "// old#c4b9f9bb code:int = Old;\n", "// mail user@example.com about it\n"}[r.Intn(7)])
	}
	if kind == "type" {
		b.WriteString("// @type " + commentTexts[r.Intn(len(commentTexts))] + "\n")
		return
	}
	b.WriteString("// @" + kind)
	if t := commentTexts[r.Intn(len(commentTexts))]; t != "" {
		b.WriteString(" " + t)
	}
	b.WriteString("\n")
	for _, p := range d.params {
		if r.Intn(2) == 0 {
			fmt.Fprintf(b, "// @param %s%s%s\n", p.name, strings.Repeat(" ", 1+r.Intn(3)), commentTexts[r.Intn(len(commentTexts))])
		}
	}
}

var excludedLines = []string{"int ? = Int;", "long ? = Long;", "double ? = Double;", "string ? = String;", "bytes ? = Bytes;",
	"boolFalse#bc799737 = Bool;", "boolTrue#997275b5 = Bool;", "true#3fedd339 = True;", "vector#1cb5c415 {t:Type} # [ t ] = Vector t;",
	"invokeAfterMsg#cb9f372d {X:Type} msg_id:long query:!X = X;", "invokeWithLayer#da9b0d0d {X:Type} layer:int query:!X = X;"}

// schemaText builds one schema of the subset
func (g *sgen) schemaText(size int, forced bool) (string, []declDef) {
	r := g.rng
	g.goNames = map[string]bool{"Client": true}
	g.style = -1
	// every random schema has at least 3 types with several constructors, 3 enums and a single-constructor
	// type (and 3 functions, below): each Go map the generator ranges over has several entries
	nt := 7 + r.Intn(size)
	types := make([]*rtype, nt)
	var typeNames []string
	for i := range types {
		g.minWords = 0
		if forced && i < 4 {
			g.minWords = 2
		}
		types[i] = &rtype{name: g.typeName()}
		typeNames = append(typeNames, types[i].name)
	}
	var enumTypes []string
	for ti, t := range types {
		clash := r.Intn(3) == 0
		kind := r.Intn(4)
		g.style = -1
		if ti < 7 {
			kind = []int{2, 1, 0, 2, 0, 0, 2}[ti]
		}
		if forced && ti < 4 {
			// every compiled schema has a multi-constructor, a single-constructor and an enum type whose
			// constructor clashes with the type name only after mangling, and an all-lower-case near-clash
			clash = true
			g.style = []int{1, 1 + r.Intn(3), 1 + r.Intn(3), 4}[ti]
		}
		switch kind {
		case 0: // enum
			n := 1 + r.Intn(4)
			for i := 0; i < n; i++ {
				t.ctors = append(t.ctors, rdef{name: g.ctorName(t.name, clash && i == 0, false), id: g.id(), result: t.name})
			}
			enumTypes = append(enumTypes, t.name)
		case 1: // single constructor
			t.ctors = []rdef{{name: g.ctorName(t.name, clash, false), id: g.id(), params: g.params(1+r.Intn(7), typeNames, false), result: t.name}}
		default: // several constructors, at least one with parameters
			n := 2 + r.Intn(3)
			with := r.Intn(n)
			for i := 0; i < n; i++ {
				d := rdef{name: g.ctorName(t.name, clash && i == 0, false), id: g.id(), result: t.name}
				if i == with || r.Intn(3) != 0 {
					d.params = g.params(1+r.Intn(6), typeNames, false)
				}
				t.ctors = append(t.ctors, d)
			}
		}
	}
	// two (or three) single-constructor types whose constructor names differ only in the case of letters (fooBar / foobar /
	// fOobar: distinct Go identifiers FooBar / Foobar / FOobar): whatever orders, groups or looks names up without regard to
	// case meets a tie here.  In every forced schema, in one random schema of three.
	if forced || r.Intn(3) == 0 {
		for try := 0; try < 20; try++ {
			base := syll[r.Intn(len(syll))] + upperFirst(syll[r.Intn(len(syll))])
			variants := []string{base, strings.ToLower(base)}
			if r.Intn(2) == 0 {
				variants = append(variants, base[:1]+strings.ToUpper(base[1:2])+strings.ToLower(base[2:]))
			}
			ok := !excludedNames[base]
			seen := map[string]bool{}
			for _, v := range variants {
				if seen[goy(v)] || g.goNames[goy(v)] {
					ok = false
				}
				seen[goy(v)] = true
			}
			if !ok {
				continue
			}
			for _, v := range variants {
				g.claim(goy(v))
				g.minWords = 2
				t := &rtype{name: g.typeName()}
				t.ctors = []rdef{{name: v, id: g.id(), params: g.params(1+r.Intn(3), typeNames, false), result: t.name}}
				types = append(types, t)
				typeNames = append(typeNames, t.name)
			}
			if g.stat != nil {
				g.stat["names-differing-only-in-case"] += len(variants)
			}
			break
		}
	}
	nm := 3 + r.Intn(size+1)
	var methods []rdef
	for i := 0; i < nm; i++ {
		d := rdef{name: g.ctorName("", false, true), id: g.id(), params: g.params(r.Intn(8), typeNames, true)}
		switch r.Intn(6) {
		case 0:
			d.result = "Bool"
		case 1:
			d.result = "Vector<" + append(append([]string{}, primTypes...), typeNames...)[r.Intn(len(primTypes)+len(typeNames))] + ">"
		case 2:
			if len(enumTypes) > 0 {
				d.result = enumTypes[r.Intn(len(enumTypes))]
				break
			}
			fallthrough
		default:
			d.result = typeNames[r.Intn(len(typeNames))]
		}
		methods = append(methods, d)
	}
	if forced {
		// types[0] and types[3] have several constructors, types[1] one, types[2] is an enum: every kind of
		// function result at least once, with few parameters (positional arguments) and a flags word
		multi, single, enum := types[0].name, types[1].name, types[2].name
		for _, res := range []string{"Vector<" + enum + ">", "Vector<Bool>", "Vector<int>", "Vector<long>", "Vector<string>", "Vector<bytes>", "Vector<double>",
			"Vector<" + single + ">", "Vector<" + multi + ">", enum, "Bool", single, multi} {
			d := rdef{name: g.ctorName("", false, true), id: g.id(), result: res}
			switch r.Intn(4) {
			case 3: // several arguments of one Go type: only their order tells them apart
				ty := []string{"long", "int", "string", multi, enum}[r.Intn(5)]
				d.params = []rparam{{name: "first", typ: ty}, {name: "second", typ: ty}, {name: "flags", typ: "#", flags: true}, {name: "third", typ: ty, opt: true, bit: r.Intn(32)}}
			case 0:
				d.params = []rparam{{name: "flags", typ: "#", flags: true}, {name: "a", typ: "int", opt: true, bit: r.Intn(32)}, {name: "b", typ: "string"}}
			case 1:
				d.params = []rparam{{name: "peer", typ: multi}, {name: "flags", typ: "#", flags: true}, {name: "silent", typ: "true", opt: true, bit: r.Intn(32)}}
			default:
				d.params = g.params(r.Intn(4), typeNames, true)
			}
			methods = append(methods, d)
			if g.stat != nil {
				k := res
				for _, x := range []struct{ n, k string }{{enum, "ENUM"}, {single, "SINGLE"}, {multi, "MULTI"}} {
					k = strings.Replace(k, x.n, x.k, 1)
				}
				g.stat["result:"+k]++
			}
		}
	}
	// lay the text out; constructors of one type need not be adjacent
	type item struct {
		d    rdef
		kind string
	}
	var objs []item
	for _, t := range types {
		for i, c := range t.ctors {
			k := "constructor"
			if len(t.ctors[0].params) == 0 && r.Intn(2) == 0 {
				k = "enum"
			}
			_ = i
			objs = append(objs, item{c, k})
		}
	}
	if r.Intn(2) == 0 {
		for i := len(objs) - 1; i > 0; i-- {
			j := r.Intn(i + 1)
			objs[i], objs[j] = objs[j], objs[i]
		}
	}
	var b strings.Builder
	var decl, declM []declDef
	sep := func() {
		switch r.Intn(6) {
		case 0:
			b.WriteString("\n")
		case 1:
			b.WriteString(excludedLines[r.Intn(len(excludedLines))] + "\n")
		case 2:
			b.WriteString("  \t")
		}
	}
	if r.Intn(3) == 0 {
		b.WriteString("// a plain header comment, docs are not provided\n// error#c4b9f9bb code:int text:string = Error;\n\n")
	}
	if r.Intn(4) == 0 {
		b.WriteString("---types---\n")
	}
	half := len(objs)
	if r.Intn(4) == 0 && len(methods) > 0 && len(objs) > 1 {
		half = 1 + r.Intn(len(objs)-1) // functions section in the middle, then ---types--- again
	}
	writeObjs := func(l []item) {
		for _, it := range l {
			sep()
			if r.Intn(4) == 0 {
				g.commentBlock(&b, "type", &it.d)
			}
			g.commentBlock(&b, it.kind, &it.d)
			b.WriteString(it.d.line() + "\n")
			decl = append(decl, it.d.declared("o"))
		}
	}
	writeObjs(objs[:half])
	if len(methods) > 0 || r.Intn(2) == 0 {
		b.WriteString("\n---functions---\n")
	}
	for i := range methods {
		sep()
		g.commentBlock(&b, "method", &methods[i])
		b.WriteString(methods[i].line() + "\n")
		declM = append(declM, methods[i].declared("m"))
	}
	if half < len(objs) {
		b.WriteString("---types---\n")
		writeObjs(objs[half:])
	}
	switch r.Intn(5) {
	case 0:
		b.WriteString("// trailing comment without newline")
	case 1:
		s := b.String()
		return strings.TrimRight(s, "\n"), append(decl, declM...) // no final newline
	}
	return b.String(), append(decl, declM...)
}

// ---------------------------------------------------------------------------------------------
// malformed stream

var strayPieces = []string{"#", ":", ">", "<", "?", ";", "-", "/", "=", " ", "\n", "\t", "é", "🎲", "\xff", "\xc3", "٣", "flags.", "flags.٣", "Vector", "Vector<", "//", "---", "@", "{X:Type}", "!X", "%", "0x", "g", "_", " ", " ", "flags.99999999999999999999?", "// @param\n", "// @foo bar\n", "// @constructor\n"}

func (g *sgen) mutate(text string) string {
	r := g.rng
	b := []byte(text)
	n := 1 + r.Intn(3)
	for i := 0; i < n && len(b) > 0; i++ {
		switch r.Intn(8) {
		case 0: // truncate
			b = b[:r.Intn(len(b)+1)]
		case 1: // drop an '='
			if j := strings.IndexByte(string(b), '='); j >= 0 {
				b = append(b[:j], b[j+1:]...)
			}
		case 2: // spoil a hex id
			if j := strings.IndexByte(string(b), '#'); j >= 0 && j+1 < len(b) {
				b[j+1] = "gxz _-"[r.Intn(6)]
			}
		case 3, 4: // stray piece
			j := r.Intn(len(b) + 1)
			p := strayPieces[r.Intn(len(strayPieces))]
			b = append(b[:j], append([]byte(p), b[j:]...)...)
		case 5: // delete a span
			j := r.Intn(len(b))
			k := j + r.Intn(6)
			if k > len(b) {
				k = len(b)
			}
			b = append(b[:j], b[k:]...)
		case 6: // replace a byte
			b[r.Intn(len(b))] = byte(r.Intn(256))
		default: // cut the head
			b = b[r.Intn(len(b)):]
		}
	}
	switch r.Intn(6) {
	case 0: // end on a rune some IsNext pattern starts with, after a comment or as it comes
		b = append(b, []string{"-", "//\n-", "/", "V", "f", "=", "?", "//\n--", "\n// x\n-"}[r.Intn(9)]...)
	case 1: // a first word whose byte length exceeds its rune count
		w := strings.Repeat([]string{"é", "🎲", "٣"}[r.Intn(3)], 1+r.Intn(12))
		j := 0
		if k := strings.LastIndexByte(string(b), '\n'); k >= 0 && r.Intn(2) == 0 {
			j = k + 1
		}
		b = append(b[:j], append([]byte(w+" x "), b[j:]...)...)
	}
	return string(b)
}

var tinyAlphabet = []string{"-", "/", "V", "f", " ", "\n", "#", "=", ";", ":", "a", "@", ">", "?", "1"}

func tiny(r *runner, maxLen int) {
	var rec func(prefix string, n int)
	rec = func(prefix string, n int) {
		r.schema("tiny", "", prefix, false)
		if n == 0 {
			return
		}
		for _, c := range tinyAlphabet {
			rec(prefix+c, n-1)
		}
	}
	rec("", maxLen)
}

var tails = []string{"//\n-", "a#1 = A;\n//\n-", "a#1 = A;\n// @type x\n-", "a#1 = A;\n🎲🎲🎲 x", "a#1 = A;\nééééééééé x", "a#1 = A;\n  \tééééééééééé#2 = B;\n",
	"a#1 = A;\n//\n/", "a#1 = A;\n//\n--", "a#1 = A;\n//\n---", "//x\n=", "a#1 x:int\n//\n=", "a#1 x:f", "a#1 = A;\n//\nV", "---functions---\n//\n-", "//\n//\n-", "---functions---", "---functions--", "---functions-", "---types---", "---types--", "a#1 = A;\n---", "a#1 = A;\n--", "a#1 = A;\n/", "a#1 = A;\n//", "a#1 = A;\n// @type", "a#1 = A;\n// @type x",
	"a#1 x:f", "a#1 x:fl", "a#1 x:flags.", "a#1 x:flags.1", "a#1 x:flags.1?", "a#1 x:flags.1?V", "a#1 x:V", "a#1 x:Vector", "a#1 x:Vector<", "a#1 x:Vector<int", "a#1 x:Vector<int>", "a#1 x:int =", "a#1 x:int = ", "a#1 x:int = V",
	"a#1 x:int = Vector<A", "a#1 x:int = Vector<A>", "a#1 x:int = Vector<A>;", "a#1 = A", "a#1 = A;", "a#1 =A;", "a#1 =", "a#1 ", "a#1", "a#", "a", "int ", "int ?", "int ? = Int;", "boolTrue#1 = Bool", "boolTrue#1 = Bool;",
	"a#zz = A;\n", "a#1ffffffff = A;\n", "a#00000000001 = A;\n", "a#FFffFFff = A;\n", "a#-1 = A;\n", "a#+1 = A;\n", "a#0x1 = A;\n", "a#1_0 = A;\n", "a# = A;\n",
	"a#1 x:flags.٣?int = A;\n", "a#1 x:flags.٣", "a#1 x:flags.01?int = A;\n", "a#1 x:flags.9223372036854775807?int = A;\n", "a#1 x:flags.9223372036854775808?int = A;\n", "a#1 x:flags.?int = A;\n", "a#1 x:flags.1 int = A;\n",
	"é#1 = A;\n", "\né#1 = A;\n", "a#1 = A;\n ééé#2 = B;\n", "a#1 x:Vector<Vector<int>> = A;\n", "a#1 x:VectorFoo = A;\n", "a#1 x:flags.Foo = A;\n", "a#1 = VectorX;\n", "a#1 flags:# x:flags.0?true = A;\n", "a#1 flags:Vector<#> = A;\n",
	"---types---\na#1 = Vector<A>;\n", "---functions---\na#1 = Vector<A>;\n", "//\na#1 = A;\n", "// @type\na#1 = A;\n", "// @param\na#1 = A;\n", "// @param x\na#1 = A;\n", "//\t@type\tx\na#1 = A;\n", "// @TYPE x\na#1 = A;\n", "//@type x\na#1 = A;\n",
	"// @type x", "// x", "//", "/", "", " ", "\n", "\xff", "a#1 = A;\r\nb#2 = B;\r\n", "a#1  x:int   y:long  =  A ;\n", "a#1\tx:int = A;\n", "a#1 x:int\t= A;\n", "a #1 = A;\n"}

// ---------------------------------------------------------------------------------------------

func tables() {
	for _, t := range []struct {
		name string
		f    func(rune) bool
	}{{"space", unicode.IsSpace}, {"digit", unicode.IsDigit}} {
		var b strings.Builder
		lo := -1
		for r := 0; r <= 0x110000; r++ {
			in := r < 0x110000 && !(r >= 0xD800 && r <= 0xDFFF) && t.f(rune(r))
			if in && lo < 0 {
				lo = r
			}
			if !in && lo >= 0 {
				fmt.Fprintf(&b, "%d-%d,", lo, r-1)
				lo = -1
			}
		}
		fmt.Printf("U\t%s\t%s\n", t.name, b.String())
	}
	fmt.Printf("V\t%s\n", unicode.Version)
}

func main() {
	if len(os.Args) < 2 {
		fmt.Fprintln(os.Stderr, "usage: c14 gen|one|tables ...")
		os.Exit(2)
	}
	switch os.Args[1] {
	case "tables":
		tables()
	case "one":
		b, err := ioutil.ReadFile(os.Args[2])
		if err != nil {
			fmt.Fprintln(os.Stderr, err)
			os.Exit(2)
		}
		if len(os.Args) > 3 { // seconds ParseSchema may take (confirmation run of a suspected hang)
			var secs int
			fmt.Sscan(os.Args[3], &secs)
			if secs > 0 {
				parseWatchdog = time.Duration(secs) * time.Second
			}
		}
		w := bufio.NewWriter(os.Stdout)
		res := runParse(string(b))
		fmt.Fprintf(w, "P\t%s\t%s\n", res.class, res.detail)
		w.Flush()
		if res.class == "ok" {
			o := vc.Create("/dev/stdout")
			for _, x := range res.schema.Objects {
				showDef(o, "D", "one", "o", x.Name, x.CRC, x.Parameters, x.Interface, false)
			}
			for _, m := range res.schema.Methods {
				showDef(o, "D", "one", "m", m.Name, m.CRC, m.Parameters, m.Response.Type, m.Response.IsList)
			}
			o.Close()
		}
	case "inproc":
		b, err := ioutil.ReadFile(os.Args[2])
		if err != nil {
			fmt.Fprintln(os.Stderr, err)
			os.Exit(2)
		}
		fmt.Printf("I\t%s\n", inProcess(string(b)))
	case "gen":
		tier, outdir, repo := os.Args[2], os.Args[3], os.Args[4]
		r := &runner{cases: vc.Create(filepath.Join(outdir, "cases.txt")), impl: vc.Create(filepath.Join(outdir, "impl.txt")), stat: map[string]int{}}
		rng := vc.NewRng(vc.Seed())
		// shipped schemas and the parser's fixtures
		files, _ := filepath.Glob(filepath.Join(repo, "schemes", "*.tl"))
		sort.Strings(files)
		for _, f := range files {
			if fi, err := os.Lstat(f); err != nil || fi.Mode()&os.ModeSymlink != 0 {
				continue // api_latest.tl / e2e_latest.tl are links to files of the same directory
			}
			b, err := ioutil.ReadFile(f)
			if err != nil {
				continue
			}
			r.schema("shipped", filepath.Base(f), string(b), true)
		}
		fx, _ := filepath.Glob(filepath.Join(repo, "internal/cmd/tlgen/tlparser/testdata", "*.tl"))
		sort.Strings(fx)
		for _, f := range fx {
			b, _ := ioutil.ReadFile(f)
			r.schema("fixture", filepath.Base(f), string(b), true)
		}
		if b, err := ioutil.ReadFile(filepath.Join(repo, "internal/cmd/tlgen/gen/testdata/basic/schema.tl")); err == nil {
			r.schema("fixture", "gen/testdata/basic/schema.tl", string(b), true)
		}
		nCompiled, nValid, nMalformed, nCursor, tinyLen := 10, 300, 500, 600, 2
		if tier == "thorough" {
			nCompiled, nValid, nMalformed, nCursor, tinyLen = 300, 4000, 8000, 10000, 3
		}
		g := &sgen{rng: rng.Fork(1), ids: map[uint32]bool{}, stat: r.stat}
		var valid []string
		for i := 0; i < nValid; i++ {
			size := 1 + g.rng.Intn(6)
			if i < nCompiled {
				size = 3 + g.rng.Intn(8)
			}
			t, decl := g.schemaText(size, i < nCompiled)
			valid = append(valid, t)
			r.schema("valid", "", t, i < nCompiled, decl...)
		}
		for _, t := range tails {
			r.schema("edge", "", t, false)
		}
		gm := &sgen{rng: rng.Fork(2)}
		for i := 0; i < nMalformed; i++ {
			r.schema("malformed", "", gm.mutate(valid[gm.rng.Intn(len(valid))]), false)
		}
		tiny(r, tinyLen)
		r.cursorCases(rng.Fork(3), nCursor)
		r.cases.Close()
		r.impl.Close()
		keys := make([]string, 0, len(r.stat))
		for k := range r.stat {
			keys = append(keys, k)
		}
		sort.Strings(keys)
		for _, k := range keys {
			fmt.Printf("stat\t%s\t%d\n", k, r.stat[k])
		}
	default:
		fmt.Fprintln(os.Stderr, "unknown sub-command")
		os.Exit(2)
	}
}
