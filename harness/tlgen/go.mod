module github.com/xelaj/mtproto/internal/cmd/tlgen/verifharness

go 1.13

require (
	github.com/xelaj/mtproto/internal/cmd/tlgen v0.0.0
	verifcommon v0.0.0
)

replace github.com/xelaj/mtproto/internal/cmd/tlgen => /repo/internal/cmd/tlgen

replace verifcommon => ../common
