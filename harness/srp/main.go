// Harness for property C18 (2FA SRP answer).
//
//	gen <tier> <cases-out>    generate cases, run the implementation and the reference server, write the case file
//	probe <cases-out> [tier]  one-factor-at-a-time call history + truncated-key collision probe: sequential x cases in one process (see cmdProbe)
//	seq <file>                run the calls listed in the file (one argument list of `one` per line) in order in ONE process
//	one <kind> <fields...>    re-run one case line (fields as in the case file, inputs only) and print the fresh result fields
//
// The reference SRP server (refServer) and the reference client arithmetic (refClient, used only to
// record the math/big oracle entries the Coq model will ask for) are written from Telegram's SRP
// definition with math/big and crypto/sha256; they share no code with telegram/internal/srp.
//
// Case file (tab separated; bytes in hex, "-" = empty; integers as hex with prefix "m" if negative):
//
//	me  base exp mod result                     math/big Exp oracle entry (recorded for exactly the calls of the following case)
//	pb  hash1 salt1 out                         PBKDF2-HMAC-SHA512 x100000 oracle entry
//	x   id mode regpw pw salt1 salt2 g p b srpB random | refV refB implClass implA implM1 refVerdict expectVerdict tags
//	r   id mode pw srpB mpflag salt1 salt2 g P random   | implClass implA implM1 expectClass tags
//	t   id mode pw apkind srpB srpid salt1 salt2 g P b regpw | implClass implSrpid implA implM1 refVerdict expectClass expectVerdict tags
//	    (regpw = the EXACT byte string whose verifier the server holds; pw = what is typed into the exported wrapper)
//
// every x/r/t line ends with two more fields: layout (how the byte slices were handed in) and intact|MODIFIED
//
// mode: calc = the model computes every modexp itself (small groups), orac = it uses the me table.
package main

import (
	"bytes"
	"crypto/sha256"
	"crypto/sha512"
	"fmt"
	"math/big"
	"os"
	"sort"
	"strings"
	"sync"

	"golang.org/x/crypto/pbkdf2"

	"github.com/xelaj/mtproto/telegram"
	"github.com/xelaj/mtproto/telegram/internal/srp"
	vc "verifcommon"
)

// Telegram's 2048-bit safe prime (the value every DC sends; also in 2fa_test.go).
const telegramP = "C71CAEB9C6B1C9048E6C522F70F13F73980D40238E3E21C14934D037563D930F" +
	"48198A0AA7C14058229493D22530F4DBFA336F6E0AC925139543AED44CCE7C37" +
	"20FD51F69458705AC68CD4FE6B6B13ABDC9746512969328454F18FAF8C595F64" +
	"2477FE96BB2A941D5BCD1D4AC8CC49880708FA9B378E3C4F3A9060BEE67CF9A4" +
	"A4A695811051907E162753B56B0F6B410DBA74D8A84B2A14B3144E0EF1284754" +
	"FD17ED950D5965B4B9DD46582DB1178D169C6BC465B0D6FF9CA3928FEF5B9AE4" +
	"E418FC15E83EBEA0F87FA9FF5EED70050DED2849F47BF959D956850CE929851F" +
	"0D8115F635B105EE2E4E15D04B2454BF6F4FADF034B10403119CD8E3B92FCC5B"

// srp_B of the exchange recorded in 2fa_test.go (expected M1 999df906...ad4051)
const recordedB = "9c52401a6a8084ec82f01c3725d3fb448bd2f0c909f9d97726eac4b7a74172d9" +
	"52f02466be6734fa274d2b7429e27397f10372d66b400b80a5c5ae3f28b17bf3" +
	"105d7a2d2a885998cdc2defc208aec217ab58859a9abc2374ad93dc285f4b3fb" +
	"caff4143d7888f2425bd2fb711b25609ceb21757d935b1ef2f042173ad0ce2fe" +
	"0e474dac53914bd25a8a9aed4aea8953d55cb88621db37b871ea0d04393ac098" +
	"7f68094ccc9de8239251375d8fffd263316cd528c097b7bc9fb919fbedb76c52" +
	"5df3413c374ee076d97a1e6d352bb7cc80fd13651b04b32e2e48c5268150842c" +
	"fd07cf855958b1b5ea9c36fdad697fe3aec8dcc6b1efec36874af226204676cf"

// ---------------------------------------------------------------------------------------------
// encoding helpers

func zhex(z *big.Int) string {
	if z.Sign() == 0 {
		return "0"
	}
	if z.Sign() < 0 {
		return "m" + new(big.Int).Abs(z).Text(16)
	}
	return z.Text(16)
}

func unzhex(s string) *big.Int {
	neg := strings.HasPrefix(s, "m")
	if neg {
		s = s[1:]
	}
	z, ok := new(big.Int).SetString(s, 16)
	if !ok {
		panic("bad integer in case file: " + s)
	}
	if neg {
		z.Neg(z)
	}
	return z
}

// 256-byte big-endian of |n| (the low 2048 bits if it is larger, as a fixed-width field would hold)
func pad(n *big.Int) []byte {
	b := new(big.Int).Abs(n).Bytes()
	if len(b) >= 256 {
		return b[len(b)-256:]
	}
	out := make([]byte, 256)
	copy(out[256-len(b):], b)
	return out
}

func hsum(parts ...[]byte) []byte {
	h := sha256.New()
	for _, p := range parts {
		h.Write(p)
	}
	return h.Sum(nil)
}

func num(b []byte) *big.Int { return new(big.Int).SetBytes(b) }

// ---------------------------------------------------------------------------------------------
// oracle recorder: every Exp / PBKDF2 evaluation made on the reference side is written down

type rec struct {
	me   []string
	pb   []string
	seen map[string]bool
}

func newRec() *rec { return &rec{seen: map[string]bool{}} }

func (r *rec) exp(base, e, m *big.Int) *big.Int {
	res := new(big.Int).Exp(base, e, m)
	if r != nil {
		l := "me\t" + zhex(base) + "\t" + zhex(e) + "\t" + zhex(m) + "\t" + zhex(res)
		if !r.seen[l] {
			r.seen[l] = true
			r.me = append(r.me, l)
		}
	}
	return res
}

var pbCache sync.Map

func (r *rec) pbkdf(h1, salt []byte) []byte {
	key := string(h1) + "/" + string(salt)
	var out []byte
	if v, ok := pbCache.Load(key); ok {
		out = v.([]byte)
	} else {
		out = pbkdf2.Key(h1, salt, 100000, 64, sha512.New)
		pbCache.Store(key, out)
	}
	if r != nil {
		l := "pb\t" + vc.Hex(h1) + "\t" + vc.Hex(salt) + "\t" + vc.Hex(out)
		if !r.seen[l] {
			r.seen[l] = true
			r.pb = append(r.pb, l)
		}
	}
	return out
}

// PH1, PH2 from the definition: SH(data, salt) = H(salt | data | salt)
func sh(data, salt []byte) []byte  { return hsum(salt, data, salt) }
func ph1(pw, s1, s2 []byte) []byte { return sh(sh(pw, s1), s2) }
func (r *rec) ph2(pw, s1, s2 []byte) []byte {
	return sh(r.pbkdf(ph1(pw, s1, s2), s1), s2)
}

// ---------------------------------------------------------------------------------------------
// reference server

type refServer struct {
	s1, s2     []byte
	g, p, v, b *big.Int
}

func register(r *rec, pw, s1, s2 []byte, g, p *big.Int) *big.Int {
	x := num(r.ph2(pw, s1, s2))
	return r.exp(g, x, p)
}

func (s *refServer) k() *big.Int { return num(hsum(pad(s.p), pad(s.g))) }

func (s *refServer) B(r *rec) *big.Int {
	kv := new(big.Int).Mul(s.k(), s.v)
	kv.Add(kv, r.exp(s.g, s.b, s.p))
	return kv.Mod(kv, s.p)
}

func (s *refServer) secret(r *rec, A []byte) *big.Int {
	u := num(hsum(A, pad(s.B(nil))))
	base := new(big.Int).Mul(num(A), r.exp(s.v, u, s.p))
	return r.exp(base, s.b, s.p)
}

func xor32(a, b []byte) []byte {
	out := make([]byte, len(a))
	for i := range a {
		out[i] = a[i] ^ b[i]
	}
	return out
}

func (s *refServer) check(r *rec, A, M1 []byte) bool {
	if len(A) != 256 {
		return false
	}
	S := s.secret(r, A)
	kb := hsum(pad(S))
	want := hsum(xor32(hsum(pad(s.p)), hsum(pad(s.g))), hsum(s.s1), hsum(s.s2), A, pad(s.B(nil)), kb)
	return bytes.Equal(want, M1)
}

// reference client arithmetic (records the three Exp calls the model's client makes; returns A, S, u)
func refClient(r *rec, pw, srpB, s1, s2 []byte, g int32, P, random []byte) (A []byte, S, u *big.Int) {
	p := num(P)
	gz := big.NewInt(int64(g))
	a := num(random)
	A = pad(r.exp(gz, a, p))
	u = num(hsum(A, pad(num(srpB))))
	x := num(r.ph2(pw, s1, s2))
	v := r.exp(gz, x, p)
	k := num(hsum(P, pad(gz)))
	kv := new(big.Int).Mul(k, v)
	kv.Mod(kv, p)
	t := new(big.Int).Sub(num(srpB), kv)
	t.Mod(t, p)
	e := new(big.Int).Mul(u, x)
	e.Add(e, a)
	S = r.exp(t, e, p)
	return
}

// ---------------------------------------------------------------------------------------------
// implementation under test

// ---- how the byte-slice inputs are handed in -------------------------------------------------
// The callee must neither depend on nor write to anything but the bytes s[0:len(s)] of its inputs:
//
//	sep    every slice exactly sized and separately allocated
//	spare  every slice has 48 bytes of spare capacity (guard pattern) behind it
//	s1s2   guard | salt1 | salt2 | guard      (windows of ONE array; cap(salt1) reaches over salt2)
//	s2s1   guard | salt2 | salt1 | guard
//	all    guard | salt1 | salt2 | srpB | P | random | guard
//	rev    guard | random | P | srpB | salt2 | salt1 | guard
//
// The whole backing arrays (guards and spare capacity included) are compared before/after.
var layouts = []string{"sep", "spare", "s1s2", "s2s1", "all", "rev"}

const guardByte = 0xa5

type laid struct {
	s1, s2, B, P, random []byte
	bufs, snaps          [][]byte
}

func (l *laid) track(buf []byte) {
	l.bufs = append(l.bufs, buf)
	l.snaps = append(l.snaps, append([]byte(nil), buf...))
}

func (l *laid) intact() bool {
	for i := range l.bufs {
		if !bytes.Equal(l.bufs[i], l.snaps[i]) {
			return false
		}
	}
	return true
}

func layOut(kind string, s1, s2, B, P, random []byte) *laid {
	l := &laid{}
	own := func(b []byte, spare int) []byte {
		if b == nil && spare == 0 {
			return nil
		}
		buf := make([]byte, len(b)+spare)
		for i := range buf {
			buf[i] = guardByte
		}
		copy(buf, b)
		l.track(buf)
		return buf[:len(b)]
	}
	// windows of one array, in the given order, 16 guard bytes in front and 64 behind
	shared := func(parts ...*[]byte) {
		n := 16 + 64
		for _, p := range parts {
			n += len(*p)
		}
		buf := make([]byte, n)
		for i := range buf {
			buf[i] = guardByte
		}
		off := 16
		for _, p := range parts {
			copy(buf[off:], *p)
			w := buf[off : off+len(*p)] // capacity reaches to the end of the array, over the following windows
			off += len(*p)
			*p = w
		}
		l.track(buf)
	}
	l.s1, l.s2, l.B, l.P, l.random = s1, s2, B, P, random
	switch kind {
	case "spare":
		l.s1, l.s2, l.B, l.P, l.random = own(s1, 48), own(s2, 48), own(B, 48), own(P, 48), own(random, 48)
	case "s1s2":
		shared(&l.s1, &l.s2)
		l.B, l.P, l.random = own(B, 0), own(P, 0), own(random, 0)
	case "s2s1":
		shared(&l.s2, &l.s1)
		l.B, l.P, l.random = own(B, 0), own(P, 0), own(random, 0)
	case "all":
		shared(&l.s1, &l.s2, &l.B, &l.P, &l.random)
	case "rev":
		shared(&l.random, &l.P, &l.B, &l.s2, &l.s1)
	default:
		l.s1, l.s2, l.B, l.P, l.random = own(s1, 0), own(s2, 0), own(B, 0), own(P, 0), own(random, 0)
	}
	return l
}

func intactStr(ok bool) string {
	if ok {
		return "intact"
	}
	return "MODIFIED"
}

// the values in srpB/mp/random are the ORIGINALS (kept by the caller for the reference side);
// the implementation receives copies laid out as `kind` says
func implSRP(pw string, srpB []byte, mp *srp.ModPow, random []byte, kind string) (class string, A, M1 []byte, intact string) {
	var l *laid
	mp2 := mp
	if mp != nil {
		l = layOut(kind, mp.Salt1, mp.Salt2, srpB, mp.P, random)
		mp2 = &srp.ModPow{Salt1: l.s1, Salt2: l.s2, G: mp.G, P: l.P}
	} else {
		l = layOut(kind, nil, nil, srpB, nil, random)
	}
	panicked, _ := vc.Catch(func() {
		res, err := srp.VerifGetInputCheckPassword(pw, l.B, mp2, l.random)
		switch {
		case err != nil:
			class = "err"
		case res == nil:
			class = "empty"
		default:
			class, A, M1 = "ok", append([]byte(nil), res.GA...), append([]byte(nil), res.M1...)
		}
	})
	intact = intactStr(l.intact())
	if panicked {
		return "panic", nil, nil, intact
	}
	return
}

func implExported(pw string, ap *telegram.AccountPassword) (class string, id int64, A, M1 []byte) {
	panicked, _ := vc.Catch(func() {
		res, err := telegram.GetInputCheckPassword(pw, ap)
		if err != nil {
			class = "err"
			return
		}
		switch v := res.(type) {
		case *telegram.InputCheckPasswordEmpty:
			class = "empty"
		case *telegram.InputCheckPasswordSRPObj:
			class, id, A, M1 = "srp", v.SRPID, v.A, v.M1
		default:
			class = fmt.Sprintf("other:%T", res)
		}
	})
	if panicked {
		return "panic", 0, nil, nil
	}
	return
}

// ---------------------------------------------------------------------------------------------
// generators

type group struct {
	name string
	P    []byte // as the server sends it (256 bytes)
	p    *big.Int
	mode string
}

func realGroup() group {
	p, _ := new(big.Int).SetString(telegramP, 16)
	return group{"telegram2048", pad(p), p, "orac"}
}

// an odd modulus of exactly `bits` bits (the code does not examine p; the algebra needs no primality)
func oddModulus(r *vc.Rng, bits int) *big.Int {
	n := (bits + 7) / 8
	b := r.Bytes(n)
	top := uint(bits - 1 - 8*(n-1))
	b[0] &= byte((1 << (top + 1)) - 1)
	b[0] |= 1 << top
	b[n-1] |= 1
	return num(b)
}

func primeOf(r *vc.Rng, bits int) *big.Int {
	for {
		c := oddModulus(r, bits)
		if c.ProbablyPrime(12) {
			return c
		}
	}
}

var alphabets = [][2]rune{
	{0x20, 0x7e}, {0xa1, 0xff}, {0x410, 0x44f}, {0x4e00, 0x4fff}, {0x1f600, 0x1f64f}, {0x10330, 0x1034a}, {0x5d0, 0x5ea},
}

func randPassword(r *vc.Rng) string {
	n := 1 + r.Intn(24)
	var sb strings.Builder
	mix := r.Intn(4)
	for i := 0; i < n; i++ {
		var a [2]rune
		switch mix {
		case 0:
			a = alphabets[0]
		case 1:
			a = alphabets[r.Intn(len(alphabets))]
		case 2:
			a = alphabets[4+r.Intn(2)] // only non-BMP
		default:
			if r.Intn(8) == 0 { // a raw byte, possibly invalid UTF-8: Go strings carry it unchanged
				sb.WriteByte(byte(0x80 + r.Intn(0x80)))
				continue
			}
			a = alphabets[r.Intn(len(alphabets))]
		}
		sb.WriteRune(a[0] + rune(r.Intn(int(a[1]-a[0])+1)))
	}
	return sb.String()
}

func randSalt(r *vc.Rng) []byte {
	switch r.Intn(8) {
	case 0:
		return nil
	case 1:
		return r.Bytes(64)
	case 2:
		return r.Bytes(1)
	}
	return r.Bytes(r.Intn(65))
}

func randG(r *vc.Rng, exotic bool) int32 {
	if exotic && r.Intn(6) == 0 {
		return []int32{1, -3, 2147483647, -2147483648, 0, 65537}[r.Intn(6)]
	}
	return int32(2 + r.Intn(6))
}

func randomBytesFor(r *vc.Rng, g group, short bool) []byte {
	if g.mode == "orac" {
		if short {
			return append(make([]byte, 224), r.Bytes(32)...)
		}
		return r.Bytes(256)
	}
	// small groups: the Gallina modexp costs ~ exponent bits x modulus bits^2
	bits := g.p.BitLen()
	switch {
	case bits <= 64:
		if r.Intn(3) == 0 {
			return r.Bytes(256)
		}
		return append(make([]byte, 256-32), r.Bytes(32)...)
	case bits <= 128:
		return append(make([]byte, 256-16), r.Bytes(16)...)
	}
	return r.Bytes(8)
}

type outCase struct {
	lines []string
	stats map[string]int
}

func (o *outCase) stat(k string) {
	if o.stats == nil {
		o.stats = map[string]int{}
	}
	o.stats[k]++
}

func lz(b []byte) int {
	n := 0
	for n < len(b) && b[n] == 0 {
		n++
	}
	return n
}

type xopts struct {
	g        group
	gval     int32
	pw       string
	typed    string // password typed by the client ("" = same as pw)
	s1, s2   []byte
	b        *big.Int
	random   []byte
	stripB   bool // send srp_B without its leading zero bytes (but never below 248 bytes)
	search   string
	extraTag string
}

// one full exchange: register, B, client answer (implementation), server verdict
func exchange(id string, o xopts, r *vc.Rng) *outCase {
	oc := &outCase{}
	rc := newRec()
	gz := big.NewInt(int64(o.gval))
	typed := o.typed
	if typed == "" {
		typed = o.pw
	}
	v := register(rc, []byte(o.pw), o.s1, o.s2, gz, o.g.p)
	sv := &refServer{o.s1, o.s2, gz, o.g.p, v, o.b}

	// searches for leading-zero corners (over the ephemeral secrets only; passwords cost a PBKDF2 each)
	random := o.random
	switch o.search {
	case "lzB":
		for i := 0; i < 20000; i++ {
			if lz(pad(sv.B(nil))) >= 1+256-len(o.g.p.Bytes()) {
				break
			}
			sv.b = num(r.Bytes(32))
		}
	case "lzA":
		for i := 0; i < 20000; i++ {
			if lz(pad(new(big.Int).Exp(gz, num(random), o.g.p))) >= 1+256-len(o.g.p.Bytes()) {
				break
			}
			random = append(make([]byte, 224), r.Bytes(32)...)
		}
	case "lzS", "lzU":
		for i := 0; i < 20000; i++ {
			B := sv.B(nil)
			if B.Sign() > 0 {
				_, S, u := refClient(nil, []byte(typed), pad(B), o.s1, o.s2, o.gval, o.g.P, random)
				if o.search == "lzS" && lz(pad(S)) >= 1+256-len(o.g.p.Bytes()) {
					break
				}
				if o.search == "lzU" && lz(u.FillBytes(make([]byte, 32))) >= 1 {
					break
				}
			}
			random = append(make([]byte, 224), r.Bytes(32)...)
		}
	}

	Bn := sv.B(rc)
	srpB := pad(Bn)
	if o.stripB {
		z := lz(srpB)
		if z > 8 {
			z = 8
		}
		srpB = srpB[z:]
	}
	tags := []string{o.g.name}
	if o.search != "" {
		tags = append(tags, "search:"+o.search)
	}
	if o.extraTag != "" {
		tags = append(tags, o.extraTag)
	}
	inRange := Bn.Sign() > 0
	var refA []byte
	var refS, refU *big.Int
	if inRange {
		refA, refS, refU = refClient(rc, []byte(typed), srpB, o.s1, o.s2, o.gval, o.g.P, random)
		// the server-side evaluations the model will make on the model client's A
		sv.secret(rc, refA)
		own := 256 - len(o.g.p.Bytes()) // zero bytes every value below p has anyway
		if lz(refA) > own {
			tags = append(tags, "lzA")
		}
		if lz(pad(Bn)) > own {
			tags = append(tags, "lzB")
		}
		if lz(pad(refS)) > own {
			tags = append(tags, "lzS")
		}
		if lz(refU.FillBytes(make([]byte, 32))) > 0 {
			tags = append(tags, "lzU")
		}
		kv := new(big.Int).Mul(sv.k(), v)
		kv.Mod(kv, o.g.p)
		if lz(pad(kv)) > own {
			tags = append(tags, "lzKV")
		}
		if lz(pad(v)) > own {
			tags = append(tags, "lzV")
		}
	} else {
		tags = append(tags, "B=0")
	}

	mp := &srp.ModPow{Salt1: o.s1, Salt2: o.s2, G: o.gval, P: o.g.P}
	lay := layouts[r.Fork(77).Intn(len(layouts))]
	class, A, M1, intact := implSRP(typed, srpB, mp, random, lay)
	oc.stat("layout:" + lay)
	verdict := "na"
	if class == "ok" {
		if sv.check(nil, A, M1) {
			verdict = "acc"
		} else {
			verdict = "rej"
		}
	}
	expect := "acc"
	if typed != o.pw {
		tags = append(tags, "wrongpw")
		v2 := register(nil, []byte(typed), o.s1, o.s2, gz, o.g.p)
		if v2.Cmp(v) != 0 {
			expect = "rej"
		} else {
			tags = append(tags, "same-verifier")
		}
	}
	if !inRange {
		expect = "na"
	}
	for _, t := range tags {
		oc.stat("tag:" + t)
	}
	oc.stat("kind:x")
	oc.stat(fmt.Sprintf("pwbytes:%d", (len(typed)+15)/16*16))
	oc.stat(fmt.Sprintf("salt1len:%d", (len(o.s1)+15)/16*16))
	oc.stat(fmt.Sprintf("srpBlen:%d", len(srpB)))
	oc.lines = append(oc.lines, rc.pb...)
	oc.lines = append(oc.lines, rc.me...)
	oc.lines = append(oc.lines, strings.Join([]string{"x", id, o.g.mode, vc.HexS(o.pw), vc.HexS(typed), vc.Hex(o.s1), vc.Hex(o.s2),
		zhex(gz), zhex(o.g.p), zhex(sv.b), vc.Hex(srpB), vc.Hex(random),
		zhex(v), vc.Hex(pad(Bn)), class, vc.Hex(A), vc.Hex(M1), verdict, expect, strings.Join(tags, ","), lay, intact}, "\t"))
	return oc
}

// raw client call with arbitrary B / parameters; expectation straight from the property (range rule)
func rawCase(id, mode, pw string, srpB []byte, mp *srp.ModPow, random []byte, tag string) *outCase {
	oc := &outCase{}
	rc := newRec()
	expect := "?"
	if pw == "" {
		expect = "empty"
	} else if mp == nil {
		expect = "panic"
	} else {
		B := num(srpB)
		p := num(mp.P)
		if B.Sign() > 0 && B.Cmp(p) < 0 && len(srpB) >= 248 && len(srpB) <= 256 {
			expect = "ok"
			refClient(rc, []byte(pw), srpB, mp.Salt1, mp.Salt2, mp.G, mp.P, random)
		} else {
			expect = "err"
		}
	}
	lay := layouts[(len(pw)+len(srpB)+len(random)+len(tag))%len(layouts)]
	class, A, M1, intact := implSRP(pw, srpB, mp, random, lay)
	oc.stat("layout:" + lay)
	flag, s1, s2, g, P := "nil", "-", "-", "0", "-"
	if mp != nil {
		flag, s1, s2, g, P = "mp", vc.Hex(mp.Salt1), vc.Hex(mp.Salt2), zhex(big.NewInt(int64(mp.G))), vc.Hex(mp.P)
	}
	oc.stat("kind:r")
	oc.stat("tag:" + tag)
	oc.lines = append(oc.lines, rc.pb...)
	oc.lines = append(oc.lines, rc.me...)
	oc.lines = append(oc.lines, strings.Join([]string{"r", id, mode, vc.HexS(pw), vc.Hex(srpB), flag, s1, s2, g, P, vc.Hex(random),
		class, vc.Hex(A), vc.Hex(M1), expect, tag, lay, intact}, "\t"))
	return oc
}

// telegram.GetInputCheckPassword; the client secret is drawn inside, so only the class, the srp_id and
// the reference server's verdict are observable
func exportedCase(id string, g group, gval int32, pw, apkind string, r *vc.Rng) *outCase {
	return exportedCaseReg(id, g, gval, pw, pw, apkind, "exported-"+apkind, r)
}

// reg: the exact string registered with the server ("" = an unrelated password); pw: the string typed
func exportedCaseReg(id string, g group, gval int32, reg, pw, apkind, tag string, r *vc.Rng) *outCase {
	oc := &outCase{}
	rc := newRec()
	s1, s2 := randSalt(r), randSalt(r)
	gz := big.NewInt(int64(gval))
	if reg == "" {
		reg = "some password"
	}
	v := register(nil, []byte(reg), s1, s2, gz, g.p)
	sv := &refServer{s1, s2, gz, g.p, v, num(r.Bytes(256))}
	Bn := sv.B(nil)
	srpB := pad(Bn)
	srpid := int64(r.U64())
	expect := "srp"
	switch apkind {
	case "nilap", "nilmp":
		expect = "panic"
	case "nilalgo", "other":
		expect = "err"
	case "badB":
		srpB = pad(g.p)
		expect = "err"
	default:
		// every other out-of-range / wrongly sized server value, THROUGH the exported wrapper (the wrapper must hand
		// the bytes to the validation as the server sent them: no padding, trimming or re-encoding in front of it)
		if strings.HasPrefix(apkind, "badB-") {
			expect = "err"
			switch apkind {
			case "badB-zero":
				srpB = make([]byte, 256)
			case "badB-p1":
				srpB = pad(new(big.Int).Add(g.p, big.NewInt(1)))
			case "badB-empty":
				srpB = []byte{}
			case "badB-short1":
				srpB = []byte{5}
			case "badB-short32":
				srpB = append([]byte{0x81}, r.Bytes(31)...)
			case "badB-short128":
				srpB = append([]byte{0x42}, r.Bytes(127)...)
			case "badB-short247":
				srpB = append([]byte{0x01}, r.Bytes(246)...)
			case "badB-long257":
				srpB = append([]byte{0}, srpB...)
			default:
				panic("unknown bad-B kind " + apkind)
			}
		}
	}
	lay := layouts[r.Fork(78).Intn(len(layouts))]
	l := layOut(lay, s1, s2, srpB, g.P, nil)
	ap := buildAP(apkind, l.B, srpid, l.s1, l.s2, gval, l.P)
	oc.stat("layout:" + lay)
	if pw == "" && (apkind == "mp" || strings.HasPrefix(apkind, "badB")) {
		expect = "empty"
	}
	if expect == "srp" {
		// the model is run with an empty random (a = 0); its class does not depend on it
		refClient(rc, []byte(pw), srpB, s1, s2, gval, g.P, nil)
	}
	class, gotID, A, M1 := implExported(pw, ap)
	intact := intactStr(l.intact())
	verdict := "na"
	if class == "srp" {
		if sv.check(nil, A, M1) {
			verdict = "acc"
		} else {
			verdict = "rej"
		}
	}
	expectVerdict := "na"
	if expect == "srp" {
		expectVerdict = "acc"
		if pw != reg {
			v2 := register(nil, []byte(pw), s1, s2, gz, g.p)
			if v2.Cmp(v) != 0 {
				expectVerdict = "rej"
			}
		}
	}
	oc.stat("kind:t")
	oc.stat("tag:" + tag)
	oc.lines = append(oc.lines, rc.pb...)
	oc.lines = append(oc.lines, rc.me...)
	oc.lines = append(oc.lines, strings.Join([]string{"t", id, g.mode, vc.HexS(pw), apkind, vc.Hex(srpB), zhex(big.NewInt(srpid)),
		vc.Hex(s1), vc.Hex(s2), zhex(gz), vc.Hex(g.P), zhex(sv.b), vc.HexS(reg),
		class, zhex(big.NewInt(gotID)), vc.Hex(A), vc.Hex(M1), verdict, expect, expectVerdict, tag, lay, intact}, "\t"))
	return oc
}

// white space that strings.TrimSpace / unicode.IsSpace would remove: none of it may be touched
var whiteSpaces = []string{" ", "\t", "\r", "\n", "\r\n", "\u00a0", "\u2003", "\u0085", "\u3000", "\v", "\f", "  "}

type job func(r *vc.Rng) *outCase

func genAll(tier string) []job {
	scale := 1
	if tier == "thorough" {
		scale = 25
	}
	var jobs []job
	add := func(j job) { jobs = append(jobs, j) }
	nid := 0
	id := func() string { nid++; return fmt.Sprintf("c%05d", nid) }
	real := realGroup()

	basic := func(g group, r *vc.Rng, exoticG bool) xopts {
		return xopts{g: g, gval: randG(r, exoticG), pw: randPassword(r), s1: randSalt(r), s2: randSalt(r),
			b: num(r.Bytes(256)), random: randomBytesFor(r, g, false)}
	}
	small := func(r *vc.Rng, bits int) group {
		var p *big.Int
		if r.Bool() {
			p = primeOf(r, bits)
		} else {
			p = oddModulus(r, bits)
		}
		return group{fmt.Sprintf("small%d", bits), pad(p), p, "calc"}
	}
	wrongOf := func(r *vc.Rng, pw string) string {
		switch r.Intn(4) {
		case 0:
			return pw + " "
		case 1:
			b := []byte(pw)
			b[r.Intn(len(b))] ^= 1 << uint(r.Intn(8))
			if len(b) > 0 && string(b) != pw {
				return string(b)
			}
		case 2:
			if len(pw) > 1 {
				return pw[:len(pw)-1]
			}
		}
		for {
			w := randPassword(r)
			if w != pw {
				return w
			}
		}
	}

	// A. Telegram's group, right password
	for i := 0; i < 10*scale; i++ {
		i := i
		cid := id()
		add(func(r *vc.Rng) *outCase {
			o := basic(real, r, false)
			o.gval = []int32{3, 2, 3, 4, 5, 6, 7}[i%7]
			return exchange(cid, o, r)
		})
	}
	// searched leading-zero corners on Telegram's group
	for i := 0; i < 1*scale; i++ {
		for _, s := range []string{"lzA", "lzB", "lzS", "lzU"} {
			s := s
			cid, cid2 := id(), id()
			add(func(r *vc.Rng) *outCase {
				o := basic(real, r, false)
				o.gval = 3
				o.search = s
				o.b = num(r.Bytes(32))
				o.random = randomBytesFor(r, real, true)
				return exchange(cid, o, r.Fork(1))
			})
			if s == "lzB" { // the same exchange with srp_B sent without its leading zero byte (255 bytes)
				add(func(r *vc.Rng) *outCase {
					o := basic(real, r, false)
					o.gval = 3
					o.search = s
					o.b = num(r.Bytes(32))
					o.random = randomBytesFor(r, real, true)
					o.stripB = true
					o.extraTag = "strippedB"
					return exchange(cid2, o, r.Fork(1))
				})
			}
		}
	}
	// wrong passwords on Telegram's group
	for i := 0; i < 6*scale; i++ {
		cid := id()
		add(func(r *vc.Rng) *outCase {
			o := basic(real, r, false)
			o.typed = wrongOf(r, o.pw)
			return exchange(cid, o, r)
		})
	}
	// B. 256-byte moduli whose encoding starts with 0x01.. or 0x00 0x01..: A, B, S, k*v get leading zero
	//    bytes in every other exchange (the code does not examine p, the algebra does not need a prime)
	for i := 0; i < 8*scale; i++ {
		i := i
		cid := id()
		add(func(r *vc.Rng) *outCase {
			bits := []int{2041, 2033, 2042, 2025, 2047, 2034, 2041, 2040}[i%8]
			p := oddModulus(r, bits)
			g := group{fmt.Sprintf("odd%d", bits), pad(p), p, "orac"}
			o := basic(g, r, true)
			o.stripB = i%4 == 1
			if o.stripB {
				o.extraTag = "strippedB"
			}
			if i%4 == 3 {
				o.typed = wrongOf(r, o.pw)
			}
			return exchange(cid, o, r)
		})
	}
	// C. small groups, everything computed inside the model
	for i := 0; i < 9*scale; i++ {
		i := i
		cid := id()
		add(func(r *vc.Rng) *outCase {
			bits := []int{61, 64, 127, 64, 128, 33, 64, 61, 256}[i%9]
			if bits == 256 && (tier == "quick" || i%27 != 8) { // the 256-bit group costs ~5 s in the model: thorough only, a few
				bits = 96
			}
			g := small(r, bits)
			o := basic(g, r, true)
			if bits == 256 {
				o.b = num(r.Bytes(8))
			} else if bits >= 96 {
				o.b = num(r.Bytes(16))
			} else {
				o.b = num(r.Bytes(32))
			}
			o.stripB = i%3 == 1
			if o.stripB {
				o.extraTag = "strippedB"
			}
			if i%4 == 2 {
				o.typed = wrongOf(r, o.pw)
			}
			return exchange(cid, o, r)
		})
	}
	// D. B at and around the limits; lengths; empty password; nil parameters
	for rep := 0; rep < scale; rep++ {
		for gi := 0; gi < 2; gi++ {
			gi := gi
			mk := func(r *vc.Rng) (group, *srp.ModPow) {
				g := real
				if gi == 1 {
					g = small(r, 64)
				}
				return g, &srp.ModPow{Salt1: randSalt(r), Salt2: randSalt(r), G: randG(r, false), P: g.P}
			}
			type bcase struct {
				tag string
				mkB func(g group, r *vc.Rng) []byte
			}
			one := big.NewInt(1)
			bcs := []bcase{
				{"B=0", func(g group, r *vc.Rng) []byte { return make([]byte, 256) }},
				{"B=p", func(g group, r *vc.Rng) []byte { return pad(g.p) }},
				{"B=p+1", func(g group, r *vc.Rng) []byte { return pad(new(big.Int).Add(g.p, one)) }},
				{"B=p-1", func(g group, r *vc.Rng) []byte { return pad(new(big.Int).Sub(g.p, one)) }},
				{"B=1", func(g group, r *vc.Rng) []byte { return pad(one) }},
				{"B=1,len248", func(g group, r *vc.Rng) []byte { return pad(one)[8:] }},
				{"B=1,len247", func(g group, r *vc.Rng) []byte { return pad(one)[9:] }},
				{"B short(100)", func(g group, r *vc.Rng) []byte { return append([]byte{1}, r.Bytes(99)...) }},
				{"B empty", func(g group, r *vc.Rng) []byte { return nil }},
				{"B 257 bytes, leading zero", func(g group, r *vc.Rng) []byte { return append([]byte{0}, pad(one)...) }},
				{"B 257 bytes", func(g group, r *vc.Rng) []byte { return append([]byte{1}, r.Bytes(256)...) }},
				{"B random below p, len 256", func(g group, r *vc.Rng) []byte {
					return pad(new(big.Int).Mod(num(r.Bytes(300)), g.p))
				}},
				{"B=2^2040-ish, len 255", func(g group, r *vc.Rng) []byte {
					if g.p.BitLen() < 2041 {
						return pad(big.NewInt(2))[1:]
					}
					return append([]byte{0x80}, r.Bytes(254)...)
				}},
			}
			for _, bc := range bcs {
				bc := bc
				cid := id()
				add(func(r *vc.Rng) *outCase {
					g, mp := mk(r)
					return rawCase(cid, g.mode, randPassword(r), bc.mkB(g, r), mp, randomBytesFor(r, g, true), bc.tag+"/"+g.name)
				})
			}
		}
		if rep == 0 { // the vector recorded from Telegram in 2fa_test.go (client secret a = 1)
			cv := id()
			add(func(r *vc.Rng) *outCase {
				one := make([]byte, 256)
				one[255] = 1
				mp := &srp.ModPow{Salt1: vc.UnHex("4d11fb6bec38f9d2546bb0f61e4f1c99a1bc0db8f0d5f35b1291b37b213123d7ed48f3c6794d495b"),
					Salt2: vc.UnHex("a1b181aafe88188680ae32860d60bb01"), G: 3, P: real.P}
				return rawCase(cv, "orac", "123123", vc.UnHex(recordedB), mp, one, "recorded vector (2fa_test.go)")
			})
		}
		// empty password: with good parameters, with a refused B, with nil parameters
		c1, c2, c3, c4, c5 := id(), id(), id(), id(), id()
		add(func(r *vc.Rng) *outCase {
			mp := &srp.ModPow{Salt1: randSalt(r), Salt2: randSalt(r), G: 3, P: real.P}
			return rawCase(c1, "orac", "", pad(big.NewInt(5)), mp, r.Bytes(256), "empty password")
		})
		add(func(r *vc.Rng) *outCase {
			mp := &srp.ModPow{Salt1: randSalt(r), Salt2: randSalt(r), G: 3, P: real.P}
			return rawCase(c2, "orac", "", nil, mp, r.Bytes(256), "empty password, bad B")
		})
		add(func(r *vc.Rng) *outCase {
			return rawCase(c3, "orac", "", pad(big.NewInt(5)), nil, r.Bytes(256), "empty password, nil ModPow")
		})
		add(func(r *vc.Rng) *outCase {
			return rawCase(c4, "orac", randPassword(r), pad(big.NewInt(5)), nil, r.Bytes(256), "nil ModPow")
		})
		// P sent with a non-canonical length (the code hashes the bytes as sent): model vs code only
		add(func(r *vc.Rng) *outCase {
			g := small(r, 64)
			mp := &srp.ModPow{Salt1: randSalt(r), Salt2: randSalt(r), G: 2, P: g.p.Bytes()}
			return rawCase(c5, "calc", randPassword(r), pad(big.NewInt(77)), mp, r.Bytes(16), "P as 8 raw bytes")
		})
	}
	// E. the exported entry point
	for rep := 0; rep < scale; rep++ {
		for _, k := range []string{"mp", "mp", "nilap", "nilalgo", "other", "nilmp", "badB"} {
			k := k
			cid := id()
			add(func(r *vc.Rng) *outCase { return exportedCase(cid, real, 3, randPassword(r), k, r) })
		}
		// passwords with white space at the ends, through the exported wrapper: the exact byte string counts.
		//  right: the account's password itself starts/ends with white space -> must be accepted;
		//  near-miss: the typed string differs from the registered one only by such white space -> must be rejected;
		//  only white space: a password, NOT the "no password" answer.
		for wi, ws := range whiteSpaces {
			if rep > 0 && (wi+rep)%4 != 0 {
				continue
			}
			ws := ws
			k1, k2, k3, k4, k5 := id(), id(), id(), id(), id()
			core := func(r *vc.Rng) string {
				if r.Intn(3) == 0 {
					return "hunter2"
				}
				return strings.TrimSpace(randPassword(r)) + "x"
			}
			add(func(r *vc.Rng) *outCase {
				c := core(r)
				pw := []string{c + ws, ws + c, ws + c + ws}[r.Intn(3)]
				return exportedCaseReg(k1, real, 3, pw, pw, "mp", "exported-ws-right", r)
			})
			add(func(r *vc.Rng) *outCase { // registered without, typed with
				c := core(r)
				pw := []string{c + ws, ws + c, ws + c + ws}[r.Intn(3)]
				return exportedCaseReg(k2, real, 3, c, pw, "mp", "exported-ws-typed-extra", r)
			})
			add(func(r *vc.Rng) *outCase { // registered with, typed without
				c := core(r)
				reg := []string{c + ws, ws + c, ws + c + ws}[r.Intn(3)]
				return exportedCaseReg(k3, real, 3, reg, c, "mp", "exported-ws-typed-trimmed", r)
			})
			add(func(r *vc.Rng) *outCase { return exportedCaseReg(k4, real, 3, ws, ws, "mp", "exported-ws-only", r) })
			add(func(r *vc.Rng) *outCase {
				return exportedCaseReg(k5, real, 3, ws, ws, "badB", "exported-ws-only-badB", r)
			})
		}
		for _, k := range []string{"badB-zero", "badB-p1", "badB-empty", "badB-short1", "badB-short32", "badB-short128", "badB-short247", "badB-long257"} {
			k := k
			cid := id()
			add(func(r *vc.Rng) *outCase { return exportedCase(cid, real, 3, randPassword(r), k, r) })
		}
		c1, c2, c3 := id(), id(), id()
		add(func(r *vc.Rng) *outCase { return exportedCase(c1, real, 3, "", "mp", r) })
		add(func(r *vc.Rng) *outCase { return exportedCase(c2, real, 3, "", "badB", r) })
		add(func(r *vc.Rng) *outCase { return exportedCase(c3, real, 3, "", "nilalgo", r) })
	}
	return jobs
}

func cmdGen(tier, path string) {
	jobs := genAll(tier)
	master := vc.NewRng(vc.Seed())
	seeds := make([]uint64, len(jobs))
	for i := range seeds {
		seeds[i] = master.U64()
	}
	res := make([]*outCase, len(jobs))
	var wg sync.WaitGroup
	sem := make(chan struct{}, 16)
	for i := range jobs {
		wg.Add(1)
		sem <- struct{}{}
		go func(i int) {
			defer wg.Done()
			defer func() { <-sem }()
			res[i] = jobs[i](vc.NewRng(seeds[i]))
		}(i)
	}
	wg.Wait()
	out := vc.Create(path)
	stats := map[string]int{}
	for _, oc := range res {
		for _, l := range oc.lines {
			out.Line(l)
		}
		for k, v := range oc.stats {
			stats[k] += v
		}
	}
	out.Close()
	keys := make([]string, 0, len(stats))
	for k := range stats {
		keys = append(keys, k)
	}
	sort.Strings(keys)
	for _, k := range keys {
		fmt.Printf("stat\t%s\t%d\n", k, stats[k])
	}
}

// one x regpw pw s1 s2 g p b srpB random [layout]      -> class A M1 verdict inputs
// one r pw srpB mpflag s1 s2 g P random [layout]        -> class A M1 inputs
// one t pw apkind srpB srpid s1 s2 g P b regpw [layout] -> class srpid A M1 verdict inputs
// (inputs = intact | MODIFIED: the backing arrays of the byte-slice arguments before/after)
func cmdOne(a []string) {
	layoutArg := func(i int) string {
		if len(a) > i {
			return a[i]
		}
		return "sep"
	}
	switch a[0] {
	case "x":
		regpw, pw, s1, s2 := vc.UnHex(a[1]), vc.UnHex(a[2]), vc.UnHex(a[3]), vc.UnHex(a[4])
		g, p, b := unzhex(a[5]), unzhex(a[6]), unzhex(a[7])
		srpB, random := vc.UnHex(a[8]), vc.UnHex(a[9])
		v := register(nil, regpw, s1, s2, g, p)
		sv := &refServer{s1, s2, g, p, v, b}
		mp := &srp.ModPow{Salt1: s1, Salt2: s2, G: int32(g.Int64()), P: pad(p)}
		class, A, M1, intact := implSRP(string(pw), srpB, mp, random, layoutArg(10))
		verdict := "na"
		if class == "ok" {
			verdict = "rej"
			if sv.check(nil, A, M1) {
				verdict = "acc"
			}
		}
		fmt.Printf("%s\t%s\t%s\t%s\t%s\n", class, vc.Hex(A), vc.Hex(M1), verdict, intact)
	case "r":
		var mp *srp.ModPow
		if a[3] == "mp" {
			mp = &srp.ModPow{Salt1: vc.UnHex(a[4]), Salt2: vc.UnHex(a[5]), G: int32(unzhex(a[6]).Int64()), P: vc.UnHex(a[7])}
		}
		class, A, M1, intact := implSRP(string(vc.UnHex(a[1])), vc.UnHex(a[2]), mp, vc.UnHex(a[8]), layoutArg(9))
		fmt.Printf("%s\t%s\t%s\t%s\n", class, vc.Hex(A), vc.Hex(M1), intact)
	case "t":
		pw, apkind, srpB, srpid := string(vc.UnHex(a[1])), a[2], vc.UnHex(a[3]), unzhex(a[4]).Int64()
		s1, s2, g, P, b := vc.UnHex(a[5]), vc.UnHex(a[6]), unzhex(a[7]), vc.UnHex(a[8]), unzhex(a[9])
		l := layOut(layoutArg(11), s1, s2, srpB, P, nil)
		ap := buildAP(apkind, l.B, srpid, l.s1, l.s2, int32(g.Int64()), l.P)
		reg := string(vc.UnHex(a[10]))
		sv := &refServer{s1, s2, g, num(P), register(nil, []byte(reg), s1, s2, g, num(P)), b}
		class, gotID, A, M1 := implExported(pw, ap)
		verdict := "na"
		if class == "srp" {
			verdict = "rej"
			if sv.check(nil, A, M1) {
				verdict = "acc"
			}
		}
		fmt.Printf("%s\t%s\t%s\t%s\t%s\t%s\n", class, zhex(big.NewInt(gotID)), vc.Hex(A), vc.Hex(M1), verdict, intactStr(l.intact()))
	default:
		fmt.Fprintln(os.Stderr, "unknown kind", a[0])
		os.Exit(3)
	}
}

func buildAP(apkind string, srpB []byte, srpid int64, s1, s2 []byte, g int32, P []byte) *telegram.AccountPassword {
	algo := &telegram.PasswordKdfAlgoSHA256SHA256PBKDF2HMACSHA512iter100000SHA256ModPow{Salt1: s1, Salt2: s2, G: g, P: P}
	switch apkind {
	case "nilap":
		return nil
	case "nilalgo":
		return &telegram.AccountPassword{SRPB: srpB, SRPID: srpid}
	case "other":
		return &telegram.AccountPassword{CurrentAlgo: &telegram.PasswordKdfAlgoUnknown{}, SRPB: srpB, SRPID: srpid}
	case "nilmp":
		var nilp *telegram.PasswordKdfAlgoSHA256SHA256PBKDF2HMACSHA512iter100000SHA256ModPow
		return &telegram.AccountPassword{CurrentAlgo: nilp, SRPB: srpB, SRPID: srpid}
	}
	// the server's own secure_random (any length), hint and new-password algorithm take no part in the answer
	sr := make([]byte, []int{0, 1, 32, 256}[int(uint64(srpid)%4)])
	for i := range sr {
		sr[i] = byte(srpid) + byte(i)*7
	}
	return &telegram.AccountPassword{HasPassword: true, CurrentAlgo: algo, SRPB: srpB, SRPID: srpid, SecureRandom: sr, Hint: "hint",
		NewAlgo: &telegram.PasswordKdfAlgoUnknown{}}
}

// ---------------------------------------------------------------------------------------------
// truncated-key collision probe (history stage)
//
// A process-wide cache keyed by a few bytes of an intermediate digest would make a later call reuse
// an earlier password's PBKDF2 output.  With the harness's OWN reference hashes we birthday-search,
// for one (salt1, salt2), pairs pwA != pwB whose PH1 = SH(SH(pw,salt1),salt2) agree on the first / last
// 4 bytes and whose inner hash SH(pw,salt1) agree on the first / last 4 bytes.  Then, sequentially in THIS
// one process: A against A's verifier (accept), B against A's verifier (REJECT), B against B's verifier
// (accept), A against B's verifier (REJECT).  The lines are ordinary x cases: they are also compared with
// the model and re-run one by one in fresh processes.
func cmdProbe(path, tier string) {
	r := vc.NewRng(vc.Seed() ^ 0x18c0111de)
	real := realGroup()
	s1, s2 := r.Bytes(40), r.Bytes(16)
	type slot struct {
		name string
		key  func(inner, h1 []byte) [4]byte
		seen map[[4]byte]string
		a, b string
	}
	k4 := func(b []byte) (k [4]byte) { copy(k[:], b); return }
	slots := []*slot{
		{name: "PH1[0:4]", key: func(in, h1 []byte) [4]byte { return k4(h1[:4]) }},
		{name: "PH1[28:32]", key: func(in, h1 []byte) [4]byte { return k4(h1[28:]) }},
		{name: "SH(pw,salt1)[0:4]", key: func(in, h1 []byte) [4]byte { return k4(in[:4]) }},
		{name: "SH(pw,salt1)[28:32]", key: func(in, h1 []byte) [4]byte { return k4(in[28:]) }},
	}
	for _, sl := range slots {
		sl.seen = map[[4]byte]string{}
	}
	tried, open := 0, len(slots)
	for open > 0 && tried < 1<<22 {
		tried++
		pw := fmt.Sprintf("probe-%016x", r.U64())
		inner := sh([]byte(pw), s1)
		h1 := sh(inner, s2)
		for _, sl := range slots {
			if sl.a != "" {
				continue
			}
			k := sl.key(inner, h1)
			if prev, ok := sl.seen[k]; ok && prev != pw {
				sl.a, sl.b = prev, pw
				open--
			} else {
				sl.seen[k] = pw
			}
		}
	}
	out := vc.Create(path)
	n := 0
	for _, sl := range slots {
		if sl.a == "" {
			continue
		}
		for step, pr := range [][2]string{{sl.a, sl.a}, {sl.a, sl.b}, {sl.b, sl.b}, {sl.b, sl.a}} {
			n++
			o := xopts{g: real, gval: 3, pw: pr[0], typed: pr[1], s1: s1, s2: s2, b: num(r.Bytes(256)),
				random:   r.Bytes(256),
				extraTag: fmt.Sprintf("probe:%s collides for %q and %q; call %d of 4 in one process", sl.name, sl.a, sl.b, step+1)}
			if pr[0] == pr[1] {
				o.typed = ""
			}
			oc := exchange(fmt.Sprintf("p%04d", n), o, r.Fork(uint64(n)))
			for _, l := range oc.lines {
				out.Line(l)
			}
		}
		fmt.Printf("stat\tprobe:%s\t1\n", sl.name)
	}
	fmt.Printf("stat\tprobe:candidates\t%d\n", tried)

	// ---- one-factor-at-a-time history (same process, same goroutine, order fixed by the seed) ----
	// A memo whose key omits one of the inputs answers the second of two calls that differ ONLY in that input
	// from stale state.  For each base case every input is varied alone: base, variant, base, ...; each variant
	// twice in a row; variants back to back; and after each call its wrong-password counterpart (same other
	// inputs, typed password differs from the registered one) and the call again.  Every call is judged by the
	// reference server for ITS OWN inputs.
	bases := 1
	if tier == "thorough" {
		bases = 3
	}
	type call struct {
		name           string
		reg, typed     string
		s1, s2         []byte
		b              *big.Int
		random         []byte
		g              group
		gval           int32
		sameAsPrevious bool
	}
	ofat := 0
	for bi := 0; bi < bases; bi++ {
		oddp := oddModulus(r, 2047)
		g1 := group{"odd2047", pad(oddp), oddp, "orac"}
		pw := randPassword(r)
		base := call{name: "base", reg: pw, typed: pw, s1: r.Bytes(8 + r.Intn(40)), s2: r.Bytes(8 + r.Intn(24)),
			b: num(r.Bytes(256)), random: r.Bytes(256), g: real, gval: 3}
		vary := func(name string, f func(c *call)) call {
			c := base
			c.name = name
			f(&c)
			return c
		}
		other := func(b []byte) []byte { // same length, different content
			o := r.Bytes(len(b))
			o[0] = b[0] ^ 0x5a
			return o
		}
		vS2 := vary("only salt2 differs", func(c *call) { c.s2 = other(base.s2) })
		vS1 := vary("only salt1 differs", func(c *call) { c.s1 = other(base.s1) })
		pw2 := pw + "'"
		vPW := vary("only the password differs", func(c *call) { c.reg, c.typed = pw2, pw2 })
		vB := vary("only B differs", func(c *call) { c.b = num(r.Bytes(256)) })
		vR := vary("only the client random differs", func(c *call) { c.random = r.Bytes(256) })
		vg := vary("only g differs", func(c *call) { c.gval = 7 })
		vP := vary("only p differs", func(c *call) { c.g = g1 })
		vS2l := vary("only salt2 differs (longer)", func(c *call) { c.s2 = append(append([]byte(nil), base.s2...), 0x01) })
		variants := []call{vS2, vS1, vPW, vB, vR, vg, vP, vS2l}
		wrong := func(c call) call { // typed password differs, everything else as in c
			w := c
			w.name = c.name + " + WRONG password typed"
			if c.typed == pw2 {
				w.typed = pw
			} else {
				w.typed = pw2
			}
			return w
		}
		var seq []call
		seq = append(seq, base)
		for _, v := range variants { // base, variant, base, ...
			seq = append(seq, v, base)
		}
		for _, v := range variants { // each variant twice in a row
			seq = append(seq, v, v)
		}
		seq = append(seq, variants...) // variants back to back, and around again
		seq = append(seq, variants[0], variants[2], variants[1])
		for _, c := range append([]call{base}, variants...) { // wrong-password counterpart in the same adjacency
			seq = append(seq, c, wrong(c), c)
		}
		for i, c := range seq {
			n++
			ofat++
			o := xopts{g: c.g, gval: c.gval, pw: c.reg, typed: c.typed, s1: c.s1, s2: c.s2, b: c.b, random: c.random,
				extraTag: fmt.Sprintf("ofat: base %d call %d of %d in one process: %s", bi+1, i+1, len(seq), c.name)}
			if c.reg == c.typed {
				o.typed = ""
			}
			oc := exchange(fmt.Sprintf("p%04d", n), o, r.Fork(uint64(1000+i))) // the slice layout varies from call to call
			for _, l := range oc.lines {
				out.Line(l)
			}
		}
	}
	out.Close()
	fmt.Printf("stat\tprobe:one-factor-at-a-time calls\t%d\n", ofat)
}

func main() {
	if len(os.Args) >= 4 && os.Args[1] == "gen" {
		cmdGen(os.Args[2], os.Args[3])
		return
	}
	if len(os.Args) >= 3 && os.Args[1] == "probe" {
		tier := "quick"
		if len(os.Args) >= 4 {
			tier = os.Args[3]
		}
		cmdProbe(os.Args[2], tier)
		return
	}
	if len(os.Args) >= 3 && os.Args[1] == "seq" { // one process, the calls of the file in order (one "one" argument list per line)
		data, err := os.ReadFile(os.Args[2])
		if err != nil {
			fmt.Fprintln(os.Stderr, err)
			os.Exit(3)
		}
		for _, l := range strings.Split(strings.TrimRight(string(data), "\n"), "\n") {
			if l != "" {
				cmdOne(strings.Split(l, "\t"))
			}
		}
		return
	}
	if len(os.Args) >= 3 && os.Args[1] == "one" {
		cmdOne(os.Args[2:])
		return
	}
	fmt.Fprintln(os.Stderr, "usage: gen <tier> <cases-out> | probe <cases-out> | one <kind> <fields...> | seq <file>")
	os.Exit(3)
}
