// Harness for property C20 (deeplinks.Resolve).
//
//	gen <tier> <cases-out>     generate links, run url.Parse + deeplinks.Resolve, write cases
//	normalize <model-out>      apply strings.ToLower to the model's raw usernames (stdin -> stdout)
//	one <hex-link>             run a single link and print its result line
//
// case line:  id \t link-hex \t parse(ok|err) \t scheme \t host \t path \t impl \t expect
// impl/expect: U:<hex domain> | I:<hex token> | E | P:<panic text hex> | O:<other> ; expect may be "?"
package main

import (
	"fmt"
	"net/url"
	"os"
	"bufio"
	"strings"

	"github.com/xelaj/mtproto/telegram/deeplinks"
	vc "verifcommon"
)

func runImpl(link string) string {
	var res string
	panicked, val := vc.Catch(func() {
		d, err := deeplinks.Resolve(link)
		if err != nil {
			res = "E"
			return
		}
		switch v := d.(type) {
		case *deeplinks.ResolveParameters:
			if v.Start != "" || v.Post != 0 || v.Thread != 0 || v.Comment != 0 {
				res = "O:resolve-with-extras"
				return
			}
			res = "U:" + vc.HexS(v.Domain)
		case *deeplinks.JoinParameters:
			res = "I:" + vc.HexS(v.Invite)
		default:
			res = fmt.Sprintf("O:%T", d)
		}
	})
	if panicked {
		return "P:" + vc.HexS(fmt.Sprint(val))
	}
	return res
}

type gen struct {
	r    *vc.Rng
	seen map[string]bool
	out  *vc.Out
	n    int
	stat map[string]int
}

func (g *gen) emit(link, expect, kind string) {
	if g.seen[link] {
		return
	}
	g.seen[link] = true
	g.n++
	g.stat["kind:"+kind]++
	impl := runImpl(link)
	u, err := url.Parse(link)
	if err != nil {
		g.stat["parse:err"]++
		g.out.Line(fmt.Sprint(g.n), vc.HexS(link), "err", "-", "-", "-", impl, expect)
		return
	}
	g.stat["parse:ok"]++
	g.stat["impl:"+impl[:1]]++
	g.out.Line(fmt.Sprint(g.n), vc.HexS(link), "ok", vc.HexS(u.Scheme), vc.HexS(u.Host), vc.HexS(u.Path), impl, expect)
}

var schemes = []string{"", "http://", "https://", "tg://", "ftp://", "HTTPS://", "http:", "//"}
var lookalikes = []string{"t.me.evil.com", "xt.me", "T.ME", "telegram.org", "t.me.", "tme", "localhost", "[::1]", "t.me@evil.com", "evil.com@t.me"}
var ports = []string{"", ":443", ":80", ":"}
var names = []string{"durov", "Durov", "BotFather", "joinchat", "AbC_123", "%41bc", "имя", "İstanbul", "a b", "{token}", "{username}", ".", "..", "a%2Fb", "x-y", "K"}
var tails = []string{"", "?start=1", "#frag", "?a=b#c", "?start=100%", "?text=%zz", "?a=1;b=2", "?%", "?&&=&", "?a=%4", "?;", "?start=a%20b+c&start=d", "?#%"}

func plainName(s string) bool {
	if s == "" {
		return false
	}
	for _, c := range s {
		if !(c >= 'a' && c <= 'z' || c >= 'A' && c <= 'Z' || c >= '0' && c <= '9' || c == '_' || c == '-') {
			return false
		}
	}
	return true
}

// structured: expected result known by construction for the documented shapes
func (g *gen) structured(full bool) {
	hosts := append([]string{}, deeplinks.ReservedHosts()...)
	specHosts := []string{"telegram.me", "telegram.dog", "t.me", "tx.me", "telesco.pe"}
	for _, h := range specHosts {
		found := false
		for _, x := range hosts {
			if x == h {
				found = true
			}
		}
		if !found {
			hosts = append(hosts, h)
		}
	}
	hosts = append(hosts, lookalikes...)
	hosts = append(hosts, "")
	isSpec := func(h string) bool {
		for _, x := range specHosts {
			if x == h {
				return true
			}
		}
		return false
	}
	for _, sc := range schemes {
		for _, h := range hosts {
			for _, p := range ports {
				if sc == "" && p != "" && !full {
					continue
				}
				// bare host, host + "/"
				for _, path := range g.paths(full) {
					for _, tl := range tails {
						if tl != "" && !full && g.r.Intn(4) != 0 {
							continue
						}
						link := sc + h + p + path.s + tl
						expect := "?"
						documented := (sc == "http://" || sc == "https://" || (sc == "" && p == "")) && (p == "" || p == ":443" || p == ":80")
						if documented && isSpec(h) {
							switch {
							case path.kind == "user":
								expect = "U:" + vc.HexS(strings.ToLower(path.v))
							case path.kind == "join":
								expect = "I:" + vc.HexS(path.v)
							case path.kind == "bad":
								expect = "E"
							}
						} else if (sc == "tg://" || sc == "ftp://") || (documented && !isSpec(h) && h != "" && sc != "" && !strings.Contains(h, "@")) {
							expect = "E!" // must be an error (foreign host / other scheme), never a panic
						}
						g.emit(link, expect, "structured")
					}
				}
			}
		}
	}
}

type pth struct{ s, kind, v string }

func (g *gen) paths(full bool) []pth {
	res := []pth{{"", "bad", ""}, {"/", "bad", ""}}
	for _, n := range names {
		if plainName(n) {
			res = append(res, pth{"/" + n, "user", n})
			res = append(res, pth{"/joinchat/" + n, "join", n})
			res = append(res, pth{"/" + n + "/", "bad", ""})
			res = append(res, pth{"/joinchat/" + n + "/x", "bad", ""})
			res = append(res, pth{"/x/" + n, "bad", ""})
			// the fixed template segment is compared exactly: case variants, folds and near misses
			// of "joinchat" in front of a second segment match neither template
			for _, fx := range []string{"JoinChat", "JOINCHAT", "joinchaT", "Joinchat", "joinchat ", "joinchats", "oinchat", "j\u00f6inchat"} {
				res = append(res, pth{"/" + fx + "/" + n, "bad", ""})
			}
		} else {
			res = append(res, pth{"/" + n, "?", ""})
			res = append(res, pth{"/joinchat/" + n, "?", ""})
			if full {
				res = append(res, pth{"/" + n + "/" + n, "?", ""})
			}
		}
	}
	res = append(res, pth{"/joinchat/", "bad", ""}, pth{"/joinchat", "user", "joinchat"}, pth{"//", "bad", ""}, pth{"/a/b/c", "bad", ""}, pth{"//durov", "?", ""})
	return res
}

const alphabet = "/:.?#%[]@{}tme-_aZ0 \\"

func (g *gen) random(n int) {
	hosts := deeplinks.ReservedHosts()
	for i := 0; i < n; i++ {
		var sb strings.Builder
		switch g.r.Intn(5) {
		case 0: // pure alphabet soup
			l := g.r.Intn(12)
			for j := 0; j < l; j++ {
				sb.WriteByte(alphabet[g.r.Intn(len(alphabet))])
			}
		case 1: // reserved host followed by soup
			sb.WriteString(g.r.Pick([]string{"", "http://", "https://", "//"}))
			if len(hosts) > 0 {
				sb.WriteString(g.r.Pick(hosts))
			}
			l := g.r.Intn(10)
			for j := 0; j < l; j++ {
				sb.WriteByte(alphabet[g.r.Intn(len(alphabet))])
			}
		case 2: // random bytes incl. non-UTF-8 and control characters
			sb.Write(g.r.Bytes(g.r.Intn(8)))
		case 4: // reserved host + path over the full byte range: >=0x80, NUL/control, %-escapes, long runs
			sb.WriteString(g.r.Pick([]string{"", "http://", "https://"}))
			if len(hosts) > 0 {
				sb.WriteString(g.r.Pick(hosts))
			}
			sb.WriteString(g.r.Pick([]string{"/", "/joinchat/", ":443/", "/a/"}))
			switch g.r.Intn(5) {
			case 0:
				sb.Write(g.r.Bytes(1 + g.r.Intn(6)))
			case 1:
				sb.WriteString(g.r.Pick([]string{"%2F", "%2f", "%00", "%ff", "%C3%28", "%", "%4", "%zz", "%25", "a%2Fb%2Fc", "%E2%80%AE", "%20"}))
				sb.WriteString(g.r.Pick([]string{"", "x", "/x"}))
			case 2:
				sb.WriteString(strings.Repeat(g.r.Pick([]string{"a", "Z", "\u0130", "\u1e9e", "\u212a", "%41", "\x80"}), 1+g.r.Intn(70000)/(1+g.r.Intn(2000))))
			case 3:
				sb.WriteString(g.r.Pick([]string{"\x00", "\t", "\n", "\r\n", "\x7f", "\x1b[0m", " "}))
				sb.WriteString(g.r.Pick([]string{"", "durov"}))
			case 4:
				sb.WriteString(g.r.Pick([]string{"\u0130stanbul", "STRASSE\u1e9e", "\u212aelvin", "\u01c5", "\ufb01", "\xc3", "\xed\xa0\x80", "\xf4\x90\x80\x80"}))
			}
			sb.WriteString(g.r.Pick([]string{"", "", "?start=%ff", "#\x00"}))
		case 3: // prefix of a host (bare, truncated)
			h := "t.me"
			if len(hosts) > 0 {
				h = g.r.Pick(hosts)
			}
			sb.WriteString(h[:g.r.Intn(len(h)+1)])
			if g.r.Bool() {
				sb.WriteString(g.r.Pick([]string{"/", ":", "?", "#", "/a", ":1/a"}))
			}
		}
		g.emit(sb.String(), "?", "random")
	}
}

func main() {
	if len(os.Args) < 2 {
		fmt.Fprintln(os.Stderr, "usage: gen|normalize|one")
		os.Exit(2)
	}
	switch os.Args[1] {
	case "gen":
		tier, path := os.Args[2], os.Args[3]
		g := &gen{r: vc.NewRng(vc.Seed()), seen: map[string]bool{}, out: vc.Create(path), stat: map[string]int{}}
		hs := []string{"#hosts"}
		for _, h := range deeplinks.ReservedHosts() {
			hs = append(hs, vc.HexS(h))
		}
		g.out.Line(hs...)
		// what ReservedHosts() hands out belongs to the caller: a caller that overwrites, sorts or re-uses the returned slice
		// must not change what Resolve (or the next caller) sees.  Done BEFORE every case of this run; the list is read again.
		{
			mine := deeplinks.ReservedHosts()
			for i := range mine {
				mine[i] = "mirror-" + mine[i] + ".example.org"
			}
			if len(mine) > 1 {
				mine[0], mine[len(mine)-1] = mine[len(mine)-1], mine[0]
			}
			_ = append(mine[:0], "evil.example.org")
			again := []string{"#hosts-after-caller-wrote-into-the-returned-slice"}
			for _, h := range deeplinks.ReservedHosts() {
				again = append(again, vc.HexS(h))
			}
			g.out.Line(again...)
		}
		// corpus first: minimised failures found earlier
		for _, l := range []string{"t.me", "telegram.me", "t.me:443", "tx.me?x", "telesco.pe#f", "t.me/", "/t.me/x", "T.me/x",
			// hosts whose port part is not a port: URL.Hostname keeps everything up to the LAST colon only if digits follow
			"//tx.me:a:_:/a\\", "https://telegram.me]:/-{t", "https://telesco.pe]:/ ", "https://telegram.dog::/-Z", "//t.me::/x", "//t.me:1:2/x",
			"//[t.me]/x", "//[t.me]:443/x", "https://t.me:/x", "https://t.me:08/x", "//t.me:x/y"} {
			g.emit(l, "?", "corpus")
		}
		full := tier == "thorough"
		g.structured(full)
		if full {
			g.random(200000)
		} else {
			g.random(3000)
		}
		g.out.Close()
		for k, v := range g.stat {
			fmt.Printf("stat\t%s\t%d\n", k, v)
		}
	case "hosts":
		out := vc.Create(os.Args[2])
		hs := []string{"#hosts"}
		for _, h := range deeplinks.ReservedHosts() {
			hs = append(hs, vc.HexS(h))
		}
		out.Line(hs...)
		out.Close()
	case "normalize":
		sc := bufio.NewScanner(os.Stdin)
		sc.Buffer(make([]byte, 1<<20), 1<<26)
		for sc.Scan() {
			f := strings.Split(sc.Text(), "\t")
			if len(f) == 2 && strings.HasPrefix(f[1], "U:") {
				f[1] = "U:" + vc.HexS(strings.ToLower(string(vc.UnHex(f[1][2:]))))
			}
			fmt.Println(strings.Join(f, "\t"))
		}
	case "one":
		link := string(vc.UnHex(os.Args[2]))
		fmt.Println(runImpl(link))
	}
}
