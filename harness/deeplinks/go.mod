module github.com/xelaj/mtproto/telegram/deeplinks/verifharness

go 1.13

require (
	github.com/xelaj/mtproto/telegram/deeplinks v0.0.0
	verifcommon v0.0.0
)

replace github.com/xelaj/mtproto/telegram/deeplinks => /repo/telegram/deeplinks

replace verifcommon => ../common
