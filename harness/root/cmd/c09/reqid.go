package main

// c09 reqid <tier> <out>: the id under which the receive loop looks up decoder hints (mtproto.go reqMsgIDOf, reached
// through the hook VerifReqMsgIDOf) on message bodies of every shape, against the Coq function TL/ReqId.v
// req_msg_id_of.  Lines (tab separated, bytes in hex, "-" = empty):
//
//	Z payload ok:<inflated> | err      compress/gzip oracle for a packed payload, recorded with a reference loop written
//	                                   here from the documented behaviour of objects.GzipPacked (read until an empty read)
//	K id kind body implId wantId       implId: the 64-bit pattern of what the implementation returned, or "panic";
//	                                   wantId: the id the generator wrote into an intact result, "-" for other bodies
//
// Everything derives from VERIF_SEED.

import (
	"bytes"
	"compress/gzip"
	"encoding/binary"
	"fmt"
	"strconv"

	"github.com/xelaj/mtproto"
	"github.com/xelaj/mtproto/verifharness/refserver"
	vc "verifcommon"
)

func rqLE32(x uint32) []byte { b := make([]byte, 4); binary.LittleEndian.PutUint32(b, x); return b }
func rqLE64(x uint64) []byte { b := make([]byte, 8); binary.LittleEndian.PutUint64(b, x); return b }

func rqPutMessage(b []byte) []byte {
	var out []byte
	if len(b) < 254 {
		out = append([]byte{byte(len(b))}, b...)
	} else {
		out = append([]byte{0xfe, byte(len(b)), byte(len(b) >> 8), byte(len(b) >> 16)}, b...)
	}
	for len(out)%4 != 0 {
		out = append(out, 0)
	}
	return out
}

func rqGzip(p []byte) []byte {
	var buf bytes.Buffer
	w := gzip.NewWriter(&buf)
	w.Write(p)
	w.Close()
	return buf.Bytes()
}

// reference reading of a packed payload: errors after the header are ignored, what was inflated so far counts
func rqInflate(p []byte) ([]byte, bool) {
	gz, err := gzip.NewReader(bytes.NewBuffer(p))
	if err != nil {
		return nil, false
	}
	res := []byte{}
	b := make([]byte, 4096)
	for {
		n, _ := gz.Read(b)
		res = append(res, b[0:n]...)
		if n <= 0 || len(res) > 1<<22 {
			break
		}
	}
	return res, true
}

const (
	rqGzipCrc   = 0x3072cfa1
	rqResultCrc = 0xf35c6d01
	rqVectorCrc = 0x1cb5c415
)

// a TL byte string at the start of b, as PopMessage reads it (nil, false: malformed / cut)
func rqPopMessage(b []byte) ([]byte, bool) {
	if len(b) == 0 {
		return nil, false
	}
	n, hdr := int(b[0]), 1
	if b[0] == 0xfe {
		if len(b) < 4 {
			return nil, false
		}
		n, hdr = int(b[1])|int(b[2])<<8|int(b[3])<<16, 4
	}
	if len(b) < hdr+n {
		return nil, false
	}
	return b[hdr : hdr+n], true
}

func cmdReqID(tier, path string) {
	r := vc.NewRng(vc.Seed() ^ 0x7e91d)
	out := vc.Create(path)
	seenZ := map[string]bool{}
	n := 0
	stats := map[string]int{}
	curID := uint64(0) // the id written into the result the body was made from
	emit := func(kind string, body []byte) {
		// oracle entry for the payload the body would hand to compress/gzip
		if len(body) >= 4 && binary.LittleEndian.Uint32(body) == rqGzipCrc {
			if payload, ok := rqPopMessage(body[4:]); ok && !seenZ[string(payload)] {
				seenZ[string(payload)] = true
				if raw, ok := rqInflate(payload); ok {
					out.Line("Z", vc.Hex(payload), "ok:"+vc.Hex(raw))
				} else {
					out.Line("Z", vc.Hex(payload), "err")
				}
			}
		}
		n++
		impl := ""
		panicked, _ := vc.Catch(func() { impl = strconv.FormatUint(uint64(int64(mtproto.VerifReqMsgIDOf(append([]byte(nil), body...)))), 16) })
		if panicked {
			impl = "panic"
		}
		want := "-"
		switch kind {
		case "result", "result-large", "packed-result", "packed-result+tail", "packed-result-large", "packed-result-pieces":
			want = strconv.FormatUint(curID, 16)
		}
		out.Line("K", fmt.Sprintf("k%d", n), kind, vc.Hex(body), impl, want)
		stats[kind]++
	}
	ids := []uint64{1, 4, 0x5e0b700a00000000, 0x7fffffffffffffff, 0x8000000000000000, 0xfffffffffffffffc, 0xffffffffffffffff, 0x100000000, 0xffffffff}
	reps := 40
	if tier == "thorough" {
		reps = 2000
	}
	for i := 0; i < reps; i++ {
		ids = append(ids, r.U64())
	}
	results := func() [][]byte {
		return [][]byte{
			rqLE32(0x997275b5), // boolTrue
			append(rqLE32(rqVectorCrc), rqLE32(0)...),
			append(append(rqLE32(rqVectorCrc), rqLE32(2)...), append(rqLE32(7), rqLE32(9)...)...),
			append(rqLE32(0x2144ca19), append(rqLE32(400), rqPutMessage([]byte("FLOOD_WAIT_3"))...)...), // rpc_error
			append(rqLE32(rqGzipCrc), rqPutMessage(rqGzip(append(rqLE32(rqVectorCrc), rqLE32(0)...)))...),
			{}, {1}, r.Bytes(1 + r.Intn(40)),
		}
	}
	for _, id := range ids {
		curID = id
		for ri, res := range results() {
			plain := append(append(rqLE32(rqResultCrc), rqLE64(id)...), res...)
			emit("result", plain)
			packed := append(rqLE32(rqGzipCrc), rqPutMessage(rqGzip(plain))...)
			emit("packed-result", packed)
			// the same result from compressors which do not write their stream in one piece (flushes, stored blocks,
			// several members): what the first Read of an inflater hands out is then shorter than the object
			for v := 1; v < refserver.GzipVariants; v++ {
				ks := []int{1 + r.Intn(12)}
				if ri == 0 && (v == 1 || v == 4) {
					ks = []int{1, 2, 3, 4, 5, 7, 8, 11, 12, 13}
				}
				for _, k := range ks {
					emit("packed-result-pieces", append(rqLE32(rqGzipCrc), rqPutMessage(refserver.GzipStream(plain, v, k))...))
				}
			}
			if ri == 0 {
				emit("packed-result+tail", append(append([]byte{}, packed...), r.Bytes(4*r.Intn(4))...))
				// cut everywhere around the id
				for _, cut := range []int{0, 1, 3, 4, 5, 8, 11} {
					emit("result-cut", plain[:cut])
				}
				// the packed object itself is a result cut before the end of its id
				for cut := 0; cut < 12; cut++ {
					for _, v := range []int{0, 1 + cut%(refserver.GzipVariants-1)} {
						emit("packed-cutresult", append(rqLE32(rqGzipCrc), rqPutMessage(refserver.GzipStream(plain[:cut], v, 4))...))
					}
				}
				for _, cut := range []int{4, 5, 7, 8, len(packed) - 4, len(packed) - 1} {
					if cut >= 0 && cut <= len(packed) {
						emit("packed-cut", packed[:cut])
					}
				}
				// damaged streams: header ok, trailer / deflate data wrong; not gzip at all; packed twice
				gzs := rqGzip(plain)
				for _, at := range []int{len(gzs) - 8, len(gzs) - 4, len(gzs) - 1, 10, 12, 3, 0} {
					if at >= 0 && at < len(gzs) {
						d := append([]byte{}, gzs...)
						d[at] ^= 0x5a
						emit("packed-damaged", append(rqLE32(rqGzipCrc), rqPutMessage(d)...))
					}
				}
				emit("packed-notgzip", append(rqLE32(rqGzipCrc), rqPutMessage(r.Bytes(20))...))
				emit("packed-empty", append(rqLE32(rqGzipCrc), rqPutMessage(nil)...))
				emit("packed-twice", append(rqLE32(rqGzipCrc), rqPutMessage(rqGzip(packed))...))
				// padding of the byte string not zero / string header announcing more than there is
				bad := append([]byte{}, packed...)
				if len(bad)%4 == 0 && bad[len(bad)-1] == 0 {
					bad[len(bad)-1] = 7
					emit("packed-badpadding", bad)
				}
				emit("packed-longheader", append(rqLE32(rqGzipCrc), 0xfe, 0xff, 0xff, 0x00, 1, 2, 3, 4))
			}
		}
		// not a result: other constructors carrying the id in the same place, plain and packed
		for _, crc := range []uint32{0x347773c5, 0x9ec20908, 0xedab447b, 0x73f1f8dc, rqVectorCrc, 0x62d6b459, 0xf35c6d00, 0xf35c6d02, 0x016d5cf3, 0} {
			other := append(append(rqLE32(crc), rqLE64(id)...), rqLE64(id)...)
			emit("other", other)
			emit("packed-other", append(rqLE32(rqGzipCrc), rqPutMessage(rqGzip(other))...))
		}
	}
	// a large packed result (above one 4096-byte read and above the 32 KiB flate window)
	for _, cnt := range []int{1500, 9000, 20000} {
		v := append(rqLE32(rqVectorCrc), rqLE32(uint32(cnt))...)
		for i := 0; i < cnt; i++ {
			v = append(v, rqLE32(uint32(7000+i))...)
		}
		plain := append(append(rqLE32(rqResultCrc), rqLE64(0x5e0b700a00000040)...), v...)
		curID = 0x5e0b700a00000040
		emit("result-large", plain)
		for v := 1; v < refserver.GzipVariants; v++ {
			emit("packed-result-pieces", append(rqLE32(rqGzipCrc), rqPutMessage(refserver.GzipStream(plain, v, 1+r.Intn(12)))...))
		}
		emit("packed-result-large", append(rqLE32(rqGzipCrc), rqPutMessage(rqGzip(plain))...))
	}
	for i := 0; i < reps; i++ {
		emit("random", r.Bytes(r.Intn(40)))
	}
	out.Close()
	for k, v := range stats {
		fmt.Printf("stat\t%s\t%d\n", k, v)
	}
}
