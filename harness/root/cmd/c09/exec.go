package main

// Executor: runs ONE schedule against the real client (built with -tags verif) and the
// in-process reference server, under the controlled scheduler. The executor only knows Go
// semantics (a mutex is free or held, an unbuffered channel needs both parties, a socket read
// needs data); the Coq model is not consulted here. Every action and what was observed after it
// is appended to the trace.

import (
	"fmt"
	"os"
	"path/filepath"
	"reflect"
	"sort"
	"strconv"
	"strings"
	"time"
	"unsafe"

	"github.com/xelaj/mtproto"
	"github.com/xelaj/mtproto/internal/encoding/tl"
	"github.com/xelaj/mtproto/internal/mtproto/messages"
	"github.com/xelaj/mtproto/internal/mtproto/objects"
	"github.com/xelaj/mtproto/internal/transport"
	"github.com/xelaj/mtproto/verifharness/csched"
	"github.com/xelaj/mtproto/verifharness/refserver"
)

var watchdog = watchdogFromEnv()

type callSpec struct {
	kind   string // obj bool vecbare vecobj err ping (ping = obj issued through objects.Ping, the pinger's path)
	hinted bool
	token  int64
}

type callState struct {
	t         int // caller index
	spec      callSpec
	k         int
	msgID     int64 // latest id seen at a yield point of this call
	frame     int   // index of the request frame in the server log (-1 until written)
	done      bool
	got       string
	answers   int    // how many answers the server has addressed to it
	delivered bool   // one of them can be handed over
	exp       string // the projection of the first such answer
}

type callerState struct {
	name   string
	cmd    chan callSpec
	calls  []*callState
	active *callState
}

type sentMsg struct {
	sid      int64
	seq      int32
	atFrames int // number of client frames logged when it was sent
}

type run struct {
	idx     int
	sc      *csched.Sched
	srv     *refserver.Server
	cl      *mtproto.MTProto
	callers []*callerState
	rx      string          // actor name of the receive loop ("" until seen)
	inRecv  map[string]bool // callers that passed "prerecv": blocked (or about to block) in `<-resp`
	lock    string          // actor holding the send lock
	reads   int             // top-level frames the receive loop has taken
	base    int64           // msg ids are shown to the model minus base
	t0      time.Time
	out     *traceWriter
	nact    int
	lastID  int64 // previous client frame id (for the "increasing" projection)
	nframes int
	sent    []sentMsg // every server message (top level and container items)
	status  string
	random  bool
	dir     string

	maxID       int64  // highest client msg_id seen at an "idgen" point so far
	preset      int64  // lastMsgID written into the client before the run (0 = untouched)
	skew        string // none | ahead1m | ahead1h | just4
	bumps       int    // sends for which the wall clock read no more than the last id
	bumpRun     int    // current / longest run of consecutive such sends
	bumpMax     int
	blocked     map[string]bool // senders released from "prelock" that did not come back: waiting for the send lock
	broken      bool            // a second sender got past "prelock" while another one was between "idgen" and its return
	nprobes     int
	nearly      int  // hand-overs tried before the owner listened (doEarly)
	aborted     bool // a direct oracle failed in a way that leaves nothing to schedule
	nblocked    int
	clockV      [][2]string // findings of the per-send clock oracle (key, text)
	lowWords    []uint32    // low 32 bits of the ids that came from the clock
	seq0        int64       // seq_no the session was started with (0 = untouched)
	relAt       map[string]int64
	wireDeliver int // messages the receive loop processed while a caller was parked at "wire"
	wireSrv     int // server messages sent while a sender was parked at "wire"
	highSeq     int // server seq_nos with the top bit set
}

type traceWriter struct{ f *os.File }

func (w *traceWriter) line(fields ...string) {
	// written unbuffered: if the client kills the process the partial trace is on disk
	w.f.WriteString(strings.Join(fields, "\t") + "\n")
}

func (r *run) actorCaller(name string) *callerState {
	for _, c := range r.callers {
		if c.name == name {
			return c
		}
	}
	return nil
}

type harnessTrouble struct{ msg string }

func trouble(f string, a ...interface{}) { panic(harnessTrouble{fmt.Sprintf(f, a...)}) }

type stuck struct{ what, stack string }

func (r *run) start(idx, ncallers int) {
	r.idx = idx
	r.t0 = time.Now()
	r.base = (r.t0.Unix() - 2) << 32
	r.sc = csched.New()
	r.inRecv = map[string]bool{}
	// a caller about to block in its channel receive is not held back: whoever the receive loop
	// really sends to must be able to take the value, otherwise a misrouted result would only
	// ever show up as a stall of the scheduler instead of "caller j got caller i's answer"
	r.sc.PassThrough = func(actor, point string) bool {
		return point == "prerecv" && strings.HasPrefix(actor, "c")
	}
	mtproto.VerifYieldHook = r.sc.Hook
	srv, err := refserver.New(refserver.Options{Seed: uint64(idx) + 1})
	if err != nil {
		trouble("refserver: %v", err)
	}
	r.srv = srv
	r.dir = filepath.Join(os.TempDir(), fmt.Sprintf("verif-c09-%d", os.Getpid()))
	if err := os.MkdirAll(r.dir, 0o700); err != nil {
		trouble("mkdir: %v", err)
	}
	sess := filepath.Join(r.dir, "session.json")
	os.Remove(sess)
	if err := srv.WriteSession(sess); err != nil {
		trouble("writing session: %v", err)
	}
	cl, err := mtproto.NewMTProto(mtproto.Config{AuthKeyFile: sess, ServerHost: srv.Addr()})
	if err != nil {
		trouble("NewMTProto: %v", err)
	}
	r.cl = cl
	if err := cl.CreateConnection(); err != nil {
		trouble("CreateConnection: %v", err)
	}
	if err := srv.WaitConn(1, watchdog); err != nil {
		trouble("%v", err)
	}
	// the receive loop parks at its first "read"
	deadline := time.Now().Add(watchdog)
	for r.rx == "" {
		for _, n := range r.sc.Actors() {
			r.rx = n
		}
		if r.rx == "" {
			if time.Now().After(deadline) {
				trouble("receive loop never reached a yield point")
			}
			time.Sleep(100 * time.Microsecond)
		}
	}
	ar := r.await(r.rx)
	if ar.Point != "read" {
		trouble("receive loop first parked at %q", ar.Point)
	}
	r.blocked = map[string]bool{}
	r.relAt = map[string]int64{}
	r.wrapTransport()
	for t := 0; t < ncallers; t++ {
		c := &callerState{name: "c" + strconv.Itoa(t), cmd: make(chan callSpec)}
		r.callers = append(r.callers, c)
		ready := make(chan struct{})
		go r.callerLoop(c, ready)
		<-ready
	}
}

func (r *run) callerLoop(c *callerState, ready chan struct{}) {
	r.sc.Register(c.name)
	close(ready)
	for sp := range c.cmd {
		req := request(sp)
		var v interface{}
		var err error
		if sp.kind == "ping" {
			// exactly what the pinger goroutine does every minute: m.ping(id) = objects.Ping(m, id)
			var pong *objects.Pong
			pong, err = objects.Ping(r.cl, sp.token)
			if err == nil {
				v = pong
			} else if e, ok := errCause(err).(*mtproto.ErrResponseCode); ok {
				err = e
			}
			r.sc.Done(c.name, showResult(sp.token, v, err))
			continue
		}
		if sp.hinted {
			var ht reflect.Type
			switch {
			case sp.kind == "vecobj":
				ht = reflect.TypeOf([]*objects.FutureSalt{})
			case reqKind(sp) == 2:
				ht = reflect.TypeOf([]string{})
			case wide(sp):
				ht = reflect.TypeOf([]int64{})
			default:
				ht = reflect.TypeOf([]int32{})
			}
			v, err = r.cl.MakeRequestWithHintToDecoder(req, ht)
		} else {
			v, err = r.cl.MakeRequest(req)
		}
		r.sc.Done(c.name, showResult(sp.token, v, err))
	}
}

// ---- result values -------------------------------------------------------------------------
// A result is fully determined by (kind, token p); what identifies the caller sits in a LATE place:
//   obj     p even: pong{msg_id 77, ping_id p}; p odd: msgs_detailed_info{71, 72, 73, status p}; ping: always pong
//   bool    p & 1
//   vec*    length class p mod 7 -> 1, 2, 17, 0, 1500, 9000, 20000 elements (1500 ints = 6 kB: gzip bodies above the
//           4096-byte buffer of popMessageAsBytes; 9000 ints = 36 kB and 20000 = 80 kB: above the 32 KiB window in
//           which compress/flate hands out inflated data, a single Read never returns more); elements 7000+i (objects: 7000+i, 8000+i, 9000+i), the LAST one carries p
//   err     rpc_error{400 + p mod 100, "VERIF_<p>"}, for p = 3 mod 4 a real-world error (refserver.ErrOf)
// showResult prints kind:token only if EVERY element / field it got back equals what that token stands for.

var vecLens = []int{1, 2, 17, 0, 1500, 9000, 20000}

func vecLen(p int64) int { return vecLens[((p%7)+7)%7] }

func bareVec32(p int64) []int32 {
	v := make([]int32, vecLen(p))
	for i := range v {
		v[i] = int32(7000 + i)
	}
	if len(v) > 0 {
		v[len(v)-1] = int32(p)
	}
	return v
}

// vecLen64: the longest class of the 64-bit vectors is 140000 elements = 1.07 MiB (above 2^20 bytes: a cap on the size of
// an unpacked object or of a message would show here)
func vecLen64(p int64) int {
	if n := vecLen(p); n != 20000 {
		return n
	}
	return 140000
}

func bareVec64(p int64) []int64 {
	v := make([]int64, vecLen64(p))
	for i := range v {
		v[i] = int64(7000+i) << 33 // needs more than 32 bits
	}
	if len(v) > 0 {
		v[len(v)-1] = p
	}
	return v
}

// bareVecStr: strings of 0..3 bytes (one word on the wire each, a wider Go value in memory), the last one carries p
func bareVecStr(p int64) []string {
	v := make([]string, vecLen(p))
	for i := range v {
		v[i] = "abc"[:i%4]
	}
	if len(v) > 0 {
		v[len(v)-1] = tok(p)
	}
	return v
}

func objVec(p int64) []*objects.FutureSalt {
	v := make([]*objects.FutureSalt, vecLen(p))
	for i := range v {
		v[i] = &objects.FutureSalt{ValidSince: int32(7000 + i), ValidUntil: int32(8000 + i), Salt: int64(9000 + i)}
	}
	if len(v) > 0 {
		v[len(v)-1].Salt = p
	}
	return v
}

func objValue(p int64, pong bool) tl.Object {
	if pong || p%2 == 0 {
		return &objects.Pong{MsgID: 77, PingID: p}
	}
	return &objects.MsgsDetailedInfo{MsgID: 71, AnswerMsgID: 72, Bytes: 73, Status: int32(p)}
}

func tok(p int64) string { return strconv.FormatInt(p, 10) }

// showResult projects what MakeRequest returned.
func showResult(own int64, v interface{}, err error) string {
	if err != nil {
		if e, ok := err.(*mtproto.ErrResponseCode); ok {
			if refserver.IsErrOf(own, e.Code, e.Message) {
				return "err:" + tok(own) // (a real-world error text does not name the request: the caller knows its own)
			}
			p, perr := strconv.ParseInt(strings.TrimPrefix(e.Message, "VERIF_"), 10, 64)
			if perr != nil || !strings.HasPrefix(e.Message, "VERIF_") || e.Code != int(400+p%100) {
				return fmt.Sprintf("err:garbled(code=%d,msg=%s)", e.Code, e.Message)
			}
			return "err:" + tok(p)
		}
		return "goerr:" + reflect.TypeOf(err).String()
	}
	switch x := v.(type) {
	case *objects.Pong:
		if !reflect.DeepEqual(x, objValue(x.PingID, true)) {
			return fmt.Sprintf("obj:garbled(pong %d %d)", x.MsgID, x.PingID)
		}
		return "obj:" + tok(x.PingID)
	case *objects.MsgsDetailedInfo:
		p := int64(x.Status)
		if p%2 == 0 || !reflect.DeepEqual(x, objValue(p, false)) {
			return fmt.Sprintf("obj:garbled(info %d %d %d %d)", x.MsgID, x.AnswerMsgID, x.Bytes, x.Status)
		}
		return "obj:" + tok(p)
	case bool:
		if x {
			return "bool:1"
		}
		return "bool:0"
	case []int32:
		if len(x) == 0 {
			return "vecbare:empty"
		}
		p := int64(x[len(x)-1])
		if !reflect.DeepEqual(x, bareVec32(p)) {
			return fmt.Sprintf("vecbare:garbled(len=%d first=%d last=%d)", len(x), x[0], p)
		}
		return "vecbare:" + tok(p)
	case []int64:
		if len(x) == 0 {
			return "vecbare:empty"
		}
		p := x[len(x)-1]
		if !reflect.DeepEqual(x, bareVec64(p)) {
			return fmt.Sprintf("vecbare:garbled(len=%d first=%d last=%d)", len(x), x[0], p)
		}
		return "vecbare:" + tok(p)
	case []string:
		if len(x) == 0 {
			return "vecbare:empty"
		}
		p, perr := strconv.ParseInt(x[len(x)-1], 10, 64)
		if perr != nil || !reflect.DeepEqual(x, bareVecStr(p)) {
			return fmt.Sprintf("vecbare:garbled(len=%d first=%q last=%q)", len(x), x[0], x[len(x)-1])
		}
		return "vecbare:" + tok(p)
	case []*objects.FutureSalt:
		if len(x) == 0 {
			return "vecobj:empty"
		}
		if x[len(x)-1] == nil {
			return "vecobj:garbled(nil element)"
		}
		p := x[len(x)-1].Salt
		if !reflect.DeepEqual(x, objVec(p)) {
			return fmt.Sprintf("vecobj:garbled(len=%d last=%d)", len(x), p)
		}
		return "vecobj:" + tok(p)
	case nil:
		return "nil"
	default:
		return "other:" + reflect.TypeOf(v).String()
	}
}

func errCause(err error) error {
	for {
		u, ok := err.(interface{ Unwrap() error })
		if !ok {
			c, ok2 := err.(interface{ Cause() error })
			if !ok2 {
				return err
			}
			err = c.Cause()
			continue
		}
		err = u.Unwrap()
	}
}

// setSkew puts the client into one of the clock regimes of the property: lastMsgID is the only state
// newMsgID keeps, so writing it is the same as "the wall clock once read that far ahead".
//
//	ahead1m / ahead1h: every id of the run must come from last+4 (the clock reads less than the last id)
//	just4: the last id is 4 below now (first send: clock just ahead)       none: 0, as after NewMTProto
//
// The field is unexported; it is reached through reflection so that the check needs no extra hook. A tree
// without the field (before the C10 repair) simply stays in regime none.
func (r *run) setSkew(mode string) {
	r.skew = "none"
	if mode == "" || mode == "none" {
		return
	}
	f := reflect.ValueOf(r.cl).Elem().FieldByName("lastMsgID")
	if !f.IsValid() || f.Kind() != reflect.Int64 {
		r.out.line("N", strconv.Itoa(r.idx), "no lastMsgID field in this tree: clock regime "+mode+" not applied")
		return
	}
	now := hnow()
	var v int64
	switch mode {
	case "ahead1m":
		v = now + 60<<32
	case "ahead1h":
		v = now + 3600<<32
	case "just4":
		v = now - 4
	default:
		trouble("unknown clock regime %q", mode)
	}
	*(*int64)(unsafe.Pointer(f.UnsafeAddr())) = v
	r.preset = v
	r.skew = mode
}

func expectedResult(sp callSpec) string {
	switch sp.kind {
	case "ping":
		return "obj:" + tok(sp.token)
	case "bool":
		return "bool:" + tok(sp.token&1)
	case "vecbare", "vecobj":
		if vecLen(sp.token) == 0 {
			return sp.kind + ":empty"
		}
		return sp.kind + ":" + tok(sp.token)
	default:
		return sp.kind + ":" + tok(sp.token)
	}
}

// reqKind: which request object carries the call (the server never looks at it: answers are
// addressed by the msg id of the frame). 0 ping, 1 msgs_state_req, 2 msg_resend_req.
func reqKind(sp callSpec) int {
	if sp.kind == "ping" {
		return 0
	}
	return int(((sp.token/3)%3 + 3) % 3)
}

func request(sp callSpec) tl.Object {
	switch reqKind(sp) {
	case 1:
		return &objects.MsgsStateReq{MsgIDs: []int64{sp.token}}
	case 2:
		return &objects.MsgResendReq{MsgIDs: []int64{sp.token, sp.token + 1}}
	}
	return &objects.PingParams{PingID: sp.token}
}

// wide: the bare vector of this call has 64-bit elements (hint []int64); request kind 2: short strings (hint []string)
func wide(sp callSpec) bool { return reqKind(sp) == 1 }

func resultBody(sp callSpec, flavour int) []byte {
	p := sp.token
	switch sp.kind {
	case "obj":
		return refserver.Object(objValue(p, false))
	case "ping":
		return refserver.Object(objValue(p, true))
	case "bool":
		return refserver.Bool(p&1 == 1)
	case "vecbare":
		switch flavour {
		case 1:
			return refserver.VectorInt64(bareVec64(p))
		case 2:
			b := append(rqLE32(rqVectorCrc), rqLE32(uint32(vecLen(p)))...)
			for _, x := range bareVecStr(p) {
				b = append(b, refserver.TLBytes([]byte(x))...)
			}
			return b
		}
		return refserver.VectorInt32(bareVec32(p))
	case "vecobj":
		var v []tl.Object
		for _, x := range objVec(p) {
			v = append(v, x)
		}
		return refserver.VectorObjects(v)
	case "err":
		return refserver.RpcError(refserver.ErrOf(p))
	}
	trouble("unknown result kind %q", sp.kind)
	return nil
}

func (r *run) await(actor string) csched.Arrival {
	ar, err := r.sc.Await(actor, watchdog)
	if err != nil {
		st := ""
		if e, ok := err.(*csched.ErrStuck); ok {
			st = e.Stack
		}
		panic(stuck{what: actor, stack: st})
	}
	return ar
}

func (r *run) norm(id int64) string { return strconv.FormatInt(id-r.base, 10) }

// enabled reports whether releasing the actor from where it is parked cannot block forever,
// by Go semantics alone.
func (r *run) enabled(actor string) bool {
	p := r.sc.Parked(actor)
	if p == nil {
		return false
	}
	isRx := actor == r.rx
	switch p.Point {
	case "prelock":
		return r.lock == "" || r.broken
	case "idgen":
		if r.broken {
			// the lock that orders the writes is not the one the probe went through: whoever has
			// written and not yet returned still holds it
			for _, a := range append([]string{r.rx}, callerNames(r)...) {
				if q := r.sc.Parked(a); a != actor && q != nil && (q.Point == "written" || q.Point == "wire") {
					return false
				}
			}
		}
		return true
	case "wire", "written", "dispatch":
		return true
	case "prerecv":
		return isRx // the receive loop's own request is an ack: a null-sender is waiting
	case "read":
		return isRx && r.srv.Sent() > r.reads
	case "deliver", "notify":
		o := r.ownerOf(p.ID)
		return o != nil && r.inRecv[o.name]
	}
	return false
}

func (r *run) ownerOf(id int64) *callerState {
	for _, c := range r.callers {
		if c.active != nil && !c.active.done && c.active.msgID == id {
			return c
		}
	}
	return nil
}

// onArrival updates the executor's bookkeeping and returns the projection items.
func (r *run) onArrival(actor string, ar csched.Arrival) []string {
	items := []string{}
	c := r.actorCaller(actor)
	show := actor
	if actor == r.rx {
		show = "rx"
	}
	items = append(items, show+"@"+ar.Point)
	switch ar.Point {
	case "idgen", "prelock":
		delete(r.inRecv, actor) // (a retry marker sends the caller back into the send path)
		if c != nil && c.active != nil && ar.ID != 0 {
			c.active.msgID = ar.ID
		}
	case "written":
		// the frame was observed at "wire"; the rest of the block touched only the sender's own counter
	case "wire":
		frames, err := r.srv.WaitFrames(r.nframes+1, watchdog)
		if err != nil {
			trouble("frame written by %s did not reach the server: %v", actor, err)
		}
		f := frames[r.nframes]
		r.nframes++
		if f.OpenErr != "" {
			items = append(items, "W:unopenable:"+f.OpenErr)
			break
		}
		kind := "req"
		extra := ""
		if ids := refserver.AckedIDs(f); ids != nil {
			kind = "ack"
			l := []string{}
			for _, id := range ids {
				l = append(l, strconv.FormatInt(id, 10))
			}
			extra = ":ack=" + strings.Join(l, ",")
		}
		inc := "0"
		if r.nframes == 1 || f.MsgID > r.lastID {
			inc = "1"
		}
		b4 := "0" // exactly 4 above the previous frame: the id came from the bump, not from the clock
		if r.nframes > 1 && f.MsgID == r.lastID+4 {
			b4 = "1"
		}
		r.lastID = f.MsgID
		items = append(items, fmt.Sprintf("W:%s:%d:%d:%s:b%s%s", kind, f.SeqNo, f.MsgID&3, inc, b4, extra))
		if c != nil && c.active != nil {
			c.active.frame = f.Index
			c.active.msgID = f.MsgID
		}
	case "prerecv":
		if r.lock == actor {
			r.lock = ""
		}
		if c != nil {
			r.inRecv[actor] = true
		}
	case "done":
		delete(r.inRecv, actor)
		if r.lock == actor {
			r.lock = ""
		}
		if c != nil && c.active != nil {
			c.active.done = true
			c.active.got = ar.Val.(string)
			items = append(items, "ret:"+c.active.got)
			c.active = nil
		}
	case "dispatch":
		// top-level frames are counted when the loop leaves "read"
	}
	return items
}

func (r *run) record(label, obs string) {
	r.out.line("A", strconv.Itoa(r.idx), strconv.Itoa(r.nact), label, obs)
	r.nact++
}

// doCall starts the next call of caller t and waits for its first yield point.
func (r *run) doCall(t int, sp callSpec) {
	c := r.callers[t]
	cs := &callState{spec: sp, t: t, k: len(c.calls), frame: -1}
	c.calls = append(c.calls, cs)
	c.active = cs
	r.relAt[c.name] = hnow()
	c.cmd <- sp
	ar := r.await(c.name)
	items := r.onArrival(c.name, ar)
	h := "0"
	if sp.hinted {
		h = "1"
	}
	lbl := fmt.Sprintf("call %d %s", t, h)
	if ar.Point == "idgen" {
		lbl += " " + r.clk(c.name, ar.ID)
	}
	r.record(lbl, strings.Join(items, " "))
}

// clk is the clock reading handed to the model for the block that produced msg_id `id`.
// If the harness's own reading of the wall clock (taken after the client's) is not above the highest id
// seen so far, the client's reading was not either: the model gets the harness's reading and has to arrive
// at the id by its own bump (last+4). Otherwise the id itself is the witness of what the client read.
func (r *run) clk(actor string, id int64) string {
	now := hnow()
	rel, okRel := r.relAt[actor] // the harness's clock reading when it let this goroutine go: the client read the clock after it
	if !okRel {
		rel = now
	}
	w := id
	switch {
	case r.maxID != 0 && now <= r.maxID:
		// the wall clock reads no more than the last id: the id must be exactly the last one + 4
		w = now
		r.bumps++
		r.bumpRun++
		if r.bumpRun > r.bumpMax {
			r.bumpMax = r.bumpRun
		}
		if id != r.maxID+4 {
			r.clockV = append(r.clockV, [2]string{"msgid-not-last-plus-4", fmt.Sprintf("the clock read no more than the last msg_id, the new id is last%+d instead of last+4", id-r.maxID)})
		}
	case r.maxID == 0 && r.preset != 0 && now <= r.preset:
		r.bumpRun = 0
		if id != r.preset+4 {
			r.clockV = append(r.clockV, [2]string{"msgid-not-last-plus-4", fmt.Sprintf("lastMsgID was ahead of the clock, the first id is last%+d instead of last+4", id-r.preset)})
		}
	default:
		// the id has to come from the clock: the client read it between the previous yield and now
		r.bumpRun = 0
		if id&3 != 0 {
			r.clockV = append(r.clockV, [2]string{"msgid-not-multiple-of-4", fmt.Sprintf("msg_id mod 4 = %d", id&3)})
		}
		// the client read the wall clock after the harness's reading at the release and before the one just taken
		if id < rel || id > now {
			r.clockV = append(r.clockV, [2]string{"msgid-not-from-clock", fmt.Sprintf("msg_id is not (unix seconds << 32 | nanoseconds &^ 3) of a clock reading between the harness's own readings around the send: %d s %d ns from the later one",
				(id>>32)-(now>>32), int64(uint32(id))-int64(uint32(now)))})
		}
		r.lowWords = append(r.lowWords, uint32(id))
	}
	if id > r.maxID {
		r.maxID = id
	}
	d := w - r.base
	if d%4 != 0 {
		return "x" + strconv.FormatInt(d, 10)
	}
	return strconv.FormatInt(d/4, 10)
}

// wireTransport makes the network write itself a scheduling point: the bytes are out (the server can react)
// but WriteMsg has not returned to sendPacket yet. Whatever sendPacket still does after the write and before its
// "written" yield is then a block of its own for the scheduler.
type wireTransport struct{ transport.Transport }

func (w wireTransport) WriteMsg(msg messages.Common, requireToAck bool) error {
	err := w.Transport.WriteMsg(msg, requireToAck)
	if h := mtproto.VerifYieldHook; h != nil && err == nil {
		h("wire", int64(msg.GetMsgID()))
	}
	return err
}

// wrapTransport replaces m.transport (unexported: reflection) by the wrapper. Called while every client
// goroutine is parked; the reading goroutine keeps the connection it was started with.
func (r *run) wrapTransport() {
	f := reflect.ValueOf(r.cl).Elem().FieldByName("transport")
	if !f.IsValid() || f.Kind() != reflect.Interface {
		trouble("no transport field in MTProto")
	}
	p := (*transport.Transport)(unsafe.Pointer(f.UnsafeAddr()))
	*p = wireTransport{*p}
}

// hnow is the harness's own reading of the wall clock in msg_id format (not the tree's GenerateMessageId)
func hnow() int64 {
	t := time.Now().UnixNano()
	return (t/1000000000)<<32 | (t%1000000000)&^3
}

// setSeq0 starts the session with the client's seq_no counter at n (even), e.g. just below 2^31: the
// int32 wrap-around of the counter is then inside the run, and the model (wrap32) has to follow it.
func (r *run) setSeq0(n int64) {
	f := reflect.ValueOf(r.cl).Elem().FieldByName("seqNo")
	if !f.IsValid() || f.Kind() != reflect.Int32 {
		r.out.line("N", strconv.Itoa(r.idx), "no seqNo field in this tree: seq_no start not applied")
		return
	}
	*(*int32)(unsafe.Pointer(f.UnsafeAddr())) = int32(n)
	r.seq0 = n
	r.out.line("P", strconv.Itoa(r.idx), "seq", strconv.FormatInt(n, 10))
}

// afterUnlock: senders that were found blocked on the send lock get it as soon as the holder returns;
// exactly one of them arrives at "idgen". In the model that is a separate step of that actor.
func (r *run) afterUnlock() {
	for r.lock == "" && len(r.blocked) > 0 {
		var names []string
		for n := range r.blocked {
			names = append(names, n)
		}
		sort.Strings(names)
		ar, err := r.sc.AwaitAny(names, watchdog)
		if err != nil {
			st := ""
			if e, ok := err.(*csched.ErrStuck); ok {
				st = e.Stack
			}
			panic(stuck{what: "lock-waiter", stack: st})
		}
		delete(r.blocked, ar.Actor)
		r.lock = ar.Actor
		show := ar.Actor
		if ar.Actor == r.rx {
			show = "rx"
		}
		clk := "0"
		if ar.Point == "idgen" {
			clk = r.clk(ar.Actor, ar.ID)
		}
		items := r.onArrival(ar.Actor, ar)
		r.slog("auto " + show)
		r.record("step "+show+" "+clk, strings.Join(items, " "))
	}
}

// doProbe releases a sender parked at "prelock" although another sender is between "idgen" and its
// return from sendPacket. With a send lock that covers id generation and write the probed sender must
// block (no arrival within the probe time-out); if it comes back with an id of its own the lock does not
// order id generation with the write, and the schedule goes on to let it write first.
func (r *run) doProbe(actor string) {
	show := actor
	if actor == r.rx {
		show = "rx"
	}
	r.nprobes++
	r.relAt[actor] = hnow()
	r.sc.Release(actor)
	ar, ok := r.sc.TryAwait(actor, probeTimeout)
	if !ok {
		r.blocked[actor] = true
		r.nblocked++
		r.record("probe "+show, "blocked")
		return
	}
	r.broken = true
	items := r.onArrival(actor, ar)
	r.record("probe "+show, strings.Join(items, " "))
	// let the overtaker write and return before the overtaken sender continues; a holder that has
	// already written still owns whatever lock covers the write: it returns first
	if h := r.lock; h != "" && h != actor {
		for i := 0; i < 2; i++ {
			if p := r.sc.Parked(h); p != nil && (p.Point == "written" || p.Point == "wire") {
				hs := h
				if h == r.rx {
					hs = "rx"
				}
				r.slog("auto-step " + hs)
				r.doStep(h)
			}
		}
	}
	for i := 0; i < 3; i++ {
		if p := r.sc.Parked(actor); p != nil && (p.Point == "idgen" || p.Point == "wire" || p.Point == "written") {
			r.slog("auto-step " + show)
			r.doStep(actor)
		}
	}
}

var probeTimeout = 40 * time.Millisecond

// earlyOwner: the receive loop is parked right before it hands a result over ("deliver") and the owner of that
// result has written its request but has not returned from sendPacket yet (parked at "written"): it does not listen
// on its channel. Returns that owner, nil if the situation is another one.
func (r *run) earlyOwner() *callerState {
	p := r.sc.Parked(r.rx)
	if p == nil || p.Point != "deliver" || r.broken {
		return nil
	}
	o := r.ownerOf(p.ID)
	if o == nil || r.inRecv[o.name] {
		return nil
	}
	if q := r.sc.Parked(o.name); q == nil || q.Point != "written" {
		return nil
	}
	return o
}

// doEarly lets the receive loop go on with the hand-over BEFORE the owner listens. The response channel is
// unbuffered and the owner is the only reader: the loop has to wait in its send (no arrival within the probe
// time-out) until the owner has returned from sendPacket and receives; then both go on exactly as if the owner
// had been first, and that is how the two actions are recorded (step owner, step rx) after the action `commit rx`:
// for Client/Live.v the rendezvous is one step which is enabled when the owner listens; Client/Rendezvous.v is the
// finer system with the commit, and the model driver runs both (C09_early_handover_refines). A loop which comes back without the owner
// has given the result to nobody (or to somebody else): the call can never return it.
func (r *run) doEarly() {
	o := r.earlyOwner()
	p := r.sc.Parked(r.rx)
	id := p.ID
	r.nearly++
	r.sc.Release(r.rx)
	if ar, ok := r.sc.TryAwait(r.rx, probeTimeout); ok {
		r.out.line("V", strconv.Itoa(r.idx), "C09", "result-handed-over-while-owner-not-listening",
			fmt.Sprintf("the receive loop went on from the hand-over of the result for request %s to '%s' while caller %s had not "+
				"returned from sendPacket (nobody was receiving on the response channel): the result is lost or went elsewhere",
				r.norm(id), ar.Point, o.name))
		r.aborted = true
		return
	}
	r.record("commit rx", "committed")
	// the owner returns from sendPacket (the send lock is released) and receives
	r.relAt[o.name] = hnow()
	r.sc.Release(o.name)
	a0 := r.await(o.name)
	r.record("step "+o.name+" 0", strings.Join(r.onArrival(o.name, a0), " "))
	r.afterUnlock()
	var items []string
	a1 := r.await(r.rx)
	items = append(items, r.onArrival(r.rx, a1)...)
	var waiting []string
	for _, c := range r.callers {
		if r.inRecv[c.name] {
			waiting = append(waiting, c.name)
		}
	}
	a2, err := r.sc.AwaitAny(waiting, watchdog)
	if err != nil {
		st := ""
		if e, ok := err.(*csched.ErrStuck); ok {
			st = e.Stack
		}
		panic(stuck{what: "receiver-of-" + r.rx, stack: st})
	}
	items = append(items, r.onArrival(a2.Actor, a2)...)
	r.record("step rx 0", strings.Join(items, " "))
	r.afterUnlock()
}

// doStep releases one enabled actor (and its rendezvous partner) and waits for the arrivals.
func (r *run) doStep(actor string) {
	p := r.sc.Parked(actor)
	show := actor
	if actor == r.rx {
		show = "rx"
	}
	var items []string
	clk := "0"
	switch p.Point {
	case "deliver", "notify":
		r.sc.Release(actor)
		a1 := r.await(actor)
		items = append(items, r.onArrival(actor, a1)...)
		// whoever is blocked on the channel the receive loop really used takes the value; it
		// either returns or (retry marker, migrate) re-enters the send path
		var waiting []string
		for _, c := range r.callers {
			if r.inRecv[c.name] {
				waiting = append(waiting, c.name)
			}
		}
		a2, err := r.sc.AwaitAny(waiting, watchdog)
		if err != nil {
			st := ""
			if e, ok := err.(*csched.ErrStuck); ok {
				st = e.Stack
			}
			panic(stuck{what: "receiver-of-" + actor, stack: st})
		}
		items = append(items, r.onArrival(a2.Actor, a2)...)
	default:
		if p.Point == "prelock" {
			r.lock = actor
		}
		if p.Point == "read" {
			r.reads++
		}
		r.relAt[actor] = hnow()
		r.sc.Release(actor)
		ar := r.await(actor)
		if ar.Point == "idgen" {
			clk = r.clk(actor, ar.ID)
		}
		items = r.onArrival(actor, ar)
		if p.Point == "dispatch" && actor == r.rx {
			// a message was processed while some request's bytes were out and its WriteMsg had not returned
			for _, c := range r.callers {
				if q := r.sc.Parked(c.name); q != nil && q.Point == "wire" {
					r.wireDeliver++
					break
				}
			}
		}
		if p.Point == "wire" {
			// WriteMsg returns, the sender finishes its block (its own seq_no counter): no shared state changes,
			// in the model the actor stays where it is ("written, not yet returned")
			r.record("stutter "+show, strings.Join(items, " "))
			r.afterUnlock()
			return
		}
	}
	r.record("step "+show+" "+clk, strings.Join(items, " "))
	r.afterUnlock()
}

// ---- server messages ------------------------------------------------------------------

type bodySpec struct {
	op    string // res err cont gz pong ack newsess upd badsalt badmsg
	ref   string // @t.k or literal id
	gz    bool
	kind  string
	tok   int64
	items []itemSpec
	inner *bodySpec
	salt  int64
}

type itemSpec struct {
	sid  int64
	seq  int32
	body *bodySpec
}

func (r *run) resolve(ref string) (int64, *callState) {
	if strings.HasPrefix(ref, "@") {
		p := strings.Split(ref[1:], ".")
		t, _ := strconv.Atoi(p[0])
		k, _ := strconv.Atoi(p[1])
		if t >= len(r.callers) || k >= len(r.callers[t].calls) {
			trouble("reference %s to a call that was not made", ref)
		}
		cs := r.callers[t].calls[k]
		return cs.msgID, cs
	}
	id, _ := strconv.ParseInt(ref, 10, 64)
	return id + r.base, nil
}

// build returns the TL bytes and the model-facing text of a body.
func (r *run) build(b *bodySpec) ([]byte, string) {
	switch b.op {
	case "res", "err":
		id, cs := r.resolve(b.ref)
		sp := callSpec{kind: b.kind, token: b.tok}
		if b.op == "err" {
			sp.kind = "err"
		}
		flavour := 0
		if cs != nil {
			flavour = reqKind(cs.spec)
		}
		body := resultBody(sp, flavour)
		if b.gz {
			body = refserver.Gzip(body)
		}
		if cs != nil {
			cs.answers++
			// what the call has to return is the FIRST answer the client can hand over: a Vector<> sent
			// to a call that declared none cannot be decoded (warned about, acknowledged, skipped)
			deliverable := !((sp.kind == "vecbare" || sp.kind == "vecobj") && !cs.spec.hinted)
			if deliverable && !cs.delivered {
				cs.delivered = true
				cs.exp = expectedResult(sp)
			}
		}
		g := "0"
		if b.gz {
			g = "1"
		}
		if b.op == "err" {
			return refserver.RpcResult(id, body), fmt.Sprintf("err %s %s %d", r.norm(id), g, b.tok)
		}
		mk := b.kind
		if mk == "ping" {
			mk = "obj"
		}
		return refserver.RpcResult(id, body), fmt.Sprintf("res %s %s %s %d", r.norm(id), g, mk, b.tok)
	case "gz":
		inner, txt := r.build(b.inner)
		return refserver.Gzip(inner), "gz " + txt
	case "cont":
		var msgs []refserver.Msg
		txt := "cont " + strconv.Itoa(len(b.items))
		for _, it := range b.items {
			ib, it2 := r.build(it.body)
			msgs = append(msgs, refserver.Msg{MsgID: it.sid, SeqNo: it.seq, Body: ib})
			r.sent = append(r.sent, sentMsg{sid: it.sid, seq: it.seq, atFrames: r.nframes})
			txt += fmt.Sprintf(" %d %d %s", it.sid, it.seq, it2)
		}
		return refserver.Container(msgs), txt
	case "pong":
		return refserver.Pong(4, 5), "pong"
	case "ack":
		return refserver.MsgsAck(4), "ack"
	case "newsess":
		return refserver.NewSessionCreated(4, 77, b.salt), "newsess " + strconv.FormatInt(b.salt, 10)
	case "upd":
		return refserver.FutureSalts(4, 1), "upd"
	case "badsalt":
		id, _ := r.resolve(b.ref)
		return refserver.BadServerSalt(id, 1, 48, b.salt), fmt.Sprintf("badsalt %s %d", r.norm(id), b.salt)
	case "badmsg":
		id, _ := r.resolve(b.ref)
		return refserver.BadMsgNotification(id, 1, 32), "badmsg " + r.norm(id)
	}
	trouble("unknown body op %q", b.op)
	return nil, ""
}

func (r *run) doSrv(sid int64, seq int32, b *bodySpec) {
	body, txt := r.build(b)
	for _, a := range append([]string{r.rx}, callerNames(r)...) {
		if q := r.sc.Parked(a); q != nil && q.Point == "wire" {
			r.wireSrv++
			break
		}
	}
	r.sent = append(r.sent, sentMsg{sid: sid, seq: seq, atFrames: r.nframes})
	if err := r.srv.Send(refserver.Msg{MsgID: sid, SeqNo: seq, Body: body}); err != nil {
		trouble("server send: %v", err)
	}
	r.record(fmt.Sprintf("srv %d %d %s", sid, seq, txt), "ok")
}

// script text of a body with symbolic references (for replay files)
func (b *bodySpec) script() string {
	g := "0"
	if b.gz {
		g = "1"
	}
	switch b.op {
	case "res":
		return fmt.Sprintf("res %s %s %s %d", b.ref, g, b.kind, b.tok)
	case "err":
		return fmt.Sprintf("err %s %s %d", b.ref, g, b.tok)
	case "gz":
		return "gz " + b.inner.script()
	case "cont":
		s := "cont " + strconv.Itoa(len(b.items))
		for _, it := range b.items {
			s += fmt.Sprintf(" %d %d %s", it.sid, it.seq, it.body.script())
		}
		return s
	case "newsess":
		return "newsess " + strconv.FormatInt(b.salt, 10)
	case "badsalt":
		return fmt.Sprintf("badsalt %s %d", b.ref, b.salt)
	case "badmsg":
		return "badmsg " + b.ref
	}
	return b.op
}

func parseBody(tok []string) (*bodySpec, []string) {
	if len(tok) == 0 {
		trouble("empty body spec")
	}
	op := tok[0]
	tok = tok[1:]
	b := &bodySpec{op: op}
	switch op {
	case "res":
		b.ref, b.gz, b.kind = tok[0], tok[1] == "1", tok[2]
		b.tok, _ = strconv.ParseInt(tok[3], 10, 64)
		return b, tok[4:]
	case "err":
		b.ref, b.gz = tok[0], tok[1] == "1"
		b.tok, _ = strconv.ParseInt(tok[2], 10, 64)
		return b, tok[3:]
	case "gz":
		b.inner, tok = parseBody(tok)
		return b, tok
	case "cont":
		n, _ := strconv.Atoi(tok[0])
		tok = tok[1:]
		for i := 0; i < n; i++ {
			sid, _ := strconv.ParseInt(tok[0], 10, 64)
			seq, _ := strconv.Atoi(tok[1])
			var ib *bodySpec
			ib, tok = parseBody(tok[2:])
			b.items = append(b.items, itemSpec{sid: sid, seq: int32(seq), body: ib})
		}
		return b, tok
	case "newsess":
		b.salt, _ = strconv.ParseInt(tok[0], 10, 64)
		return b, tok[1:]
	case "badsalt":
		b.ref = tok[0]
		b.salt, _ = strconv.ParseInt(tok[1], 10, 64)
		return b, tok[2:]
	case "badmsg":
		b.ref = tok[0]
		return b, tok[1:]
	case "pong", "ack", "upd":
		return b, tok
	}
	trouble("unknown body op %q", op)
	return nil, nil
}

// ---- end of run: direct oracles ---------------------------------------------------------

func (r *run) finish() {
	idx := strconv.Itoa(r.idx)
	frames := r.srv.Frames()
	t1 := time.Now()
	// C09: every call returned exactly the answer addressed to its own request
	for t, c := range r.callers {
		for _, cs := range c.calls {
			exp := cs.exp
			if exp == "" {
				exp = expectedResult(cs.spec)
			}
			got := cs.got
			if !cs.done {
				got = "pending"
			}
			r.out.line("R", idx, strconv.Itoa(t), strconv.Itoa(cs.k), exp, got, strconv.Itoa(cs.answers))
			if cs.done && got != exp {
				r.out.line("V", idx, "C09", "misrouted-or-mistyped:"+cs.spec.kind,
					fmt.Sprintf("caller %d call %d (declared %s, hinted=%v) expected %s got %s", t, cs.k, cs.spec.kind, cs.spec.hinted, exp, got))
			}
			if !cs.done && cs.delivered && r.status == "ok" {
				r.out.line("V", idx, "C09", "answered-call-pending:"+cs.spec.kind,
					fmt.Sprintf("caller %d call %d was answered by the server but never returned", t, cs.k))
			}
			if !cs.done && !cs.delivered && r.status == "ok" && r.random {
				// the random generator answers every request it has seen: a call that is still
				// pending never got its request to the server although nothing was left to schedule
				r.out.line("V", idx, "C09", "call-never-reached-the-server:"+cs.spec.kind,
					fmt.Sprintf("caller %d call %d neither completed nor reached the server; no enabled step was left", t, cs.k))
			}
		}
	}
	// C10: every id is derived from the clock (or is the last one + 4 when the clock is behind)
	for _, v := range r.clockV {
		r.out.line("V", idx, "C10", v[0], v[1])
	}
	if len(r.lowWords) >= 3 {
		same := true
		for _, w := range r.lowWords {
			if w != r.lowWords[0] {
				same = false
			}
		}
		if same {
			r.out.line("V", idx, "C10", "msgid-low-bits-constant", fmt.Sprintf("%d ids taken from the clock share the low 32 bits %#x", len(r.lowWords), r.lowWords[0]))
		}
	}
	// C10: wire order
	var prev refserver.Frame
	for i, f := range frames {
		kind := "req"
		acks := ""
		if ids := refserver.AckedIDs(f); ids != nil {
			kind = "ack"
			l := []string{}
			for _, id := range ids {
				l = append(l, strconv.FormatInt(id, 10))
			}
			acks = strings.Join(l, ",")
		}
		r.out.line("W", idx, strconv.Itoa(i), r.norm(f.MsgID), strconv.Itoa(int(f.SeqNo)), kind, acks)
		if f.OpenErr != "" {
			r.out.line("V", idx, "C10", "unopenable-frame", "frame "+strconv.Itoa(i)+": "+f.OpenErr)
			continue
		}
		if f.MsgID&3 != 0 {
			r.out.line("V", idx, "C10", "msgid-not-multiple-of-4", fmt.Sprintf("frame %d msg_id mod 4 = %d", i, f.MsgID&3))
		}
		sec := f.MsgID >> 32
		fromClock := sec >= r.t0.Unix()-1 && sec <= t1.Unix()+1
		// with lastMsgID preset ahead of the clock every id is the previous one + 4
		fromBump := r.preset != 0 && f.MsgID > r.preset && f.MsgID <= r.preset+int64(4*(len(frames)+1))
		if !fromClock && !fromBump {
			r.out.line("V", idx, "C10", "msgid-not-from-clock", fmt.Sprintf("frame %d msg_id seconds outside the run's clock window", i))
		}
		content := refserver.IsContentRelated(f)
		if content && f.SeqNo&1 == 0 {
			r.out.line("V", idx, "C10", "content-even-seqno", fmt.Sprintf("frame %d is content-related but seq_no %d is even", i, f.SeqNo))
		}
		if !content && f.SeqNo&1 == 1 {
			r.out.line("V", idx, "C10", "ack-odd-seqno", fmt.Sprintf("frame %d is msgs_ack but seq_no %d is odd", i, f.SeqNo))
		}
		if i > 0 {
			if f.MsgID == prev.MsgID {
				r.out.line("V", idx, "C10", "msgid-repeated", fmt.Sprintf("frame %d carries the same msg_id as frame %d", i, i-1))
			} else if f.MsgID <= prev.MsgID {
				r.out.line("V", idx, "C10", "msgid-order-inversion",
					fmt.Sprintf("frame %d written after frame %d has msg_id lower by %d", i, i-1, prev.MsgID-f.MsgID))
			}
			if f.SeqNo < prev.SeqNo && r.seq0 == 0 { // (a session started near 2^31 wraps by design: the documented int32 limit)
				r.out.line("V", idx, "C10", "seqno-decreased", fmt.Sprintf("frame %d seq_no %d after %d", i, f.SeqNo, prev.SeqNo))
			}
		}
		prev = f
	}
	// C10: acknowledgements (only meaningful when the receive loop came back to "read")
	if r.status == "ok" {
		for _, m := range r.sent {
			if m.seq&1 == 0 {
				continue
			}
			found := false
			for _, f := range frames[m.atFrames:] {
				for _, id := range refserver.AckedIDs(f) {
					if id == m.sid {
						found = true
					}
				}
			}
			if !found {
				r.out.line("V", idx, "C10", "content-message-not-acked", fmt.Sprintf("server message %d (seq_no %d) was never acknowledged", m.sid, m.seq))
			}
		}
	}
	// shared state when everything is parked
	seq, _, rk, hk := r.cl.VerifSnapshot()
	sort.Ints(rk)
	r.out.line("F", idx, fmt.Sprintf("seq=%d table=%d hints=%d", seq, len(rk), len(hk)))
	r.out.line("X", idx, fmt.Sprintf("skew=%s bumps=%d bumpmax=%d probes=%d blocked=%d early=%d broken=%v seq0=%d wiresrv=%d wiredeliver=%d highseq=%d", r.skew, r.bumps, r.bumpMax, r.nprobes, r.nblocked, r.nearly, r.broken, r.seq0, r.wireSrv, r.wireDeliver, r.highSeq))
	r.out.line("E", idx, r.status)
}

func (r *run) teardown() {
	// the receive loop stays parked at its yield point for ever (it must not run into the
	// closed socket: the library panics on that); pinger and reader helper stop on cancel
	if r.cl != nil {
		_ = r.cl.Disconnect()
	}
	if r.srv != nil {
		r.srv.Close()
	}
	for _, c := range r.callers {
		if c.active == nil {
			close(c.cmd)
		}
	}
}

// watchdogFromEnv: how long an arrival that must come (the released operation is enabled) may take
// before the schedule is reported as stuck. Default 5 s; VERIF_WATCHDOG_MS overrides.
func watchdogFromEnv() time.Duration {
	if v, err := strconv.Atoi(os.Getenv("VERIF_WATCHDOG_MS")); err == nil && v > 0 {
		return time.Duration(v) * time.Millisecond
	}
	return 5 * time.Second
}
