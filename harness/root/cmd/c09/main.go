// Command c09: trace recorder for C09 / C10 (and the shared client-LTS infrastructure).
//
//	c09 run <random N | script FILE> <trace-out>      supervisor: runs schedules in child processes
//	c09 worker <random N | script FILE> <from> <trace-out>   (internal) runs schedules from index <from>
//
// Trace lines (tab separated):
//
//	B idx ncallers description
//	S idx script-line                 the schedule as executed, with symbolic references (replay)
//	A idx n label observation         one action: label for the Coq model, projected observation
//	R idx t k expected got answers    result of call k of caller t
//	W idx i normid seq kind acks      client frame i as the server saw it
//	V idx prop key text               direct-oracle violation
//	F idx state                       shared state at the end
//	E idx status                      ok | stuck:... | died:... | notenabled:...
package main

import (
	"bufio"
	"bytes"
	"fmt"
	"os"
	"os/exec"
	"path/filepath"
	"strconv"
	"strings"

	vc "verifcommon"
)

var kinds = []string{"obj", "bool", "vecbare", "vecobj", "err"}

type script struct {
	idx      int
	ncallers int
	desc     string
	lines    []string // empty for random schedules
}

func loadScripts(path string) []script {
	f, err := os.Open(path)
	if err != nil {
		trouble("open %s: %v", path, err)
	}
	defer f.Close()
	var out []script
	sc := bufio.NewScanner(f)
	sc.Buffer(make([]byte, 1<<20), 1<<24)
	for sc.Scan() {
		l := strings.TrimSpace(sc.Text())
		if l == "" || l[0] == '#' {
			continue
		}
		tok := strings.Fields(l)
		switch tok[0] {
		case "S":
			n, _ := strconv.Atoi(tok[2])
			out = append(out, script{idx: len(out), ncallers: n, desc: strings.Join(tok[3:], " ")})
		case "E":
		default:
			if len(out) == 0 {
				trouble("script line before S header")
			}
			out[len(out)-1].lines = append(out[len(out)-1].lines, l)
		}
	}
	return out
}

// runOne executes one schedule; never returns an error: problems end up in the E line.
func runOne(s script, seed uint64, w *traceWriter) (stalled bool) {
	r := &run{out: w, status: "ok"}
	w.line("B", strconv.Itoa(s.idx), strconv.Itoa(s.ncallers), s.desc)
	func() {
		defer func() {
			if x := recover(); x != nil {
				switch e := x.(type) {
				case stuck:
					r.status = "stuck:" + r.describe(e.what)
					w.line("K", strconv.Itoa(s.idx), strings.ReplaceAll(firstLines(e.stack, 60), "\n", " | "))
				case harnessTrouble:
					w.line("E", strconv.Itoa(s.idx), "harness:"+e.msg)
					fmt.Fprintln(os.Stderr, "HARNESS-TROUBLE:", e.msg)
					os.Exit(3)
				default:
					panic(x)
				}
			}
		}()
		r.start(s.idx, s.ncallers)
		if s.lines != nil {
			r.playScript(s.lines)
		} else {
			r.random = true
			r.playRandom(vc.NewRng(seed).Fork(uint64(s.idx) + 1))
		}
	}()
	r.finish()
	r.teardown()
	return strings.HasPrefix(r.status, "stuck")
}

func firstLines(s string, n int) string {
	l := strings.Split(s, "\n")
	if len(l) > n {
		l = l[:n]
	}
	return strings.Join(l, "\n")
}

func (r *run) describe(actor string) string {
	show := actor
	if actor == r.rx {
		show = "rx"
	}
	for i := len(r.sc.Log) - 1; i >= 0; i-- {
		if r.sc.Log[i].Actor == actor {
			return show + "-after-" + r.sc.Log[i].Point
		}
	}
	return show
}

func (r *run) slog(l string) { r.out.line("S", strconv.Itoa(r.idx), l) }

func (r *run) playScript(lines []string) {
	for n, l := range lines {
		tok := strings.Fields(l)
		switch tok[0] {
		case "skew":
			r.slog(l)
			r.setSkew(tok[1])
		case "seq0":
			n, _ := strconv.ParseInt(tok[1], 10, 64)
			r.slog(l)
			r.setSeq0(n)
		case "auto", "auto-step":
			// a lock waiter that got the lock (afterUnlock) / the overtaker's steps after a probe that
			// got through (doProbe): both happen by themselves on replay, nothing to execute
		case "probe":
			a := tok[1]
			if a == "rx" {
				a = r.rx
			}
			p := r.sc.Parked(a)
			if p == nil || p.Point != "prelock" {
				r.status = fmt.Sprintf("notenabled:%d:%s", n, strings.ReplaceAll(l, " ", "_"))
				return
			}
			r.slog(l)
			r.doProbe(a)
		case "early":
			if r.earlyOwner() == nil {
				r.status = fmt.Sprintf("notenabled:%d:%s", n, strings.ReplaceAll(l, " ", "_"))
				return
			}
			r.slog(l)
			r.doEarly()
			if r.aborted {
				return
			}
		case "call":
			t, _ := strconv.Atoi(tok[1])
			tk, _ := strconv.ParseInt(tok[4], 10, 64)
			if t >= len(r.callers) || r.callers[t].active != nil {
				r.status = fmt.Sprintf("notenabled:%d:%s", n, l)
				return
			}
			r.slog(l)
			r.doCall(t, callSpec{kind: tok[2], hinted: tok[3] == "1", token: tk})
		case "step":
			a := tok[1]
			if a == "rx" {
				a = r.rx
			}
			if !r.enabled(a) {
				p := r.sc.Parked(a)
				at := "running-or-blocked"
				if p != nil {
					at = p.Point
				}
				r.status = fmt.Sprintf("notenabled:%d:%s:at-%s", n, strings.ReplaceAll(l, " ", "_"), at)
				return
			}
			r.slog(l)
			r.doStep(a)
		case "srv":
			sid, _ := strconv.ParseInt(tok[1], 10, 64)
			seq, _ := strconv.Atoi(tok[2])
			b, _ := parseBody(tok[3:])
			r.slog(l)
			r.doSrv(sid, int32(seq), b)
		default:
			trouble("bad script line %q", l)
		}
	}
}

// playRandom draws the schedule while it runs: at every point one of the enabled actions.
func (r *run) playRandom(g *vc.Rng) {
	n := len(r.callers)
	left := make([]int, n) // calls still to start
	total := 0
	for t := range left {
		left[t] = 1 + g.Intn(2)
		total += left[t]
	}
	tokenBase := int64(r.idx%1000)*1000 + 10
	ntok := int64(0)
	service := g.Intn(4) // budget of unsolicited service messages
	// server msg ids as a server makes them: unix time << 32 | something, low two bits 01 (answer) or 11
	// (notification): beyond 2^32 and 2^53, bit 63 clear
	nextSid := r.t0.Unix()<<32 | int64(g.Intn(1<<20))<<8
	sid := func(answer bool) int64 {
		nextSid += 4 * int64(1+g.Intn(1000))
		nextSid &^= 3
		if answer {
			return nextSid + 1
		}
		return nextSid + 3
	}
	sseq := func(odd bool) int32 {
		v := int32(2 * g.Intn(1<<24))
		if g.Intn(4) == 0 {
			// top bit set: negative as Go int32 / int (0x80000000, 0xfffffffe; odd: 0x80000001, 0xffffffff)
			v = []int32{-2147483648, -2}[g.Intn(2)]
			r.highSeq++
		}
		if odd {
			v |= 1
		}
		return v
	}
	pGz := 10 + g.Intn(40)
	// clock regime of this schedule (see setSkew) and budget of lock probes
	mode := []string{"none", "none", "ahead1m", "ahead1h", "just4"}[g.Intn(5)]
	r.slog("skew " + mode)
	r.setSkew(mode)
	if g.Intn(8) == 0 {
		// the session's seq_no counter starts 8 below 2^31: it wraps during the run
		r.slog("seq0 2147483640")
		r.setSeq0(2147483640)
	}
	dups := g.Intn(3) // budget of answers nobody waits for (repeated / for an id never used)
	probes := 0
	if g.Intn(3) == 0 {
		probes = 1 + g.Intn(2)
	}
	for steps := 0; steps < 2000; steps++ {
		type act struct {
			kind  string
			t     int
			actor string
		}
		var acts []act
		for t, c := range r.callers {
			if c.active == nil && left[t] > 0 {
				acts = append(acts, act{kind: "call", t: t})
			}
			if r.enabled(c.name) {
				acts = append(acts, act{kind: "step", actor: c.name}, act{kind: "step", actor: c.name})
			}
		}
		if r.enabled(r.rx) {
			acts = append(acts, act{kind: "step", actor: r.rx}, act{kind: "step", actor: r.rx})
		}
		if probes > 0 && r.lock != "" && !r.broken {
			if h := r.sc.Parked(r.lock); h != nil && (h.Point == "idgen" || h.Point == "wire" || h.Point == "written") {
				for _, y := range append([]string{r.rx}, callerNames(r)...) {
					if q := r.sc.Parked(y); y != r.lock && q != nil && q.Point == "prelock" {
						acts = append(acts, act{kind: "probe", actor: y}, act{kind: "probe", actor: y}, act{kind: "probe", actor: y})
					}
				}
			}
		}
		if r.earlyOwner() != nil {
			acts = append(acts, act{kind: "early"}, act{kind: "early"}, act{kind: "early"})
		}
		var open []*callState // received by the server, not yet answered
		for _, c := range r.callers {
			if c.active != nil && c.active.frame >= 0 && !c.active.delivered {
				open = append(open, c.active)
			}
		}
		if len(open) > 0 {
			acts = append(acts, act{kind: "srv"})
		}
		if service > 0 {
			acts = append(acts, act{kind: "svc"})
		}
		if dups > 0 && r.nframes > 0 {
			acts = append(acts, act{kind: "dup"})
		}
		if len(acts) == 0 {
			break
		}
		onlySvc := true
		for _, a := range acts {
			if a.kind != "svc" && a.kind != "dup" {
				onlySvc = false
			}
		}
		a := acts[g.Intn(len(acts))]
		if onlySvc && g.Intn(2) == 0 {
			break
		}
		switch a.kind {
		case "early":
			r.slog("early rx")
			r.doEarly()
			if r.aborted {
				return
			}
		case "probe":
			probes--
			show := a.actor
			if a.actor == r.rx {
				show = "rx"
			}
			r.slog("probe " + show)
			r.doProbe(a.actor)
		case "call":
			left[a.t]--
			k := kinds[g.Intn(len(kinds))]
			if k == "obj" && g.Intn(3) == 0 {
				k = "ping" // the same request issued the way the pinger goroutine issues it
			}
			sp := callSpec{kind: k, hinted: k == "vecbare" || k == "vecobj", token: tokenBase + 3*ntok}
			if !sp.hinted && g.Intn(8) == 0 {
				sp.hinted = true // hints declared although the answer is not a vector
			}
			ntok++
			h := "0"
			if sp.hinted {
				h = "1"
			}
			r.slog(fmt.Sprintf("call %d %s %s %d", a.t, sp.kind, h, sp.token))
			r.doCall(a.t, sp)
		case "step":
			show := a.actor
			if a.actor == r.rx {
				show = "rx"
			}
			r.slog("step " + show)
			r.doStep(a.actor)
		case "svc":
			service--
			b := &bodySpec{op: []string{"pong", "ack", "newsess", "upd"}[g.Intn(4)]}
			seq := sseq(b.op == "newsess" || b.op == "upd")
			if b.op == "newsess" {
				b.salt = int64(1000 + g.Intn(1000))
			}
			s := sid(false)
			r.slog(fmt.Sprintf("srv %d %d %s", s, seq, b.script()))
			r.doSrv(s, seq, b)
		case "srv", "dup":
			// answer a random non-empty subset of the open requests, in random order ("dup": none of them)
			for i := len(open) - 1; i > 0; i-- {
				j := g.Intn(i + 1)
				open[i], open[j] = open[j], open[i]
			}
			k := 0
			if a.kind == "srv" {
				k = 1 + g.Intn(len(open))
				if k > 3 {
					k = 3
				}
			}
			mkres := func(cs *callState, token int64, kind string) *bodySpec {
				b := &bodySpec{op: "res", ref: fmt.Sprintf("@%d.%d", cs.t, cs.k), kind: kind, tok: token, gz: g.Intn(100) < pGz}
				if kind == "err" {
					b.op = "err"
				}
				return b
			}
			var bodies []*bodySpec
			for _, cs := range open[:k] {
				if !cs.spec.hinted && g.Intn(12) == 0 {
					// a Vector<> for a call that declared none: cannot be decoded, must be skipped (and acknowledged)
					bodies = append(bodies, mkres(cs, cs.spec.token+2, "vecbare"))
				}
				bodies = append(bodies, mkres(cs, cs.spec.token, cs.spec.kind))
			}
			// answers nobody waits for: a repeated result (same or different payload) for a request that has
			// been answered already - its caller may have returned long ago -, a result for an id never used
			var answered []*callState
			for _, c := range r.callers {
				for _, cs := range c.calls {
					if cs.delivered {
						answered = append(answered, cs)
					}
				}
			}
			if dups > 0 && (a.kind == "dup" || g.Intn(3) == 0) {
				dups--
				var x *bodySpec
				if len(answered) > 0 && g.Intn(4) != 0 {
					cs := answered[g.Intn(len(answered))]
					x = mkres(cs, cs.spec.token+int64(g.Intn(2)), cs.spec.kind)
				} else {
					x = &bodySpec{op: "res", ref: "2", kind: "obj", tok: 999, gz: g.Intn(4) == 0}
				}
				at := g.Intn(len(bodies) + 1) // before, between or after the wanted results
				bodies = append(bodies[:at], append([]*bodySpec{x}, bodies[at:]...)...)
			}
			if len(bodies) == 0 {
				break
			}
			var top *bodySpec
			seq := sseq(true)
			form := g.Intn(12)
			switch {
			case len(bodies) == 1 && form < 5:
				top = bodies[0]
			case len(bodies) == 1 && form < 6:
				top = &bodySpec{op: "gz", inner: bodies[0]}
			default:
				top = &bodySpec{op: "cont"}
				for _, b := range bodies {
					if g.Intn(4) == 0 {
						sb := &bodySpec{op: []string{"pong", "ack", "upd"}[g.Intn(3)]}
						top.items = append(top.items, itemSpec{sid: sid(false), seq: sseq(sb.op == "upd"), body: sb})
					}
					if g.Intn(6) == 0 {
						b = &bodySpec{op: "gz", inner: b} // the whole item gzip-packed
					}
					top.items = append(top.items, itemSpec{sid: sid(true), seq: sseq(true), body: b})
				}
				if form == 10 && len(top.items) >= 1 {
					// container nested in a container: the first items move one level down
					n := 1 + g.Intn(len(top.items))
					inner := &bodySpec{op: "cont", items: append([]itemSpec{}, top.items[:n]...)}
					top.items = append([]itemSpec{{sid: sid(true), seq: sseq(g.Intn(2) == 0), body: inner}}, top.items[n:]...)
				}
				if g.Intn(10) < 7 {
					seq &^= 1 // a container itself is usually not content-related
				}
				if form == 11 {
					top = &bodySpec{op: "gz", inner: top} // the whole container gzip-packed
				}
			}
			s := sid(true)
			r.slog(fmt.Sprintf("srv %d %d %s", s, seq, top.script()))
			r.doSrv(s, seq, top)
		}
	}
	_ = total
}

func callerNames(r *run) []string {
	var l []string
	for _, c := range r.callers {
		l = append(l, c.name)
	}
	return l
}

func main() {
	if len(os.Args) == 4 && os.Args[1] == "reqid" {
		cmdReqID(os.Args[2], os.Args[3])
		return
	}
	if len(os.Args) == 4 && os.Args[1] == "table" {
		cmdTable(os.Args[2], os.Args[3])
		return
	}
	if len(os.Args) < 5 {
		fmt.Fprintln(os.Stderr, "usage: c09 run <random N | script FILE> <out>  |  c09 worker <mode> <arg> <from> <out>")
		os.Exit(3)
	}
	switch os.Args[1] {
	case "run":
		supervise(os.Args[2], os.Args[3], os.Args[4])
	case "worker":
		from, _ := strconv.Atoi(os.Args[4])
		worker(os.Args[2], os.Args[3], from, os.Args[5])
	default:
		os.Exit(3)
	}
}

func schedules(mode, arg string, seed uint64) []script {
	if mode == "script" {
		return loadScripts(arg)
	}
	n, _ := strconv.Atoi(arg)
	g := vc.NewRng(seed ^ 0xc09c09)
	out := make([]script, n)
	for i := range out {
		out[i] = script{idx: i, ncallers: 1 + g.Intn(4), desc: "random"}
	}
	return out
}

const maxStuck = 4

const batch = 400 // schedules per worker process (parked receive loops are leaked on purpose)

func worker(mode, arg string, from int, outPath string) {
	f, err := os.OpenFile(outPath, os.O_APPEND|os.O_WRONLY|os.O_CREATE, 0o644)
	if err != nil {
		fmt.Fprintln(os.Stderr, err)
		os.Exit(3)
	}
	w := &traceWriter{f: f}
	seed := vc.Seed()
	ss := schedules(mode, arg, seed)
	nstuck := 0
	for i := from; i < len(ss) && i < from+batch; i++ {
		if runOne(ss[i], seed, w) {
			nstuck++
		}
		if nstuck >= maxStuck {
			// every stall costs a full watchdog: a tree that stalls this often is reported on what was seen so far
			w.line("Q", strconv.Itoa(i), "stopped after "+strconv.Itoa(nstuck)+" stalled schedules")
			break
		}
	}
	f.Close()
	os.RemoveAll(filepath.Join(os.TempDir(), fmt.Sprintf("verif-c09-%d", os.Getpid())))
}

func supervise(mode, arg, outPath string) {
	os.Remove(outPath)
	ss := schedules(mode, arg, vc.Seed())
	from := 0
	for from < len(ss) {
		cmd := exec.Command(os.Args[0], "worker", mode, arg, strconv.Itoa(from), outPath)
		var errb bytes.Buffer
		cmd.Stderr = &errb
		cmd.Stdout = os.Stdout
		err := cmd.Run()
		if cmd.Process != nil {
			os.RemoveAll(filepath.Join(os.TempDir(), fmt.Sprintf("verif-c09-%d", cmd.Process.Pid)))
		}
		// find how far it got
		lastB, lastE := -1, -1
		quit := false
		data, _ := os.ReadFile(outPath)
		for _, l := range strings.Split(string(data), "\n") {
			f := strings.Split(l, "\t")
			if len(f) >= 2 {
				n, _ := strconv.Atoi(f[1])
				if f[0] == "B" {
					lastB = n
				} else if f[0] == "E" {
					lastE = n
				} else if f[0] == "Q" {
					quit = true
				}
			}
		}
		if quit && err == nil {
			return
		}
		if err == nil {
			from = lastE + 1
			if lastE < 0 {
				fmt.Fprintln(os.Stderr, "worker produced nothing")
				os.Exit(3)
			}
			continue
		}
		if ee, ok := err.(*exec.ExitError); ok && ee.ExitCode() == 3 {
			fmt.Fprint(os.Stderr, errb.String())
			os.Exit(3)
		}
		if lastB <= lastE {
			fmt.Fprintln(os.Stderr, "worker died outside a schedule:", err, tail(errb.String(), 2000))
			os.Exit(3)
		}
		// the client killed the process during schedule lastB
		f, _ := os.OpenFile(outPath, os.O_APPEND|os.O_WRONLY, 0o644)
		fmt.Fprintf(f, "E\t%d\tdied:%s\n", lastB, panicClass(errb.String()))
		f.Close()
		from = lastB + 1
	}
}

func tail(s string, n int) string {
	if len(s) > n {
		return s[len(s)-n:]
	}
	return s
}

// panicClass keeps only the stable part of the panic text (no addresses, ids, values).
func panicClass(stderr string) string {
	for _, l := range strings.Split(stderr, "\n") {
		if strings.HasPrefix(l, "panic:") {
			l = strings.TrimSpace(strings.TrimPrefix(l, "panic:"))
			switch {
			case strings.Contains(l, "got vector CRC code when parsing unknown object"), strings.Contains(l, "MustParseSlicesExplicitly"), strings.Contains(l, "slices explicitly"):
				return "receive-loop-panic:vector-without-hints"
			case strings.Contains(l, "not found"):
				return "receive-loop-panic:unknown-req-msg-id"
			}
			w := strings.Fields(l)
			if len(w) > 6 {
				w = w[:6]
			}
			return "panic:" + strings.Join(w, "_")
		}
	}
	return "exit-without-panic"
}
