package main

// c09 table <tier> <out>: the response table and the hint table (internal/utils/sync_stuff.go: SyncIntObjectChan,
// SyncIntReflectTypes) as data structures, against Client/Table.v (tab_run / set_run, extracted).
//
//	Q seq idx table op key arg result     one operation of a SEQUENTIAL random sequence and what the real type returned:
//	                                      table r|h (response / hint); op add|del|get|has|keys; result: add "-",
//	                                      del/has 0|1, get <value ordinal>|none, keys sorted list ("-" = empty)
//	L run key verdict detail              CONCURRENT run: several goroutines work on one table; the history of every key
//	                                      (calls with tickets taken before and after) must be linearizable as a register
//	                                      that Add sets, Delete clears and Get / Has read; verdict ok | bad
//
// Everything derives from VERIF_SEED.

import (
	"fmt"
	"reflect"
	"sort"
	"strconv"
	"strings"
	"sync"
	"sync/atomic"

	"github.com/xelaj/mtproto/internal/encoding/tl"
	"github.com/xelaj/mtproto/internal/utils"
	vc "verifcommon"
)

var tableKeys = []int{0, 1, 4, -4, 40, 44, 1 << 31, -(1 << 31), 1<<62 + 4, -(1 << 62), 6845731298304}

func sortedKeys(k []int) string {
	sort.Ints(k)
	if len(k) == 0 {
		return "-"
	}
	l := make([]string, len(k))
	for i, x := range k {
		l[i] = strconv.Itoa(x)
	}
	return strings.Join(l, ",")
}

type histOp struct {
	inv, ret int64
	op       string // add del get has
	arg      int    // value ordinal for add
	res      int    // del/has: 0|1; get: ordinal or -1
}

// linearizable: is there an order of ops, consistent with real time (a before b if a returned before b was invoked),
// in which every result is what a register gives (state: -1 absent, or the ordinal last added)
func linearizable(ops []histOp) bool {
	n := len(ops)
	if n > 20 {
		return true // (never generated)
	}
	done := make([]bool, n)
	seen := map[string]bool{}
	var dfs func(left int, state int) bool
	dfs = func(left int, state int) bool {
		if left == 0 {
			return true
		}
		key := fmt.Sprint(done, state)
		if seen[key] {
			return false
		}
		seen[key] = true
		for i := 0; i < n; i++ {
			if done[i] {
				continue
			}
			minimal := true
			for j := 0; j < n; j++ {
				if !done[j] && j != i && ops[j].ret < ops[i].inv {
					minimal = false
					break
				}
			}
			if !minimal {
				continue
			}
			o := ops[i]
			ns, ok := state, true
			switch o.op {
			case "add":
				ns = o.arg
			case "del":
				ok = (o.res == 1) == (state >= 0)
				ns = -1
			case "has":
				ok = (o.res == 1) == (state >= 0)
			case "get":
				ok = o.res == state
			}
			if !ok {
				continue
			}
			done[i] = true
			if dfs(left-1, ns) {
				return true
			}
			done[i] = false
		}
		return false
	}
	return dfs(n, -1)
}

func cmdTable(tier, path string) {
	r := vc.NewRng(vc.Seed() ^ 0x7ab1e)
	out := vc.Create(path)
	nseq, nconc := 150, 60
	if tier == "thorough" {
		nseq, nconc = 4000, 1500
	}
	chans := make([]chan tl.Object, 6)
	for i := range chans {
		chans[i] = make(chan tl.Object)
	}
	ordinal := func(c chan tl.Object) string {
		for i, x := range chans {
			if x == c {
				return strconv.Itoa(i)
			}
		}
		return "foreign"
	}
	types := [][]reflect.Type{{reflect.TypeOf(int32(0))}, {reflect.TypeOf("")}, {reflect.TypeOf(int64(0)), reflect.TypeOf(false)}, {}, nil, {reflect.TypeOf([]byte{})}}
	tord := func(t []reflect.Type) string {
		for i, x := range types {
			if len(x) == len(t) && (len(t) == 0 && (x == nil) == (t == nil) || len(t) > 0 && &x[0] == &t[0]) {
				return strconv.Itoa(i)
			}
		}
		return "foreign"
	}
	stats := map[string]int{}
	for s := 0; s < nseq; s++ {
		rt := utils.NewSyncIntObjectChan()
		ht := utils.NewSyncIntReflectTypes()
		nkeys := 2 + r.Intn(len(tableKeys)-2)
		n := 5 + r.Intn(40)
		for i := 0; i < n; i++ {
			k := tableKeys[r.Intn(nkeys)]
			tab := "r"
			if r.Intn(3) == 0 {
				tab = "h"
			}
			op := []string{"add", "add", "del", "get", "has", "keys"}[r.Intn(6)]
			arg, res := "-", "-"
			panicked, pv := vc.Catch(func() {
				switch {
				case tab == "r" && op == "add":
					a := r.Intn(len(chans))
					arg = strconv.Itoa(a)
					rt.Add(k, chans[a])
				case tab == "r" && op == "del":
					res = b01(rt.Delete(k))
				case tab == "r" && op == "get":
					if c, ok := rt.Get(k); ok {
						res = ordinal(c)
					} else {
						res = "none"
					}
				case tab == "r" && op == "has":
					res = b01(rt.Has(k))
				case tab == "r" && op == "keys":
					res = sortedKeys(rt.Keys())
				case op == "add":
					a := r.Intn(len(types))
					arg = strconv.Itoa(a)
					ht.Add(k, types[a])
				case op == "del":
					res = b01(ht.Delete(k))
				case op == "get":
					if t, ok := ht.Get(k); ok {
						res = tord(t)
					} else {
						res = "none"
					}
				case op == "has":
					res = b01(ht.Has(k))
				default:
					res = sortedKeys(ht.Keys())
				}
			})
			if panicked {
				res = "panic:" + vc.HexS(fmt.Sprint(pv))
			}
			out.Line("Q", strconv.Itoa(s), strconv.Itoa(i), tab, op, strconv.Itoa(k), arg, res)
			stats[tab+":"+op]++
		}
	}
	// concurrent runs
	for run := 0; run < nconc; run++ {
		rt := utils.NewSyncIntObjectChan()
		keys := tableKeys[:2+r.Intn(2)]
		var clock int64
		ngo := 2 + r.Intn(3)
		per := 3 + r.Intn(3)
		hist := make([][]struct {
			key int
			h   histOp
		}, ngo)
		seeds := make([]uint64, ngo)
		for g := range seeds {
			seeds[g] = r.U64()
		}
		var wg sync.WaitGroup
		start := make(chan struct{})
		for g := 0; g < ngo; g++ {
			wg.Add(1)
			go func(g int) {
				defer wg.Done()
				rr := vc.NewRng(seeds[g])
				<-start
				for i := 0; i < per; i++ {
					k := keys[rr.Intn(len(keys))]
					h := histOp{op: []string{"add", "del", "get", "has"}[rr.Intn(4)], res: -1}
					if h.op == "add" {
						h.arg = rr.Intn(len(chans))
					}
					h.inv = atomic.AddInt64(&clock, 1)
					switch h.op {
					case "add":
						rt.Add(k, chans[h.arg])
					case "del":
						h.res = 0
						if rt.Delete(k) {
							h.res = 1
						}
					case "has":
						h.res = 0
						if rt.Has(k) {
							h.res = 1
						}
					case "get":
						if c, ok := rt.Get(k); ok {
							for j, x := range chans {
								if x == c {
									h.res = j
								}
							}
						}
					}
					if i%2 == 0 {
						_ = rt.Keys()
					}
					h.ret = atomic.AddInt64(&clock, 1)
					hist[g] = append(hist[g], struct {
						key int
						h   histOp
					}{k, h})
				}
			}(g)
		}
		close(start)
		wg.Wait()
		for _, k := range keys {
			var ops []histOp
			for g := range hist {
				for _, e := range hist[g] {
					if e.key == k {
						ops = append(ops, e.h)
					}
				}
			}
			verdict := "ok"
			if !linearizable(ops) {
				verdict = "bad"
			}
			detail := []string{}
			if verdict == "bad" {
				for _, o := range ops {
					detail = append(detail, fmt.Sprintf("%s(%d)=%d@%d-%d", o.op, o.arg, o.res, o.inv, o.ret))
				}
			}
			out.Line("L", strconv.Itoa(run), strconv.Itoa(k), verdict, strings.Join(detail, " "))
			stats["conc:"+verdict]++
			stats["conc:ops"] += len(ops)
		}
	}
	out.Close()
	for k, v := range stats {
		fmt.Printf("stat\t%s\t%d\n", k, v)
	}
}

func b01(b bool) string {
	if b {
		return "1"
	}
	return "0"
}
