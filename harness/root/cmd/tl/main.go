// Harness for the TL family (C01, C02, C13, C15).
//
//	registry <out>            descriptor file of the type universe (translator output)
//	cases <tier> <out>        encode / decode cases with the implementation's results
//	one <kind> ...            replay of a single case (see lib/props/tlcommon.py)
package main

import (
	"bufio"
	"bytes"
	"compress/gzip"
	"encoding/binary"
	"fmt"
	"io"
	"os"
	"os/exec"
	"reflect"
	"runtime/debug"
	"runtime/metrics"
	"sort"
	"strconv"
	"strings"
	"syscall"
	"time"

	"github.com/xelaj/mtproto/internal/encoding/tl"
	"github.com/xelaj/mtproto/internal/mtproto/messages"
	"github.com/xelaj/mtproto/internal/mtproto/objects"
	_ "github.com/xelaj/mtproto/telegram"
	"github.com/xelaj/mtproto/verifharness/tlh"
	vc "verifcommon"
)

var u *tlh.Universe

type encRes struct {
	class string // ok | err | panic
	data  []byte
	msg   string
}

func marshal(v interface{}) encRes {
	var r encRes
	p, val := vc.Catch(func() {
		b, err := tl.Marshal(v)
		if err != nil {
			r = encRes{class: "err", msg: err.Error()}
			return
		}
		r = encRes{class: "ok", data: b}
	})
	if p {
		return encRes{class: "panic", msg: fmt.Sprint(val)}
	}
	return r
}

func (r encRes) String() string {
	switch r.class {
	case "ok":
		return "ok:" + vc.Hex(r.data)
	case "err":
		return "err"
	}
	return "panic:" + vc.HexS(r.msg)
}

// decodeNamed: tl.Decode into a fresh value of struct tid
func decodeNamed(s *tlh.Struct, data []byte) string {
	var out string
	p, val := vc.Catch(func() {
		pv := reflect.New(s.Type)
		a0 := allocated()
		err := tl.Decode(data, pv.Interface())
		lastAlloc = allocated() - a0
		if err != nil {
			out = "err"
			return
		}
		out = "ok:" + u.Abs(pv)
	})
	if p {
		return "panic:" + vc.HexS(fmt.Sprint(val))
	}
	return out
}

func decodeUnknown(data []byte, hints []reflect.Type) string {
	var out string
	p, val := vc.Catch(func() {
		a0 := allocated()
		o, err := tl.DecodeUnknownObject(data, hints...)
		lastAlloc = allocated() - a0
		if err != nil {
			out = "err"
			return
		}
		out = "ok:" + u.Abs(reflect.ValueOf(&o).Elem())
	})
	if p {
		return "panic:" + vc.HexS(fmt.Sprint(val))
	}
	return out
}

// bytes allocated on the heap so far (cumulative), and what the last library decode call allocated
var allocSample = []metrics.Sample{{Name: "/gc/heap/allocs:bytes"}}
var lastAlloc uint64

func allocated() uint64 {
	metrics.Read(allocSample)
	if allocSample[0].Value.Kind() != metrics.KindUint64 {
		return 0
	}
	return allocSample[0].Value.Uint64()
}

// worker: decoding of hostile input runs in a child process under an address-space limit, so
// that a fatal runtime error (out of memory, stack exhaustion) or a hang is recorded as the
// result class "fatal" of that one case instead of killing the harness.
type worker struct {
	cmd *exec.Cmd
	in  io.WriteCloser
	out *bufio.Reader
}

func startWorker() *worker {
	cmd := exec.Command(os.Args[0], "decworker")
	cmd.Stderr = nil
	in, _ := cmd.StdinPipe()
	outp, _ := cmd.StdoutPipe()
	if err := cmd.Start(); err != nil {
		fmt.Fprintln(os.Stderr, "cannot start worker:", err)
		os.Exit(3)
	}
	return &worker{cmd: cmd, in: in, out: bufio.NewReaderSize(outp, 1<<20)}
}

func (w *caseWriter) viaWorker(mode, hints string, data []byte) string {
	if w.wk == nil {
		w.wk = startWorker()
	}
	fmt.Fprintf(w.wk.in, "%s\t%s\t%s\n", mode, hints, vc.Hex(data))
	type res struct {
		s   string
		err error
	}
	ch := make(chan res, 1)
	wk := w.wk
	go func() {
		line, err := wk.out.ReadString('\n')
		ch <- res{strings.TrimRight(line, "\n"), err}
	}()
	select {
	case r := <-ch:
		if r.err != nil || r.s == "" {
			wk.cmd.Process.Kill()
			wk.cmd.Wait()
			w.wk = nil
			return "fatal:process-died"
		}
		out := r.s
		if k := strings.LastIndexByte(out, '\t'); k >= 0 {
			alloc, _ := strconv.ParseUint(out[k+1:], 10, 64)
			out = out[:k]
			w.judgeAlloc(mode, hints, data, alloc)
		}
		return out
	case <-time.After(w.watchdog()):
		wk.cmd.Process.Kill()
		wk.cmd.Wait()
		w.wk = nil
		w.timeouts++
		return "fatal:timeout"
	}
}

// allocation in proportion to the input: a decode may allocate a multiple of the bytes it is given
// (a 4-byte element becomes a 16-byte string header or a small struct) plus a constant for the decoder's own
// buffers, never megabytes for a handful of bytes. gzip_packed is exempt ("apart from gzip expansion").
const allocPerByte, allocSlack = 512, 1 << 20

// watchdog: 20 s per decode; once eight decodes have hung the tree is known to be bad and the remaining
// cases get 3 s each (an endless loop is still an endless loop), so that a run on such a tree ends in minutes
func (w *caseWriter) watchdog() time.Duration {
	if w.timeouts >= 8 {
		return 3 * time.Second
	}
	return 20 * time.Second
}

func (w *caseWriter) judgeAlloc(mode, hints string, data []byte, alloc uint64) {
	w.lastAlloc = alloc
	if w.out == nil {
		return
	}
	if alloc > w.maxAlloc {
		w.maxAlloc = alloc
	}
	if bytes.Contains(data, le32(crcGzip)) {
		return
	}
	w.stat["Q:judged"]++
	if alloc > uint64(allocPerByte*len(data)+allocSlack) {
		w.stat["Q:out-of-proportion"]++
		w.out.Line("Q", w.id(), mode, hints, vc.Hex(data), strconv.FormatUint(alloc, 10))
	}
}

func decWorker() {
	// 3 GB of address space: far more than any honest decode of our inputs needs
	var lim syscall.Rlimit
	lim.Cur, lim.Max = 3<<30, 3<<30
	syscall.Setrlimit(syscall.RLIMIT_AS, &lim)
	debug.SetMaxStack(256 << 20)
	sc := bufio.NewScanner(os.Stdin)
	sc.Buffer(make([]byte, 1<<20), 1<<28)
	out := bufio.NewWriter(os.Stdout)
	// warm up: one-time initialisation of the library and of reflect must not be charged to the first case
	decodeUnknown(le32(0x997275b5), nil)
	decodeUnknown(append(append(le32(0x1cb5c415), le32(1)...), le32(5)...), []reflect.Type{reflect.TypeOf([]int32{})})
	for sc.Scan() {
		f := strings.Split(sc.Text(), "\t")
		data := vc.UnHex(f[2])
		var r string
		if f[0] == "u" {
			r = decodeUnknown(data, parseHints(f[1]))
		} else {
			tid, _ := strconv.Atoi(f[0][1:])
			r = decodeNamed(u.Structs[tid], data)
		}
		out.WriteString(r)
		out.WriteByte('\t')
		out.WriteString(strconv.FormatUint(lastAlloc, 10))
		out.WriteByte('\n')
		out.Flush()
	}
}

func parseHints(h string) []reflect.Type {
	var hints []reflect.Type
	if h == "-" || h == "" {
		return nil
	}
	for _, x := range strings.Split(h, ",") {
		if t, ok := u.TypeOfFty(x); ok {
			hints = append(hints, t)
		}
	}
	return hints
}

type caseWriter struct {
	wk   *worker
	out  *vc.Out
	n    int
	stat map[string]int
	gz   map[string]bool
	seen map[string]bool
	// results of earlier tl.Marshal calls (the very slices the library returned) and copies taken
	// at once: a result must not change when the library is used again
	kept      []keptResult
	maxAlloc  uint64
	lastAlloc uint64
	timeouts  int
}

type keptResult struct {
	what string
	data []byte
	snap []byte
}

// keep remembers a Marshal result; checkKept compares every remembered result with its snapshot
func (w *caseWriter) keep(what string, data []byte) {
	if len(w.kept) >= 8 {
		w.kept = w.kept[1:]
	}
	w.kept = append(w.kept, keptResult{what, data, append([]byte{}, data...)})
}

func (w *caseWriter) checkKept(after string) {
	for i := range w.kept {
		k := &w.kept[i]
		if !bytes.Equal(k.data, k.snap) {
			w.stat["A:overwritten"]++
			w.out.Line("A", w.id(), k.what, vc.Hex(k.snap), vc.Hex(k.data), after)
			k.snap = append([]byte{}, k.data...)
		}
	}
	w.stat["A:checks"]++
}

func (w *caseWriter) id() string { w.n++; return strconv.Itoa(w.n) }

// E-case: id, tid, gval, impl result, deterministic?, idempotence oracle
func (w *caseWriter) enc(s *tlh.Struct, pv reflect.Value, kind string) (encRes, bool) {
	g := u.Abs(pv)
	key := "E" + g
	if w.seen[key] {
		return encRes{}, false
	}
	w.seen[key] = true
	r1 := marshal(pv.Interface())
	w.checkKept(g)
	var snap1 []byte
	if r1.class == "ok" {
		snap1 = append([]byte{}, r1.data...)
	}
	r2 := marshal(pv.Interface())
	// the caller's memory behind the byte strings of the value (their spare capacity) must be as it was
	if ok, where := tlh.SpareIntact(pv); !ok {
		w.stat["G:argument-memory-written"]++
		w.out.Line("G", w.id(), g, vc.HexS(where))
	}
	w.stat["G:checks"]++
	det := "1"
	if r1.class != r2.class || !bytes.Equal(r1.data, r2.data) || !bytes.Equal(r1.data, snap1) {
		det = "0"
	}
	if r1.class == "ok" {
		w.keep(g, r1.data)
	}
	// model-independent round-trip oracle: decode by name and by id, re-encode, same bytes
	rt := "na"
	if r1.class == "ok" {
		rt = "ok"
		pv2 := reflect.New(s.Type)
		p, val := vc.Catch(func() {
			// the decoder gets its own copy of the bytes: it must neither write into it nor hand out
			// values that share memory with it (the caller may reuse its receive buffer)
			in := append([]byte{}, snap1...)
			if err := tl.Decode(in, pv2.Interface()); err != nil {
				rt = "fail:named-decode-error:" + vc.HexS(err.Error())
				return
			}
			if !bytes.Equal(in, snap1) {
				rt = "fail:decode-modified-its-input"
				return
			}
			a1 := u.Abs(pv2)
			for i := range in {
				in[i] = 0xaa
			}
			if u.Abs(pv2) != a1 {
				rt = "fail:decoded-value-shares-memory-with-input"
				return
			}
			if r3 := marshal(pv2.Interface()); r3.class != "ok" || !bytes.Equal(r3.data, snap1) {
				rt = "fail:named-reencode-differs"
				return
			}
			if s.Registered {
				in2 := append([]byte{}, snap1...)
				o, err := tl.DecodeUnknownObject(in2)
				if err == nil {
					a2 := u.Abs(reflect.ValueOf(&o).Elem())
					for i := range in2 {
						in2[i] = 0x55
					}
					if u.Abs(reflect.ValueOf(&o).Elem()) != a2 {
						rt = "fail:decoded-value-shares-memory-with-input"
						return
					}
				}
				if err != nil {
					rt = "fail:unknown-decode-error:" + vc.HexS(err.Error())
					return
				}
				if reflect.TypeOf(o) != reflect.PtrTo(s.Type) {
					rt = "fail:unknown-decode-type:" + vc.HexS(fmt.Sprintf("%T", o))
					return
				}
				if r4 := marshal(o); r4.class != "ok" || !bytes.Equal(r4.data, snap1) {
					rt = "fail:unknown-reencode-differs"
				}
			}
		})
		if p {
			rt = "fail:panic:" + vc.HexS(fmt.Sprint(val))
		}
	}
	w.stat["E:"+kind]++
	w.stat["E:class:"+r1.class]++
	w.out.Line("E", w.id(), strconv.Itoa(s.Tid), g, r1.String(), det, rt)
	return r1, true
}

// E-case for the custom-marshalled container (tid column "c"): round trip by id and by name
func (w *caseWriter) encContainer(c *objects.MessageContainer) {
	g := u.Abs(reflect.ValueOf(c))
	if w.seen["E"+g] {
		return
	}
	w.seen["E"+g] = true
	r1 := marshal(c)
	r2 := marshal(c)
	det := "1"
	if r1.class != r2.class || !bytes.Equal(r1.data, r2.data) {
		det = "0"
	}
	rt := "na"
	if r1.class == "ok" {
		rt = "ok"
		p, val := vc.Catch(func() {
			o, err := tl.DecodeUnknownObject(r1.data)
			if err != nil {
				rt = "fail:unknown-decode-error:" + vc.HexS(err.Error())
				return
			}
			if u.Abs(reflect.ValueOf(o)) != g {
				rt = "fail:unknown-decode-differs"
				return
			}
			var c2 objects.MessageContainer
			if err := tl.Decode(r1.data, &c2); err != nil {
				rt = "fail:named-decode-error:" + vc.HexS(err.Error())
				return
			}
			if u.Abs(reflect.ValueOf(&c2)) != g {
				rt = "fail:named-decode-differs"
			}
		})
		if p {
			rt = "fail:panic:" + vc.HexS(fmt.Sprint(val))
		}
	}
	w.stat["E:container"]++
	w.stat["E:class:"+r1.class]++
	w.out.Line("E", w.id(), "c", g, r1.String(), det, rt)
	if r1.class == "ok" {
		w.decU(r1.data, nil, "roundtrip")
	}
}

func ftyHints(h []reflect.Type) string {
	if len(h) == 0 {
		return "-"
	}
	s := []string{}
	for _, t := range h {
		s = append(s, u.Fty(t))
	}
	return strings.Join(s, ",")
}

// D-case: id, mode (n<tid> | u), hints, hex, impl result
func (w *caseWriter) decN(s *tlh.Struct, data []byte, kind string) {
	key := "Dn" + strconv.Itoa(s.Tid) + string(data)
	if w.seen[key] {
		return
	}
	w.seen[key] = true
	w.scanGzip(data, 0)
	r := w.viaWorker("n"+strconv.Itoa(s.Tid), "-", data)
	w.stat["D:"+kind]++
	w.stat["D:class:"+strings.SplitN(r, ":", 2)[0]]++
	w.out.Line("D", w.id(), "n"+strconv.Itoa(s.Tid), "-", vc.Hex(data), r)
}

func (w *caseWriter) decU(data []byte, hints []reflect.Type, kind string) {
	key := "Du" + ftyHints(hints) + string(data)
	if w.seen[key] {
		return
	}
	w.seen[key] = true
	w.scanGzip(data, 0)
	r := w.viaWorker("u", ftyHints(hints), data)
	w.stat["D:"+kind]++
	w.stat["D:class:"+strings.SplitN(r, ":", 2)[0]]++
	w.out.Line("D", w.id(), "u", ftyHints(hints), vc.Hex(data), r)
}

const crcGzip = 0x3072cfa1

// scanGzip records the inflate oracle for every place a gzip_packed payload could start.
// Over-approximate: every 4-aligned... no: every offset where the gzip id occurs.
func (w *caseWriter) scanGzip(data []byte, depth int) {
	if depth > 3 {
		return
	}
	for i := 0; i+4 <= len(data); i++ {
		if binary.LittleEndian.Uint32(data[i:]) != crcGzip {
			continue
		}
		payload, ok := popMessage(data[i+4:])
		if !ok {
			continue
		}
		k := string(payload)
		if w.gz[k] {
			continue
		}
		w.gz[k] = true
		out, err := inflateLikeRepo(payload)
		if err != nil {
			w.out.Line("Z", vc.Hex(payload), "err")
			continue
		}
		w.out.Line("Z", vc.Hex(payload), "ok:"+vc.Hex(out))
		w.scanGzip(out, depth+1)
	}
}

// independent re-implementation of TL byte-string reading (for locating gzip payloads only)
func popMessage(b []byte) ([]byte, bool) {
	if len(b) < 1 {
		return nil, false
	}
	n, h := int(b[0]), 1
	if b[0] == 0xfe {
		if len(b) < 4 {
			return nil, false
		}
		n, h = int(b[1])|int(b[2])<<8|int(b[3])<<16, 4
	}
	if len(b) < h+n {
		return nil, false
	}
	return b[h : h+n], true
}

// what GzipPacked.popMessageAsBytes does with the payload: reader creation may fail; read
// errors are ignored and whatever was inflated so far is used.
func inflateLikeRepo(p []byte) ([]byte, error) {
	gz, err := gzip.NewReader(bytes.NewBuffer(p))
	if err != nil {
		return nil, err
	}
	res := []byte{}
	b := make([]byte, 4096)
	for {
		n, _ := gz.Read(b)
		res = append(res, b[0:n]...)
		if n <= 0 {
			break
		}
		if len(res) > 1<<22 {
			break
		}
	}
	return res, nil
}

func gzipBytes(p []byte) []byte {
	var buf bytes.Buffer
	w := gzip.NewWriter(&buf)
	w.Write(p)
	w.Close()
	return buf.Bytes()
}

func putMessage(b []byte) []byte {
	var out []byte
	if len(b) < 254 {
		out = append([]byte{byte(len(b))}, b...)
	} else {
		out = append([]byte{0xfe, byte(len(b)), byte(len(b) >> 8), byte(len(b) >> 16)}, b...)
	}
	for len(out)%4 != 0 {
		out = append(out, 0)
	}
	return out
}

func le32(x uint32) []byte { b := make([]byte, 4); binary.LittleEndian.PutUint32(b, x); return b }

var boundaryWords = []uint32{0, 0xffffffff, 0x7fffffff, 0x80000000, 1, 2, 0x1cb5c415, 0x997275b5, 0xbc799737, 0x56730bcc, crcGzip, 0x73f1f8dc, 0xfe, 0xfeffffff, 0x00fffffe,
	0xfffffffe, 0xff0000fe, 0x000100fe, 0x010000fe} // the last four: long-form byte-string headers announcing 16 MB, 16.7 MB, 256 B, 65536 B

func (w *caseWriter) mutate(r *vc.Rng, s *tlh.Struct, data []byte, perCase int, regCrcs []uint32) {
	for k := 0; k < perCase; k++ {
		m := append([]byte{}, data...)
		kind := "mut"
		switch r.Intn(5) {
		case 0: // truncation
			if len(m) > 0 {
				m = m[:r.Intn(len(m))]
			}
			kind = "mut-trunc"
		case 1, 2: // word replaced by boundary / registered id / enum id
			if len(m) >= 4 {
				off := 4 * r.Intn(len(m)/4)
				var x uint32
				if r.Bool() {
					x = boundaryWords[r.Intn(len(boundaryWords))]
				} else {
					x = regCrcs[r.Intn(len(regCrcs))]
				}
				copy(m[off:], le32(x))
			}
			kind = "mut-word"
		case 3: // byte flip
			if len(m) > 0 {
				m[r.Intn(len(m))] ^= byte(1 << uint(r.Intn(8)))
			}
			kind = "mut-bit"
		case 4: // extension with junk
			m = append(m, r.Bytes(1+r.Intn(8))...)
			kind = "mut-ext"
		}
		if r.Bool() {
			w.decU(m, nil, kind)
		} else {
			w.decN(s, m, kind)
		}
	}
}

func main() {
	if len(os.Args) < 2 {
		fmt.Fprintln(os.Stderr, "usage: registry|cases|one")
		os.Exit(2)
	}
	if os.Args[1] == "consts" {
		constsCmd(os.Args[2], os.Args[3])
		return
	}
	u = tlh.Build(scanned)
	switch os.Args[1] {
	case "registry":
		out := vc.Create(os.Args[2])
		for _, l := range u.Lines() {
			out.Line(l)
		}
		out.Close()
	case "cases":
		cases(os.Args[2], os.Args[3])
	case "decworker":
		decWorker()
	case "one":
		one(os.Args[2:])
	}
}

func cases(tier, path string) {
	full := tier == "thorough"
	w := &caseWriter{out: vc.Create(path), stat: map[string]int{}, gz: map[string]bool{}, seen: map[string]bool{}}
	root := vc.NewRng(vc.Seed())
	g := tlh.NewGen(u, root.Fork(1))
	g.Big = true
	mr := root.Fork(2)
	regCrcs := append([]uint32{}, u.RegCrcs...)
	randomPer, mutPer, depth := 2, 3, 2
	if full {
		randomPer, mutPer, depth = 30, 20, 4
	}
	structs := append([]*tlh.Struct{}, u.Structs...)
	sort.Slice(structs, func(i, j int) bool { return structs[i].Tid < structs[j].Tid })
	for _, s := range structs {
		if !s.CrcOK {
			continue
		}
		var firstOK []byte
		emit := func(pv reflect.Value, kind string) {
			r, fresh := w.enc(s, pv, kind)
			if !fresh || r.class != "ok" {
				return
			}
			if firstOK == nil {
				firstOK = r.data
			}
			w.decN(s, r.data, "roundtrip")
			if s.Registered {
				w.decU(r.data, nil, "roundtrip")
			}
			w.mutate(mr, s, r.data, mutPer, regCrcs)
		}
		allZero, allOne := map[int]int{}, map[int]int{}
		for i, f := range s.Fields {
			if f.Tag != "none" {
				allZero[i], allOne[i] = 0, 1
			}
		}
		emit(g.Struct(s, 1, allZero), "all-absent")
		if len(allOne) > 0 {
			emit(g.Struct(s, depth, allOne), "all-present")
		}
		// every presence pattern of every shared flag group
		groups := s.Groups()
		bits := []int{}
		for b := range groups {
			bits = append(bits, b)
		}
		sort.Ints(bits)
		for _, b := range bits {
			members := groups[b]
			if len(members) < 2 {
				continue
			}
			for mask := 0; mask < 1<<uint(len(members)); mask++ {
				pat := map[int]int{}
				for i := range allZero {
					pat[i] = 0
				}
				for k, fi := range members {
					pat[fi] = (mask >> uint(k)) & 1
				}
				emit(g.Struct(s, depth, pat), "group-pattern")
			}
		}
		for k := 0; k < randomPer; k++ {
			emit(g.Struct(s, depth, nil), "random")
		}
	}
	// deep nesting: self-recursive interface chains (e.g. RichText inside RichText) far beyond
	// what random generation reaches; "nested values to any depth"
	deep := []int{40, 70, 130, 300}
	if full {
		deep = []int{40, 63, 64, 65, 70, 130, 300, 1000, 4000}
	}
	nchains := 0
	for _, s := range structs {
		if nchains >= 3 || !s.Registered {
			continue
		}
		fi := g.SelfField(s)
		if fi < 0 {
			continue
		}
		nchains++
		for _, n := range deep {
			pv := g.Chain(s, fi, n)
			r, fresh := w.enc(s, pv, "deep-chain")
			if fresh && r.class == "ok" {
				w.decN(s, r.data, "roundtrip")
				w.decU(r.data, nil, "roundtrip")
			}
		}
	}
	// msg_container: hand-written Marshaler/Unmarshaler
	for k := 0; k < 12; k++ {
		n := []int{0, 1, 2, 3, 5}[g.R.Intn(5)]
		c := make(objects.MessageContainer, n)
		for i := range c {
			body := g.R.Bytes(4 * g.R.Intn(6))
			if g.R.Intn(3) == 0 {
				body = le32(0x997275b5)
			}
			c[i] = &messages.Encrypted{MsgID: int64(g.R.U64()), SeqNo: int32(g.R.Intn(1 << 20)), Msg: body}
		}
		w.encContainer(&c)
	}
	// gzip_packed: registered constructor with a hand-written Marshaler
	{
		r := marshal(&objects.GzipPacked{Obj: &tl.PseudoTrue{}})
		w.stat["E:gzip-marshal"]++
		w.out.Line("G", w.id(), r.class, r.String())
	}
	// every enum member through the unknown-object entry (bare id on the wire)
	for _, e := range u.Enums {
		for _, m := range e.Members {
			w.decU(le32(m), nil, "enum-id")
		}
	}
	// bare vectors with hints (what rpc results of vector type look like)
	hintTypes := []reflect.Type{reflect.TypeOf([]int32{}), reflect.TypeOf([]int64{}), reflect.TypeOf([]string{}), reflect.TypeOf([][]byte{}),
		reflect.TypeOf([]bool{}), reflect.TypeOf([]float64{})}
	// the hints the generated methods really pass: slices of struct pointers and of interfaces
	// (13 of the 17 MakeRequestWithHintToDecoder callers); a few of each, chosen deterministically
	nptr, nif := 3, 3
	if full {
		nptr, nif = 12, 12
	}
	for _, s := range structs {
		if nptr > 0 && s.Registered && s.CrcOK && len(s.Fields) <= 4 && strings.HasPrefix(s.Name, "telegram.") {
			hintTypes = append(hintTypes, reflect.SliceOf(reflect.PtrTo(s.Type)))
			nptr--
		}
	}
	for _, it := range u.Ifaces {
		if nif > 0 && strings.Contains(it.String(), "telegram.") {
			if ft := u.Fty(reflect.SliceOf(it)); !strings.HasPrefix(ft, "Vbad") {
				hintTypes = append(hintTypes, reflect.SliceOf(it))
				nif--
			}
		}
	}
	for _, ht := range hintTypes {
		for k := 0; k < 6; k++ {
			v := g.Value(ht, 1, true)
			r := marshal(v.Interface())
			if r.class == "ok" {
				w.decU(r.data, []reflect.Type{ht}, "hint-vector")
				w.decU(r.data, nil, "hint-missing")
				for j := 0; j < mutPer; j++ {
					m := append([]byte{}, r.data...)
					if len(m) >= 8 && j%2 == 0 {
						copy(m[4:], le32(boundaryWords[mr.Intn(len(boundaryWords))]))
					} else if len(m) > 0 {
						m = m[:mr.Intn(len(m))]
					}
					w.decU(m, []reflect.Type{ht}, "hint-mut")
				}
			}
		}
	}
	// hostile containers and gzip
	for _, cnt := range []uint32{0, 1, 2, 0xffffffff, 0x80000000, 0x7fffffff, 0x10000000} {
		b := append(le32(0x73f1f8dc), le32(cnt)...)
		w.decU(b, nil, "container-count")
		item := append(append(append([]byte{1, 0, 0, 0, 0, 0, 0, 0}, le32(1)...), le32(4)...), le32(0x997275b5)...)
		w.decU(append(b, item...), nil, "container-count")
		for _, sz := range []uint32{0xffffffff, 0x80000000, 0x7fffffff, 5, 3} {
			it := append(append(append([]byte{1, 0, 0, 0, 0, 0, 0, 0}, le32(1)...), le32(sz)...), le32(0x997275b5)...)
			w.decU(append(append(le32(0x73f1f8dc), le32(1)...), it...), nil, "container-size")
		}
	}
	// the last two payloads inflate to more than one 4096-byte read of the unpacking loop
	bigVec := append(le32(0x1cb5c415), le32(3000)...)
	for i := 0; i < 3000; i++ {
		bigVec = append(bigVec, le32(uint32(i*2654435761))...)
	}
	for _, inner := range [][]byte{le32(0x997275b5), le32(0xbc799737), {}, {1, 2, 3}, append(le32(crcGzip), putMessage(gzipBytes(le32(0x56730bcc)))...),
		append(append(le32(0xf35c6d01), []byte{1, 0, 0, 0, 2, 0, 0, 0}...), bigVec...), bytes.Repeat(le32(0x997275b5), 1025)} {
		w.decU(append(le32(crcGzip), putMessage(gzipBytes(inner))...), nil, "gzip")
		w.decU(append(le32(crcGzip), putMessage(gzipBytes(inner))...), []reflect.Type{reflect.TypeOf([]int32{})}, "gzip")
	}
	// payloads that inflate to more than the 32 KiB window in which compress/flate hands out data (one Read never
	// returns more than that, whatever the buffer): 32768 +- 4, 36 kB, 80 kB, 256 kB of vector<int>; compressible and not
	for _, n := range []int{8189, 8190, 8191, 9000, 20000, 65536} {
		for _, noisy := range []bool{false, true} {
			v := append(le32(0x1cb5c415), le32(uint32(n))...)
			x := uint32(12345)
			for i := 0; i < n; i++ {
				if noisy {
					x = x*1664525 + 1013904223
					v = append(v, le32(x)...)
				} else {
					v = append(v, le32(uint32(7000+i))...)
				}
			}
			packed := append(le32(crcGzip), putMessage(gzipBytes(v))...)
			w.decU(packed, []reflect.Type{reflect.TypeOf([]int32{})}, "gzip-large")
			w.decU(append(append(le32(0xf35c6d01), []byte{1, 0, 0, 0, 2, 0, 0, 0}...), packed...), []reflect.Type{reflect.TypeOf([]int32{})}, "gzip-large")
			if n == 9000 {
				w.decU(packed[:len(packed)-8], []reflect.Type{reflect.TypeOf([]int32{})}, "gzip-large-cut")
			}
		}
	}
	// ... and payloads around every size constant of the implementation's own sources (a cap on the unpacked size, a chunk
	// size: boundaries no format knows), and 1 MiB / 2 MiB whatever the sources say: a vector<int> whose packed object is
	// a few bytes larger than the constant (compressible: the packed form stays small)
	{
		sizes := map[int]bool{1 << 20: true}
		top := 1<<20 + 1<<19
		if os.Getenv("VERIF_TIER") == "thorough" {
			sizes[1<<21] = true
			top = 1 << 22
		}
		for _, l := range vc.SourceLiterals(32769, int64(top), "internal/encoding/tl", "internal/mtproto/objects", "internal/mtproto/messages", "internal/transport", ".") {
			sizes[l] = true
		}
		var order []int
		for l := range sizes {
			order = append(order, l)
		}
		sort.Ints(order)
		for _, l := range order {
			n := l/4 + 1
			v := append(le32(0x1cb5c415), le32(uint32(n))...)
			for i := 0; i < n; i++ {
				v = append(v, le32(uint32(7000+i%1000))...)
			}
			packed := append(le32(crcGzip), putMessage(gzipBytes(v))...)
			w.decU(append(append(le32(0xf35c6d01), []byte{1, 0, 0, 0, 2, 0, 0, 0}...), packed...), []reflect.Type{reflect.TypeOf([]int32{})}, "gzip-huge")
		}
	}
	// gzip_packed around a bare vector: the packed message is decoded with the caller's hints
	for _, ht := range hintTypes {
		v := g.Value(ht, 1, true)
		r := marshal(v.Interface())
		if r.class == "ok" {
			packed := append(le32(crcGzip), putMessage(gzipBytes(r.data))...)
			w.decU(packed, []reflect.Type{ht}, "gzip-hint-vector")
			w.decU(packed, nil, "gzip-hint-missing")
			// rpc_result{req_msg_id, gzip_packed{vector}} as servers send large vector results
			rr := append(append(le32(0xf35c6d01), []byte{1, 0, 0, 0, 2, 0, 0, 0}...), packed...)
			w.decU(rr, []reflect.Type{ht}, "gzip-hint-vector")
		}
	}
	// a hinted vector INSIDE an interface field (rpc_result.result), intact and damaged: count larger
	// than the rest, cut element, missing count - what a hostile or truncated vector result looks like
	for _, ht := range hintTypes {
		for k := 0; k < 3; k++ {
			v := g.Value(ht, 1, true)
			r := marshal(v.Interface())
			if r.class != "ok" {
				continue
			}
			head := append(le32(0xf35c6d01), []byte{9, 0, 0, 0, 3, 0, 0, 0}...)
			rr := append(append([]byte{}, head...), r.data...)
			w.decU(rr, []reflect.Type{ht}, "hint-in-result")
			w.decU(rr, nil, "hint-in-result-missing")
			for _, cnt := range []uint32{0xffffffff, 0x7fffffff, 0x80000000, uint32(v.Len()) + 1, 1000} {
				m := append([]byte{}, rr...)
				if len(m) >= len(head)+8 {
					copy(m[len(head)+4:], le32(cnt))
					w.decU(m, []reflect.Type{ht}, "hint-in-result-mut")
				}
			}
			for _, cut := range []int{len(head) + 4, len(head) + 6, len(head) + 8, len(rr) - 1, len(rr) - 3} {
				if cut > 0 && cut < len(rr) {
					w.decU(rr[:cut], []reflect.Type{ht}, "hint-in-result-mut")
				}
			}
		}
	}
	// more (and fewer) vector ids at object positions than hints: the hint queue runs empty in the middle of the
	// data (a used-up queue is an EMPTY slice, not a nil one), or is left with unused entries at the end
	{
		rrT := reflect.TypeOf([]*objects.RpcResult{})
		i32T := reflect.TypeOf([]int32{})
		innerVec := append(append(le32(0x1cb5c415), le32(2)...), append(le32(7), le32(9)...)...)
		rr := func(id byte, body []byte) []byte {
			return append(append(le32(0xf35c6d01), []byte{id, 0, 0, 0, 2, 0, 0, 0}...), body...)
		}
		outer := append(append(le32(0x1cb5c415), le32(2)...), append(rr(1, innerVec), rr(2, innerVec)...)...)
		for _, hs := range [][]reflect.Type{{rrT}, {rrT, i32T}, {rrT, i32T, i32T}, {rrT, i32T, i32T, i32T}, {i32T}, {i32T, i32T}, nil} {
			w.decU(outer, hs, "hints-run-out")
			w.decU(rr(3, outer), hs, "hints-run-out")
			w.decU(append(le32(crcGzip), putMessage(gzipBytes(outer))...), hs, "hints-run-out")
			w.decU(rr(4, append(le32(crcGzip), putMessage(gzipBytes(outer))...)), hs, "hints-run-out")
			w.decU(rr(5, rr(6, innerVec)), hs, "hints-run-out")
			w.decU(innerVec, hs, "hints-run-out")
		}
	}
	w.decU(append(le32(crcGzip), putMessage([]byte{1, 2, 3, 4, 5})...), nil, "gzip-bad")
	gzok := gzipBytes(le32(0x997275b5))
	w.decU(append(le32(crcGzip), putMessage(gzok[:len(gzok)-6])...), nil, "gzip-truncated")
	// streams that fail with an error OTHER than (unexpected) EOF: complete data but a wrong CRC-32
	// trailer, a wrong ISIZE, a damaged deflate block, trailing garbage, a second damaged member
	for _, inner := range [][]byte{le32(0x997275b5), append(le32(0x1cb5c415), le32(0)...), bytes.Repeat([]byte{0xb5, 0x75, 0x72, 0x99}, 300)} {
		ok := gzipBytes(inner)
		var damaged [][]byte
		for _, at := range []int{len(ok) - 8, len(ok) - 5, len(ok) - 4, len(ok) - 1, 10, 11, len(ok) / 2, 3} {
			if at >= 0 && at < len(ok) {
				d := append([]byte{}, ok...)
				d[at] ^= 0x5a
				damaged = append(damaged, d)
			}
		}
		damaged = append(damaged, append(append([]byte{}, ok...), 0xde, 0xad, 0xbe, 0xef), append(append([]byte{}, ok...), ok[:len(ok)-3]...),
			append(append([]byte{}, ok...), ok...))
		for _, d := range damaged {
			packed := append(le32(crcGzip), putMessage(d)...)
			w.decU(packed, nil, "gzip-damaged")
			w.decU(append(append(le32(0xf35c6d01), []byte{1, 0, 0, 0, 2, 0, 0, 0}...), packed...), nil, "gzip-damaged")
		}
	}
	// vector counts
	for _, cnt := range []uint32{0xffffffff, 0x80000000, 0x7fffffff, 0x40000000, 1000} {
		b := append(append(le32(0x1cb5c415), le32(cnt)...), le32(5)...)
		for _, ht := range hintTypes {
			w.decU(b, []reflect.Type{ht}, "vector-count")
		}
	}
	// the 2^24 boundary of byte strings (once per run; 16 MB each)
	if s, ok := structByName("objects.MsgsStateInfo"); ok {
		for _, n := range []int{1<<24 - 1, 1 << 24, 1<<24 + 1} {
			pv := reflect.New(s.Type)
			pv.Elem().FieldByName("Info").SetBytes(make([]byte, n))
			r := marshal(pv.Interface())
			w.stat["E:big-bytes"]++
			cls := r.class
			hdr := "-"
			if r.class == "ok" {
				hdr = vc.Hex(r.data[12:16])
				// round trip by name
				pv2 := reflect.New(s.Type)
				err := tl.Decode(r.data, pv2.Interface())
				if err != nil || len(pv2.Elem().FieldByName("Info").Bytes()) != n {
					cls = "ok-but-roundtrip-fails"
				}
			}
			w.out.Line("B", w.id(), strconv.Itoa(s.Tid), strconv.Itoa(n), cls, hdr)
		}
	}
	// the same boundary for the string kind (strings and byte strings take different paths in the encoder)
	if s, ok := structByName("objects.RpcError"); ok {
		for _, n := range []int{1<<24 - 1, 1 << 24, 1<<24 + 1} {
			pv := reflect.New(s.Type)
			pv.Elem().FieldByName("ErrorMessage").SetString(strings.Repeat("x", n))
			r := marshal(pv.Interface())
			w.stat["E:big-string"]++
			cls := r.class
			hdr := "-"
			if r.class == "ok" {
				hdr = vc.Hex(r.data[8:12])
				pv2 := reflect.New(s.Type)
				err := tl.Decode(r.data, pv2.Interface())
				if err != nil || len(pv2.Elem().FieldByName("ErrorMessage").String()) != n {
					cls = "ok-but-roundtrip-fails"
				}
			}
			w.out.Line("B", w.id(), strconv.Itoa(s.Tid), strconv.Itoa(n), cls, hdr)
		}
	}
	w.checkKept("end")
	w.stat["Q:max-alloc-bytes"] = int(w.maxAlloc)
	w.out.Close()
	keys := []string{}
	for k := range w.stat {
		keys = append(keys, k)
	}
	sort.Strings(keys)
	for _, k := range keys {
		fmt.Printf("stat\t%s\t%d\n", k, w.stat[k])
	}
}

func structByName(n string) (*tlh.Struct, bool) {
	for _, s := range u.Structs {
		if s.Name == n {
			return s, true
		}
	}
	return nil, false
}

// one D <mode> <hints> <hex>  : re-run a single decode case (through the worker)
func one(a []string) {
	if len(a) >= 4 && a[0] == "D" {
		w := &caseWriter{}
		data := vc.UnHex(a[3])
		r := w.viaWorker(a[1], a[2], data)
		fmt.Printf("alloc\t%d\t%d\n", w.lastAlloc, allocPerByte*len(data)+allocSlack)
		fmt.Println(r)
		return
	}
	fmt.Println("unsupported")
}
