package main

import (
	"fmt"
	"go/ast"
	"go/parser"
	"go/token"
	"os"
	"sort"
	"strconv"
	"strings"
)

// constsCmd lists the typed integer constants of a Go package directory as the SOURCE names them:
//   const <TAB> TypeName <TAB> ConstName <TAB> value(decimal)
// Reflection cannot see constant identifiers; the identifier is what the programmer writes, so a
// constant whose name says one schema constructor and whose value is another one's id is visible
// only here.  Files ending in _test.go are skipped.
func constsCmd(dir, outPath string) {
	fset := token.NewFileSet()
	pkgs, err := parser.ParseDir(fset, dir, func(fi os.FileInfo) bool { return !strings.HasSuffix(fi.Name(), "_test.go") }, 0)
	if err != nil {
		fmt.Fprintln(os.Stderr, "parse:", err)
		os.Exit(2)
	}
	var lines []string
	for _, pkg := range pkgs {
		for _, f := range pkg.Files {
			for _, d := range f.Decls {
				gd, ok := d.(*ast.GenDecl)
				if !ok || gd.Tok != token.CONST {
					continue
				}
				for _, sp := range gd.Specs {
					vs := sp.(*ast.ValueSpec)
					id, ok := vs.Type.(*ast.Ident)
					if !ok {
						continue
					}
					for i, n := range vs.Names {
						if i >= len(vs.Values) {
							continue
						}
						lit, ok := vs.Values[i].(*ast.BasicLit)
						if !ok || lit.Kind != token.INT {
							continue
						}
						v, err := strconv.ParseUint(lit.Value, 0, 64)
						if err != nil {
							continue
						}
						lines = append(lines, fmt.Sprintf("const\t%s\t%s\t%d", id.Name, n.Name, v))
					}
				}
			}
		}
	}
	sort.Strings(lines)
	f, err := os.Create(outPath)
	if err != nil {
		fmt.Fprintln(os.Stderr, err)
		os.Exit(2)
	}
	for _, l := range lines {
		fmt.Fprintln(f, l)
	}
	f.Close()
}
