package main

import (
	"fmt"
	"go/ast"
	"go/parser"
	"go/token"
	"os"
	"reflect"
	"sort"
	"strconv"
	"strings"

	"github.com/xelaj/mtproto/telegram"
	"github.com/xelaj/mtproto/verifharness/tlh"
)

// constsCmd lists the typed integer constants of a Go package directory as the SOURCE names them:
//
//	const <TAB> TypeName <TAB> ConstName <TAB> value(decimal)
//
// Reflection cannot see constant identifiers; the identifier is what the programmer writes, so a
// constant whose name says one schema constructor and whose value is another one's id is visible
// only here.  Files ending in _test.go are skipped.
//
// Further lines, for the "member of its result type's interface" half of C13:
//
//	srciface <TAB> Name <TAB> m1,m2,...      every interface type DECLARED in the package source (its explicit methods)
//	riface   <TAB> id <TAB> pkg.Name         every interface type the reflection walk reaches: ids 0..n-1 are the registry
//	                                         translator's own (interfaces occurring as struct FIELD types, tl.Object = 0),
//	                                         followed by those that occur only as RESULT types of the methods of *telegram.Client
//	rimpl    <TAB> tid <TAB> pkg.Struct <TAB> id,id,...   reflect: *Struct implements these interfaces (tid as in `registry`)
//
// A generated interface that is the result of a method but the type of no field (contacts.Contacts,
// auth.SentCode's relatives, ...) is invisible to the registry translator; the Client's method
// signatures are where such a type is used, so that is where the walk finds it.
func constsCmd(dir, outPath string) {
	fset := token.NewFileSet()
	pkgs, err := parser.ParseDir(fset, dir, func(fi os.FileInfo) bool { return !strings.HasSuffix(fi.Name(), "_test.go") }, 0)
	if err != nil {
		fmt.Fprintln(os.Stderr, "parse:", err)
		os.Exit(2)
	}
	var lines []string
	for _, pkg := range pkgs {
		for _, f := range pkg.Files {
			for _, d := range f.Decls {
				gd, ok := d.(*ast.GenDecl)
				if !ok || gd.Tok != token.CONST {
					continue
				}
				for _, sp := range gd.Specs {
					vs := sp.(*ast.ValueSpec)
					id, ok := vs.Type.(*ast.Ident)
					if !ok {
						continue
					}
					for i, n := range vs.Names {
						if i >= len(vs.Values) {
							continue
						}
						lit, ok := vs.Values[i].(*ast.BasicLit)
						if !ok || lit.Kind != token.INT {
							continue
						}
						v, err := strconv.ParseUint(lit.Value, 0, 64)
						if err != nil {
							continue
						}
						lines = append(lines, fmt.Sprintf("const\t%s\t%s\t%d", id.Name, n.Name, v))
					}
				}
			}
			for _, d := range f.Decls {
				gd, ok := d.(*ast.GenDecl)
				if !ok || gd.Tok != token.TYPE {
					continue
				}
				for _, sp := range gd.Specs {
					ts := sp.(*ast.TypeSpec)
					it, ok := ts.Type.(*ast.InterfaceType)
					if !ok || ts.Assign.IsValid() || it.Methods == nil {
						continue
					}
					ms := []string{}
					for _, m := range it.Methods.List {
						for _, n := range m.Names {
							ms = append(ms, n.Name)
						}
					}
					if len(ms) == 0 {
						continue // `interface{}` and pure embeddings say nothing about membership
					}
					lines = append(lines, fmt.Sprintf("srciface\t%s\t%s", ts.Name.Name, strings.Join(ms, ",")))
				}
			}
		}
	}
	sort.Strings(lines)
	lines = append(lines, reflectedIfaces()...)
	f, err := os.Create(outPath)
	if err != nil {
		fmt.Fprintln(os.Stderr, err)
		os.Exit(2)
	}
	for _, l := range lines {
		fmt.Fprintln(f, l)
	}
	f.Close()
}

// reflectedIfaces: the interface types of package telegram reachable from struct fields (the
// registry translator's list, ids kept) and from the results of *telegram.Client's methods, and
// which struct of the universe implements which of them, decided by reflect.Type.Implements.
func reflectedIfaces() []string {
	u := tlh.Build(scanned)
	its := append([]reflect.Type{}, u.Ifaces...)
	seen := map[reflect.Type]bool{}
	for _, t := range its {
		seen[t] = true
	}
	extra := []reflect.Type{}
	var visit func(t reflect.Type)
	visit = func(t reflect.Type) {
		switch t.Kind() {
		case reflect.Slice, reflect.Ptr, reflect.Array:
			visit(t.Elem())
		case reflect.Interface:
			if !seen[t] && t.NumMethod() > 0 && strings.HasSuffix(t.PkgPath(), "/telegram") {
				seen[t] = true
				extra = append(extra, t)
			}
		}
	}
	ct := reflect.TypeOf((*telegram.Client)(nil))
	for i := 0; i < ct.NumMethod(); i++ {
		mt := ct.Method(i).Type
		for k := 0; k < mt.NumOut(); k++ {
			visit(mt.Out(k))
		}
		for k := 1; k < mt.NumIn(); k++ {
			visit(mt.In(k))
		}
	}
	sort.Slice(extra, func(i, j int) bool { return extra[i].Name() < extra[j].Name() })
	its = append(its, extra...)
	name := func(t reflect.Type) string {
		p := t.PkgPath()
		if i := strings.LastIndex(p, "/"); i >= 0 {
			p = p[i+1:]
		}
		return p + "." + t.Name()
	}
	out := []string{}
	for i, t := range its {
		out = append(out, fmt.Sprintf("riface\t%d\t%s", i, name(t)))
	}
	for _, s := range u.Structs {
		ids := []string{}
		pt := reflect.PtrTo(s.Type)
		for i, t := range its {
			if pt.Implements(t) {
				ids = append(ids, strconv.Itoa(i))
			}
		}
		out = append(out, fmt.Sprintf("rimpl\t%d\t%s\t%s", s.Tid, s.Name, strings.Join(ids, ",")))
	}
	return out
}
