package main

// scanned lists a value of every type with a CRC() method found by the source scan of the
// current tree. This checked-in file is the empty default; ./check replaces it at build time
// (go build -overlay) with the list generated from /repo's sources.
var scanned = []interface{}{}
