// Harness for C03 (envelope layout / key schedule) and C04 (forged packets refused, no panic).
//
//	gen C03|C04 <tier> <cases.txt> <impl.txt>   write the model requests (cases.txt, see
//	                                            coq/extract/C03/driver.ml) and, per request id, the
//	                                            implementation's answer + the direct oracle (impl.txt)
//	one open <keyhex> <pkthex>                  DeserializeEncrypted on one packet
//	one seal <key> <salt> <sid> <msgid> <seq> <ack> <body>   Encrypted.Serialize (LE hex fields)
//	one udes <datahex>                          DeserializeUnencrypted
//	one seq <via 0|1> <key1> <pkt1> <key2> <pkt2> ...   a sequence of receive calls in ONE process (via 1: through
//	                                            transport.ReadMsg): per call what it returned, the kept message printed
//	                                            again after all later calls, and the verdict (kept message / input buffer intact)
//
// The "reference" side (ref*) is an independent implementation of the MTProto 1.0 envelope
// written from the protocol description with crypto/aes + crypto/sha1 only; it shares no code
// with internal/aes_ige or internal/mtproto/messages.
package main

import (
	"time"
	"sync"
	"bytes"
	"context"
	"crypto/aes"
	"crypto/sha1"
	"encoding/binary"
	"fmt"
	"io"
	"net"
	"os"
	"sort"
	"strings"

	"github.com/xelaj/mtproto/internal/mode"
	"github.com/xelaj/mtproto/internal/mtproto/messages"
	"github.com/xelaj/mtproto/internal/transport"
	vc "verifcommon"
)

// ---------------------------------------------------------------------------------------------
// independent reference (from the spec)

func substr(b []byte, off, n int) []byte { return b[off : off+n] }

func cat(parts ...[]byte) []byte {
	var o []byte
	for _, p := range parts {
		o = append(o, p...)
	}
	return o
}

func sha(b []byte) []byte { h := sha1.Sum(b); return h[:] }

func refKeyID(key []byte) []byte    { return sha(key)[12:] }
func refMsgKey(plain []byte) []byte { return sha(plain)[4:] }

func refKIV(key, mk []byte, x int) (k, iv []byte) {
	a := sha(cat(mk, substr(key, x, 32)))
	b := sha(cat(substr(key, 32+x, 16), mk, substr(key, 48+x, 16)))
	c := sha(cat(substr(key, 64+x, 32), mk))
	d := sha(cat(mk, substr(key, 96+x, 32)))
	k = cat(substr(a, 0, 8), substr(b, 8, 12), substr(c, 4, 12))
	iv = cat(substr(a, 8, 12), substr(b, 0, 8), substr(c, 16, 4), substr(d, 0, 8))
	return
}

func xor16(a, b []byte) []byte {
	o := make([]byte, 16)
	for i := range o {
		o[i] = a[i] ^ b[i]
	}
	return o
}

// textbook IGE: c_i = E(p_i ^ c_{i-1}) ^ p_{i-1};  p_i = D(c_i ^ p_{i-1}) ^ c_{i-1}
func refIGE(key, iv, data []byte, enc bool) []byte {
	blk, err := aes.NewCipher(key)
	if err != nil {
		panic(err)
	}
	cprev, pprev := iv[:16], iv[16:32]
	out := make([]byte, 0, len(data))
	for i := 0; i+16 <= len(data); i += 16 {
		in := data[i : i+16]
		t := make([]byte, 16)
		if enc {
			blk.Encrypt(t, xor16(in, cprev))
			c := xor16(t, pprev)
			out = append(out, c...)
			cprev, pprev = c, in
		} else {
			blk.Decrypt(t, xor16(in, pprev))
			p := xor16(t, cprev)
			out = append(out, p...)
			cprev, pprev = in, p
		}
	}
	return out
}

type fields struct {
	salt, sid, msgid uint64
	seq              uint32
	body             []byte
}

func sha1KeyID(k []byte) []byte { h := sha1.Sum(k); return append([]byte{}, h[12:20]...) }
func le64(v uint64) []byte      { b := make([]byte, 8); binary.LittleEndian.PutUint64(b, v); return b }
func le32(v uint32) []byte      { b := make([]byte, 4); binary.LittleEndian.PutUint32(b, v); return b }

func (f fields) show() string {
	return "O:" + strings.Join([]string{vc.Hex(le64(f.salt)), vc.Hex(le64(f.sid)), vc.Hex(le64(f.msgid)), vc.Hex(le32(f.seq)), vc.Hex(f.body)}, ",")
}

func dirX(toServer bool) int {
	if toServer {
		return 0
	}
	return 8
}

// refSealRaw seals an arbitrary plaintext; msg_key is taken over plain[:mkLen]
func refSealRaw(toServer bool, key, plain []byte, mkLen int, pad []byte) []byte {
	mk := refMsgKey(plain[:mkLen])
	k, iv := refKIV(key, mk, dirX(toServer))
	return cat(refKeyID(key), mk, refIGE(k, iv, cat(plain, pad), true))
}

func refPlain(f fields, declared uint32) []byte {
	return cat(le64(f.salt), le64(f.sid), le64(f.msgid), le32(f.seq), le32(declared), f.body)
}

func refSeal(toServer bool, key []byte, f fields, pad []byte) []byte {
	p := refPlain(f, uint32(len(f.body)))
	return refSealRaw(toServer, key, p, len(p), pad)
}

// refOpen: what a conformant receiver accepts; nil if refused. Also returns the padding length.
func refOpen(toServer bool, key, pkt []byte) (*fields, int) {
	if len(pkt) < 24 || !bytes.Equal(pkt[:8], refKeyID(key)) {
		return nil, 0
	}
	mk, ct := pkt[8:24], pkt[24:]
	if len(ct) == 0 || len(ct)%16 != 0 {
		return nil, 0
	}
	k, iv := refKIV(key, mk, dirX(toServer))
	pt := refIGE(k, iv, ct, false)
	if len(pt) < 32 {
		return nil, 0
	}
	n := int64(binary.LittleEndian.Uint32(pt[28:32]))
	if n > int64(len(pt)-32) || int64(len(pt)-32)-n > 15 {
		return nil, 0
	}
	if !bytes.Equal(refMsgKey(pt[:32+n]), mk) {
		return nil, 0
	}
	return &fields{binary.LittleEndian.Uint64(pt[0:8]), binary.LittleEndian.Uint64(pt[8:16]),
		binary.LittleEndian.Uint64(pt[16:24]), binary.LittleEndian.Uint32(pt[24:28]), pt[32 : 32+n]}, len(pt) - 32 - int(n)
}

// ---------------------------------------------------------------------------------------------
// implementation under test

type informator struct {
	sid  int64
	seq  int32
	salt int64
	key  []byte
}

func (i *informator) GetSessionID() int64  { return i.sid }
func (i *informator) GetSeqNo() int32      { return i.seq }
func (i *informator) GetServerSalt() int64 { return i.salt }
func (i *informator) GetAuthKey() []byte   { return i.key }

func implSeal(key []byte, f fields, ack bool) string {
	var out []byte
	var err error
	p, _ := vc.Catch(func() {
		m := &messages.Encrypted{Msg: f.body, MsgID: int64(f.msgid)}
		// the AuthKeyHash field is what the client copies from its (unchecked) session hash: the
		// key id on the wire must come from the key the packet is encrypted with, whatever it holds
		switch (f.msgid>>2 ^ f.salt ^ uint64(len(f.body))) % 4 {
		case 1:
			m.AuthKeyHash = sha1KeyID(key)
		case 2:
			m.AuthKeyHash = []byte{0xde, 0xad, 0xbe, 0xef, 1, 2, 3, 4}
		case 3:
			other := append([]byte{}, key...)
			if len(other) > 0 {
				other[0] ^= 1
			}
			m.AuthKeyHash = sha1KeyID(other)
		}
		out, err = m.Serialize(&informator{int64(f.sid), int32(f.seq), int64(f.salt), key}, ack)
	})
	if p {
		return "P"
	}
	if err != nil {
		return "E"
	}
	return "O:" + vc.Hex(out)
}

func implPacket(f fields, ack bool) string {
	var out []byte
	p, _ := vc.Catch(func() {
		out = messages.VerifSerializePacket(&informator{int64(f.sid), int32(f.seq), int64(f.salt), nil}, f.body, int64(f.msgid), ack)
	})
	if p {
		return "P"
	}
	return "O:" + vc.Hex(out)
}

func showEnc(m *messages.Encrypted) string {
	return "O:" + strings.Join([]string{vc.Hex(le64(uint64(m.Salt))), vc.Hex(le64(uint64(m.SessionID))), vc.Hex(le64(uint64(m.MsgID))),
		vc.Hex(le32(uint32(m.SeqNo))), vc.Hex(m.Msg), vc.Hex(m.MsgKey)}, ",")
}

func implOpenRaw(key, pkt []byte) (cls string, m *messages.Encrypted, pv interface{}) {
	var err error
	p, v := vc.Catch(func() { m, err = messages.DeserializeEncrypted(append([]byte(nil), pkt...), key) })
	if p {
		return "P", nil, v
	}
	if err != nil || m == nil {
		return "E", nil, nil
	}
	return "O", m, nil
}

func implOpen(key, pkt []byte) string {
	c, m, _ := implOpenRaw(key, pkt)
	if c == "O" {
		return showEnc(m)
	}
	return c
}

func implUSer(msgid uint64, body []byte) string {
	var out []byte
	var err error
	p, _ := vc.Catch(func() { out, err = (&messages.Unencrypted{Msg: body, MsgID: int64(msgid)}).Serialize(nil) })
	if p {
		return "P"
	}
	if err != nil {
		return "E"
	}
	return "O:" + vc.Hex(out)
}

func implUDes(data []byte) string {
	var m *messages.Unencrypted
	var err error
	p, _ := vc.Catch(func() { m, err = messages.DeserializeUnencrypted(append([]byte(nil), data...)) })
	if p {
		return "P"
	}
	if err != nil || m == nil {
		return "E"
	}
	return "O:" + vc.Hex(le64(uint64(m.MsgID))) + "," + vc.Hex(m.Msg)
}

// The REAL transport.ReadMsg: a transport built with the exported constructor over a loopback TCP
// connection in intermediate mode; the harness plays the server and writes one frame per case
// (one connection per auth key, strictly one frame in flight).  So the dispatch on
// isPacketEncrypted, both deserialisers and ReadMsg's own msg_id parity test are the tree's code.
type rmSession struct {
	srv      net.Conn
	t        transport.Transport
	abridged bool
}

var rmSessions = map[string]*rmSession{}

func fatal(err error, what string) {
	if err != nil {
		fmt.Fprintln(os.Stderr, "harness:", what, err)
		os.Exit(3)
	}
}

func readMsgSessionMode(key []byte, abridged bool) *rmSession {
	sk := string(key) + map[bool]string{false: "|i", true: "|a"}[abridged]
	if s, ok := rmSessions[sk]; ok {
		return s
	}
	ln, err := net.Listen("tcp", "127.0.0.1:0")
	fatal(err, "listen on loopback")
	ch := make(chan net.Conn, 1)
	go func() {
		c, err := ln.Accept()
		if err != nil {
			c = nil
		}
		ch <- c
	}()
	variant, want := mode.Intermediate, []byte{0xee, 0xee, 0xee, 0xee}
	if abridged {
		variant, want = mode.Abridged, []byte{0xef}
	}
	t, err := transport.NewTransport(&informator{key: key}, transport.TCPConnConfig{Ctx: context.Background(), Host: ln.Addr().String()}, variant)
	fatal(err, "transport.NewTransport")
	srv := <-ch
	if srv == nil {
		fatal(fmt.Errorf("no connection"), "accept")
	}
	ann := make([]byte, len(want))
	_, err = io.ReadFull(srv, ann)
	fatal(err, "mode announcement")
	if !bytes.Equal(ann, want) {
		fatal(fmt.Errorf("%x", ann), "unexpected mode announcement")
	}
	ln.Close()
	s := &rmSession{srv, t, abridged}
	rmSessions[sk] = s
	return s
}

func readMsgSession(key []byte) *rmSession { return readMsgSessionMode(key, false) }

// frame as the server writes it: intermediate = 4-byte length; abridged = length/4 in one byte
// (or 0x7f + three bytes), only for lengths that are a multiple of 4
func (s *rmSession) frame(data []byte) []byte {
	if !s.abridged {
		return cat(le32(uint32(len(data))), data)
	}
	if len(data)%4 != 0 {
		fatal(fmt.Errorf("%d bytes", len(data)), "abridged frame must be a multiple of 4")
	}
	w := len(data) / 4
	if w < 0x7f {
		return cat([]byte{byte(w)}, data)
	}
	return cat([]byte{0x7f, byte(w), byte(w >> 8), byte(w >> 16)}, data)
}

func implDispatchMode(key, data []byte, abridged bool) string {
	s := readMsgSessionMode(key, abridged)
	_, err := s.srv.Write(s.frame(data))
	fatal(err, "write frame")
	var msg messages.Common
	p, _ := vc.Catch(func() { msg, err = s.t.ReadMsg() })
	if p {
		return "P"
	}
	if err != nil || msg == nil {
		return "E"
	}
	kind := "00"
	if _, ok := msg.(*messages.Encrypted); ok {
		kind = "01"
	}
	return "O:" + kind + "," + vc.Hex(le64(uint64(msg.GetMsgID()))) + "," + vc.Hex(msg.GetMsg())
}

func implDispatch(key, data []byte) string { return implDispatchMode(key, data, false) }

func implIsEnc(data []byte) string {
	if transport.VerifIsPacketEncrypted(data) {
		return "O:01"
	}
	return "O:00"
}

// ---------------------------------------------------------------------------------------------
// generation

type gen struct {
	cases, impl *vc.Out
	n           int
	stats       map[string]int
	nomodel     int
}

func (g *gen) id(kind string) string {
	g.n++
	g.stats[kind]++
	return fmt.Sprintf("%s%d", kind, g.n)
}

// emit: request for the model (withModel = false: implementation-only case), implementation answer, direct
// oracle verdict ("ok" | "bad:<why>" | "-"), class of the case, inputs needed for a replay
func (g *gen) emitM(withModel bool, id string, req []string, impl, direct, class string) {
	m := "model"
	if withModel {
		g.cases.Line(req...)
	} else {
		g.nomodel++
		m = "nomodel"
	}
	g.impl.Line(append([]string{id, m, impl, direct, class}, req...)...)
}

func (g *gen) emit(id string, req []string, impl, direct, class string) {
	g.emitM(true, id, req, impl, direct, class)
}

func flag(b bool) string {
	if b {
		return "1"
	}
	return "0"
}

func structuredKeys(r *vc.Rng, nrand int) [][]byte {
	ks := [][]byte{}
	for i := 0; i < nrand; i++ {
		ks = append(ks, r.Bytes(256))
	}
	z := make([]byte, 256)
	ff := bytes.Repeat([]byte{0xff}, 256)
	ks = append(ks, z, ff)
	for _, lead := range []int{1, 8, 40, 136} {
		k := r.Bytes(256)
		for i := 0; i < lead; i++ {
			k[i] = 0
		}
		ks = append(ks, k)
	}
	return ks
}

func randFields(r *vc.Rng, n int, serverParity bool) fields {
	f := fields{salt: r.U64(), sid: r.U64(), msgid: r.U64(), seq: uint32(r.U64()), body: r.Bytes(n)}
	switch r.Intn(6) {
	case 0:
		f.salt, f.sid = 0, 0
	case 1:
		f.salt, f.sid = ^uint64(0), 1<<63
	case 2:
		f.seq = 0x7fffffff
	case 3:
		f.seq = 0xfffffffe
	}
	if serverParity {
		f.msgid = f.msgid&^3 | uint64(1+2*r.Intn(2))
	}
	return f
}

func padFor(r *vc.Rng, n int) []byte { return r.Bytes((16 - (32+n)%16) % 16) }

// C03 case group for one (key, body length): both directions + spec cross-checks
func (g *gen) c03Case(r *vc.Rng, key []byte, n int, withModel bool) {
	kh := vc.Hex(key)
	ack := r.Bool()
	f := randFields(r, n, false)
	// client -> server
	impl := implSeal(key, f, ack)
	direct := "bad:not sealed"
	if strings.HasPrefix(impl, "O:") {
		pkt := vc.UnHex(impl[2:])
		want := f
		if ack {
			want.seq |= 1
		}
		got, pad := refOpen(true, key, pkt)
		switch {
		case got == nil:
			direct = "bad:conformant server refuses the packet"
		case got.show() != want.show():
			direct = "bad:conformant server recovers " + got.show() + " want " + want.show()
		case pad > 15:
			direct = "bad:padding " + fmt.Sprint(pad)
		case !bytes.Equal(pkt[:8], refKeyID(key)) || !bytes.Equal(pkt[8:24], refMsgKey(refPlain(want, uint32(n)))):
			direct = "bad:layout key id / msg_key"
		default:
			direct = "ok"
		}
	}
	id := g.id("seal")
	req := []string{"seal", id, kh, vc.Hex(le64(f.salt)), vc.Hex(le64(f.sid)), vc.Hex(le64(f.msgid)), vc.Hex(le32(f.seq)), flag(ack), vc.Hex(f.body)}
	g.emitM(withModel, id, req, impl, direct, fmt.Sprintf("seal len=%d", n))
	if withModel && strings.HasPrefix(impl, "O:") && r.Intn(3) == 0 {
		// the Coq spec receiver against the independent Go one, on the implementation's bytes
		id = g.id("sopen")
		pkt := vc.UnHex(impl[2:])
		ro, _ := refOpen(true, key, pkt)
		rs := "N"
		if ro != nil {
			rs = ro.show()
		}
		g.emit(id, []string{"sopen", id, "1", kh, vc.Hex(pkt)}, rs, "-", "spec-open")
	}
	// server -> client (the x = 8 schedule reads 136 key bytes; with a shorter key the client refuses everything)
	if len(key) < 136 {
		pkt := cat(refKeyID(key), r.Bytes(16), r.Bytes(16*(1+r.Intn(4))))
		impl = implOpen(key, pkt)
		id = g.id("open")
		g.emitM(withModel, id, []string{"open", id, "1", kh, vc.Hex(pkt)}, impl, mustRefuse(impl), fmt.Sprintf("open with a %d-byte key", len(key)))
		return
	}
	sp := r.Intn(8) != 0
	fs := randFields(r, n, sp)
	if !sp {
		fs.msgid = fs.msgid &^ 1 // client parity: must be refused
	}
	pad := padFor(r, n)
	pkt := refSeal(false, key, fs, pad)
	impl = implOpen(key, pkt)
	direct = "ok"
	if sp {
		if !strings.HasPrefix(impl, fs.show()+",") {
			direct = "bad:client does not recover the sealed fields " + fs.show()
		}
	} else if impl != "E" {
		direct = "bad:client-parity msg_id not refused"
	}
	id = g.id("open")
	req = []string{"open", id, "1", kh, vc.Hex(pkt)}
	g.emitM(withModel, id, req, impl, direct, fmt.Sprintf("open len=%d pad=%d parity=%v", n, len(pad), sp))
	if withModel && r.Intn(3) == 0 {
		id = g.id("sseal")
		g.emit(id, []string{"sseal", id, "0", kh, vc.Hex(le64(fs.salt)), vc.Hex(le64(fs.sid)), vc.Hex(le64(fs.msgid)), vc.Hex(le32(fs.seq)), vc.Hex(fs.body), vc.Hex(pad)},
			"O:"+vc.Hex(pkt), "-", "spec-seal")
	}
}

func (g *gen) c03Small(r *vc.Rng, n int) {
	f := randFields(r, n, r.Bool())
	ack := r.Bool()
	id := g.id("spkt")
	g.emit(id, []string{"spkt", id, vc.Hex(le64(f.salt)), vc.Hex(le64(f.sid)), vc.Hex(le64(f.msgid)), vc.Hex(le32(f.seq)), flag(ack), vc.Hex(f.body)},
		implPacket(f, ack), "-", "serializePacket")
	// unencrypted
	ser := implUSer(f.msgid, f.body)
	direct := "bad:not serialised"
	if strings.HasPrefix(ser, "O:") {
		b := vc.UnHex(ser[2:])
		if len(b) == 20+n && binary.LittleEndian.Uint64(b[:8]) == 0 && binary.LittleEndian.Uint64(b[8:16]) == f.msgid &&
			binary.LittleEndian.Uint32(b[16:20]) == uint32(n) && bytes.Equal(b[20:], f.body) {
			direct = "ok"
		} else {
			direct = "bad:unencrypted layout"
		}
		id = g.id("user")
		g.emit(id, []string{"user", id, vc.Hex(le64(f.msgid)), vc.Hex(f.body)}, ser, direct, "Unencrypted.Serialize")
		des := implUDes(b)
		direct = "ok"
		if f.msgid&1 == 1 {
			if des != "O:"+vc.Hex(le64(f.msgid))+","+vc.Hex(f.body) {
				direct = "bad:unencrypted round trip"
			}
		} else if des != "E" {
			direct = "bad:client-parity unencrypted msg_id not refused"
		}
		id = g.id("udes")
		g.emit(id, []string{"udes", id, vc.Hex(b)}, des, direct, "DeserializeUnencrypted")
		id = g.id("isenc")
		g.emit(id, []string{"isenc", id, vc.Hex(b)}, implIsEnc(b), "-", "isPacketEncrypted")
		// damaged unencrypted packets: truncation / wrong declared length / junk
		var d []byte
		switch r.Intn(3) {
		case 0:
			d = b[:r.Intn(len(b)+1)]
		case 1:
			d = append([]byte(nil), b...)
			d[16+r.Intn(4)] ^= byte(1 << uint(r.Intn(8)))
		default:
			d = r.Bytes(r.Intn(40))
		}
		id = g.id("udes")
		g.emit(id, []string{"udes", id, vc.Hex(d)}, implUDes(d), "-", "DeserializeUnencrypted damaged")
		id = g.id("isenc")
		g.emit(id, []string{"isenc", id, vc.Hex(d)}, implIsEnc(d), "-", "isPacketEncrypted")
	} else {
		id = g.id("user")
		g.emit(id, []string{"user", id, vc.Hex(le64(f.msgid)), vc.Hex(f.body)}, ser, direct, "Unencrypted.Serialize")
	}
}

func genC03(tier string, g *gen) {
	r := vc.NewRng(vc.Seed()).Fork(3)
	thorough := tier == "thorough"
	keys := structuredKeys(r, map[bool]int{false: 3, true: 12}[thorough])
	lens := []int{}
	for n := 0; n <= 300; n++ {
		if thorough || n <= 48 || n%7 == 0 || r.Intn(6) == 0 {
			lens = append(lens, n)
		}
	}
	for n := 1024 - 17; n <= 1024+17; n++ {
		if thorough || n%2 == 0 {
			lens = append(lens, n)
		}
	}
	ki := 0
	for _, n := range lens {
		reps := 1
		if thorough {
			reps = 6
		}
		for j := 0; j < reps; j++ {
			g.c03Case(r, keys[ki%len(keys)], n, true)
			ki++
		}
	}
	// every key with a few lengths
	for _, k := range keys {
		for _, n := range []int{0, 1, 23, 100} {
			g.c03Case(r, k, n, true)
		}
	}
	// around 2^16 and beyond: implementation against the independent reference only
	// (plus two model cases in the thorough tier)
	for n := 65536 - 17; n <= 65536+17; n++ {
		g.c03Case(r, keys[ki%len(keys)], n, thorough && (n == 65536-17 || n == 65536+5))
		ki++
	}
	if thorough {
		for i := 0; i < 300; i++ {
			g.c03Case(r, keys[ki%len(keys)], 300+r.Intn(70000), false)
			ki++
		}
	}
	// key lengths other than 256 that the theorems allow (>= 128 to seal, >= 136 to open)
	for _, kl := range []int{128, 135, 136, 137, 200, 255, 257, 300} {
		k := r.Bytes(kl)
		for _, n := range []int{0, 5, 16, 77} {
			g.c03Case(r, k, n, true)
		}
	}
	// a key the send path can not use: Encrypted.Serialize panics in generateAESIGE at HEAD exactly as
	// the model says (seal_client = Panic); not a C03 case (the property is about 256-byte keys), only
	// kept in step with the model
	for _, kl := range []int{0, 1, 127} {
		k := r.Bytes(kl)
		f := randFields(r, 8, false)
		id := g.id("sealshort")
		g.emit(id, []string{"seal", id, vc.Hex(k), vc.Hex(le64(f.salt)), vc.Hex(le64(f.sid)), vc.Hex(le64(f.msgid)), vc.Hex(le32(f.seq)), "0", vc.Hex(f.body)},
			implSeal(k, f, false), "-", fmt.Sprintf("Encrypted.Serialize with a %d-byte key", kl))
	}
	// model-compared bodies beyond 1041 bytes, up to and around 2^16
	big := []int{1042, 4111, 65519}
	if thorough {
		big = []int{1042, 2000, 4111, 9999, 20000, 40001, 65519, 65520, 65536, 70000}
	}
	for _, n := range big {
		g.c03Case(r, keys[ki%len(keys)], n, true)
		ki++
	}
	// isPacketEncrypted: first 8 bytes with 1..7 leading zero bytes, 4 zero bytes followed by non-zero ones
	// (a Uint32(data[:4]) != 0 regression), 4 non-zero then zero, zero id followed by non-zero data, short data
	for z := 0; z <= 8; z++ {
		for rep := 0; rep < 2; rep++ {
			d := r.Bytes(8 + r.Intn(40))
			for i := 0; i < z; i++ {
				d[i] = 0
			}
			for i := z; i < 8; i++ {
				d[i] |= 1
			}
			if rep == 1 && z < 8 { // exactly one non-zero byte, at position z
				for i := z + 1; i < 8; i++ {
					d[i] = 0
				}
			}
			id := g.id("isenc")
			g.emit(id, []string{"isenc", id, vc.Hex(d)}, implIsEnc(d), map[bool]string{true: "ok", false: "bad:isPacketEncrypted wrong on a key id with leading zero bytes"}[implIsEnc(d) == map[bool]string{true: "O:00", false: "O:01"}[z == 8]],
				fmt.Sprintf("isPacketEncrypted, %d leading zero bytes", z))
		}
	}
	for _, d := range [][]byte{{1, 2, 3, 4, 0, 0, 0, 0, 9}, {0, 0, 0, 0, 0, 0, 0, 1}, {0, 0, 0, 0, 0, 0, 0, 0, 1, 1}, {1, 1, 1, 1, 1, 1, 1}, {}} {
		id := g.id("isenc")
		g.emit(id, []string{"isenc", id, vc.Hex(d)}, implIsEnc(d), "-", "isPacketEncrypted corner")
	}
	nsmall := 60
	if thorough {
		nsmall = 1500
	}
	for i := 0; i < nsmall; i++ {
		n := i
		if i > 40 {
			n = r.Intn(400)
		}
		g.c03Small(r, n)
	}
	g.parityCases(r, keys, map[bool]int{false: 1, true: 8}[thorough])
	g.seqCases(r, keys, map[bool]int{false: 3, true: 18}[thorough], false)
	g.viaTransportCases(r, keys)
	// the real ReadMsg on valid packets of both kinds
	for i := 0; i < 24; i++ {
		k := keys[i%len(keys)]
		ab := i%4 >= 2
		f := randFields(r, 4*r.Intn(16), true)
		if i%8 == 7 {
			f.body = r.Bytes(4 * (130 + r.Intn(200))) // abridged: length needs the 0x7f + 3 byte form
		}
		var data []byte
		want := "O:00,"
		if i%2 == 0 {
			data = refSeal(false, k, f, padFor(r, len(f.body)))
			want = "O:01,"
		} else {
			data = vc.UnHex(implUSer(f.msgid, f.body)[2:])
		}
		want += vc.Hex(le64(f.msgid)) + "," + vc.Hex(f.body)
		impl := implDispatchMode(k, data, ab)
		direct := "ok"
		if impl != want {
			direct = "bad:valid server message refused or altered"
		}
		id := g.id("disp")
		g.emit(id, []string{"disp", id, vc.Hex(k), vc.Hex(data)}, impl, direct, "ReadMsg, "+map[bool]string{false: "intermediate", true: "abridged"}[ab]+" mode")
	}
}

// msg_ids over the whole int64 range: bit 63 clear / set (negative as int64, i.e. unixtime >= 2^31),
// extreme and realistic upper halves, each with the four low-bit patterns 00 01 10 11, through
// DeserializeEncrypted (valid packet sealed by the reference server), DeserializeUnencrypted and the
// real transport.ReadMsg on both kinds of packet.  Oracle: a message iff the low bits are 01 or 11.
func refUnencrypted(msgid uint64, body []byte) []byte {
	return cat(make([]byte, 8), le64(msgid), le32(uint32(len(body))), body)
}

func (g *gen) parityCases(r *vc.Rng, keys [][]byte, reps int) {
	for rep := 0; rep < reps; rep++ {
		bases := []uint64{0, 1 << 63, ^uint64(0), 1<<63 - 1, 0x9e3779b9<<32 | r.U64()>>32, 0x65a1b2c3<<32 | r.U64()>>32,
			r.U64() | 1<<63, r.U64() &^ (1 << 63), 0xffffffff<<32 | r.U64()>>32, 1<<63 | r.U64()>>40}
		for bi, base := range bases {
			for low := uint64(0); low < 4; low++ {
				key := keys[(bi+rep)%len(keys)]
				kh := vc.Hex(key)
				f := randFields(r, 4*r.Intn(10), true) // multiple of 4: also framed in abridged mode
				f.msgid = base&^3 | low
				server := low&1 == 1
				what := fmt.Sprintf("msg_id %016x (bit63=%d low bits %02b)", f.msgid, f.msgid>>63, low)
				pkt := refSeal(false, key, f, padFor(r, len(f.body)))
				un := refUnencrypted(f.msgid, f.body)
				verdict := func(impl, want string) string {
					switch {
					case impl == "P":
						return "bad:panic"
					case server && impl != want:
						return "bad:valid server message refused or altered"
					case !server && impl != "E":
						return "bad:client-parity msg_id accepted"
					}
					return "ok"
				}
				impl := implOpen(key, pkt)
				id := g.id("parity")
				g.emit(id, []string{"open", id, "1", kh, vc.Hex(pkt)}, impl, verdict(impl, f.show()+","+vc.Hex(pkt[8:24])), "DeserializeEncrypted, "+what)
				impl = implUDes(un)
				id = g.id("parity")
				g.emit(id, []string{"udes", id, vc.Hex(un)}, impl, verdict(impl, "O:"+vc.Hex(le64(f.msgid))+","+vc.Hex(f.body)), "DeserializeUnencrypted, "+what)
				for _, ab := range []bool{false, true} {
					mname := map[bool]string{false: "intermediate", true: "abridged"}[ab]
					impl = implDispatchMode(key, pkt, ab)
					id = g.id("parity")
					g.emit(id, []string{"disp", id, kh, vc.Hex(pkt)}, impl, verdict(impl, "O:01,"+vc.Hex(le64(f.msgid))+","+vc.Hex(f.body)), "ReadMsg "+mname+" (encrypted), "+what)
					impl = implDispatchMode(key, un, ab)
					id = g.id("parity")
					g.emit(id, []string{"disp", id, kh, vc.Hex(un)}, impl, verdict(impl, "O:00,"+vc.Hex(le64(f.msgid))+","+vc.Hex(f.body)), "ReadMsg "+mname+" (unencrypted), "+what)
				}
			}
		}
	}
}

// ---------------------------------------------------------------------------------------------
// SEQUENCES in one process: every message returned by the receive path is KEPT (the returned
// object itself, no copy) together with the very buffer that was handed in; after each later call
// all kept messages are printed again and all input buffers compared with their originals.
// The result of call n must be a function of call n's arguments only, the returned body must
// not alias memory that later calls write to, and the deserialiser must not modify its input.
type seqStep struct {
	key, pkt []byte
	what     string
	want     string // "E", or the fields the step must yield (prefix of the answer), or "" = model decides
}

type seqKept struct {
	first     string        // what the call returned, printed at once
	show      func() string // prints the kept object again
	buf, orig []byte
	changedAt int // first later step after which the kept message printed differently (-1: never)
	inputAt   int // first step after which the input buffer differed from the original (-1: never)
}

func seqRun(steps []seqStep, viaReadMsg bool) []*seqKept {
	kept := make([]*seqKept, len(steps))
	for i, st := range steps {
		k := &seqKept{changedAt: -1, inputAt: -1, orig: append([]byte(nil), st.pkt...), buf: append([]byte(nil), st.pkt...)}
		if viaReadMsg {
			s := readMsgSession(st.key)
			_, err := s.srv.Write(s.frame(k.buf))
			fatal(err, "write frame")
			var msg messages.Common
			p, _ := vc.Catch(func() { msg, err = s.t.ReadMsg() })
			switch {
			case p:
				k.first = "P"
			case err != nil || msg == nil:
				k.first = "E"
			default:
				kind := "00"
				if _, ok := msg.(*messages.Encrypted); ok {
					kind = "01"
				}
				k.show = func() string {
					return "O:" + kind + "," + vc.Hex(le64(uint64(msg.GetMsgID()))) + "," + vc.Hex(msg.GetMsg())
				}
			}
		} else {
			var m *messages.Encrypted
			var err error
			p, _ := vc.Catch(func() { m, err = messages.DeserializeEncrypted(k.buf, st.key) })
			switch {
			case p:
				k.first = "P"
			case err != nil || m == nil:
				k.first = "E"
			default:
				k.show = func() string { return showEnc(m) }
			}
		}
		if k.show != nil {
			k.first = k.show()
		}
		kept[i] = k
		for j := 0; j <= i; j++ {
			kj := kept[j]
			if kj.show != nil && kj.changedAt < 0 && kj.show() != kj.first {
				kj.changedAt = i
			}
			if kj.inputAt < 0 && !bytes.Equal(kj.buf, kj.orig) {
				kj.inputAt = i
			}
		}
	}
	return kept
}

func seqVerdict(k *seqKept, i int) string {
	switch {
	case k.changedAt >= 0:
		return fmt.Sprintf("bad:message returned by call %d changed after call %d of the same process", i, k.changedAt)
	case k.inputAt >= 0:
		return fmt.Sprintf("bad:input packet buffer of call %d modified (seen after call %d)", i, k.inputAt)
	}
	return "ok"
}

func (g *gen) runSeq(name string, steps []seqStep, viaReadMsg bool) {
	kept := seqRun(steps, viaReadMsg)
	tail := []string{"SEQ", "", flag(viaReadMsg)}
	for _, st := range steps {
		tail = append(tail, vc.Hex(st.key), vc.Hex(st.pkt))
	}
	row := func(kind string, i int, impl, direct, class string) {
		id := g.id(kind)
		st := steps[i]
		req := []string{"open", id, "1", vc.Hex(st.key), vc.Hex(st.pkt)}
		if viaReadMsg {
			req = []string{"disp", id, vc.Hex(st.key), vc.Hex(st.pkt)}
		}
		g.cases.Line(req...)
		t := append([]string(nil), tail...)
		t[1] = fmt.Sprint(i)
		g.impl.Line(append(append([]string{id, "model", impl, direct, class}, req...), t...)...)
	}
	for i, st := range steps {
		k := kept[i]
		direct := "ok"
		switch {
		case k.first == "P":
			direct = "bad:panic"
		case st.want == "E" && k.first != "E":
			direct = "bad:damaged packet accepted"
		case st.want != "" && st.want != "E" && !strings.HasPrefix(k.first, st.want):
			direct = "bad:valid packet not opened to the sealed fields"
		}
		row("seq", i, k.first, direct, fmt.Sprintf("%s step %d/%d: %s", name, i, len(steps), st.what))
	}
	// the kept messages, printed again after the whole sequence: must still be what the model
	// (a function of that call's arguments alone) says, and what the call returned at the time
	for i, st := range steps {
		k := kept[i]
		if k.show == nil && k.inputAt < 0 {
			continue
		}
		now := k.first
		if k.show != nil {
			now = k.show()
		}
		row("seqkeep", i, now, seqVerdict(k, i), fmt.Sprintf("%s: message of step %d (%s) re-read after %d later packets", name, i, st.what, len(steps)-1-i))
	}
}

func (g *gen) seqCases(r *vc.Rng, keys [][]byte, reps int, withForged bool) {
	for rep := 0; rep < reps; rep++ {
		key := keys[rep%len(keys)]
		other := keys[(rep+1)%len(keys)]
		n := []int{40, 200, 16, 100, 7, 300}[rep%6]
		valid := func(k []byte, n int, what string, readMsg bool) seqStep {
			f := randFields(r, n, true)
			want := f.show() + ","
			if readMsg {
				want = "O:01," + vc.Hex(le64(f.msgid)) + "," + vc.Hex(f.body)
			}
			return seqStep{k, refSeal(false, k, f, padFor(r, n)), fmt.Sprintf("%s, body %d", what, n), want}
		}
		for _, via := range []bool{false, true} {
			if via && rep%3 != 0 {
				continue
			}
			a := valid(key, n, "valid A", via)
			steps := []seqStep{a, valid(key, n/2, "valid smaller", via), valid(key, n, "valid equal size", via)}
			if withForged {
				d := append([]byte(nil), a.pkt...)
				d[len(d)-3] ^= 0x10
				steps = append(steps, seqStep{key, d, "A with one ciphertext bit flipped (refused)", "E"})
				steps = append(steps, seqStep{key, cat(refKeyID(key), r.Bytes(16), r.Bytes(len(a.pkt)-24)), "garbage of A's size under the right key id (refused)", "E"})
			}
			steps = append(steps, valid(other, n, "valid equal size under another auth key", via))
			steps = append(steps, valid(key, 2*n+48, "valid larger", via))
			if withForged {
				steps = append(steps, seqStep{key, cat(refKeyID(key), r.Bytes(16), r.Bytes(16*(len(a.pkt)/16+3))), "larger garbage under the right key id (refused)", "E"})
			}
			steps = append(steps, valid(key, n/3, "valid smaller again", via), valid(key, 2*n+48, "valid equal to the largest", via))
			name := fmt.Sprintf("sequence %d via DeserializeEncrypted", rep)
			if via {
				name = fmt.Sprintf("sequence %d via ReadMsg", rep)
			}
			g.runSeq(name, steps, via)
		}
	}
}

// ---------------------------------------------------------------------------------------------
// C03: the way a message really leaves the client - transport.WriteMsg on a connection

type mutInformator struct {
	mu              sync.Mutex
	sid, salt       int64
	seq             int32
	key             []byte
}

func (i *mutInformator) GetSessionID() int64  { i.mu.Lock(); defer i.mu.Unlock(); return i.sid }
func (i *mutInformator) GetSeqNo() int32      { i.mu.Lock(); defer i.mu.Unlock(); return i.seq }
func (i *mutInformator) GetServerSalt() int64 { i.mu.Lock(); defer i.mu.Unlock(); return i.salt }
func (i *mutInformator) GetAuthKey() []byte   { i.mu.Lock(); defer i.mu.Unlock(); return i.key }

// viaTransportCases: messages of both kinds handed to transport.WriteMsg (what sendPacket does) and read back from the
// peer's end of the connection: the frame's payload must be what Serialize gives for exactly these fields - the msg_id
// the caller chose included, whatever it is (0, 4, -4, the extremes: the property quantifies over all of them) - and a
// conformant server must recover them.  Same request kinds as the direct cases ("seal", "user"), so the model answers too.
func (g *gen) viaTransportCases(r *vc.Rng, keys [][]byte) {
	inf := &mutInformator{}
	ln, err := net.Listen("tcp", "127.0.0.1:0")
	fatal(err, "listen on loopback")
	ch := make(chan net.Conn, 1)
	go func() {
		cn, err := ln.Accept()
		if err != nil {
			cn = nil
		}
		ch <- cn
	}()
	t, err := transport.NewTransport(inf, transport.TCPConnConfig{Ctx: context.Background(), Host: ln.Addr().String()}, mode.Intermediate)
	fatal(err, "transport.NewTransport")
	srv := <-ch
	if srv == nil {
		fatal(fmt.Errorf("no connection"), "accept")
	}
	ann := make([]byte, 4)
	_, err = io.ReadFull(srv, ann)
	fatal(err, "mode announcement")
	ln.Close()
	defer srv.Close()
	readFrame := func() []byte {
		srv.SetReadDeadline(time.Now().Add(5 * time.Second))
		hdr := make([]byte, 4)
		if _, err := io.ReadFull(srv, hdr); err != nil {
			return nil
		}
		b := make([]byte, binary.LittleEndian.Uint32(hdr))
		if _, err := io.ReadFull(srv, b); err != nil {
			return nil
		}
		return b
	}
	ids := []uint64{0, 4, 0xfffffffffffffffc, 0x5f5e0ff000000004, 1 << 63, 0x7ffffffffffffffc, 8, r.U64() &^ 3, r.U64() &^ 3}
	for i, id := range ids {
		key := keys[i%len(keys)]
		if len(key) < 136 {
			continue
		}
		n := []int{0, 4, 17, 40, 100}[i%5]
		f := randFields(r, n, false)
		f.msgid = id
		ack := i%2 == 0
		inf.mu.Lock()
		inf.sid, inf.salt, inf.seq, inf.key = int64(f.sid), int64(f.salt), int32(f.seq), key
		inf.mu.Unlock()
		// encrypted
		msg := &messages.Encrypted{Msg: f.body, MsgID: int64(f.msgid)}
		impl := "E"
		p, _ := vc.Catch(func() { err = t.WriteMsg(msg, ack) })
		switch {
		case p:
			impl = "P"
		case err == nil:
			if b := readFrame(); b != nil {
				impl = "O:" + vc.Hex(b)
			}
		}
		direct := "bad:not sealed"
		if strings.HasPrefix(impl, "O:") {
			want := f
			if ack {
				want.seq |= 1
			}
			got, pad := refOpen(true, key, vc.UnHex(impl[2:]))
			switch {
			case got == nil:
				direct = "bad:conformant server refuses the packet"
			case got.show() != want.show():
				direct = "bad:conformant server recovers " + got.show() + " want " + want.show()
			case pad > 15:
				direct = "bad:padding " + fmt.Sprint(pad)
			case int64(f.msgid) != msg.MsgID:
				direct = "bad:WriteMsg changed the caller's message"
			default:
				direct = "ok"
			}
		}
		cid := g.id("sealvia")
		g.emit(cid, []string{"seal", cid, vc.Hex(key), vc.Hex(le64(f.salt)), vc.Hex(le64(f.sid)), vc.Hex(le64(f.msgid)), vc.Hex(le32(f.seq)), flag(ack), vc.Hex(f.body)},
			impl, direct, fmt.Sprintf("seal through transport.WriteMsg, msg_id %#x", f.msgid))
		// unencrypted
		um := &messages.Unencrypted{Msg: f.body, MsgID: int64(f.msgid)}
		impl = "E"
		p, _ = vc.Catch(func() { err = t.WriteMsg(um, false) })
		switch {
		case p:
			impl = "P"
		case err == nil:
			if b := readFrame(); b != nil {
				impl = "O:" + vc.Hex(b)
			}
		}
		direct = "ok"
		if impl != "O:"+vc.Hex(refUnencrypted(f.msgid, f.body)) {
			direct = "bad:unencrypted frame is not 8 zero bytes, the msg_id, the length and the body"
		}
		cid = g.id("uservia")
		g.emit(cid, []string{"user", cid, vc.Hex(le64(f.msgid)), vc.Hex(f.body)}, impl, direct,
			fmt.Sprintf("Unencrypted through transport.WriteMsg, msg_id %#x", f.msgid))
	}
}

// ---------------------------------------------------------------------------------------------
// C04: the session's key changes while the reader waits

type lockedInformator struct {
	mu  sync.Mutex
	key []byte
}

func (i *lockedInformator) GetSessionID() int64  { return 0 }
func (i *lockedInformator) GetSeqNo() int32      { return 0 }
func (i *lockedInformator) GetServerSalt() int64 { return 0 }
func (i *lockedInformator) GetAuthKey() []byte {
	i.mu.Lock()
	defer i.mu.Unlock()
	return i.key
}
func (i *lockedInformator) set(k []byte) { i.mu.Lock(); i.key = k; i.mu.Unlock() }

// rekeyCases: transport.ReadMsg is called while the session holds key k1 and blocks in the socket; the session's key is
// dropped (an abandoned key exchange) or replaced by k2; THEN a packet arrives.  What decides is the key the session
// holds when the packet is there: a packet sealed under k1 is refused, one sealed under the new key is opened.  Each
// case is also given to the model as a plain dispatch under the key in force at arrival.
func (g *gen) rekeyCases(r *vc.Rng, keys [][]byte) {
	for ci, c := range []struct {
		what     string
		k1, k2   []byte
		sealWith int // 1: the old key, 2: the new one
	}{
		{"key dropped while the reader waits, packet under the old key", keys[0], nil, 1},
		{"key replaced while the reader waits, packet under the old key", keys[0], keys[1%len(keys)], 1},
		{"key replaced while the reader waits, packet under the new key", keys[0], keys[1%len(keys)], 2},
		{"key installed while the reader waits (none before), packet under it", nil, keys[0], 2},
		{"key unchanged (control)", keys[0], keys[0], 1},
	} {
		inf := &lockedInformator{key: c.k1}
		ln, err := net.Listen("tcp", "127.0.0.1:0")
		fatal(err, "listen on loopback")
		ch := make(chan net.Conn, 1)
		go func() {
			cn, err := ln.Accept()
			if err != nil {
				cn = nil
			}
			ch <- cn
		}()
		t, err := transport.NewTransport(inf, transport.TCPConnConfig{Ctx: context.Background(), Host: ln.Addr().String()}, mode.Intermediate)
		fatal(err, "transport.NewTransport")
		srv := <-ch
		if srv == nil {
			fatal(fmt.Errorf("no connection"), "accept")
		}
		ann := make([]byte, 4)
		_, err = io.ReadFull(srv, ann)
		fatal(err, "mode announcement")
		ln.Close()
		type res struct {
			msg messages.Common
			err error
			p   bool
		}
		done := make(chan res, 1)
		go func() {
			var x res
			x.p, _ = vc.Catch(func() { x.msg, x.err = t.ReadMsg() })
			done <- x
		}()
		time.Sleep(60 * time.Millisecond) // the reader is in its blocking read by now (it has nothing to read)
		inf.set(c.k2)
		sealKey := c.k1
		if c.sealWith == 2 {
			sealKey = c.k2
		}
		f := randFields(r, 40+8*ci, true)
		pkt := refSeal(false, sealKey, f, padFor(r, 40+8*ci))
		_, err = srv.Write(cat(le32(uint32(len(pkt))), pkt))
		fatal(err, "write frame")
		impl := "hang"
		select {
		case x := <-done:
			switch {
			case x.p:
				impl = "P"
			case x.err != nil || x.msg == nil:
				impl = "E"
			default:
				kind := "00"
				if _, ok := x.msg.(*messages.Encrypted); ok {
					kind = "01"
				}
				impl = "O:" + kind + "," + vc.Hex(le64(uint64(x.msg.GetMsgID()))) + "," + vc.Hex(x.msg.GetMsg())
			}
		case <-time.After(5 * time.Second):
		}
		srv.Close()
		now := c.k2
		accept := now != nil && bytes.Equal(now, sealKey)
		direct := "ok"
		switch {
		case impl == "P":
			direct = "bad:panic"
		case impl == "hang":
			direct = "bad:ReadMsg does not return"
		case !accept && impl != "E":
			direct = "bad:a packet sealed under a key the session no longer holds was opened"
		case accept && impl != "O:01,"+vc.Hex(le64(f.msgid))+","+vc.Hex(f.body):
			direct = "bad:valid packet under the session's current key not opened to the sealed fields"
		}
		id := g.id("rekey")
		req := []string{"disp", id, vc.Hex(now), vc.Hex(pkt)}
		g.cases.Line(req...)
		g.impl.Line(append([]string{id, "model", impl, direct, "rekey: " + c.what}, req...)...)
	}
}

// ---------------------------------------------------------------------------------------------
// C04: fault enumeration

// direct oracle for a damaged packet: must be refused (not accepted, not a panic)
func mustRefuse(impl string) string {
	switch {
	case impl == "P":
		return "bad:panic"
	case impl == "E":
		return "ok"
	}
	return "bad:damaged packet accepted"
}

// A flipped bit that only disturbs padding bytes of the plaintext leaves msg_key's input intact
// (MTProto 1.0 does not authenticate the padding): e.g. a flip in a last cipher block that holds
// one body byte and 15 padding bytes survives with probability 1/256.  Such a packet is accepted
// with exactly the sealed message - conforming ("never a different message"); it is counted apart.
func refuseOrSame(f fields, mk []byte) func(string) string {
	return func(impl string) string {
		switch {
		case impl == "P":
			return "bad:panic"
		case impl == "E":
			return "ok"
		case impl == f.show()+","+vc.Hex(mk):
			return "ok:same-message"
		}
		return "bad:damaged packet accepted with a different message"
	}
}

func noPanic(impl string) string {
	if impl == "P" {
		return "bad:panic"
	}
	return "ok"
}

func (g *gen) c04Open(kind string, kh string, key, pkt []byte, oracle func(string) string, class string, withModel bool) {
	impl := implOpen(key, pkt)
	id := g.id(kind)
	g.emitM(withModel, id, []string{"open", id, "1", kh, vc.Hex(pkt)}, impl, oracle(impl), class)
	g.stats["impl-"+impl[:1]]++
}

// Alterations of auth_key_id (bytes 0..8) and msg_key (bytes 8..24) that touch SEVERAL bytes in
// ways in which xor / sum / and / or style folds of the byte differences cancel: the same bit
// flipped in two and in four bytes (all pairs of key-id bytes; x every bit in the thorough tier),
// two bytes swapped, two bytes xor-ed with the same mask, three bytes with masks a, b, a^b,
// +d / -d on two bytes, every byte xor ff / xor 01, byte rotations, reversal, all-zero, all-ff,
// and the same mask applied to a key-id byte and a msg_key byte.  All must be refused.
func (g *gen) headerAlterations(r *vc.Rng, kh string, key, pkt []byte, thorough bool, use func(int) bool) {
	emit := func(d []byte, what string) {
		if bytes.Equal(d, pkt) {
			return
		}
		g.c04Open("hdr", kh, key, d, mustRefuse, fmt.Sprintf("%s (%d-byte packet)", what, len(pkt)), use(1))
	}
	alt := func(f func(d []byte)) []byte {
		d := append([]byte(nil), pkt...)
		f(d)
		return d
	}
	regions := []struct {
		name   string
		off, n int
	}{{"auth_key_id", 0, 8}, {"msg_key", 8, 16}}
	for _, rg := range regions {
		o, n := rg.off, rg.n
		for i := 0; i < n; i++ {
			for j := i + 1; j < n; j++ {
				bits := []int{r.Intn(8)}
				if rg.name == "auth_key_id" {
					bits = []int{0, 1 + r.Intn(7)}
					if thorough {
						bits = []int{0, 1, 2, 3, 4, 5, 6, 7}
					}
				} else if !thorough && r.Intn(10) != 0 {
					continue
				}
				for _, b := range bits {
					emit(alt(func(d []byte) { d[o+i] ^= 1 << uint(b); d[o+j] ^= 1 << uint(b) }),
						fmt.Sprintf("%s: bit %d flipped in bytes %d and %d", rg.name, b, i, j))
				}
			}
		}
		k4 := 4
		if thorough {
			k4 = 24
		}
		for t := 0; t < k4; t++ {
			b := r.Intn(8)
			idx := map[int]bool{}
			for len(idx) < 4 {
				idx[r.Intn(n)] = true
			}
			emit(alt(func(d []byte) {
				for i := range idx {
					d[o+i] ^= 1 << uint(b)
				}
			}), fmt.Sprintf("%s: bit %d flipped in four bytes", rg.name, b))
			i, j, k := r.Intn(n), r.Intn(n), r.Intn(n)
			if i == j || j == k || i == k {
				continue
			}
			m1, m2 := byte(1+r.Intn(255)), byte(1+r.Intn(255))
			emit(alt(func(d []byte) { d[o+i], d[o+j] = d[o+j], d[o+i] }), fmt.Sprintf("%s: bytes %d and %d swapped", rg.name, i, j))
			emit(alt(func(d []byte) { d[o+i] ^= m1; d[o+j] ^= m1 }), fmt.Sprintf("%s: bytes %d and %d xor %02x", rg.name, i, j, m1))
			emit(alt(func(d []byte) { d[o+i] ^= m1; d[o+j] ^= m2; d[o+k] ^= m1 ^ m2 }), fmt.Sprintf("%s: bytes %d,%d,%d xor %02x,%02x,%02x", rg.name, i, j, k, m1, m2, m1^m2))
			emit(alt(func(d []byte) { d[o+i] += m1; d[o+j] -= m1 }), fmt.Sprintf("%s: byte %d +%d, byte %d -%d", rg.name, i, m1, j, m1))
		}
		for _, m := range []byte{0xff, 0x01, 0x80, 0x55} {
			emit(alt(func(d []byte) {
				for i := 0; i < n; i++ {
					d[o+i] ^= m
				}
			}), fmt.Sprintf("%s: every byte xor %02x", rg.name, m))
		}
		for rot := 1; rot < n; rot++ {
			if !thorough && rot != 1 && rot != n/2 && rot != n-1 {
				continue
			}
			emit(alt(func(d []byte) {
				for i := 0; i < n; i++ {
					d[o+i] = pkt[o+(i+rot)%n]
				}
			}), fmt.Sprintf("%s: bytes rotated by %d", rg.name, rot))
		}
		emit(alt(func(d []byte) {
			for i := 0; i < n; i++ {
				d[o+i] = pkt[o+n-1-i]
			}
		}), rg.name+": bytes reversed")
		emit(alt(func(d []byte) {
			for i := 0; i < n; i++ {
				d[o+i] = 0
			}
		}), rg.name+": all zero")
		emit(alt(func(d []byte) {
			for i := 0; i < n; i++ {
				d[o+i] = 0xff
			}
		}), rg.name+": all ff")
	}
	for t := 0; t < 3; t++ {
		i, j, m := r.Intn(8), 8+r.Intn(16), byte(1+r.Intn(255))
		emit(alt(func(d []byte) { d[i] ^= m; d[j] ^= m }), fmt.Sprintf("key-id byte %d and msg_key byte %d xor %02x", i, j-8, m))
	}
}

// A key holder's packet sealed under a WRONG msg_key: key and iv are derived from mk' (the right
// msg_key with one byte / bit changed) and the plaintext is encrypted with them, so the client's
// decryption yields the intact plaintext and ONLY the final comparison of SHA1(..)[4:20] with the
// carried msg_key can refuse it - a comparison of a part of msg_key would let it through.
func wrongMsgKeyPackets(key []byte, f fields, pad []byte) (pkts [][]byte, what []string) {
	plain := refPlain(f, uint32(len(f.body)))
	right := refMsgKey(plain)
	for _, v := range []struct {
		i int
		m byte
		s string
	}{{15, 0x01, "last bit"}, {15, 0xa5, "last byte"}, {15, 0x80, "top bit of the last byte"}, {0, 0x01, "first byte, low bit"}, {0, 0xff, "first byte"},
		{7, 0x10, "byte 7"}, {8, 0x01, "byte 8"}, {14, 0x40, "byte 14"}} {
		mk := append([]byte(nil), right...)
		mk[v.i] ^= v.m
		k, iv := refKIV(key, mk, 8)
		pkts = append(pkts, cat(refKeyID(key), mk, refIGE(k, iv, cat(plain, pad), true)))
		what = append(what, "sealed under msg_key differing in its "+v.s)
	}
	return
}

// a key holder's packet whose header declares length L (msg_key made to match whenever the slice exists)
func declaredLenPacket(key []byte, f fields, pad []byte, L int64) (pkt []byte, consistent bool) {
	plain := refPlain(f, uint32(int32(L)))
	mkLen := len(plain)
	all := cat(plain, pad)
	if 32+L >= 0 && 32+L <= int64(len(all)) {
		mkLen = int(32 + L)
	}
	mk := refMsgKey(all[:mkLen])
	k, iv := refKIV(key, mk, 8)
	return cat(refKeyID(key), mk, refIGE(k, iv, all, true)), L >= 0 && L <= int64(len(all)-32)
}

// lengths that a truncating cast (uint8 / uint16 / 24 bit / int32 sign) would confuse with the true one
func congruentLengths(n int) []int64 {
	t := int64(n)
	return []int64{t + 1<<8, t - 1<<8, t + 1<<16, t - 1<<16, t + 1<<24, t - 1<<24, t + 1<<31 - 1<<32, t%256 + 1<<8, t + 3<<16, t + 1<<30}
}

// damaged / forged packets near and above 2^16 bytes; the implementation sees all of them, the
// model the first [nmodel]
func (g *gen) c04Big(r *vc.Rng, key []byte, n int, nmodel int) {
	kh := vc.Hex(key)
	f := randFields(r, n, true)
	pad := padFor(r, n)
	pkt := refSeal(false, key, f, pad)
	use := func() bool { nmodel--; return nmodel >= 0 }
	g.c04Open("big", kh, key, pkt, func(impl string) string {
		if strings.HasPrefix(impl, f.show()+",") {
			return "ok"
		}
		return "bad:valid packet not opened to the sealed fields"
	}, fmt.Sprintf("valid, %d-byte packet", len(pkt)), use())
	bits := []int{0, 63, 64, 191, 192, 24*8 + 5, len(pkt)*4 + 3, 8 * 65535, 8*65536 + 1, 8*(len(pkt)-16) + 7, 8*len(pkt) - 1}
	for i := 0; i < 16; i++ {
		bits = append(bits, r.Intn(8*len(pkt)))
	}
	for _, b := range bits {
		if b >= 8*len(pkt) {
			continue
		}
		d := append([]byte(nil), pkt...)
		d[b/8] ^= 1 << uint(b%8)
		oracle := refuseOrSame(f, pkt[8:24])
		if b < 64 {
			oracle = mustRefuse
		}
		g.c04Open("big", kh, key, d, oracle, fmt.Sprintf("bitflip bit=%d of %d-byte packet", b, len(pkt)), use())
	}
	for _, l := range []int{len(pkt) - 1, len(pkt) - 16, len(pkt) - 32, 65536 + 24, 65536 + 23, 65536, 65535, 65536 - 8, 40000, 40, 39, 24} {
		if l < len(pkt) && l >= 0 {
			g.c04Open("big", kh, key, pkt[:l], mustRefuse, fmt.Sprintf("truncated to %d of %d", l, len(pkt)), use())
		}
	}
	ls := append(congruentLengths(n), int64(n)-1, int64(n)+1, int64(n)+int64(len(pad))+1, int64(n)%65536, -1)
	for _, L := range ls {
		if L == int64(n) {
			continue
		}
		d, ok := declaredLenPacket(key, f, pad, L)
		oracle := mustRefuse
		if ok {
			oracle = noPanic
		}
		g.c04Open("big", kh, key, d, oracle, fmt.Sprintf("declared length %d, real %d", L, n), use())
	}
	ps, ws := wrongMsgKeyPackets(key, f, pad)
	for i := range ps[:3] {
		g.c04Open("big", kh, key, ps[i], mustRefuse, ws[i]+fmt.Sprintf(" (%d-byte packet)", len(pkt)), use())
	}
	g.c04Open("big", kh, key, cat(refKeyID(key), r.Bytes(16), r.Bytes(len(pkt)-24)), mustRefuse, fmt.Sprintf("garbage of %d bytes under the right key id", len(pkt)), use())
}

// receive path with absent / short / odd-length auth keys: packets that carry exactly that key's id
// (SHA1(key)[12:20]; for the empty key that id is public), through DeserializeEncrypted and through the
// real transport.ReadMsg.  Below 136 bytes the client must refuse (it can not derive the x = 8 schedule);
// from 136 bytes on a packet sealed by the reference server must open.
func (g *gen) shortKeyCases(r *vc.Rng) {
	for _, kl := range []int{0, 1, 127, 128, 135, 136, 137, 255, 257} {
		var key []byte
		if kl > 0 {
			key = r.Bytes(kl)
		}
		kh := vc.Hex(key)
		var pkts [][]byte
		var wants []string
		for _, cl := range []int{16, 32, 48, 64} {
			pkts = append(pkts, cat(refKeyID(key), r.Bytes(16), r.Bytes(cl)))
			wants = append(wants, "E")
		}
		pkts = append(pkts, cat(refKeyID(key), r.Bytes(16), r.Bytes(37)), cat(refKeyID(key), r.Bytes(3)), refKeyID(key))
		wants = append(wants, "E", "E", "E")
		if kl >= 136 {
			for _, n := range []int{0, 12, 40} {
				f := randFields(r, n, true)
				pkts = append(pkts, refSeal(false, key, f, padFor(r, n)))
				wants = append(wants, f.show())
			}
		}
		for i, pkt := range pkts {
			what := fmt.Sprintf("%d-byte auth key, %d-byte packet carrying that key's id", kl, len(pkt))
			oracle := mustRefuse
			if wants[i] != "E" {
				w := wants[i]
				oracle = func(impl string) string {
					if strings.HasPrefix(impl, w+",") {
						return "ok"
					}
					return "bad:valid packet not opened to the sealed fields"
				}
			}
			g.c04Open("keylen", kh, key, pkt, oracle, "DeserializeEncrypted, "+what, true)
			if len(pkt) == 4 {
				continue
			}
			for _, ab := range []bool{false, true} {
				if ab && len(pkt)%4 != 0 {
					continue
				}
				impl := implDispatchMode(key, pkt, ab)
				direct := "ok"
				switch {
				case impl == "P":
					direct = "bad:panic"
				case wants[i] == "E" && impl != "E":
					direct = "bad:damaged packet accepted"
				case wants[i] != "E" && !strings.HasPrefix(impl, "O:01,"):
					direct = "bad:valid server message refused or altered"
				}
				id := g.id("keylen")
				g.emit(id, []string{"disp", id, kh, vc.Hex(pkt)}, impl, direct, "ReadMsg "+map[bool]string{false: "intermediate", true: "abridged"}[ab]+", "+what)
			}
		}
	}
}

func (g *gen) c04Base(r *vc.Rng, key []byte, n int, tier string, modelBudget *int) {
	kh := vc.Hex(key)
	thorough := tier == "thorough"
	f := randFields(r, n, true)
	pad := padFor(r, n)
	pkt := refSeal(false, key, f, pad)
	use := func(int) bool { // model-side volume is bounded (Gallina SHA-1 ~0.6 ms per block); the implementation sees everything
		if *modelBudget > 0 {
			*modelBudget--
			return true
		}
		return false
	}
	blocks := len(pkt)/16 + 2
	// the untouched packet is accepted with exactly the sealed fields
	g.c04Open("valid", kh, key, pkt, func(impl string) string {
		if strings.HasPrefix(impl, f.show()+",") {
			return "ok"
		}
		return "bad:valid packet not opened to the sealed fields"
	}, fmt.Sprintf("valid len=%d", n), use(blocks))
	// multi-byte alterations of the authenticated header fields
	g.headerAlterations(r, kh, key, pkt, thorough, use)
	// auth_key_id differing in ONE byte while the key is right
	for i := 0; i < 8; i++ {
		for _, m := range []byte{1, 0xff, byte(1 + r.Intn(254))} {
			d := append([]byte(nil), pkt...)
			d[i] += m
			g.c04Open("keyid", kh, key, d, mustRefuse, fmt.Sprintf("auth_key_id byte %d + %d (%d-byte packet)", i, m, len(pkt)), use(1))
		}
	}
	// re-sealed under a wrong msg_key: only the final msg_key comparison can refuse these
	wp, ww := wrongMsgKeyPackets(key, f, pad)
	for i := range wp {
		g.c04Open("wrongmk", kh, key, wp[i], mustRefuse, fmt.Sprintf("%s (%d-byte packet)", ww[i], len(pkt)), use(blocks))
	}
	// every single-bit flip (all bits for packets <= 128 bytes, sampled above)
	nbits := len(pkt) * 8
	for b := 0; b < nbits; b++ {
		if len(pkt) > 128 && !(thorough && len(pkt) <= 512) && r.Intn(nbits) >= 384 {
			continue
		}
		d := append([]byte(nil), pkt...)
		d[b/8] ^= 1 << uint(b%8)
		cost := blocks
		if b < 64 {
			cost = 1
		}
		oracle := refuseOrSame(f, pkt[8:24])
		if b < 64 { // a flipped key id must be REFUSED: a message only if the key id matches
			oracle = mustRefuse
		}
		g.c04Open("flip", kh, key, d, oracle, fmt.Sprintf("bitflip bit=%d of %d-byte packet", b, len(pkt)), use(cost))
	}
	// every truncation length, including shorter than the 24-byte header
	for l := 0; l < len(pkt); l++ {
		if len(pkt) > 160 && l > 72 && l%16 > 1 && r.Intn(8) != 0 {
			continue
		}
		g.c04Open("trunc", kh, key, pkt[:l], mustRefuse, fmt.Sprintf("truncated to %d of %d", l, len(pkt)), use(l/16+2))
	}
	// appended bytes: only "no panic"; a whole extra block leaves msg_key's input unchanged
	for _, extra := range []int{1, 15, 16, 17, 32} {
		g.c04Open("ext", kh, key, cat(pkt, r.Bytes(extra)), noPanic, fmt.Sprintf("extended by %d", extra), use(blocks+2))
	}
	// re-keyed: sealed under another key / wrong key id / right key id over a foreign body
	other := r.Bytes(256)
	g.c04Open("rekey", kh, key, refSeal(false, other, f, pad), mustRefuse, "sealed with another key", use(1))
	g.c04Open("rekey", kh, key, cat(refKeyID(key), refSeal(false, other, f, pad)[8:]), mustRefuse, "another key under the right key id", use(blocks))
	otherDir := refSeal(true, key, f, pad)
	k0, iv0 := refKIV(key, otherDir[8:24], 0)
	k8, iv8 := refKIV(key, otherDir[8:24], 8)
	if bytes.Equal(k0, k8) && bytes.Equal(iv0, iv8) { // constant keys: both directions share the schedule
		g.c04Open("rekey", kh, key, otherDir, noPanic, "sealed for the other direction (x=0), degenerate key", use(blocks))
	} else {
		g.c04Open("rekey", kh, key, otherDir, mustRefuse, "sealed for the other direction (x=0)", use(blocks))
	}
	// key holder declaring an inconsistent length: header says L, msg_key made to match whenever possible
	total := 32 + n + len(pad)
	decl := []int64{-1 << 31, -1, 1<<31 - 1, -32, -33, int64(total - 32), int64(total-32) + 1, int64(total), int64(total) + 32, int64(total) + 33}
	for d := int64(n) - 33; d <= int64(n)+33; d++ {
		decl = append(decl, d)
	}
	decl = append(decl, congruentLengths(n)...)
	for _, L := range decl {
		if L == int64(n) {
			continue
		}
		d, consistent := declaredLenPacket(key, f, pad, L)
		oracle := mustRefuse
		if consistent {
			oracle = noPanic // consistent with the data the holder sealed: outcome decided by the model
		}
		g.c04Open("len", kh, key, d, oracle, fmt.Sprintf("declared length %d, real %d, decrypted %d", L, n, total), use(blocks))
	}
}

func genC04(tier string, g *gen) {
	r := vc.NewRng(vc.Seed()).Fork(4)
	thorough := tier == "thorough"
	keys := structuredKeys(r, 2)
	budget := 2700 // number of cases also run through the extracted model
	lens := []int{0, 40, 200, 3, 16, 72}
	if thorough {
		budget = 40000
		lens = []int{0, 40, 200, 3, 16, 72, 1, 8, 15, 17, 24, 56, 71, 73, 120, 440, 1000}
	}
	use := func() bool {
		if budget > 0 {
			budget--
			return true
		}
		return false
	}
	g.shortKeyCases(r)
	key := keys[0]
	kh := vc.Hex(key)
	// the header alone and fragments of it under the right key id
	for l := 0; l <= 40; l++ {
		g.c04Open("short", kh, key, cat(refKeyID(key), r.Bytes(l)), mustRefuse, fmt.Sprintf("key id + %d bytes", l), use())
	}
	for l := 0; l < 8; l++ {
		g.c04Open("short", kh, key, refKeyID(key)[:l], mustRefuse, fmt.Sprintf("%d bytes of the key id", l), use())
	}
	// block-aligned (and some unaligned) garbage under the right key id
	ng := 150
	if thorough {
		ng = 3000
	}
	for i := 0; i < ng; i++ {
		k := keys[i%len(keys)]
		n := 16 * (1 + r.Intn(10))
		if i%10 == 9 {
			n += 1 + r.Intn(15)
		}
		body := r.Bytes(n)
		if i%4 == 0 && n >= 32 { // garbage ciphertext cannot steer the plaintext: also seal random plaintexts (random header fields)
			plain := r.Bytes(n - n%16)
			mk := refMsgKey(plain)
			kk, iv := refKIV(k, mk, 8)
			body = refIGE(kk, iv, plain, true)
			g.c04Open("junk", vc.Hex(k), k, cat(refKeyID(k), mk, body), mustRefuseUnlessConsistent(plain), "sealed random plaintext", use())
			continue
		}
		g.c04Open("garb", vc.Hex(k), k, cat(refKeyID(k), r.Bytes(16), body), mustRefuse, fmt.Sprintf("garbage %d bytes under the right key id", n), use())
	}
	// the other entry points never panic either
	for i := 0; i < 80; i++ {
		var d []byte
		switch i % 4 {
		case 0:
			d = r.Bytes(r.Intn(48))
		case 1:
			d = cat(make([]byte, 8), r.Bytes(r.Intn(40)))
		case 2:
			d = cat(refKeyID(key), r.Bytes(r.Intn(60)))
		default:
			f := randFields(r, r.Intn(30), true)
			d = vc.UnHex(implUSer(f.msgid, f.body)[2:])
			if len(d) > 0 {
				d = d[:r.Intn(len(d)+1)]
			}
		}
		impl := implDispatch(key, d)
		id := g.id("disp")
		g.emit(id, []string{"disp", id, kh, vc.Hex(d)}, impl, noPanic(impl), "ReadMsg dispatch on damaged data")
		impl = implUDes(d)
		id = g.id("udes")
		g.emit(id, []string{"udes", id, vc.Hex(d)}, impl, noPanic(impl), "DeserializeUnencrypted on damaged data")
	}
	g.parityCases(r, keys, map[bool]int{false: 1, true: 8}[thorough])
	g.seqCases(r, keys, map[bool]int{false: 4, true: 24}[thorough], true)
	g.rekeyCases(r, keys)
	// near and above 2^16 bytes
	g.c04Big(r, keys[1], 65536-56-3, map[bool]int{false: 3, true: 80}[thorough])
	g.c04Big(r, keys[0], 70001, map[bool]int{false: 1, true: 80}[thorough])
	// fault enumeration around valid packets; the model follows as far as its budget reaches
	for i, n := range lens {
		g.c04Base(r, keys[i%len(keys)], n, tier, &budget)
	}
}

// a sealed random plaintext is acceptable only if its random header happens to be consistent
func mustRefuseUnlessConsistent(plain []byte) func(string) string {
	return func(impl string) string {
		if impl == "P" {
			return "bad:panic"
		}
		if impl == "E" {
			return "ok"
		}
		n := int64(int32(binary.LittleEndian.Uint32(plain[28:32])))
		if n < 0 || n > int64(len(plain)-32) || plain[16]&1 == 0 {
			return "bad:inconsistent plaintext accepted"
		}
		return "ok"
	}
}

// ---------------------------------------------------------------------------------------------

func main() {
	devnull, _ := os.OpenFile(os.DevNull, os.O_WRONLY, 0)
	realOut := os.Stdout
	os.Stdout = devnull // DeserializeUnencrypted prints debugging text to stdout
	if len(os.Args) < 2 {
		fmt.Fprintln(os.Stderr, "usage: c03 gen|one ...")
		os.Exit(2)
	}
	switch os.Args[1] {
	case "gen":
		prop, tier := os.Args[2], os.Args[3]
		g := &gen{cases: vc.Create(os.Args[4]), impl: vc.Create(os.Args[5]), stats: map[string]int{}}
		if prop == "C03" {
			genC03(tier, g)
		} else {
			genC04(tier, g)
		}
		g.cases.Close()
		g.impl.Close()
		ks := []string{}
		for k := range g.stats {
			ks = append(ks, k)
		}
		sort.Strings(ks)
		for _, k := range ks {
			fmt.Fprintf(realOut, "stat\t%s\t%d\n", k, g.stats[k])
		}
		fmt.Fprintf(realOut, "stat\timplementation-only\t%d\n", g.nomodel)
	case "one":
		switch os.Args[2] {
		case "open":
			c, m, pv := implOpenRaw(vc.UnHex(os.Args[3]), vc.UnHex(os.Args[4]))
			if c == "O" {
				fmt.Fprintln(realOut, showEnc(m))
			} else if c == "P" {
				fmt.Fprintf(realOut, "P\t%v\n", pv)
			} else {
				fmt.Fprintln(realOut, c)
			}
		case "seal":
			a := os.Args[3:]
			f := fields{binary.LittleEndian.Uint64(vc.UnHex(a[1])), binary.LittleEndian.Uint64(vc.UnHex(a[2])), binary.LittleEndian.Uint64(vc.UnHex(a[3])),
				binary.LittleEndian.Uint32(vc.UnHex(a[4])), vc.UnHex(a[6])}
			key := vc.UnHex(a[0])
			res := implSeal(key, f, a[5] == "1")
			fmt.Fprintln(realOut, res)
			if strings.HasPrefix(res, "O:") {
				if got, pad := refOpen(true, key, vc.UnHex(res[2:])); got != nil {
					fmt.Fprintf(realOut, "server\t%s\tpad=%d\n", got.show(), pad)
				} else {
					fmt.Fprintln(realOut, "server\tN")
				}
			}
		case "udes":
			fmt.Fprintln(realOut, implUDes(vc.UnHex(os.Args[3])))
		case "user":
			fmt.Fprintln(realOut, implUSer(binary.LittleEndian.Uint64(vc.UnHex(os.Args[3])), vc.UnHex(os.Args[4])))
		case "disp":
			fmt.Fprintln(realOut, implDispatch(vc.UnHex(os.Args[3]), vc.UnHex(os.Args[4])))
		case "spkt":
			a := os.Args[3:]
			f := fields{binary.LittleEndian.Uint64(vc.UnHex(a[0])), binary.LittleEndian.Uint64(vc.UnHex(a[1])), binary.LittleEndian.Uint64(vc.UnHex(a[2])),
				binary.LittleEndian.Uint32(vc.UnHex(a[3])), vc.UnHex(a[5])}
			fmt.Fprintln(realOut, implPacket(f, a[4] == "1"))
		case "isenc":
			fmt.Fprintln(realOut, implIsEnc(vc.UnHex(os.Args[3])))
		case "seq": // one seq <via 0|1> <key1> <pkt1> <key2> <pkt2> ...
			var steps []seqStep
			for a := os.Args[4:]; len(a) >= 2; a = a[2:] {
				steps = append(steps, seqStep{key: vc.UnHex(a[0]), pkt: vc.UnHex(a[1])})
			}
			for i, k := range seqRun(steps, os.Args[3] == "1") {
				now := k.first
				if k.show != nil {
					now = k.show()
				}
				fmt.Fprintf(realOut, "step\t%d\t%s\t%s\t%s\n", i, k.first, now, seqVerdict(k, i))
			}
		}
	}
}
