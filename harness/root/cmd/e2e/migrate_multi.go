package main

// C17, live half, several callers migrated at once.
//
// Right after login a client has several requests in flight; the data centre answers all of
// them with PHONE_MIGRATE_X.  Here K callers (2 or 3) have each sent their own request
// (auth.sendCode with their own phone number) to A; optionally one more caller has sent a
// ping.  A answers everything in ONE container - rpc_error PHONE_MIGRATE_X for every migrating
// caller, the pong for the ping caller in between - so that the receive loop hands all answers
// out before anybody has closed the connection.  Every migrating caller then runs
// tryToProcessErr -> Reconnect on the same client concurrently.
//
// Data centres 2 and 12 live at server B, 3 at server C (same key and salt as A).  The new
// data centres answer a repeated request with a value naming the server and the phone number
// of the request, so a caller can tell its own answer from somebody else's.
//
// Property: every call is repeated at the data centre it was sent to and returns its own
// answer; the ping caller gets its pong; nobody dies or hangs; a later request completes.
//
// Orders (spec field sched):
//	free      the callers race
//	overlap   every caller is held after its Disconnect until all have disconnected, then all connect
//	serial    caller i+1 is held before its Disconnect until caller i's repeated request has
//	          arrived at its new data centre (the later caller closes the connection the
//	          earlier one just used); answers are given when all requests have arrived
//	serialans same, but every repeated request is answered at once (callers finish one by one)
//
// Answers are written on the connection the server accepted last (refserver.Send); with
// "hold" they are written only after every repeated request has arrived (or nothing has moved
// for a while) - a server cannot be kinder than that short of re-sending.
//
// Times: every wait is for an event (frame seen by a server, goroutine parked at a yield
// point) with the watchdog as upper bound; the few settle pauses are multiplied by
// VERIF_TIMESCALE (the confirmation re-run of a hang uses 4).

import (
	"fmt"
	"os"
	"path/filepath"
	"strconv"
	"strings"
	"sync"
	"time"

	"github.com/xelaj/mtproto"
	"github.com/xelaj/mtproto/internal/mtproto/objects"
	"github.com/xelaj/mtproto/telegram"
	"github.com/xelaj/mtproto/verifharness/refserver"
	vc "verifcommon"
)

var tscale = 1

func init() {
	if v := os.Getenv("VERIF_TIMESCALE"); v != "" {
		if n, err := strconv.Atoi(v); err == nil && n > 0 {
			tscale = n
		}
	}
}

// laterBound: once a call has hung the verdict of the scenario is settled; what follows is only recorded
func laterBound(anyHang bool) time.Duration {
	if anyHang {
		return watchdog / 4
	}
	return watchdog
}

func minDur(a, b time.Duration) time.Duration {
	if a < b {
		return a
	}
	return b
}

// pause is a settle pause, scaled for confirmation runs.
func pause(d time.Duration) { time.Sleep(d * time.Duration(tscale)) }

type seenReq struct {
	server string
	phone  string
	msgID  int64
	conn   int
	redir  bool // answered with another PHONE_MIGRATE_X at once (a request redirected twice)
}

type multiGate struct {
	mu       sync.Mutex
	sched    string
	k        int
	callers  map[int64]int // goroutine id -> caller index
	parked   int
	allThere chan struct{}   // overlap: closed when every caller is parked at "reconnecting"
	opened   bool            // allThere is closed
	turn     []chan struct{} // serial: turn[r] closed when the r-th caller to arrive at its Disconnect may go on
	rankOf   []int           // serial: caller index of the r-th arrival
	reached  []bool
}

// rankCaller returns the caller that arrived r-th at "reconnect" (-1: nobody yet)
func (g *multiGate) rankCaller(r int) int {
	g.mu.Lock()
	defer g.mu.Unlock()
	if r < len(g.rankOf) {
		return g.rankOf[r]
	}
	return -1
}

func (g *multiGate) register(idx int) {
	g.mu.Lock()
	g.callers[goid()] = idx
	g.mu.Unlock()
}

func (g *multiGate) hook(point string, id int64) {
	g.mu.Lock()
	idx, ok := g.callers[goid()]
	if !ok {
		g.mu.Unlock()
		return
	}
	switch {
	case g.sched == "overlap" && point == "reconnecting" && !g.reached[idx]:
		g.reached[idx] = true
		g.parked++
		if g.parked == g.k && !g.opened {
			g.opened = true
			close(g.allThere)
		}
		ch := g.allThere
		g.mu.Unlock()
		<-ch
		return
	case (g.sched == "serial" || g.sched == "serialans") && point == "reconnect" && !g.reached[idx]:
		// a caller parked here may hold the client's migration lock: the order is the order of arrival
		g.reached[idx] = true
		ch := g.turn[len(g.rankOf)]
		g.rankOf = append(g.rankOf, idx)
		g.mu.Unlock()
		<-ch
		return
	}
	g.mu.Unlock()
}

func migrateMultiOne(id string, sp mspec) {
	o := &mobs{id: id}
	dir := scratch()
	// "2>3": the data centre the request is repeated at (2) redirects it AGAIN, to 3 (a request redirected twice)
	var xs, chainTo []int
	for _, x := range strings.Split(sp.xs, "+") {
		to := 0
		if i := strings.Index(x, ">"); i >= 0 {
			t, err := strconv.Atoi(x[i+1:])
			if err != nil {
				die("bad xs %q", sp.xs)
			}
			to, x = t, x[:i]
		}
		n, err := strconv.Atoi(x)
		if err != nil {
			die("bad xs %q", sp.xs)
		}
		xs = append(xs, n)
		chainTo = append(chainTo, to)
	}
	k := len(xs)
	chained := make([]bool, k)
	seed := vc.Seed()*7919 + uint64(len(sp.String()))
	A, err := refserver.New(refserver.Options{Seed: seed})
	if err != nil {
		die("refserver A: %v", err)
	}
	B, err := refserver.New(refserver.Options{AuthKey: A.AuthKey(), Salt: A.Salt(), FirstMsgID: 0x5f100000 << 32})
	if err != nil {
		die("refserver B: %v", err)
	}
	Cs, err := refserver.New(refserver.Options{AuthKey: A.AuthKey(), Salt: A.Salt(), FirstMsgID: 0x5f200000 << 32})
	if err != nil {
		die("refserver C: %v", err)
	}
	servers := map[string]*refserver.Server{"A": A, "B": B, "C": Cs}
	dcServer := map[int]string{2: "B", 12: "B", 3: "C"}
	sess := filepath.Join(dir, "session.json")

	gt := &multiGate{sched: sp.sched, k: k, callers: map[int64]int{}, allThere: make(chan struct{}), reached: make([]bool, k)}
	for i := 0; i < k; i++ {
		gt.turn = append(gt.turn, make(chan struct{}))
	}
	if sp.sched != "free" {
		mtproto.VerifYieldHook = gt.hook
	}
	m, err := connectOn(A, sess)
	if err != nil {
		die("%v", err)
	}
	m.SetDCList(map[int]string{2: B.Addr(), 12: B.Addr(), 3: Cs.Addr()})
	fmt.Printf("T\t%s\t%s\t-\t303\t-\n", id, sp.String())
	base := map[string]int{}
	conns0 := map[string]int{}
	for n, s := range servers {
		base[n] = len(nonAck(s.Frames()))
		conns0[n] = s.Conns()
	}

	// the new data centres: record every request, answer it now (immediate) or later (hold)
	phones := make([]string, k)
	for i := range phones {
		phones[i] = fmt.Sprintf("+7999000%04d", 1100+i)
	}
	immediate := sp.sched == "serialans"
	var smu sync.Mutex
	var seen []seenReq
	answer := func(srvName string, r seenReq) {
		s := servers[srvName]
		body := refserver.Object(&telegram.AuthSentCode{Type: &telegram.AuthSentCodeTypeApp{Length: 5}, PhoneCodeHash: srvName + ":" + r.phone})
		_ = s.Send(refserver.Msg{MsgID: s.NextMsgID(true), SeqNo: 1, Body: refserver.RpcResult(r.msgID, body)})
	}
	for _, n := range []string{"A", "B", "C"} {
		n := n
		s := servers[n]
		s.OnFrame(func(f refserver.Frame) {
			if f.OpenErr != "" || f.Plain {
				return
			}
			switch q := f.Obj.(type) {
			case *telegram.AuthSendCodeParams:
				if n == "A" {
					smu.Lock()
					first := true
					for _, r := range seen {
						if r.server == "A" && r.phone == q.PhoneNumber {
							first = false
						}
					}
					seen = append(seen, seenReq{"A", q.PhoneNumber, f.MsgID, f.Conn, false})
					smu.Unlock()
					_ = first // the first arrival at A is the original request; A answers it in the container below
					return
				}
				r := seenReq{n, q.PhoneNumber, f.MsgID, f.Conn, false}
				smu.Lock()
				for i := range phones {
					if phones[i] == q.PhoneNumber && chainTo[i] != 0 && !chained[i] && dcServer[xs[i]] == n {
						// the data centre the request was repeated at sends it on
						chained[i] = true
						r.redir = true
					}
				}
				seen = append(seen, r)
				to := 0
				if r.redir {
					for i := range phones {
						if phones[i] == q.PhoneNumber {
							to = chainTo[i]
						}
					}
				}
				smu.Unlock()
				if r.redir {
					_ = s.Send(refserver.Msg{MsgID: s.NextMsgID(true), SeqNo: 1, Body: refserver.RpcResult(f.MsgID, refserver.RpcError(303, "PHONE_MIGRATE_"+strconv.Itoa(to)))})
					return
				}
				if immediate {
					answer(n, r)
				}
			case *objects.PingParams:
				if q.PingID == 4242 {
					smu.Lock()
					seen = append(seen, seenReq{n, "later", f.MsgID, f.Conn, false})
					smu.Unlock()
					_ = s.Send(refserver.Msg{MsgID: s.NextMsgID(true), SeqNo: 2, Body: refserver.RpcResult(f.MsgID, refserver.Pong(f.MsgID, 4242))})
				}
			}
		})
	}
	countSeen := func(server, phone string) int {
		smu.Lock()
		defer smu.Unlock()
		n := 0
		for _, r := range seen {
			if r.server == server && r.phone == phone {
				n++
			}
		}
		return n
	}

	// the callers
	type result struct {
		status string // ok | panic
		val    string
		done   chan struct{}
	}
	res := make([]*result, k)
	reqIDs := make([]int64, k)
	startCaller := func(i int) {
		r := &result{done: make(chan struct{})}
		res[i] = r
		go func() {
			gt.register(i)
			defer close(r.done)
			defer func() {
				if p := recover(); p != nil {
					r.status, r.val = "panic", fmt.Sprint(p)
				}
			}()
			v, err := m.MakeRequest(&telegram.AuthSendCodeParams{PhoneNumber: phones[i], APIID: 94575, APIHash: "a3406de8d171bb422bb6ddf3bbd800e2", Settings: &telegram.CodeSettings{}})
			r.status = "ok"
			switch {
			case err != nil:
				c, _ := classifyErr(err, 0)
				r.val = "error:" + c
			default:
				if sc, ok := v.(*telegram.AuthSentCode); ok {
					p := strings.SplitN(sc.PhoneCodeHash, ":", 2)
					if len(p) == 2 && p[1] == phones[i] {
						r.val = "own-answer-from-" + p[0]
					} else {
						r.val = "foreign-answer:" + sc.PhoneCodeHash
					}
				} else {
					r.val = fmt.Sprintf("other:%T", v)
				}
			}
		}()
		want := base["A"] + i + 1
		if sp.normal == 1 && i >= 1 {
			want++
		}
		fs := waitNonAck(A, want, watchdog)
		if len(fs) < want {
			die("request of caller %d did not reach A", i)
		}
		reqIDs[i] = fs[want-1].MsgID
	}
	var normalDone chan string
	var normalReq int64
	startCaller(0)
	if sp.normal == 1 {
		normalDone = make(chan string, 1)
		go func() {
			defer func() {
				if p := recover(); p != nil {
					normalDone <- "panic"
				}
			}()
			v, err := m.MakeRequest(&objects.PingParams{PingID: 7777})
			if p, ok := v.(*objects.Pong); err == nil && ok {
				normalDone <- "pong:" + strconv.FormatInt(p.PingID, 10)
			} else if err != nil {
				c, _ := classifyErr(err, 0)
				normalDone <- "error:" + c
			} else {
				normalDone <- fmt.Sprintf("other:%T", v)
			}
		}()
		fs := waitNonAck(A, base["A"]+2, watchdog)
		if len(fs) < base["A"]+2 {
			die("the ping did not reach A")
		}
		normalReq = fs[base["A"]+1].MsgID
	}
	for i := 1; i < k; i++ {
		startCaller(i)
	}

	// A answers everything in one container
	var items []refserver.Msg
	for i := 0; i < k; i++ {
		items = append(items, refserver.Msg{MsgID: A.NextMsgID(true), SeqNo: 2,
			Body: refserver.RpcResult(reqIDs[i], refserver.RpcError(303, "PHONE_MIGRATE_"+strconv.Itoa(xs[i])))})
		if i == 0 && sp.normal == 1 {
			items = append(items, refserver.Msg{MsgID: A.NextMsgID(true), SeqNo: 2, Body: refserver.RpcResult(normalReq, refserver.Pong(normalReq, 7777))})
		}
	}
	seq := int32(2)
	if sp.seq == "odd" {
		seq = 1
	}
	_ = A.Send(refserver.Msg{MsgID: A.NextMsgID(false), SeqNo: seq, Body: refserver.Container(items)})

	want := func(i int) string {
		if chainTo[i] != 0 {
			return dcServer[chainTo[i]]
		}
		return dcServer[xs[i]]
	}
	arrived := func() int {
		n := 0
		for i := 0; i < k; i++ {
			if countSeen(want(i), phones[i]) > 0 {
				n++
			}
		}
		return n
	}
	realised := sp.sched
	switch sp.sched {
	case "serial", "serialans":
		// the first caller to reach its Disconnect goes at once; the next one when the request of the one before
		// has arrived at its new data centre (a tree where later callers do not reconnect at all never gets there)
		close(gt.turn[0])
		for r := 1; r < k; r++ {
			dl := time.Now().Add(watchdog)
			for time.Now().Before(dl) {
				if c := gt.rankCaller(r - 1); c >= 0 && countSeen(want(c), phones[c]) > 0 {
					break
				}
				if arrived() == k {
					break
				}
				time.Sleep(time.Millisecond)
			}
			if c := gt.rankCaller(r - 1); c >= 0 && countSeen(want(c), phones[c]) == 0 {
				realised = "request-of-caller-" + strconv.Itoa(c) + "-never-arrived"
			}
			close(gt.turn[r])
		}
	case "overlap":
		select {
		case <-gt.allThere:
		case <-time.After(minDur(watchdog/2, 1500*time.Millisecond*time.Duration(tscale))):
			realised = "unavailable" // not every caller reached the point (or the tree has no such yield point)
			gt.mu.Lock()
			if !gt.opened {
				gt.opened = true
				close(gt.allThere)
			}
			gt.mu.Unlock()
		}
	}
	o.put("sched", realised)

	// hold: answer when every repeated request has arrived, or nothing has moved for a while
	if !immediate {
		dl := time.Now().Add(watchdog)
		last, lastChange := -1, time.Now()
		for time.Now().Before(dl) {
			n := arrived()
			if n != last {
				last, lastChange = n, time.Now()
			}
			if n == k {
				break
			}
			alldone := true
			for _, r := range res {
				select {
				case <-r.done:
				default:
					alldone = false
				}
			}
			if alldone {
				break
			}
			if time.Since(lastChange) > 2*time.Second*time.Duration(tscale) {
				break
			}
			time.Sleep(time.Millisecond)
		}
		pause(50 * time.Millisecond) // a connection being opened right now becomes the current one
		smu.Lock()
		todo := append([]seenReq(nil), seen...)
		smu.Unlock()
		for _, r := range todo {
			if r.server != "A" && r.phone != "later" && !r.redir {
				answer(r.server, r)
			}
		}
	}

	// how the calls ended (one time bound for all of them)
	callDeadline := time.After(watchdog)
	anyHang := false
	for i, r := range res {
		select {
		case <-r.done:
			if r.status == "panic" {
				o.put(fmt.Sprintf("caller-%d", i), "panic")
				o.put(fmt.Sprintf("caller-%d-detail", i), vc.HexS(r.val))
			} else {
				o.put(fmt.Sprintf("caller-%d", i), r.val)
			}
		case <-callDeadline:
			callDeadline = time.After(0)
			anyHang = true
			o.put(fmt.Sprintf("caller-%d", i), "hang")
		}
		parts := []string{}
		for _, n := range []string{"A", "B", "C"} {
			c := countSeen(n, phones[i])
			if n == "A" {
				c-- // the original request
			}
			parts = append(parts, fmt.Sprintf("%s:%d", n, c))
		}
		o.put(fmt.Sprintf("caller-%d-repeats", i), strings.Join(parts, ","))
		smu.Lock()
		cg := []string{}
		for _, r := range seen {
			if r.phone == phones[i] && r.server != "A" {
				cg = append(cg, fmt.Sprintf("%s#%d", r.server, r.conn))
			}
		}
		smu.Unlock()
		o.put(fmt.Sprintf("caller-%d-arrived-on", i), strings.Join(cg, ","))
		o.put(fmt.Sprintf("caller-%d-dc", i), want(i))
	}
	if sp.normal == 1 {
		select {
		case v := <-normalDone:
			o.put("normal-caller", v)
		case <-time.After(laterBound(anyHang)):
			o.put("normal-caller", "hang")
		}
	}
	parts := []string{}
	for _, n := range []string{"A", "B", "C"} {
		parts = append(parts, fmt.Sprintf("%s:%d", n, servers[n].Conns()-conns0[n]))
	}
	o.put("new-conns", strings.Join(parts, ","))
	after := m.VerifClientAddr()
	where := "elsewhere"
	for n, s := range servers {
		if s.Addr() == after {
			where = n
		}
	}
	o.put("addr-after", where)

	// a later request
	later := make(chan string, 1)
	go func() {
		defer func() {
			if r := recover(); r != nil {
				later <- "panic"
			}
		}()
		v, err := m.MakeRequest(&objects.PingParams{PingID: 4242})
		if p, ok := v.(*objects.Pong); err == nil && ok && p.PingID == 4242 {
			later <- "pong"
		} else {
			later <- "other"
		}
	}()
	select {
	case r := <-later:
		o.put("later-request", r)
	case <-time.After(laterBound(anyHang)):
		o.put("later-request", "hang")
	}
	lw := "nowhere"
	for _, n := range []string{"A", "B", "C"} {
		if countSeen(n, "later") > 0 {
			lw = n
		}
	}
	o.put("later-request-went-to", lw)
	pause(50 * time.Millisecond)
	finish()
}
