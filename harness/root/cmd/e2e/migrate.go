package main

// C17, live half: PHONE_MIGRATE_X on the real makeRequest path.
//
// Two reference servers A and B share one auth key and salt (a data centre accepts the key the
// client already has; no key exchange is implemented or expected). The client is connected to A
// and told (SetDCList, or telegram.NewClient's help.getConfig answer) that some data centre
// ids live at B's address. A answers a request with rpc_error; the harness records
//   - how the call ended (value sent by B / the structured error itself / an error wrapping it /
//     panic / hang) and the fields of the structured error,
//   - which server saw which request frames (body bytes, envelope kind, salt field),
//   - the connections each server accepted, the address the client holds afterwards,
//   - what happened to the other calls that were waiting for A at that time,
//   - whether a later request completes and where it went.
// Every scenario runs in a child process: the client's receive loop panics through check(err)
// on any read/ack error and a panic there cannot be recovered from outside; the parent records
// a dead child as the observation "died".
//
// Output lines (tab separated):
//	T <id> <spec> <dcs of the client> <code> <hex text>        scenario, DC table as the client holds it
//	O <id> <key> <value>                                          observations
//	X <id> <exit status> <hex stderr tail>                        child finished

import (
	"bytes"
	"fmt"
	"net"
	"os"
	"os/exec"
	"path/filepath"
	"runtime"
	"sort"
	"strconv"
	"strings"
	"sync"
	"time"

		"github.com/xelaj/mtproto"
	"github.com/xelaj/mtproto/internal/encoding/tl"
	"github.com/xelaj/mtproto/internal/mtproto/objects"
	"github.com/xelaj/mtproto/telegram"
	"github.com/xelaj/mtproto/verifharness/refserver"
	vc "verifcommon"
)

type mspec struct {
	setup    string // direct | newclient
	code     int
	text     string
	seq      string // odd | even : seq_no of A's rpc_error message (odd = the client must ack it)
	inflight int
	answerB  string // obj | error : what B answers to the repeated request
	sched    string // free | ackclose | readclose : the receive loop's ack of A's rpc_error (ackclose) / its next read (readclose) is held until the caller has closed the old connection
	// kind "multi" (see migrate_multi.go): several callers are answered with PHONE_MIGRATE_X in one container
	kind   string // "" | multi
	xs     string // data centre id per migrating caller, '+' separated: "2+2", "2+3", "2+2+2"
	normal int    // 1: one more caller, answered normally by the old data centre between the errors
	// procs > 0: the scenario's process runs with GOMAXPROCS=procs.  On one processor a goroutine started with `go`
	// first runs when its parent blocks or is pre-empted: what depends on WHEN a fresh goroutine runs (a loop variable
	// captured by `go func`, a wake-up racing with a registration) is decided the same way on every run
	procs int
}

func (s mspec) String() string {
	sc := s.sched
	if sc == "" {
		sc = "free"
	}
	pr := ""
	if s.procs > 0 {
		pr = fmt.Sprintf(",procs=%d", s.procs)
	}
	if s.kind == "multi" {
		return fmt.Sprintf("kind=multi,xs=%s,normal=%d,seq=%s,sched=%s", s.xs, s.normal, s.seq, sc) + pr
	}
	return fmt.Sprintf("setup=%s,code=%d,text=%s,seq=%s,inflight=%d,b=%s,sched=%s", s.setup, s.code, vc.HexS(s.text), s.seq, s.inflight, s.answerB, sc) + pr
}

func parseSpec(x string) mspec {
	s := mspec{}
	for _, kv := range strings.Split(x, ",") {
		i := strings.Index(kv, "=")
		k, v := kv[:i], kv[i+1:]
		switch k {
		case "setup":
			s.setup = v
		case "code":
			s.code, _ = strconv.Atoi(v)
		case "text":
			s.text = string(vc.UnHex(v))
		case "seq":
			s.seq = v
		case "inflight":
			s.inflight, _ = strconv.Atoi(v)
		case "b":
			s.answerB = v
		case "sched":
			s.sched = v
		case "kind":
			s.kind = v
		case "xs":
			s.xs = v
		case "normal":
			s.normal, _ = strconv.Atoi(v)
		case "procs":
			s.procs, _ = strconv.Atoi(v)
		}
	}
	return s
}

func migrateScenarios(thorough bool) []mspec {
	var l []mspec
	add := func(setup string, code int, text, seq string, inflight int, b string) {
		l = append(l, mspec{setup: setup, code: code, text: text, seq: seq, inflight: inflight, answerB: b, sched: "free"})
	}
	// the order a free run reaches only now and then: A's rpc_error needs an acknowledgement (odd seq_no, as real
	// servers send it); the receive loop writes that ack after the caller has closed the connection to A
	l = append(l, mspec{setup: "direct", code: 303, text: "PHONE_MIGRATE_2", seq: "odd", inflight: 0, answerB: "obj", sched: "ackclose"})
	l = append(l, mspec{setup: "direct", code: 303, text: "PHONE_MIGRATE_2", seq: "odd", inflight: 1, answerB: "obj", sched: "ackclose"})
	// and: the receive loop goes back to reading after the caller has stopped the routines
	l = append(l, mspec{setup: "direct", code: 303, text: "PHONE_MIGRATE_2", seq: "even", inflight: 0, answerB: "obj", sched: "readclose"})
	l = append(l, mspec{setup: "newclient", code: 303, text: "PHONE_MIGRATE_12", seq: "even", inflight: 1, answerB: "obj", sched: "readclose"})
	// and: the old receive loop goes back to reading only after the caller has switched to B and repeated the request
	l = append(l, mspec{setup: "direct", code: 303, text: "PHONE_MIGRATE_2", seq: "even", inflight: 0, answerB: "obj", sched: "readnew"})
	l = append(l, mspec{setup: "direct", code: 303, text: "PHONE_MIGRATE_2", seq: "even", inflight: 2, answerB: "obj", sched: "readnew"})
	// configured data centre: DC 2 (and 12) live at B
	add("direct", 303, "PHONE_MIGRATE_2", "even", 0, "obj")
	add("direct", 303, "PHONE_MIGRATE_2", "odd", 0, "obj")
	add("direct", 303, "PHONE_MIGRATE_2", "even", 1, "obj")
	add("direct", 303, "PHONE_MIGRATE_2", "even", 2, "obj")
	add("newclient", 303, "PHONE_MIGRATE_2", "even", 0, "obj")
	add("newclient", 303, "PHONE_MIGRATE_2", "even", 1, "obj")
	add("direct", 303, "PHONE_MIGRATE_12", "even", 0, "obj")
	add("direct", 303, "PHONE_MIGRATE_2", "even", 0, "error") // B refuses the repeated request with a plain error
	// unconfigured data centre
	add("direct", 303, "PHONE_MIGRATE_7", "even", 0, "obj")
	add("direct", 303, "PHONE_MIGRATE_7", "odd", 1, "obj")
	add("direct", 303, "PHONE_MIGRATE_0", "even", 0, "obj")
	add("direct", 303, "PHONE_MIGRATE_-1", "even", 2, "obj")
	add("newclient", 303, "PHONE_MIGRATE_6", "even", 0, "obj") // DC 6 is announced as CDN: NewClient skips it
	add("newclient", 303, "PHONE_MIGRATE_7", "even", 1, "obj")
	// no data centre id in the text
	add("direct", 303, "PHONE_MIGRATE_X", "even", 0, "obj")
	add("direct", 303, "PHONE_MIGRATE_X", "odd", 1, "obj")
	add("direct", 303, "PHONE_MIGRATE_abc", "even", 0, "obj")
	add("direct", 303, "PHONE_MIGRATE_", "even", 0, "obj")
	add("direct", 303, "PHONE_MIGRATE_2x", "even", 1, "obj")
	add("direct", 303, "PHONE_MIGRATE_99999999999999999999", "even", 0, "obj")
	// other errors are returned, never handled
	add("direct", 420, "FLOOD_WAIT_5", "even", 1, "obj")
	add("direct", 303, "USER_MIGRATE_2", "even", 0, "obj")
	add("direct", 303, "NETWORK_MIGRATE_2", "odd", 0, "obj")
	add("direct", 400, "PHONE_NUMBER_INVALID", "even", 0, "obj")
	// several callers answered with PHONE_MIGRATE_X at once (migrate_multi.go); the free runs race, so they are repeated
	multi := func(xs string, normal int, seq, sched string, reps int) {
		for i := 0; i < reps; i++ {
			l = append(l, mspec{kind: "multi", xs: xs, normal: normal, seq: seq, sched: sched})
		}
	}
	freeReps := 3
	if thorough {
		freeReps = 12
	}
	multi("2+2", 0, "even", "free", freeReps)
	multi("2+2", 1, "odd", "free", freeReps)
	multi("2+2+2", 1, "even", "free", freeReps)
	multi("2+12", 0, "even", "free", 1)
	multi("2+2", 0, "even", "serial", 1)
	multi("2+2+2", 1, "odd", "serial", 1)
	multi("2+12", 1, "even", "serial", 1)
	multi("2+2", 0, "even", "overlap", 1)
	multi("2+2", 1, "even", "serialans", 1)
	multi("2+3", 0, "even", "serialans", 1)
	multi("2+3", 0, "even", "serial", 1)
	multi("2+3", 1, "even", "free", freeReps)
	multi("2+3+2", 1, "even", "free", 1)
	// a request redirected twice: the data centre it is repeated at (2, at B) redirects it again (3, at C); one migrating caller (with several, the
	// requests of the others are legitimately repeated wherever the client is at the moment), with and without a ping caller
	multi("2>3", 0, "even", "free", 1)
	multi("2>3", 1, "odd", "serialans", 1)
	multi("12>3", 0, "odd", "free", 1)
	// the same on ONE processor, with two and three other calls in flight
	for _, n := range []int{2, 3} {
		l = append(l, mspec{setup: "direct", code: 303, text: "PHONE_MIGRATE_2", seq: "even", inflight: n, answerB: "obj", sched: "free", procs: 1})
	}
	l = append(l, mspec{kind: "multi", xs: "2+2", normal: 1, seq: "even", sched: "free", procs: 1})
	l = append(l, mspec{kind: "multi", xs: "2+3+2", normal: 1, seq: "even", sched: "free", procs: 1})
	if thorough {
		for _, xs := range []string{"2+2", "2+12", "2+2+2", "2+3", "3+2", "2+3+2", "3+3+2"} {
			for _, sc := range []string{"serial", "serialans", "overlap"} {
				for normal := 0; normal <= 1; normal++ {
					for _, seq := range []string{"even", "odd"} {
						multi(xs, normal, seq, sc, 1)
					}
				}
			}
		}
	}
	if thorough {
		for _, sc := range []string{"ackclose", "readclose", "readnew"} {
			for _, setup := range []string{"direct", "newclient"} {
				for inflight := 0; inflight <= 2; inflight++ {
					for _, t := range []string{"PHONE_MIGRATE_2", "PHONE_MIGRATE_12"} {
						l = append(l, mspec{setup: setup, code: 303, text: t, seq: map[bool]string{true: "odd", false: "even"}[sc == "ackclose"], inflight: inflight, answerB: "obj", sched: sc})
					}
				}
			}
		}
		for _, t := range []string{"PHONE_MIGRATE_2", "PHONE_MIGRATE_12", "PHONE_MIGRATE_+2", "PHONE_MIGRATE_02", "PHONE_MIGRATE_7", "PHONE_MIGRATE_1000",
			"PHONE_MIGRATE_9223372036854775807", "PHONE_MIGRATE_-9223372036854775808", "PHONE_MIGRATE_9223372036854775808", "PHONE_MIGRATE_ 2", "PHONE_MIGRATE_2 ",
			"PHONE_MIGRATE_%d", "phone_migrate_2", "XPHONE_MIGRATE_2", "FILE_MIGRATE_2", "STATS_MIGRATE_2", "PHONE_MIGRATE_X", ""} {
			for _, setup := range []string{"direct", "newclient"} {
				for _, seq := range []string{"even", "odd"} {
					for inflight := 0; inflight <= 2; inflight++ {
						for _, code := range []int{303, 400, -1} {
							if (code != 303) && (inflight != 1 || setup != "direct") {
								continue
							}
							add(setup, code, t, seq, inflight, "obj")
						}
					}
				}
			}
		}
	}
	return l
}

func migrateMain(args []string) {
	if len(args) >= 1 && args[0] == "one" {
		migrateOne(args[1], parseSpec(args[2]))
		return
	}
	if len(args) >= 4 && args[0] == "rerun" {
		// confirmation run of one scenario alone (the caller sets VERIF_TIMESCALE / VERIF_WATCHDOG_MS)
		out := newLineOut(args[1], false)
		for _, l := range runChild("migrate", args[2], args[3]) {
			out.f.WriteString(l + "\n")
		}
		out.Line("END")
		return
	}
	if len(args) < 2 {
		die("usage: migrate <tier> <out> | migrate rerun <out> <id> <spec> | migrate one <id> <spec>")
	}
	out := newLineOut(args[1], false)
	reps := 1
	if v := os.Getenv("VERIF_E2E_REPEAT"); v != "" {
		reps, _ = strconv.Atoi(v)
	}
	type job struct {
		id string
		s  mspec
	}
	var jobs []job
	for rep := 0; rep < reps; rep++ {
		for _, s := range migrateScenarios(args[0] == "thorough") {
			jobs = append(jobs, job{strconv.Itoa(len(jobs) + 1), s})
		}
	}
	results := make([][]string, len(jobs))
	sem := make(chan struct{}, 4) // scenarios are separate processes on their own ports
	var wg sync.WaitGroup
	for i := range jobs {
		wg.Add(1)
		sem <- struct{}{}
		go func(i int) {
			defer func() { <-sem; wg.Done() }()
			results[i] = runChild("migrate", jobs[i].id, jobs[i].s.String())
		}(i)
	}
	wg.Wait()
	for _, ls := range results {
		for _, l := range ls {
			out.f.WriteString(l + "\n")
		}
	}
	out.Line("END")
}

// runChild runs one scenario in a child process and returns its observation lines plus the X line.
func runChild(sub, id, spec string) []string {
	cmd := exec.Command(os.Args[0], sub, "one", id, spec)
	var so, se bytes.Buffer
	cmd.Stdout, cmd.Stderr = &so, &se
	// the child's files live below a directory of ours: removed here even if the child dies
	base, err := os.MkdirTemp(os.Getenv("VERIF_E2E_SCRATCH"), "verif-e2e-child-")
	if err != nil {
		die("mkdir: %v", err)
	}
	defer os.RemoveAll(base)
	cmd.Env = append(os.Environ(), "VERIF_E2E_SCRATCH="+base)
	if sub == "migrate" {
		if sp := parseSpec(spec); sp.procs > 0 {
			cmd.Env = append(cmd.Env, fmt.Sprintf("GOMAXPROCS=%d", sp.procs))
		}
	}
	done := make(chan error, 1)
	if err := cmd.Start(); err != nil {
		die("cannot start child: %v", err)
	}
	go func() { done <- cmd.Wait() }()
	status := "0"
	select {
	case err := <-done:
		if err != nil {
			status = "died"
		}
	case <-time.After(6*watchdog + 10*time.Second):
		cmd.Process.Kill()
		<-done
		status = "timeout"
	}
	complete := false
	var lines []string
	for _, l := range strings.Split(so.String(), "\n") {
		if l == "" {
			continue
		}
		if l == "END" {
			complete = true
			continue
		}
		lines = append(lines, l)
	}
	if status == "0" && !complete {
		status = "died"
	}
	tail := se.String()
	if len(tail) > 6000 {
		tail = tail[:3000] + "\n...\n" + tail[len(tail)-3000:]
	}
	return append(lines, strings.Join([]string{"X", id, status, vc.HexS(tail)}, "\t"))
}

// ---- one scenario (child process) ----

type mobs struct {
	id string
	mu sync.Mutex
}

func (o *mobs) put(k string, v interface{}) {
	o.mu.Lock()
	fmt.Printf("O\t%s\t%s\t%v\n", o.id, k, v)
	o.mu.Unlock()
}

func infoStr(v interface{}) string {
	switch x := v.(type) {
	case nil:
		return "nil"
	case int:
		return "i:" + strconv.Itoa(x)
	case string:
		return "s:" + vc.HexS(x)
	default:
		return fmt.Sprintf("o:%T", v)
	}
}

// classify an error returned by the call by its structure only (no texts): depth = number of
// Cause() layers above the structured error. makeRequest returns the structured error itself
// (depth 0) or, for an unconfigured data centre, errors.Wrapf of it (pkg/errors: 2 layers); a
// generated method adds errors.Wrap once more (2 layers).
func classifyErr(err error, base int) (class string, e *mtproto.ErrResponseCode) {
	type causer interface{ Cause() error }
	depth := 0
	for cur := err; cur != nil && depth < 16; depth++ {
		if x, ok := cur.(*mtproto.ErrResponseCode); ok {
			switch {
			case depth == base:
				return "self", x
			case depth == base+2:
				return "nodc", x
			}
			return "depth" + strconv.Itoa(depth-base), x
		}
		c, ok := cur.(causer)
		if !ok {
			break
		}
		cur = c.Cause()
	}
	return "other", nil
}

// gate: a two-point scheduler on the client's yield hook. The receive loop (the first goroutine that
// reaches "read") is held at the "prelock" of its acknowledgement, the caller at "reconnecting".
type gate struct {
	mu            sync.Mutex
	rx            int64
	rxPoint       string
	freeCaller    bool
	armed         bool
	rxHeld        bool
	callerHeld    bool
	otherReads    int // "read" points reached by receive loops other than the first one (new connections)
	rxParked      chan struct{}
	rxRelease     chan struct{}
	callerParked  chan struct{}
	callerRelease chan struct{}
}

func goid() int64 {
	buf := make([]byte, 64)
	n := runtime.Stack(buf, false)
	f := strings.Fields(string(buf[:n]))
	if len(f) < 2 {
		return -1
	}
	id, _ := strconv.ParseInt(f[1], 10, 64)
	return id
}

func (g *gate) arm() { g.mu.Lock(); g.armed = true; g.mu.Unlock() }

func (g *gate) hook(point string, id int64) {
	me := goid()
	g.mu.Lock()
	if point == "read" && g.rx == 0 {
		g.rx = me
	}
	if point == "read" && me != g.rx {
		g.otherReads++
	}
	holdRx := g.armed && point == g.rxPoint && me == g.rx && !g.rxHeld
	holdCaller := g.armed && !g.freeCaller && point == "reconnecting" && me != g.rx && !g.callerHeld
	if holdRx {
		g.rxHeld = true
	}
	if holdCaller {
		g.callerHeld = true
	}
	g.mu.Unlock()
	if holdRx {
		close(g.rxParked)
		<-g.rxRelease
	}
	if holdCaller {
		close(g.callerParked)
		<-g.callerRelease
	}
}

const tokenB = "answered-by-B"
const tokenA = "answered-by-A"

func pingFrame(fs []refserver.Frame, pingID int64) (refserver.Frame, bool) {
	for _, f := range fs {
		if p, ok := f.Obj.(*objects.PingParams); ok && p.PingID == pingID {
			return f, true
		}
	}
	return refserver.Frame{}, false
}

func withCrc(fs []refserver.Frame, crc uint32) []refserver.Frame {
	var r []refserver.Frame
	for _, f := range fs {
		if f.Crc == crc {
			r = append(r, f)
		}
	}
	return r
}

func nonAck(fs []refserver.Frame) []refserver.Frame {
	var r []refserver.Frame
	for _, f := range fs {
		if f.OpenErr == "" && !f.Plain && f.Crc == refserver.CrcMsgsAck {
			continue
		}
		r = append(r, f)
	}
	return r
}

func waitNonAck(s *refserver.Server, n int, d time.Duration) []refserver.Frame {
	deadline := time.Now().Add(d)
	for {
		fs := nonAck(s.Frames())
		if len(fs) >= n || time.Now().After(deadline) {
			return fs
		}
		time.Sleep(2 * time.Millisecond)
	}
}

func migrateOne(id string, sp mspec) {
	if sp.kind == "multi" {
		migrateMultiOne(id, sp)
		return
	}
	o := &mobs{id: id}
	dir := scratch()
	seed := vc.Seed()*7919 + uint64(len(sp.String()))
	A, err := refserver.New(refserver.Options{Seed: seed})
	if err != nil {
		die("refserver A: %v", err)
	}
	B, err := refserver.New(refserver.Options{AuthKey: A.AuthKey(), Salt: A.Salt(), FirstMsgID: 0x5f100000 << 32})
	if err != nil {
		die("refserver B: %v", err)
	}
	sess := filepath.Join(dir, "session.json")
	gt := &gate{rxParked: make(chan struct{}), rxRelease: make(chan struct{}), callerParked: make(chan struct{}), callerRelease: make(chan struct{})}
	if sp.sched != "free" {
		gt.rxPoint = map[string]string{"ackclose": "prelock", "readclose": "read", "readnew": "read"}[sp.sched]
		gt.freeCaller = sp.sched == "readnew"
		mtproto.VerifYieldHook = gt.hook
	}
	var m *mtproto.MTProto
	var cl *telegram.Client
	_, portB, _ := net.SplitHostPort(B.Addr())
	pB, _ := strconv.Atoi(portB)
	switch sp.setup {
	case "direct":
		m, err = connectOn(A, sess)
		if err != nil {
			die("%v", err)
		}
		m.SetDCList(map[int]string{2: B.Addr(), 12: B.Addr()})
		cl = &telegram.Client{MTProto: m}
	case "newclient":
		if err := A.WriteSession(sess); err != nil {
			die("session: %v", err)
		}
		pk := filepath.Join(dir, "keys.pem")
		if err := os.WriteFile(pk, []byte(testPubKey), 0o600); err != nil {
			die("keys: %v", err)
		}
		// A answers the initialisation call of NewClient: invokeWithLayer(initConnection(help.getConfig)) -> config
		// the option list varies with the scenario: DC 2 and 12 always end up at B; around them options that must NOT
		// win (an earlier option for the same id, CDN options before and after), IPv6 literals, names, odd ports
		opts := []*telegram.DcOption{}
		variant := 0
		if n, e := strconv.Atoi(id); e == nil {
			variant = (n*3 + n/7) % 4 // (all four occur among the NewClient scenarios of the quick tier)
		}
		if variant == 1 || variant == 3 {
			opts = append(opts, &telegram.DcOption{ID: 2, IpAddress: "10.9.9.9", Port: 1}, &telegram.DcOption{ID: 6, Cdn: true, IpAddress: "10.9.9.8", Port: 2})
		}
		opts = append(opts,
			&telegram.DcOption{ID: 2, IpAddress: "127.0.0.1", Port: int32(pB)},
			&telegram.DcOption{ID: 12, IpAddress: "127.0.0.1", Port: int32(pB)},
			&telegram.DcOption{ID: 6, Cdn: true, IpAddress: "127.0.0.1", Port: int32(pB)},
			// real configurations list IPv6 options too; DC 14 has nothing else
			&telegram.DcOption{ID: 14, Ipv6: true, IpAddress: "2001:db8::e", Port: 443})
		if variant >= 2 {
			opts = append(opts, &telegram.DcOption{ID: 2, Cdn: true, IpAddress: "10.9.9.7", Port: 3},
				&telegram.DcOption{ID: 15, IpAddress: "dc15.example.org", Port: 8443},
				&telegram.DcOption{ID: 16, Ipv6: true, IpAddress: "::ffff:10.0.0.1", Port: 80},
				&telegram.DcOption{ID: 17, IpAddress: "10.0.0.17", Port: 0},
				&telegram.DcOption{ID: 15, MediaOnly: true, IpAddress: "10.0.0.15", Port: 65535})
		}
		cfg := &telegram.Config{
			Date: 1, Expires: 2, ThisDc: 1, MeURLPrefix: "https://t.me/",
			DcOptions: opts,
		}
		{
			parts := []string{}
			for _, d := range opts {
				parts = append(parts, fmt.Sprintf("%d:%s:%s:%d", d.ID, map[bool]string{true: "1", false: "0"}[d.Cdn], vc.HexS(d.IpAddress), d.Port))
			}
			o.put("newclient-config", strings.Join(parts, ","))
		}
		initSeen := make(chan refserver.Frame, 1)
		A.OnFrame(func(f refserver.Frame) {
			if f.Crc == 0xda9b0d0d { // invokeWithLayer
				select {
				case initSeen <- f:
				default:
				}
				_ = A.Send(refserver.Msg{MsgID: A.NextMsgID(true), SeqNo: 1, Body: refserver.RpcResult(f.MsgID, refserver.Object(cfg))})
			}
		})
		var cerr error
		st, det := withWatchdog(watchdog, func() {
			cl, cerr = telegram.NewClient(telegram.ClientConfig{SessionFile: sess, ServerHost: A.Addr(), PublicKeysFile: pk, AppID: 94575, AppHash: "a3406de8d171bb422bb6ddf3bbd800e2"})
		})
		A.OnFrame(nil)
		if st != "ok" || cerr != nil {
			o.put("newclient", st+":"+fmt.Sprint(cerr)+det)
			finish()
		}
		m = cl.MTProto
		select {
		case f := <-initSeen:
			// the generic wrappers are not registered constructors, so the server cannot decode the
			// body: compare it with the bytes of the request NewClient is documented to send
			want, _ := tl.Marshal(&telegram.InvokeWithLayerParams{Layer: telegram.ApiVersion, Query: &telegram.InitConnectionParams{
				ApiID: 94575, DeviceModel: "Unknown", SystemVersion: runtime.GOOS + "/" + runtime.GOARCH, AppVersion: "v0.0.0",
				SystemLangCode: "en", LangCode: "en", Query: &telegram.HelpGetConfigParams{}}})
			o.put("newclient-init-request", map[bool]string{true: "invokeWithLayer(initConnection(help.getConfig))", false: "unexpected"}[bytes.Equal(want, f.Body)])
		default:
			o.put("newclient-init-request", "none")
		}
	default:
		die("bad setup")
	}
	// the DC table as the client holds it (default list + what was configured)
	tbl := m.VerifClientDCList()
	if sp.setup == "newclient" {
		// the entry made from the IPv6 option must be an address the dialer takes apart into that host and that port
		h, p, e := net.SplitHostPort(tbl[14])
		if e == nil && h == "2001:db8::e" && p == "443" {
			o.put("newclient-ipv6-entry", "ok")
		} else {
			o.put("newclient-ipv6-entry", "undialable:"+vc.HexS(tbl[14]))
		}
	}
	keys := []int{}
	for k := range tbl {
		keys = append(keys, k)
	}
	sort.Ints(keys)
	parts := []string{}
	for _, k := range keys {
		parts = append(parts, strconv.Itoa(k)+"="+vc.HexS(tbl[k]))
	}
	dcs := strings.Join(parts, ",")
	if dcs == "" {
		dcs = "-"
	}
	fmt.Printf("T\t%s\t%s\t%s\t%d\t%s\n", id, sp.String(), dcs, sp.code, vc.HexS(sp.text))
	o.put("addr-A", vc.HexS(A.Addr()))
	o.put("addr-B", vc.HexS(B.Addr()))
	o.put("addr-before", vc.HexS(m.VerifClientAddr()))
	baseA := len(nonAck(A.Frames()))
	connsA0, connsB0 := A.Conns(), B.Conns()

	// other calls in flight on A: pings nobody answers yet
	type flight struct {
		done  chan struct{}
		res   string
		msgID int64
	}
	fl := make([]*flight, sp.inflight)
	for i := range fl {
		f := &flight{done: make(chan struct{})}
		fl[i] = f
		pingID := int64(9000 + i)
		go func() {
			defer func() {
				if r := recover(); r != nil {
					f.res = "panic"
				}
				close(f.done)
			}()
			v, err := m.MakeRequest(&objects.PingParams{PingID: pingID})
			switch {
			case err != nil:
				c, _ := classifyErr(err, 0)
				f.res = "error:" + c
			default:
				if p, ok := v.(*objects.Pong); ok {
					f.res = "pong:" + strconv.FormatInt(p.PingID, 10)
				} else {
					f.res = fmt.Sprintf("other:%T", v)
				}
			}
		}()
		fs := waitNonAck(A, baseA+i+1, watchdog)
		if len(fs) < baseA+i+1 {
			die("in-flight request %d did not reach A", i)
		}
		f.msgID = fs[baseA+i].MsgID
	}

	// the migrating call
	type outcome struct {
		v   *telegram.AuthSentCode
		err error
	}
	var res outcome
	callDone := make(chan [2]string, 1)
	go func() {
		defer func() {
			if r := recover(); r != nil {
				callDone <- [2]string{"panic", fmt.Sprint(r)}
			}
		}()
		if sp.setup == "direct" {
			// straight through MakeRequest: the error comes back as makeRequest made it
			r, err := m.MakeRequest(&telegram.AuthSendCodeParams{PhoneNumber: "+79990001122", APIID: 94575, APIHash: "a3406de8d171bb422bb6ddf3bbd800e2", Settings: &telegram.CodeSettings{}})
			v, _ := r.(*telegram.AuthSentCode)
			res = outcome{v, err}
		} else {
			v, err := cl.AuthSendCode("+79990001122", 94575, "a3406de8d171bb422bb6ddf3bbd800e2", &telegram.CodeSettings{})
			res = outcome{v, err}
		}
		callDone <- [2]string{"ok", ""}
	}()
	fs := waitNonAck(A, baseA+sp.inflight+1, watchdog)
	if len(fs) < baseA+sp.inflight+1 {
		die("the request did not reach A")
	}
	req := fs[baseA+sp.inflight]
	o.put("A-request-crc", fmt.Sprintf("%08x", req.Crc))
	seq := int32(2)
	if sp.seq == "odd" {
		seq = 1
	}
	gt.arm()
	_ = A.Send(refserver.Msg{MsgID: A.NextMsgID(true), SeqNo: seq, Body: refserver.RpcResult(req.MsgID, refserver.RpcError(int32(sp.code), sp.text))})
	if sp.sched != "free" {
		ok := true
		select {
		case <-gt.rxParked:
		case <-time.After(watchdog):
			o.put("sched", "receive-loop-never-acked")
			ok = false
		}
		if ok && sp.sched == "readnew" {
			// the caller runs on: new connection, request repeated; B keeps quiet until the old loop is released
			if len(waitNonAck(B, 1, watchdog)) < 1 {
				o.put("sched", "request-never-repeated")
			} else {
				// B's connection has its own receive loop: wait until it is at its read
				dl := time.Now().Add(watchdog)
				for time.Now().Before(dl) {
					gt.mu.Lock()
					n := gt.otherReads
					gt.mu.Unlock()
					if n > 0 {
						break
					}
					time.Sleep(time.Millisecond)
				}
				o.put("sched", sp.sched)
			}
			ok = false
		}
		if ok {
			select {
			case <-gt.callerParked:
			case <-time.After(minDur(watchdog/2, 1500*time.Millisecond*time.Duration(tscale))):
				// the caller never gets there while the receive loop is held: the tree has no yield point between
				// Disconnect and CreateConnection (hook commit missing), or it does not let a caller migrate while
				// the receive loop is writing (the order asked for cannot occur in this tree)
				o.put("sched", "unavailable")
				ok = false
			}
		}
		if ok {
			// wait until the server has seen the client close the connection (an acknowledgement is a
			// harmless probe: nobody reads on the client side any more)
			dl := time.Now().Add(watchdog)
			for time.Now().Before(dl) {
				if A.Send(refserver.Msg{MsgID: A.NextMsgID(false), SeqNo: 2, Body: refserver.MsgsAck(req.MsgID)}) != nil {
					break
				}
				time.Sleep(time.Millisecond)
			}
			pause(20 * time.Millisecond)
			o.put("sched", sp.sched)
		}
		close(gt.rxRelease)
		pause(60 * time.Millisecond) // the receive loop writes its ack on the closed connection now
		close(gt.callerRelease)
	}

	// B answers whatever request reaches it (the repeated one), once
	answerB := func(f refserver.Frame) {
		var body []byte
		if sp.answerB == "error" {
			body = refserver.RpcError(400, "PHONE_NUMBER_INVALID")
		} else {
			body = refserver.Object(&telegram.AuthSentCode{Type: &telegram.AuthSentCodeTypeApp{Length: 5}, PhoneCodeHash: tokenB})
		}
		_ = B.Send(refserver.Msg{MsgID: B.NextMsgID(true), SeqNo: 1, Body: refserver.RpcResult(f.MsgID, body)})
	}
	var status [2]string
	answered := false
	deadline := time.Now().Add(watchdog)
loop:
	for {
		select {
		case status = <-callDone:
			break loop
		default:
		}
		if !answered {
			// the repeated request (other calls that were waiting for A may be repeated at B as well)
			if bf := withCrc(nonAck(B.Frames()), req.Crc); len(bf) > 0 {
				answered = true
				answerB(bf[0])
			}
		}
		if time.Now().After(deadline) {
			status = [2]string{"hang", ""}
			break loop
		}
		time.Sleep(time.Millisecond)
	}
	// how the call ended
	switch status[0] {
	case "panic":
		o.put("call", "panic")
		o.put("call-detail", vc.HexS(status[1]))
	case "hang":
		o.put("call", "hang")
	default:
		if res.err != nil {
			base := 0
			if sp.setup != "direct" {
				base = 2
			}
			c, e := classifyErr(res.err, base)
			o.put("call", "error:"+c)
			if e != nil {
				o.put("error-fields", fmt.Sprintf("%d\t%s\t%s", e.Code, vc.HexS(e.Message), infoStr(e.AdditionalInfo)))
			}
		} else if res.v != nil && res.v.PhoneCodeHash == tokenB {
			o.put("call", "value-from-B")
		} else {
			o.put("call", "value-other")
		}
	}
	// what B saw
	bfs := B.Frames()
	plainB, badB := 0, 0
	for _, f := range bfs {
		if f.Plain {
			plainB++
		}
		if f.OpenErr != "" {
			badB++
		}
	}
	o.put("B-plain-frames", plainB)
	o.put("B-unopenable-frames", badB)
	bn := withCrc(nonAck(bfs), req.Crc)
	o.put("B-requests", len(bn))
	if len(bn) > 0 {
		o.put("B-first-request-equals-A-request", bytes.Equal(bn[0].Body, req.Body))
		o.put("B-first-request-salt-is-stored-salt", bn[0].Salt == A.Salt())
		o.put("B-first-request-same-session-id", bn[0].SessionID == req.SessionID)
		o.put("B-first-request-msgid-later", bn[0].MsgID > req.MsgID)
	}
	o.put("A-requests", len(withCrc(nonAck(A.Frames())[baseA:], req.Crc)))
	o.put("A-new-conns", A.Conns()-connsA0)
	o.put("B-new-conns", B.Conns()-connsB0)
	o.put("addr-after", vc.HexS(m.VerifClientAddr()))

	// the calls that were waiting for A
	finished := func() int {
		n := 0
		for _, f := range fl {
			select {
			case <-f.done:
				n++
			default:
			}
		}
		return n
	}
	if sp.inflight > 0 {
		grace := 300 * time.Millisecond * time.Duration(tscale)
		time.Sleep(grace)
		o.put("inflight-finished-unaided", finished())
		// whoever the client is connected to now answers the old ids (a real data centre would not
		// know them after a migration): do the waiting calls come back at all?
		cur := A
		if B.Conns() > connsB0 {
			cur = B
		}
		resent := 0
		for i, f := range fl {
			_ = cur.Send(refserver.Msg{MsgID: cur.NextMsgID(true), SeqNo: 2, Body: refserver.RpcResult(f.msgID, refserver.Pong(f.msgID, int64(9000+i)))})
			// a client that repeats its waiting calls at the new data centre: those have new ids
			again := false
			for _, g := range nonAck(cur.Frames()) {
				if p, ok := g.Obj.(*objects.PingParams); ok && p.PingID == int64(9000+i) && g.MsgID != f.msgID {
					again = true
					_ = cur.Send(refserver.Msg{MsgID: cur.NextMsgID(true), SeqNo: 2, Body: refserver.RpcResult(g.MsgID, refserver.Pong(g.MsgID, int64(9000+i)))})
				}
			}
			if again {
				resent++
			}
		}
		o.put("inflight-repeated-at-current-dc", resent)
		dl := time.Now().Add(watchdog)
		for finished() < len(fl) && time.Now().Before(dl) {
			time.Sleep(2 * time.Millisecond)
		}
		o.put("inflight-finished-after-late-answer", finished())
		rs := []string{}
		for _, f := range fl {
			select {
			case <-f.done:
				rs = append(rs, f.res)
			default:
				rs = append(rs, "waiting")
			}
		}
		o.put("inflight-results", strings.Join(rs, ","))
	}

	// a later request: completes? where did it go?
	if status[0] == "ok" {
		a0, b0 := len(nonAck(A.Frames())), len(nonAck(B.Frames()))
		later := make(chan string, 1)
		go func() {
			defer func() {
				if r := recover(); r != nil {
					later <- "panic"
				}
			}()
			v, err := m.MakeRequest(&objects.PingParams{PingID: 4242})
			if p, ok := v.(*objects.Pong); err == nil && ok && p.PingID == 4242 {
				later <- "pong"
			} else {
				later <- "other"
			}
		}()
		where := "nowhere"
		dl := time.Now().Add(watchdog)
		for time.Now().Before(dl) {
			if f, ok := pingFrame(nonAck(A.Frames())[a0:], 4242); ok {
				where = "A"
				_ = A.Send(refserver.Msg{MsgID: A.NextMsgID(true), SeqNo: 2, Body: refserver.RpcResult(f.MsgID, refserver.Pong(f.MsgID, 4242))})
				break
			}
			if f, ok := pingFrame(nonAck(B.Frames())[b0:], 4242); ok {
				where = "B"
				_ = B.Send(refserver.Msg{MsgID: B.NextMsgID(true), SeqNo: 2, Body: refserver.RpcResult(f.MsgID, refserver.Pong(f.MsgID, 4242))})
				break
			}
			time.Sleep(time.Millisecond)
		}
		o.put("later-request-went-to", where)
		select {
		case r := <-later:
			o.put("later-request", r)
		case <-time.After(watchdog):
			o.put("later-request", "hang")
		}
	}
	// leave the receive loop a moment to trip over anything the switch left behind
	pause(50 * time.Millisecond)
	finish()
}

var _ = tl.WordLen
