package main

// C13, method half: every method of *telegram.Client defined in methods_gen.go (and the
// hand-written wrappers of methods_special.go) is called against the reference server.
//
// Per call the harness
//   - builds the value P of the method's <Name>Params struct with a DIFFERENT value in every
//     field (field k of the struct is schema parameter k: that is what Inst/C13i.v establishes),
//     and derives the call's arguments from it (positional argument k = field k; Params-style
//     methods get P itself);
//   - picks the reply from the SCHEMA: the function whose normalised name is the method's name,
//     its result type T, a constructor of T (or Bool / Vector<...>), a value of the registered
//     Go type of that constructor;
//   - records what the server received (body bytes), what the method returned (abstracted by
//     tlh.Abs) and writes  E <id> <tid> <abs P>  and  D <id> u <hints> <reply bytes>  lines
//     for the extracted TL model: spec(abs P) must be the received bytes, decode(reply) must be
//     the returned value.  The comparison is done in lib/props/c13m.py.

import (
	"bufio"
	"encoding/binary"
	"fmt"
	"os"
	"path/filepath"
	"reflect"
	"runtime"
	"sort"
	"strconv"
	"strings"
	"sync"
	"time"

	"github.com/xelaj/mtproto/internal/encoding/tl"
	"github.com/xelaj/mtproto/internal/mtproto/objects"
	"github.com/xelaj/mtproto/telegram"
	"github.com/xelaj/mtproto/verifharness/refserver"
	"github.com/xelaj/mtproto/verifharness/tlh"
	vc "verifcommon"
)

// ---- schema text (harness-side reading: names, ids, result types only) ----

type schemaDef struct {
	name   string
	id     uint32
	result string
	fn     bool
}

func parseSchema(path string) []schemaDef {
	f, err := os.Open(path)
	if err != nil {
		die("schema: %v", err)
	}
	defer f.Close()
	var defs []schemaDef
	fn := false
	sc := bufio.NewScanner(f)
	sc.Buffer(make([]byte, 1<<20), 1<<24)
	for sc.Scan() {
		l := strings.TrimSpace(sc.Text())
		switch {
		case l == "---functions---":
			fn = true
			continue
		case l == "---types---":
			fn = false
			continue
		case l == "" || strings.HasPrefix(l, "//"):
			continue
		}
		eq := strings.LastIndex(l, "=")
		sp := strings.IndexAny(l, " \t")
		if eq < 0 || sp < 0 || !strings.HasSuffix(l, ";") {
			continue
		}
		head := l[:sp]
		h := strings.Index(head, "#")
		if h < 0 {
			continue
		}
		id, err := strconv.ParseUint(head[h+1:], 16, 32)
		if err != nil {
			continue
		}
		defs = append(defs, schemaDef{name: head[:h], id: uint32(id), result: strings.TrimSpace(strings.TrimSuffix(l[eq+1:], ";")), fn: fn})
	}
	return defs
}

func normName(s string) string {
	s = strings.ReplaceAll(s, ".", "")
	s = strings.ReplaceAll(s, "_", "")
	return strings.ToLower(s)
}

// ---- the run ----

type methodInfo struct {
	name   string
	file   string
	m      reflect.Method
	params *tlh.Struct // <Name>Params
	style  string      // "params" | "positional"
	sigErr string
	fn     *schemaDef
}

type expectation struct {
	active  bool
	reply   []byte // result bytes (nil: do not answer)
	oddSeq  bool
	gzip    bool
	frames  []refserver.Frame // non-ack frames received during the call
	acks    int
	replied bool
	// rejectFirst: the first copy of the request is answered with bad_server_salt (the client has to send it again, with
	// everything that belongs to the call - the decoder hints of a Vector<> result included); the answer goes to the second
	rejectFirst bool
}

type mrun struct {
	u        *tlh.Universe
	g        *tlh.Gen
	defs     []schemaDef
	fnByName map[string]*schemaDef
	ctorsOf  map[string][]*schemaDef
	byID     map[uint32]*schemaDef
	methods  []*methodInfo
	objFns   []*methodInfo // generated methods with a plain object result (inner queries of the wrappers)
	boolFns  []*methodInfo

	srv  *refserver.Server
	cl   *telegram.Client
	mu   sync.Mutex
	exp  *expectation
	dir  string
	nsrv int

	out   *lineOut
	cases *lineOut
	id    int
	thorough bool
}

func (r *mrun) restart() {
	if r.srv != nil {
		r.srv.OnFrame(nil)
		r.srv.Close()
	}
	r.nsrv++
	srv, err := refserver.New(refserver.Options{Seed: vc.Seed()*1000 + uint64(r.nsrv)})
	if err != nil {
		die("refserver: %v", err)
	}
	r.srv = srv
	srv.OnFrame(r.onFrame)
	m, err := connectOn(srv, filepath.Join(r.dir, fmt.Sprintf("session-%d.json", r.nsrv)))
	if err != nil {
		die("%v", err)
	}
	// the generated methods only use the embedded *mtproto.MTProto (MakeRequest...)
	r.cl = &telegram.Client{MTProto: m}
}

func (r *mrun) onFrame(f refserver.Frame) {
	r.mu.Lock()
	e := r.exp
	if e == nil || !e.active {
		r.mu.Unlock()
		return
	}
	if f.OpenErr == "" && !f.Plain && f.Crc == refserver.CrcMsgsAck {
		e.acks++
		r.mu.Unlock()
		return
	}
	e.frames = append(e.frames, f)
	if e.rejectFirst && len(e.frames) == 1 && e.reply != nil && f.OpenErr == "" && !f.Plain {
		srv := r.srv
		r.mu.Unlock()
		_ = srv.Send(refserver.Msg{MsgID: srv.NextMsgID(false), SeqNo: 0, Body: refserver.BadServerSalt(f.MsgID, f.SeqNo, 48, 0x5a17ed00+int64(len(f.Body)))})
		return
	}
	answerAt := 1
	if e.rejectFirst {
		answerAt = 2
	}
	first := len(e.frames) == answerAt && e.reply != nil && f.OpenErr == "" && !f.Plain
	if first {
		e.replied = true
	}
	reply, odd, gz := e.reply, e.oddSeq, e.gzip
	srv := r.srv
	r.mu.Unlock()
	if !first {
		return
	}
	if gz {
		reply = refserver.Gzip(reply)
	}
	seq := int32(2)
	if odd {
		seq = 1
	}
	_ = srv.Send(refserver.Msg{MsgID: srv.NextMsgID(true), SeqNo: seq, Body: refserver.RpcResult(f.MsgID, reply)})
}

func methodsMain(args []string) {
	if len(args) < 3 {
		die("usage: methods <tier> <outdir> <api.tl> [from=<k>] [only=<Name>]")
	}
	tier, outdir, api := args[0], args[1], args[2]
	from, only := 0, ""
	for _, a := range args[3:] {
		if strings.HasPrefix(a, "from=") {
			from, _ = strconv.Atoi(a[5:])
		}
		if strings.HasPrefix(a, "only=") {
			only = a[5:]
		}
	}
	r := &mrun{thorough: tier == "thorough", dir: scratch()}
	defer os.RemoveAll(r.dir)
	r.u = tlh.Build(scanned)
	if len(scanned) == 0 {
		die("built without the scanned type list (use lib/props/c13m.py)")
	}
	if from == 0 {
		reg := vc.Create(filepath.Join(outdir, "registry.txt"))
		for _, l := range r.u.Lines() {
			reg.Line(l)
		}
		reg.Close()
	}
	r.out = newLineOut(filepath.Join(outdir, "mcalls.txt"), from > 0)
	r.cases = newLineOut(filepath.Join(outdir, "mcases.txt"), from > 0)
	r.defs = parseSchema(api)
	r.fnByName = map[string]*schemaDef{}
	r.ctorsOf = map[string][]*schemaDef{}
	r.byID = map[uint32]*schemaDef{}
	dup := map[string]bool{}
	for i := range r.defs {
		d := &r.defs[i]
		r.byID[d.id] = d
		if d.fn {
			k := normName(d.name)
			if _, ok := r.fnByName[k]; ok {
				dup[k] = true
			}
			r.fnByName[k] = d
		} else {
			r.ctorsOf[d.result] = append(r.ctorsOf[d.result], d)
		}
	}
	for k := range dup {
		delete(r.fnByName, k) // ambiguous names are never used as a link
	}
	r.enumerate()
	if from == 0 {
		nfn := 0
		for _, d := range r.defs {
			if d.fn {
				nfn++
			}
		}
		r.out.Line("S", "schema-functions", strconv.Itoa(nfn))
		for _, mi := range r.methods {
			fid, res := "-", "-"
			if mi.fn != nil {
				fid, res = fmt.Sprintf("%08x", mi.fn.id), mi.fn.result
			}
			pn := "-"
			if mi.params != nil {
				pn = mi.params.Name
			}
			r.out.Line("M", mi.name, mi.file, mi.style, pn, fid, res, mi.m.Type.String(), vc.HexS(mi.sigErr))
		}
	}
	r.g = tlh.NewGen(r.u, vc.NewRng(vc.Seed()).Fork(77))
	r.restart()

	t0 := time.Now()
	for _, mi := range r.methods {
		if only != "" && mi.name != only {
			continue
		}
		for _, p := range r.patterns(mi) {
			r.id++
			if r.id <= from {
				// keep the generator's stream where it was: replay the draws, not the call
				r.prepare(mi, p)
				continue
			}
			r.call(mi, p)
		}
	}
	r.out.Line("S", "wall-ms", strconv.FormatInt(time.Since(t0).Milliseconds(), 10))
	r.out.Line("END")
}

func (r *mrun) enumerate() {
	ct := reflect.TypeOf(&telegram.Client{})
	byName := map[string]*tlh.Struct{}
	for _, s := range r.u.Structs {
		byName[s.Name] = s
	}
	for i := 0; i < ct.NumMethod(); i++ {
		m := ct.Method(i)
		fn := runtime.FuncForPC(m.Func.Pointer())
		if fn == nil {
			continue
		}
		file, _ := fn.FileLine(fn.Entry())
		base := filepath.Base(file)
		if base != "methods_gen.go" && base != "methods_special.go" {
			continue
		}
		mi := &methodInfo{name: m.Name, file: base, m: m}
		mi.params = byName["telegram."+m.Name+"Params"]
		mi.fn = r.fnByName[normName(m.Name)]
		r.classify(mi)
		r.methods = append(r.methods, mi)
	}
	sort.Slice(r.methods, func(i, j int) bool { return r.methods[i].name < r.methods[j].name })
	for _, mi := range r.methods {
		if mi.file != "methods_gen.go" || mi.fn == nil || mi.sigErr != "" {
			continue
		}
		switch {
		case mi.fn.result == "Bool":
			r.boolFns = append(r.boolFns, mi)
		case strings.HasPrefix(mi.fn.result, "Vector<"):
		default:
			r.objFns = append(r.objFns, mi)
		}
	}
}

var tError = reflect.TypeOf((*error)(nil)).Elem()

func intKind(k reflect.Kind) bool {
	return k == reflect.Int || k == reflect.Int32 || k == reflect.Int64
}

// classify decides how arguments are derived from the Params value and checks the shape
// (receiver, arguments) -> (result, error).
func (r *mrun) classify(mi *methodInfo) {
	t := mi.m.Type
	if mi.params == nil {
		mi.sigErr = "no type " + mi.name + "Params"
		return
	}
	if t.NumOut() != 2 || t.Out(1) != tError {
		mi.sigErr = "result list is not (T, error)"
		return
	}
	pt := mi.params.Type
	if t.NumIn() == 2 && t.In(1) == reflect.PtrTo(pt) {
		mi.style = "params"
		return
	}
	mi.style = "positional"
	if t.NumIn()-1 != pt.NumField() {
		mi.sigErr = fmt.Sprintf("%d arguments for %d parameters", t.NumIn()-1, pt.NumField())
		return
	}
	for k := 0; k < pt.NumField(); k++ {
		at, ft := t.In(k+1), pt.Field(k).Type
		if at == ft || (intKind(at.Kind()) && intKind(ft.Kind()) && at.PkgPath() == "" && ft.PkgPath() == "") {
			continue
		}
		mi.sigErr = fmt.Sprintf("argument %d has type %v, parameter %d (%s) has type %v", k+1, at, k+1, pt.Field(k).Name, ft)
		return
	}
}

type pattern struct {
	idx  int
	mode string // distinct | distinct2 | zero-optional | zero-scalars | random | nil-mandatory
}

func (r *mrun) patterns(mi *methodInfo) []pattern {
	ps := []pattern{{0, "distinct"}, {1, "distinct2"}}
	if !r.thorough {
		return ps
	}
	ps = append(ps, pattern{2, "zero-optional"}, pattern{3, "zero-scalars"}, pattern{4, "nil-mandatory"})
	n := 8
	if mi.fn != nil {
		if c := len(r.replyChoices(mi.fn.result)); c+2 > n {
			n = c + 2
		}
	}
	if n > 48 {
		n = 48
	}
	for i := 5; i < n; i++ {
		ps = append(ps, pattern{i, "random"})
	}
	return ps
}

// ---- argument values ----

func (r *mrun) scalar(t reflect.Type, k int, p pattern, nbool *int) (reflect.Value, bool) {
	v := reflect.New(t).Elem()
	zero := p.mode == "zero-scalars"
	salt := 0
	if p.mode == "distinct2" {
		salt = 500
	}
	switch t.Kind() {
	case reflect.Int32, reflect.Int:
		if !zero {
			v.SetInt(int64(1000 + salt + k))
		}
	case reflect.Int64:
		if !zero {
			v.SetInt(int64(1000000000000) + int64(salt+k))
		}
	case reflect.Float64:
		if !zero {
			v.SetFloat(1000.5 + float64(salt+k))
		}
	case reflect.String:
		if !zero {
			v.SetString(fmt.Sprintf("arg%d-%d", k, salt))
		}
	case reflect.Bool:
		// pattern j: bit j of the 1-based index among the bool parameters: two patterns tell four bools apart
		*nbool++
		bit := uint(0)
		if p.mode == "distinct2" {
			bit = 1
		}
		if !zero {
			v.SetBool((*nbool>>bit)&1 == 1)
		}
	case reflect.Slice:
		switch t.Elem().Kind() {
		case reflect.Uint8:
			if zero {
				v.SetBytes([]byte{})
			} else {
				v.SetBytes([]byte(fmt.Sprintf("bytes%d-%d", k, salt)))
			}
		case reflect.Int32:
			s := reflect.MakeSlice(t, 0, 2)
			if !zero {
				s = reflect.Append(s, reflect.ValueOf(int32(1000+salt+k)), reflect.ValueOf(int32(2000+salt+k)))
			}
			v.Set(s)
		case reflect.Int64:
			s := reflect.MakeSlice(t, 0, 2)
			if !zero {
				s = reflect.Append(s, reflect.ValueOf(int64(1000000000000)+int64(salt+k)), reflect.ValueOf(int64(2000000000000)+int64(salt+k)))
			}
			v.Set(s)
		case reflect.String:
			s := reflect.MakeSlice(t, 0, 2)
			if !zero {
				s = reflect.Append(s, reflect.ValueOf(fmt.Sprintf("arg%d-%d-a", k, salt)), reflect.ValueOf(fmt.Sprintf("arg%d-%d-b", k, salt)))
			}
			v.Set(s)
		default:
			return v, false
		}
	default:
		return v, false
	}
	return v, true
}

// build fills a fresh <Name>Params value. inner: request object put into tl.Object fields (wrappers).
func (r *mrun) build(mi *methodInfo, p pattern, inner reflect.Value) reflect.Value {
	// the generator cuts nesting at its depth limit and may leave a mandatory member of a nested
	// object nil; in the patterns that are meant to be sent, draw again until the value is encodable
	var pv reflect.Value
	for try := 0; try < 24; try++ {
		pv = r.build1(mi, p, inner, 2+try/6)
		if p.mode == "random" || p.mode == "nil-mandatory" {
			break
		}
		if _, err := tl.Marshal(pv.Interface()); err == nil {
			break
		}
	}
	return pv
}

func (r *mrun) build1(mi *methodInfo, p pattern, inner reflect.Value, depth int) reflect.Value {
	s := mi.params
	pv := reflect.New(s.Type)
	e := pv.Elem()
	nbool := 0
	seen := map[string]bool{}
	for i, f := range s.Fields {
		if !e.Field(i).CanSet() {
			continue
		}
		k := i + 1
		optional := f.Tag != "none"
		if optional && (p.mode == "zero-optional" || p.mode == "nil-mandatory") {
			continue
		}
		if p.mode == "random" {
			nz := false
			if optional {
				nz = r.g.R.Bool()
				if !nz {
					continue
				}
			}
			if f.Type.Kind() == reflect.Interface && f.Type.NumMethod() == 1 && inner.IsValid() && f.Type == reflect.TypeOf((*tl.Object)(nil)).Elem() {
				e.Field(i).Set(inner)
				continue
			}
			e.Field(i).Set(r.g.Value(f.Type, depth, nz))
			continue
		}
		if v, ok := r.scalar(f.Type, k, p, &nbool); ok {
			e.Field(i).Set(v)
			continue
		}
		if f.Type == reflect.TypeOf((*tl.Object)(nil)).Elem() {
			if inner.IsValid() {
				e.Field(i).Set(inner)
			}
			continue
		}
		if p.mode == "nil-mandatory" {
			continue // objects, interfaces, vectors of objects stay nil
		}
		// struct pointers, interfaces, enums, vectors of objects: generated; distinct from the
		// earlier generated fields of this call when the type has more than one value
		var v reflect.Value
		for try := 0; try < 12; try++ {
			v = r.g.Value(f.Type, depth, true)
			if (f.Type.Kind() == reflect.Slice) && v.Len() == 0 && p.mode != "zero-scalars" {
				continue
			}
			if !seen[r.u.Abs(v)] {
				break
			}
		}
		seen[r.u.Abs(v)] = true
		e.Field(i).Set(v)
	}
	return pv
}

func (r *mrun) argsOf(mi *methodInfo, pv reflect.Value) []reflect.Value {
	if mi.style == "params" {
		return []reflect.Value{pv}
	}
	t := mi.m.Type
	args := make([]reflect.Value, 0, t.NumIn()-1)
	for k := 0; k < pv.Elem().NumField(); k++ {
		fv := pv.Elem().Field(k)
		at := t.In(k + 1)
		if fv.Type() != at {
			fv = fv.Convert(at)
		}
		args = append(args, fv)
	}
	return args
}

// ---- replies ----

type replyChoice struct {
	kind string     // Bool | VecInt | VecLong | VecObj | Obj
	ctor *schemaDef // Obj: the constructor; VecObj: nil (elements drawn per element)
	elem string     // VecObj: element type
}

func (r *mrun) replyChoices(result string) []replyChoice {
	switch {
	case result == "Bool":
		return []replyChoice{{kind: "Bool"}}
	case result == "Vector<int>":
		return []replyChoice{{kind: "VecInt"}}
	case result == "Vector<long>":
		return []replyChoice{{kind: "VecLong"}}
	case strings.HasPrefix(result, "Vector<") && strings.HasSuffix(result, ">"):
		return []replyChoice{{kind: "VecObj", elem: result[7 : len(result)-1]}}
	}
	var cs []replyChoice
	for _, c := range r.ctorsOf[result] {
		cs = append(cs, replyChoice{kind: "Obj", ctor: c})
	}
	return cs
}

// valueOfCtor: a value of the Go type registered for a schema constructor
func (r *mrun) valueOfCtor(c *schemaDef, depth int) (reflect.Value, []byte, string) {
	k, ok := r.u.Reg[c.id]
	if !ok {
		return reflect.Value{}, nil, "constructor " + c.name + " is not registered"
	}
	switch k[0] {
	case 's':
		tid, _ := strconv.Atoi(k[1:])
		// the generator cuts nesting at its depth limit and may leave a mandatory member nil there:
		// draw again (deeper) until the repository's encoder accepts the value
		var v reflect.Value
		var err error
		for try := 0; try < 24; try++ {
			v = r.g.Struct(r.u.Structs[tid], depth+try/6, nil)
			var b []byte
			if b, err = tl.Marshal(v.Interface()); err == nil {
				return v, b, ""
			}
		}
		return v, nil, "cannot marshal generated reply: " + err.Error()
	case 'e':
		eid, _ := strconv.Atoi(k[1:])
		v := reflect.New(r.u.Enums[eid].Type).Elem()
		v.SetUint(uint64(c.id))
		b := make([]byte, 4)
		binary.LittleEndian.PutUint32(b, c.id)
		return v, b, ""
	}
	return reflect.Value{}, nil, "constructor " + c.name + " registered as " + k
}

type reply struct {
	kind    string
	bytes   []byte
	sentAbs string
	hints   string
	kindErr string // why the schema's result kind and the method's Go result type disagree
	genErr  string // harness could not build a reply
	ctor    string
}

func (r *mrun) makeReply(result string, ret reflect.Type, n int) reply {
	cs := r.replyChoices(result)
	if len(cs) == 0 {
		return reply{genErr: "schema has no constructor of type " + result}
	}
	c := cs[n%len(cs)]
	rp := reply{kind: c.kind, hints: "-"}
	le := func(x uint32) []byte { b := make([]byte, 4); binary.LittleEndian.PutUint32(b, x); return b }
	switch c.kind {
	case "Bool":
		if ret.Kind() != reflect.Bool {
			rp.kindErr = "schema result Bool, Go result " + ret.String()
		}
		b := n%2 == 0
		rp.bytes = refserver.Bool(b)
		rp.sentAbs = map[bool]string{true: "t", false: "f"}[b]
	case "VecInt", "VecLong":
		want := reflect.TypeOf([]int32{})
		if c.kind == "VecLong" {
			want = reflect.TypeOf([]int64{})
		}
		if ret != want {
			rp.kindErr = "schema result " + result + ", Go result " + ret.String()
		}
		cnt := []int{3, 1, 0, 2, 17}[n%5]
		if c.kind == "VecInt" {
			v := make([]int32, cnt)
			for i := range v {
				v[i] = int32(7000 + 13*i + n)
			}
			rp.bytes = refserver.VectorInt32(v)
			rp.sentAbs = r.u.Abs(reflect.ValueOf(v))
		} else {
			v := make([]int64, cnt)
			for i := range v {
				v[i] = int64(7000000000000) + int64(13*i+n)
			}
			rp.bytes = refserver.VectorInt64(v)
			rp.sentAbs = r.u.Abs(reflect.ValueOf(v))
		}
		rp.hints = r.u.Fty(want)
	case "VecObj":
		ecs := r.ctorsOf[c.elem]
		if len(ecs) == 0 {
			rp.genErr = "schema has no constructor of element type " + c.elem
			return rp
		}
		if ret.Kind() != reflect.Slice {
			rp.kindErr = "schema result " + result + ", Go result " + ret.String()
			ret = reflect.SliceOf(reflect.TypeOf((*tl.Object)(nil)).Elem())
		}
		cnt := []int{2, 1, 0, 3, 5}[n%5]
		sl := reflect.MakeSlice(ret, 0, cnt)
		body := append(le(refserver.CrcVector), le(uint32(cnt))...)
		names := []string{}
		for i := 0; i < cnt; i++ {
			ec := ecs[(n+i)%len(ecs)]
			v, b, e := r.valueOfCtor(ec, 1)
			if e != "" {
				rp.genErr = e
				return rp
			}
			names = append(names, ec.name)
			if !v.Type().AssignableTo(ret.Elem()) {
				rp.kindErr = fmt.Sprintf("schema element %s (constructor %s, Go %v) is not a %v", c.elem, ec.name, v.Type(), ret.Elem())
			} else {
				sl = reflect.Append(sl, v)
			}
			body = append(body, b...)
		}
		rp.ctor = strings.Join(names, ",")
		rp.bytes = body
		rp.sentAbs = r.u.Abs(sl)
		rp.hints = r.u.Fty(ret)
	case "Obj":
		v, b, e := r.valueOfCtor(c.ctor, 2)
		if e != "" {
			rp.genErr = e
			return rp
		}
		rp.ctor = c.ctor.name
		if !v.Type().AssignableTo(ret) {
			rp.kindErr = fmt.Sprintf("schema result %s (constructor %s, Go %v) is not a %v", result, c.ctor.name, v.Type(), ret)
		}
		rp.bytes = b
		rp.sentAbs = r.u.Abs(v)
	}
	return rp
}

// ---- one call ----

type prepared struct {
	pv     reflect.Value
	args   []reflect.Value
	result string // schema result type the reply is drawn from
	rp     reply
	inner  *methodInfo
}

func (r *mrun) prepare(mi *methodInfo, p pattern) *prepared {
	if mi.sigErr != "" {
		return nil
	}
	pr := &prepared{}
	var inner reflect.Value
	if mi.file == "methods_special.go" {
		// generic wrappers: query:!X = X. The inner query is a request of a generated method.
		// (a Vector<> answer cannot reach a generic wrapper: the decoder wants a hint per vector and
		// the wrappers have no way to give one; not exercised)
		pool := r.objFns
		if p.idx%2 == 1 && len(r.boolFns) > 0 {
			pool = r.boolFns
		}
		if len(pool) > 0 {
			pr.inner = pool[(int(mi.params.Crc)+p.idx*7)%len(pool)]
			inner = r.build(pr.inner, pattern{p.idx, "distinct"}, reflect.Value{})
		}
	}
	pr.pv = r.build(mi, p, inner)
	pr.args = r.argsOf(mi, pr.pv)
	switch {
	case pr.inner != nil:
		pr.result = pr.inner.fn.result
	case mi.fn != nil:
		pr.result = mi.fn.result
	}
	if pr.result != "" {
		ret := mi.m.Type.Out(0)
		if pr.inner != nil {
			ret = pr.inner.m.Type.Out(0) // the wrapper returns tl.Object: the kind is judged on the inner method's type
		}
		pr.rp = r.makeReply(pr.result, ret, p.idx)
	} else {
		pr.rp = reply{genErr: "no schema function for this method"}
	}
	return pr
}

func renderArgs(u *tlh.Universe, args []reflect.Value) string {
	s := []string{}
	for _, a := range args {
		if a.Kind() == reflect.Int { // Go int of the hand-written wrappers: not a TL type
			s = append(s, "int:"+strconv.FormatInt(a.Int(), 10))
			continue
		}
		s = append(s, u.Abs(a))
	}
	return strings.Join(s, " ; ")
}

func rejectedNote(e *expectation, frames []refserver.Frame) string {
	if !e.rejectFirst {
		return ""
	}
	if len(frames) == 2 && frames[0].OpenErr == "" && frames[1].OpenErr == "" && string(frames[0].Body) == string(frames[1].Body) {
		return "+rejected-once+resent-equal"
	}
	return "+rejected-once+resent-differs"
}

func (r *mrun) call(mi *methodInfo, p pattern) {
	id := strconv.Itoa(r.id)
	r.out.Line("B", id, mi.name, p.mode)
	pr := r.prepare(mi, p)
	if pr == nil {
		r.out.Line("C", id, mi.name, p.mode, "sig", vc.HexS(mi.sigErr))
		return
	}
	if pr.rp.genErr != "" {
		r.out.Line("C", id, mi.name, p.mode, "noreply", vc.HexS(pr.rp.genErr))
		return
	}
	gval := r.u.Abs(pr.pv)
	r.cases.Line("E", "e"+id, strconv.Itoa(mi.params.Tid), gval)
	if pr.rp.bytes != nil {
		r.cases.Line("D", "d"+id, "u", pr.rp.hints, vc.Hex(pr.rp.bytes))
	}
	exp := &expectation{active: true, reply: pr.rp.bytes, oddSeq: p.idx%2 == 0, gzip: r.thorough && p.idx%4 == 3}
	// every Vector<> method once, every 16th call of the others: the server's salt has expired, the first copy is rejected
	exp.rejectFirst = pr.rp.bytes != nil && ((strings.HasPrefix(pr.rp.kind, "Vec") && p.idx == 0) || r.id%16 == 5)
	r.mu.Lock()
	r.exp = exp
	r.mu.Unlock()

	var outs []reflect.Value
	recv := mi.m.Func
	status, detail := withWatchdog(watchdog, func() {
		outs = recv.Call(append([]reflect.Value{reflect.ValueOf(r.cl)}, pr.args...))
	})
	// the request frame is logged before the reply is sent, so it is complete here; late acks are not awaited
	r.mu.Lock()
	exp.active = false
	frames := append([]refserver.Frame(nil), exp.frames...)
	r.mu.Unlock()

	retAbs, errClass := "-", "-"
	if status == "ok" {
		if e := outs[1]; !e.IsNil() {
			errClass = "error"
			detail = e.Interface().(error).Error()
		} else {
			errClass = "nil"
			retAbs = r.u.Abs(outs[0])
		}
	}
	recvHex, recvCrc := "-", "-"
	if len(frames) > 0 {
		f := frames[0]
		switch {
		case f.OpenErr != "":
			recvHex = "unopenable"
		case f.Plain:
			recvHex = "plain:" + vc.Hex(f.Body)
		default:
			recvHex = vc.Hex(f.Body)
			recvCrc = fmt.Sprintf("%08x", f.Crc)
		}
	}
	innerName := "-"
	if pr.inner != nil {
		innerName = pr.inner.name
	}
	fid := "-"
	if mi.fn != nil {
		fid = fmt.Sprintf("%08x", mi.fn.id)
	}
	r.out.Line("C", id, mi.name, p.mode, "ran",
		status, errClass, strconv.Itoa(len(frames)), recvCrc, recvHex,
		fid, fmt.Sprintf("%08x", mi.params.Crc),
		pr.result, pr.rp.kind, pr.rp.ctor, vc.HexS(pr.rp.kindErr), vc.HexS(pr.rp.genErr),
		retAbs, pr.rp.sentAbs, vc.Hex(pr.rp.bytes), innerName,
		vc.HexS(renderArgs(r.u, pr.args)), vc.HexS(detail), map[bool]string{true: "gzip", false: "plain"}[exp.gzip]+rejectedNote(exp, frames))
	if status != "ok" {
		// the client may be wedged: continue on a fresh server and client
		r.restart()
	}
}

var _ = objects.CrcRpcResult
