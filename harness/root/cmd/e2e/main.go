// End-to-end harness: the real client (mtproto.MTProto / telegram.Client, built with -tags verif)
// against the in-process reference server (harness/root/refserver).
//
//	methods <tier> <outdir> <api.tl> [from=<k>] [only=<Name>]   C13: every generated client method
//	migrate <tier> <out>                                          C17: PHONE_MIGRATE_X on the live makeRequest path
//	resume  <tier> <out>                                          C12: a client started on a filled / missing store
//
// Every sub-command writes tab-separated observation lines; the verdicts are formed by
// lib/props/{c13m,c17m,c12m}.py (against the extracted Coq models where one exists).
// Observations are projected: kinds, bytes, values, counts - never error texts or addresses.
package main

import (
	"crypto/rsa"
	"fmt"
	"os"
	"runtime"
	"strings"
	"sync"
	"time"

	"github.com/xelaj/mtproto"
	"github.com/xelaj/mtproto/internal/keys"
	"github.com/xelaj/mtproto/verifharness/refserver"
)

const testPubKey = `-----BEGIN RSA PUBLIC KEY-----
MIGJAoGBANLZwBNG5jruRHN8Wic1lOXW/46cj8L91m0UjjEmW5Az4b91pqyTZ4z2
62NjFf+0BfH/Ca13YxdJ8UbZxUXdt7JBL/wnsETVaMTyG4zJRd4JmEVZMutexmwl
s+8yy20FKFEF9ZEJEflyXO0U74N+gNFn6flr3nYOehQadLGlnlgvAgMBAAE=
-----END RSA PUBLIC KEY-----
`

var watchdog = 10 * time.Second

func die(f string, a ...interface{}) {
	fmt.Fprintf(os.Stderr, "e2e: "+f+"\n", a...)
	os.Exit(3)
}

// scratch directory outside /repo and /verif: a fresh one per process (never a directory a former
// process may have left behind); removed by finish()
var scratchDirs []string

func scratch() string {
	// VERIF_E2E_SCRATCH: base directory owned (and removed) by whoever started this process
	d, err := os.MkdirTemp(os.Getenv("VERIF_E2E_SCRATCH"), "verif-e2e-")
	if err != nil {
		die("mkdir: %v", err)
	}
	scratchDirs = append(scratchDirs, d)
	return d
}

// finish ends a child process: END line, scratch directories removed (os.Exit skips deferred calls)
func finish() {
	fmt.Println("END")
	os.Stdout.Sync()
	os.Chdir(os.TempDir())
	for _, d := range scratchDirs {
		os.RemoveAll(d)
	}
	os.Exit(0)
}

// lineOut writes observation lines unbuffered: if the client kills the process (a panic of its
// receive loop cannot be recovered from outside) everything observed so far is on disk.
type lineOut struct {
	mu sync.Mutex
	f  *os.File
}

func newLineOut(path string, appendTo bool) *lineOut {
	fl := os.O_CREATE | os.O_WRONLY | os.O_TRUNC
	if appendTo {
		fl = os.O_CREATE | os.O_WRONLY | os.O_APPEND
	}
	f, err := os.OpenFile(path, fl, 0o644)
	if err != nil {
		die("open %s: %v", path, err)
	}
	return &lineOut{f: f}
}

func (o *lineOut) Line(fields ...string) {
	o.mu.Lock()
	o.f.WriteString(strings.Join(fields, "\t") + "\n")
	o.mu.Unlock()
}

// connectOn starts a real client on a session file written for srv (so it starts keyed) and
// waits until the server has seen the connection.
func connectOn(srv *refserver.Server, sess string) (*mtproto.MTProto, error) {
	os.Remove(sess)
	if err := srv.WriteSession(sess); err != nil {
		return nil, fmt.Errorf("writing session: %v", err)
	}
	before := srv.Conns()
	m, err := mtproto.NewMTProto(mtproto.Config{AuthKeyFile: sess, ServerHost: srv.Addr()})
	if err != nil {
		return nil, fmt.Errorf("NewMTProto: %v", err)
	}
	if err := m.CreateConnection(); err != nil {
		return nil, fmt.Errorf("CreateConnection: %v", err)
	}
	if err := srv.WaitConn(before+1, watchdog); err != nil {
		return nil, err
	}
	return m, nil
}

// withWatchdog runs f in its own goroutine; reports a panic of f (caller-side panic) and a hang.
func withWatchdog(d time.Duration, f func()) (status string, detail string) {
	done := make(chan [2]string, 1)
	go func() {
		defer func() {
			if r := recover(); r != nil {
				done <- [2]string{"panic", fmt.Sprint(r)}
			}
		}()
		f()
		done <- [2]string{"ok", ""}
	}()
	select {
	case r := <-done:
		return r[0], r[1]
	case <-time.After(d):
		buf := make([]byte, 1<<16)
		n := runtime.Stack(buf, true)
		return "hang", string(buf[:n])
	}
}

// mustKey reads the test public key with the repository's own reader (what telegram.NewClient does)
func mustKey(path string) *rsa.PublicKey {
	ks, err := keys.ReadFromFile(path)
	if err != nil || len(ks) == 0 {
		die("reading the test public key: %v", err)
	}
	return ks[0]
}

func main() {
	if len(os.Args) < 2 {
		die("usage: methods|migrate|resume ...")
	}
	if v := os.Getenv("VERIF_WATCHDOG_MS"); v != "" {
		var ms int
		fmt.Sscanf(v, "%d", &ms)
		if ms > 0 {
			watchdog = time.Duration(ms) * time.Millisecond
		}
	}
	switch os.Args[1] {
	case "methods":
		methodsMain(os.Args[2:])
	case "migrate":
		migrateMain(os.Args[2:])
	case "resume":
		resumeMain(os.Args[2:])
	default:
		die("unknown sub-command %q", os.Args[1])
	}
}
