package main

// C12, live half: a client started on a store that holds a session resumes with that key, salt
// and address without a new key exchange; on a missing store its first frame is a plain req_pq;
// on a file cut short no client comes into being.
//
// The reference server knows exactly one auth key. A decoy listener stands at the address the
// client is CONFIGURED with (Config.ServerHost): a resumed client must dial the STORED address
// instead. Observations only (kinds, counts, equality of fields); verdicts in lib/props/c12m.py
// against the pure decision of coq/theories/Misc/SessionResume.v (Props/C12m.v).
// Every scenario runs in a child process (see migrate.go).
//
//	T <id> <spec>
//	O <id> <key> <value>
//	X <id> <exit status> <hex stderr tail>

import (
	"bytes"
	"fmt"
	"net"
	"os"
	"path/filepath"
	"strconv"
	"strings"
	"sync"
	"sync/atomic"
	"time"

	"github.com/xelaj/mtproto"
	"github.com/xelaj/mtproto/internal/mtproto/objects"
	"github.com/xelaj/mtproto/internal/session"
	"github.com/xelaj/mtproto/telegram"
	"github.com/xelaj/mtproto/verifharness/refserver"
	vc "verifcommon"
)

type rspec struct {
	kind string // filled | missing | torn
	path string // abs | rel | bare
	via  string // file | storage | newclient
	salt int64
	cut  int // torn: number of bytes kept (negative: counted from the end)
}

func (s rspec) String() string {
	return fmt.Sprintf("kind=%s,path=%s,via=%s,salt=%d,cut=%d", s.kind, s.path, s.via, s.salt, s.cut)
}

func parseRSpec(x string) rspec {
	s := rspec{}
	for _, kv := range strings.Split(x, ",") {
		i := strings.Index(kv, "=")
		k, v := kv[:i], kv[i+1:]
		switch k {
		case "kind":
			s.kind = v
		case "path":
			s.path = v
		case "via":
			s.via = v
		case "salt":
			s.salt, _ = strconv.ParseInt(v, 10, 64)
		case "cut":
			s.cut, _ = strconv.Atoi(v)
		}
	}
	return s
}

func resumeScenarios(thorough bool) []rspec {
	l := []rspec{
		{"filled", "abs", "file", 0x1122334455667788, 0},
		{"filled", "bare", "file", -1, 0},
		{"filled", "rel", "storage", -0x8000000000000000, 0},
		{"filled", "abs", "newclient", 0x7fffffffffffffff, 0},
		{"filled", "abs", "storage", 1, 0},
		{"missing", "abs", "file", 0, 0},
		{"missing", "bare", "storage", 0, 0},
		{"torn", "abs", "file", 77, 0},
		{"torn", "abs", "file", 77, 1},
		{"torn", "abs", "file", 77, -1},
		{"torn", "bare", "storage", 77, -2},
	}
	if thorough {
		r := vc.NewRng(vc.Seed()).Fork(12)
		for _, p := range []string{"abs", "rel", "bare"} {
			for _, v := range []string{"file", "storage", "newclient"} {
				for k := 0; k < 3; k++ {
					l = append(l, rspec{"filled", p, v, int64(r.U64()), 0})
				}
				if v != "newclient" {
					l = append(l, rspec{"missing", p, v, 0, 0})
				}
			}
		}
		for _, c := range []int{2, 10, 50, 100, 200, 300, 400, 450, -3, -5, -10, -40} {
			l = append(l, rspec{"torn", "abs", "file", int64(r.U64()), c})
		}
	}
	return l
}

func resumeMain(args []string) {
	if len(args) >= 1 && args[0] == "one" {
		resumeOne(args[1], parseRSpec(args[2]))
		return
	}
	if len(args) < 2 {
		die("usage: resume <tier> <out>")
	}
	out := newLineOut(args[1], false)
	jobs := resumeScenarios(args[0] == "thorough")
	results := make([][]string, len(jobs))
	sem := make(chan struct{}, 4)
	var wg sync.WaitGroup
	for i := range jobs {
		wg.Add(1)
		sem <- struct{}{}
		go func(i int) {
			defer func() { <-sem; wg.Done() }()
			results[i] = runChild("resume", strconv.Itoa(i+1), jobs[i].String())
		}(i)
	}
	wg.Wait()
	for _, ls := range results {
		for _, l := range ls {
			out.f.WriteString(l + "\n")
		}
	}
	out.Line("END")
}

const crcReqPQ = 0x60469778
const crcReqPQMulti = 0xbe7e8ef1

type frameStats struct {
	n, plain, unopenable, reqpq, otherSalt int
	firstKind                              string
	firstSaltOK                            bool
	sessions                               map[int64]bool
}

func statsOf(fs []refserver.Frame, conn int, salt int64) frameStats {
	st := frameStats{firstKind: "none", sessions: map[int64]bool{}}
	for _, f := range fs {
		if f.Conn != conn {
			continue
		}
		kind := "encrypted"
		switch {
		case f.OpenErr != "":
			kind = "unopenable"
			st.unopenable++
		case f.Plain:
			kind = "plain"
			st.plain++
		default:
			if f.Salt != salt {
				st.otherSalt++
			}
			st.sessions[f.SessionID] = true
		}
		if f.Crc == crcReqPQ || f.Crc == crcReqPQMulti {
			st.reqpq++
			if f.Plain {
				kind = "plain-req_pq"
			}
		}
		if st.n == 0 {
			st.firstKind = kind
			st.firstSaltOK = kind == "encrypted" && f.Salt == salt
		}
		st.n++
	}
	return st
}

func resumeOne(id string, sp rspec) {
	o := &mobs{id: id}
	fmt.Printf("T\t%s\t%s\n", id, sp.String())
	dir := scratch()
	if err := os.MkdirAll(filepath.Join(dir, "sub"), 0o700); err != nil {
		die("mkdir: %v", err)
	}
	if err := os.Chdir(dir); err != nil {
		die("chdir: %v", err)
	}
	var path string
	switch sp.path {
	case "abs":
		path = filepath.Join(dir, "sub", "session.json")
	case "rel":
		path = "./sub/session.json"
	case "bare":
		path = "session.json"
	default:
		die("bad path kind")
	}
	salt := sp.salt
	if salt == 0 {
		salt = 424242
	}
	srv, err := refserver.New(refserver.Options{Seed: vc.Seed()*31 + uint64(len(sp.String())), Salt: salt})
	if err != nil {
		die("refserver: %v", err)
	}
	// the configured address: a listener that only counts who connects
	decoy, err := net.Listen("tcp", "127.0.0.1:0")
	if err != nil {
		die("decoy: %v", err)
	}
	var decoyConns int32
	go func() {
		for {
			c, err := decoy.Accept()
			if err != nil {
				return
			}
			atomic.AddInt32(&decoyConns, 1)
			c.Close()
		}
	}()
	configured := decoy.Addr().String()
	if sp.kind == "missing" {
		configured = srv.Addr() // nothing stored: the configured address is the one to dial
	}

	var stored []byte
	if sp.kind != "missing" {
		if err := srv.WriteSession(path); err != nil {
			die("writing session: %v", err)
		}
		stored, _ = os.ReadFile(path)
	}
	if sp.kind == "torn" {
		k := sp.cut
		if k < 0 {
			k = len(stored) + k
		}
		if k < 0 || k >= len(stored) {
			k = len(stored) / 2
		}
		if err := os.WriteFile(path, stored[:k], 0o600); err != nil {
			die("tearing: %v", err)
		}
		o.put("torn-at", fmt.Sprintf("%d/%d", k, len(stored)))
	}

	pk := filepath.Join(dir, "keys.pem")
	if err := os.WriteFile(pk, []byte(testPubKey), 0o600); err != nil {
		die("keys: %v", err)
	}
	pub := mustKey(pk)

	var m *mtproto.MTProto
	var newErr error
	connected := false
	switch sp.via {
	case "file":
		m, newErr = mtproto.NewMTProto(mtproto.Config{AuthKeyFile: path, ServerHost: configured, PublicKey: pub})
	case "storage":
		m, newErr = mtproto.NewMTProto(mtproto.Config{SessionStorage: session.NewFromFile(path), ServerHost: configured, PublicKey: pub})
	case "newclient":
		cfg := &telegram.Config{Date: 1, Expires: 2, ThisDc: 2, MeURLPrefix: "https://t.me/"}
		srv.OnFrame(func(f refserver.Frame) {
			if f.Crc == 0xda9b0d0d {
				_ = srv.Send(refserver.Msg{MsgID: srv.NextMsgID(true), SeqNo: 1, Body: refserver.RpcResult(f.MsgID, refserver.Object(cfg))})
			}
		})
		var cl *telegram.Client
		st, det := withWatchdog(watchdog, func() {
			cl, newErr = telegram.NewClient(telegram.ClientConfig{SessionFile: path, ServerHost: configured, PublicKeysFile: pk, AppID: 94575, AppHash: "a3406de8d171bb422bb6ddf3bbd800e2"})
		})
		srv.OnFrame(nil)
		if st != "ok" {
			o.put("newclient", st)
			o.put("newclient-detail", vc.HexS(det))
			finish()
		}
		if cl != nil {
			m = cl.MTProto
			connected = true
		}
	default:
		die("bad via")
	}
	if newErr != nil || m == nil {
		o.put("client", "error")
		o.put("server-conns", srv.Conns())
		o.put("decoy-conns", atomic.LoadInt32(&decoyConns))
		o.put("server-frames", srv.NumFrames())
		finish()
	}
	o.put("client", "created")
	enc, key, hash, gsalt, addr := m.VerifSessionState()
	o.put("state-encrypted", enc)
	o.put("state-key-is-stored-key", bytes.Equal(key, srv.AuthKey()))
	o.put("state-hash-is-stored-hash", bytes.Equal(hash, srv.AuthKeyID()))
	o.put("state-salt-is-stored-salt", gsalt == srv.Salt())
	o.put("state-addr", map[bool]string{true: "stored", false: map[bool]string{true: "configured", false: "other"}[addr == configured]}[addr == srv.Addr() && sp.kind != "missing"])

	if sp.kind == "missing" {
		// the key exchange is not completed: CreateConnection blocks in it; only the first frame is observed
		go func() { _ = m.CreateConnection() }()
		fs, _ := srv.WaitFrames(1, watchdog)
		st := statsOf(fs, 1, srv.Salt())
		o.put("first-frame", st.firstKind)
		o.put("server-conns", srv.Conns())
		finish()
	}

	if !connected {
		st, det := withWatchdog(watchdog, func() { newErr = m.CreateConnection() })
		if st != "ok" || newErr != nil {
			o.put("connect", st+":"+fmt.Sprint(newErr != nil))
			o.put("connect-detail", vc.HexS(det))
			o.put("first-frame", statsOf(srv.Frames(), 1, srv.Salt()).firstKind)
			o.put("decoy-conns", atomic.LoadInt32(&decoyConns))
			finish()
		}
	}
	if err := srv.WaitConn(1, watchdog); err != nil {
		o.put("connect", "server-saw-no-connection")
		o.put("decoy-conns", atomic.LoadInt32(&decoyConns))
		finish()
	}
	o.put("connect", "ok")

	ping := func(token int64, odd bool) string {
		before := len(nonAck(srv.Frames()))
		res := make(chan string, 1)
		go func() {
			defer func() {
				if r := recover(); r != nil {
					res <- "panic"
				}
			}()
			v, err := m.MakeRequest(&objects.PingParams{PingID: token})
			if p, ok := v.(*objects.Pong); err == nil && ok && p.PingID == token {
				res <- "pong"
			} else if err != nil {
				res <- "error"
			} else {
				res <- "other"
			}
		}()
		fs := waitNonAck(srv, before+1, watchdog)
		if len(fs) < before+1 {
			select {
			case r := <-res:
				return "not-sent:" + r
			default:
				return "not-sent"
			}
		}
		f := fs[before]
		if pp, ok := f.Obj.(*objects.PingParams); !ok || pp.PingID != token {
			return "server-got-something-else"
		}
		seq := int32(2)
		if odd {
			seq = 1
		}
		_ = srv.Send(refserver.Msg{MsgID: srv.NextMsgID(true), SeqNo: seq, Body: refserver.RpcResult(f.MsgID, refserver.Pong(f.MsgID, token))})
		select {
		case r := <-res:
			return r
		case <-time.After(watchdog):
			return "hang"
		}
	}
	rs := []string{}
	for i := 0; i < 3; i++ {
		rs = append(rs, ping(int64(100+i), i%2 == 1))
	}
	o.put("requests-conn1", strings.Join(rs, ","))
	time.Sleep(10 * time.Millisecond) // the ack of the last answer
	st1 := statsOf(srv.Frames(), 1, srv.Salt())
	o.put("conn1-first-frame", st1.firstKind)
	o.put("conn1-first-frame-salt-is-stored-salt", st1.firstSaltOK)
	o.put("conn1-frames", st1.n)
	o.put("conn1-plain", st1.plain)
	o.put("conn1-unopenable", st1.unopenable)
	o.put("conn1-req_pq", st1.reqpq)
	o.put("conn1-frames-with-other-salt", st1.otherSalt)

	// the server closes the connection: the client reconnects under the same key
	srv.CloseConn()
	if err := srv.WaitConn(2, watchdog); err != nil {
		o.put("reconnect", "none")
	} else {
		o.put("reconnect", "ok")
		rs = nil
		// the server has ACCEPTED the second connection; the client may still be inside CreateConnection (its new
		// transport not installed yet).  A request issued in that window fails in its write - an error return, as on
		// any broken connection, not a violation (C16's epilogue is about what such a request leaves behind) -, so
		// the first request is repeated until the window is over.
		window := 0
		for i := 0; i < 2; i++ {
			r := ping(int64(200+i), i%2 == 0)
			for i == 0 && r == "not-sent:error" && window < 50 {
				window++
				time.Sleep(20 * time.Millisecond)
				r = ping(int64(300+window), true)
			}
			rs = append(rs, r)
		}
		o.put("requests-conn2", strings.Join(rs, ","))
		o.put("conn2-requests-refused-in-the-reconnect-window", window)
		time.Sleep(10 * time.Millisecond)
		st2 := statsOf(srv.Frames(), 2, srv.Salt())
		o.put("conn2-first-frame", st2.firstKind)
		o.put("conn2-first-frame-salt-is-stored-salt", st2.firstSaltOK)
		o.put("conn2-frames", st2.n)
		o.put("conn2-plain", st2.plain)
		o.put("conn2-unopenable", st2.unopenable)
		o.put("conn2-req_pq", st2.reqpq)
		same := len(st1.sessions) == 1 && len(st2.sessions) == 1
		for k := range st1.sessions {
			same = same && st2.sessions[k]
		}
		o.put("conn2-same-session-id", same)
	}
	o.put("server-conns", srv.Conns())
	o.put("decoy-conns", atomic.LoadInt32(&decoyConns))
	// the store afterwards: still the same session for the next start
	if s, err := session.NewFromFile(path).Load(); err != nil {
		o.put("store-after", "unreadable")
	} else {
		o.put("store-after", map[bool]string{true: "same-session", false: "different"}[bytes.Equal(s.Key, srv.AuthKey()) && bytes.Equal(s.Hash, srv.AuthKeyID()) && s.Salt == srv.Salt() && s.Hostname == srv.Addr()])
	}
	time.Sleep(30 * time.Millisecond)
	finish()
}
