package main

func resumeMain(args []string) { die("not yet") }
