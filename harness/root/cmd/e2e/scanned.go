package main

// scanned lists a value of every type with a CRC() method found by the source scan of the
// current tree (same list as harness/root/cmd/tl/scanned.go, so that struct ids of this
// program's universe are the ids of the registry the TL model is loaded with). This checked-in
// file is the empty default; lib/props/c13m.py replaces it at build time (go build -overlay).
var scanned = []interface{}{}
