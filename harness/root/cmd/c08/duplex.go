package main

// U cases: scenarios on ONE connection object of the code under test (transport.NewTCP + mode.New / mode.Detect),
// judged directly against the reference framing of this file's sibling (refWire / refFrames); result "ok" or the
// first difference.
//
//	duplex:<ops>        ops = comma separated W<n> (WriteMsg of the pattern message of n bytes) and R<n> (ReadMsg must
//	                    return the peer's next message, n bytes): writing and reading alternate on the same mode object
//	dense:<a>-<b>       WriteMsg of a message of every multiple of 4 bytes from a to b, one connection
//	denseread:<a>-<b>   the peer sends announcement + those messages; Detect + ReadMsg must return each of them
//	stall:<k>x<n>:<ms>  k messages of n bytes written while the peer does not read for the first <ms> milliseconds; the
//	                    connection has Timeout = ms/3 (the library's read time-out): a slow peer delays, nothing more

import (
	"bytes"
	"context"
	"fmt"
	"io"
	"strconv"
	"strings"
	"time"

	"github.com/xelaj/mtproto/internal/mode"
	"github.com/xelaj/mtproto/internal/transport"
)

func uMsg(n int, salt int) []byte {
	b := make([]byte, n)
	for i := range b {
		b[i] = byte(i*7 + n + salt*13 + i>>8)
	}
	return b
}

func firstDiff(a, b []byte) string {
	n := len(a)
	if len(b) < n {
		n = len(b)
	}
	for i := 0; i < n; i++ {
		if a[i] != b[i] {
			return fmt.Sprintf("first difference at byte %d of %d/%d", i, len(a), len(b))
		}
	}
	return fmt.Sprintf("lengths %d/%d", len(a), len(b))
}

func (p *peer) runU(v, scenario string) string {
	i := strings.Index(scenario, ":")
	kind, arg := scenario[:i], scenario[i+1:]
	ctx, cancel := context.WithCancel(context.Background())
	defer cancel()
	cfg := transport.TCPConnConfig{Ctx: ctx, Host: p.addr}
	stallMS := 0
	var wlens, rlens []int
	var ops []string
	switch kind {
	case "duplex":
		ops = strings.Split(arg, ",")
		for _, o := range ops {
			n, _ := strconv.Atoi(o[1:])
			if o[0] == 'W' {
				wlens = append(wlens, n)
			} else {
				rlens = append(rlens, n)
			}
		}
	case "dense", "denseread":
		ab := strings.Split(arg, "-")
		a, _ := strconv.Atoi(ab[0])
		b, _ := strconv.Atoi(ab[1])
		for n := a; n <= b; n += 4 {
			if kind == "dense" {
				wlens = append(wlens, n)
				ops = append(ops, "W"+strconv.Itoa(n))
			} else {
				rlens = append(rlens, n)
				ops = append(ops, "R"+strconv.Itoa(n))
			}
		}
	case "stall":
		f := strings.Split(arg, ":")
		kn := strings.Split(f[0], "x")
		k, _ := strconv.Atoi(kn[0])
		n, _ := strconv.Atoi(kn[1])
		stallMS, _ = strconv.Atoi(f[1])
		cfg.Timeout = time.Duration(stallMS/3) * time.Millisecond
		for j := 0; j < k; j++ {
			wlens = append(wlens, n)
			ops = append(ops, "W"+strconv.Itoa(n))
		}
	default:
		return "unknown scenario " + scenario
	}
	var wmsgs, rmsgs [][]byte
	for j, n := range wlens {
		wmsgs = append(wmsgs, uMsg(n, j))
	}
	for j, n := range rlens {
		rmsgs = append(rmsgs, uMsg(n, 100+j))
	}
	c, err := transport.NewTCP(cfg)
	if err != nil {
		return "DIAL-ERROR"
	}
	srv := p.accept()
	got := make(chan []byte, 1)
	go func() {
		if stallMS > 0 {
			time.Sleep(time.Duration(stallMS) * time.Millisecond)
		}
		srv.SetReadDeadline(time.Now().Add(120 * time.Second))
		b, _ := io.ReadAll(srv)
		got <- b
	}()
	go func() {
		if kind == "denseread" {
			srv.Write(refWire(v, rmsgs))
		} else if len(rmsgs) > 0 {
			srv.Write(refFrames(v, rmsgs))
		}
	}()
	res := withTimeout(120*time.Second, func() string {
		var m mode.Mode
		var err error
		if kind == "denseread" {
			m, err = mode.Detect(c)
		} else {
			m, err = mode.New(variantOf(v), c)
		}
		if err != nil {
			return "mode: " + errKind(err)
		}
		wi, ri := 0, 0
		for k, o := range ops {
			if o[0] == 'W' {
				if err := m.WriteMsg(wmsgs[wi]); err != nil {
					return fmt.Sprintf("step %d: WriteMsg of %d bytes (message %d of %d) returns an error (%s)", k, len(wmsgs[wi]), wi+1, len(wmsgs), errKind(err))
				}
				wi++
			} else {
				msg, err := m.ReadMsg()
				if err != nil {
					return fmt.Sprintf("step %d: ReadMsg of the peer's %d-byte message returns an error (%s)", k, len(rmsgs[ri]), errKind(err))
				}
				if !bytes.Equal(msg, rmsgs[ri]) {
					return fmt.Sprintf("step %d: ReadMsg of the peer's %d-byte message returns another message: %s", k, len(rmsgs[ri]), firstDiff(msg, rmsgs[ri]))
				}
				ri++
			}
		}
		return ""
	})
	c.Close()
	b := <-got
	kill(srv)
	if res != "" {
		return res
	}
	want := refWire(v, wmsgs)
	if kind == "denseread" {
		want = nil
	}
	if !bytes.Equal(b, want) {
		return "the peer received another byte stream than the format prescribes for the written messages: " + firstDiff(b, want)
	}
	return "ok"
}
